"""C01 plugin: descriptions in the four documented layouts parse back to exactly their tracts.
(1) model vs code on rendered descriptions, (2) the code judged by expected_tracts(D)."""
import os
import sys

sys.path.insert(0, os.path.dirname(os.path.dirname(os.path.abspath(__file__))))
import harness as H
import plssgen as P
from props.common import merge
sys.path.insert(0, os.path.join(os.path.dirname(os.path.dirname(os.path.abspath(__file__))), 'corr'))
import plsscorr


def judge(pytrs, text, D, layout, fails, detail):
    d = H.call(pytrs.PLSSDesc, text)
    want = P.expected_tracts(D)
    if isinstance(d, H.Exn):
        fails.append({'kind': 'exception', 'detail': detail, 'got': repr(d), 'want': repr(want)[:300], 'known_id': None})
        return None
    got = [(t.trs, t.desc) for t in d.tracts]
    if got != want:
        fails.append({'kind': 'tracts', 'detail': detail, 'got': repr(got)[:400], 'want': repr(want)[:400], 'known_id': None})
        return None
    if d.current_layout != layout:
        fails.append({'kind': 'layout', 'detail': detail, 'got': d.current_layout, 'want': layout, 'known_id': None})
        return None
    if d.e_flags:
        fails.append({'kind': 'e_flags', 'detail': detail, 'got': repr(d.e_flags)[:300], 'want': '[]', 'known_id': None})
        return None
    return d


def run(tier, mode):
    import pytrs
    r = H.rng('c01')
    fails, texts = [], []
    n_or = 0
    nontriv = set()
    dist = {l: 0 for l in P.LAYOUTS}
    n = 300 if tier == 'quick' else 5000
    for i in range(n):
        D = P.gen_desc(r, multiline=(i % 7 == 0), repeat=0.25)
        layout = P.LAYOUTS[i % 4]
        short = (i % 3 == 1)
        if short:   # short blocks and bare connectors: the Twp/Rge-desc-Sec vs Twp/Rge-Sec-desc decision is made on the length of the first block
            D = P.gen_desc(r, blocks=['NE/4', 'NENE', 'S/2', 'ALL', 'W/2', 'SWNW', 'Lot 1', 'N/2N/2'])
        text = P.render(r, D, layout, conns=[' of ', ', ', ' ', '\n', ' in '] if short else None)
        short_first = layout == 'TR_desc_S' and any(len((secs[0][1] + c).strip()) < 4 for (_, secs), c in zip(D, P.LAST_CONNS))
        texts.append(text)
        dist[layout] += 1
        n_or += 1
        detail = {'text': text, 'layout': layout, 'D': repr(D)[:300]}
        nf = len(fails)
        d = judge(pytrs, text, D, layout, fails, detail)
        if d is None:
            if short_first and len(fails) > nf:
                fails[-1]['known_id'] = 'C01-short-first-block'
            continue
        if len(P.expected_tracts(D)) > 2:
            nontriv.add(text)
        # pretty_desc round trip
        pd = H.call(d.pretty_desc)
        d2 = H.call(pytrs.PLSSDesc, pd) if isinstance(pd, str) else pd
        n_or += 1
        if isinstance(d2, H.Exn) or [(t.trs, t.desc) for t in d2.tracts] != [(t.trs, t.desc) for t in d.tracts] or d2.e_flags:
            multiline_block = any('\n' in b for _, secs in D for _, b in secs)
            fails.append({'kind': 'pretty_desc_roundtrip', 'detail': dict(detail, pretty=pd if isinstance(pd, str) else repr(pd)),
                          'known_id': 'C01-pretty-multiline' if multiline_block else None,
                          'got': repr(d2 if isinstance(d2, H.Exn) else [(t.trs, t.desc) for t in d2.tracts])[:400],
                          'want': repr([(t.trs, t.desc) for t in d.tracts])[:400]})
        elif isinstance(pd, str):
            texts.append(pd)
    parts = {}
    if mode != 'search':
        parts['model_vs_code'] = plsscorr.run(tier, 'c01', extra_texts=texts[:150 if tier == 'quick' else 1500], configs=['', 'parse_qq'],
                                              functions=False, n=30 if tier == 'quick' else 300)
    parts['oracle_on_code'] = {
        'evaluations': n_or, 'distinct_nontrivial': len(nontriv), 'impl_failures': fails, 'n_impl_failures': len(fails), 'distribution': dist,
        'rule': 'abstract descriptions (1-3 Twp/Rge groups x 1-3 section groups (single | and | through) x clean blocks incl. lots, aliquots, prose, multi-line) rendered in '
                'each documented layout with random Twp/Rge spelling, section word, connectors and separators; PLSSDesc must give exactly expected_tracts(D) in order, deduce '
                'the layout, raise no error flag, and pretty_desc() must parse back to the same tracts; non-trivial = more than two tracts',
        'samples': [{'layout': 'TR_desc_S', 'text': 'Township 154 North, Range 97 West\nNE/4 of Section 14; W/2 of Secs 15 - 17'}]}
    return merge(parts)


def replay(rp):
    import pytrs
    f = rp['failure']
    d = H.call(pytrs.PLSSDesc, f['detail']['text'])
    got = d if isinstance(d, H.Exn) else [(t.trs, t.desc) for t in d.tracts]
    print('text:', repr(f['detail']['text']), '\n observed:', got, getattr(d, 'current_layout', None), getattr(d, 'e_flags', None), '\n wanted:', f['want'])
    return repr(got)[:400] == f['want']
