"""C08 plugin: Twp/Rge spellings are equivalent; missing directions come from defaults only."""
import os
import sys

sys.path.insert(0, os.path.dirname(os.path.dirname(os.path.abspath(__file__))))
import harness as H
import plssgen as P
from props.common import merge
sys.path.insert(0, os.path.join(os.path.dirname(os.path.dirname(os.path.abspath(__file__))), 'corr'))
import plsscorr

FULL = P.FULL


def spellings_partial(t, ns, r, ew, has_ns, has_ew):
    """documented spellings with the N/S and/or E/W letter left out"""
    NS = ns.upper() if has_ns else ''
    EW = ew.upper() if has_ew else ''
    out = [f'T{t}{NS}-R{r}{EW}', f't{t}{NS.lower()}-r{r}{EW.lower()}', f'T{t}{NS} R{r}{EW}']
    wn = (' ' + FULL[ns]) if has_ns else ''
    we = (' ' + FULL[ew]) if has_ew else ''
    out.append(f'Township {t}{wn}, Range {r}{we}')
    out.append(f'Twp. {t}{(" " + NS + ".") if has_ns else ""}, Rge. {r}{(" " + EW + ".") if has_ew else ""}')
    return out


OCR = {'1': ['I', 'l'], '0': ['O'], '5': ['S']}


def ocr_garble(r, num):
    s = str(num)
    out = ''
    did = False
    for i, ch in enumerate(s):
        if ch in OCR and r.random() < 0.6:
            out += r.choice(OCR[ch])
            did = True
        else:
            out += ch
    return out, did


def run(tier, mode):
    import pytrs
    MC = pytrs.MasterConfig
    r = H.rng('c08')
    fails, texts = [], []
    n_or = 0
    nontriv = set()
    dist = {'full': 0, 'partial': 0, 'ocr': 0, 'multi': 0}

    def fail(kind, detail, got, want, known=None):
        fails.append({'kind': kind, 'detail': detail, 'got': repr(got)[:300], 'want': repr(want)[:300], 'known_id': known})
    NUMS = [1, 2, 3, 7, 9, 10, 15, 20, 22, 97, 99, 100, 101, 154, 200, 999]
    n = 300 if tier == 'quick' else 5000
    for i in range(n):
        t, g = r.choice(NUMS), r.choice(NUMS)
        ns, ew = r.choice('ns'), r.choice('ew')
        canon = f'T{t}{ns.upper()}-R{g}{ew.upper()}'
        short = f'{t}{ns}{g}{ew}'
        # ---- fully written spellings
        # the numbers also in digits of another script (`\d`, int()) -- not for a one-digit range: the pattern's `[013-9]` (range-2 edge case) is ASCII by construction
        sp = H.altdigits(r, r.choice(P.twprge_spellings(t, ns, g, ew)), 0.1 if g >= 10 else 0.0)
        ctx = r.choice([('', ' Sec 14: NE/4'), ('', '\nSection 14: NE/4'), ('NE/4 of Section 14, ', ''), ('Section 14: NE/4, ', '.')])
        text = ctx[0] + sp + ctx[1]
        texts.append(text)
        dcfg = r.choice([None, 's,e', 'n,w', 's', 'e'])        # defaults must not override explicit directions
        d = H.call(pytrs.PLSSDesc, text, config=dcfg)
        n_or += 1
        dist['full'] += 1
        if isinstance(d, H.Exn) or canon not in d.pp_desc or [x.trs for x in d.tracts] != [short + '14'] or any(f.startswith('fixed_twprge') for f in d.w_flags):
            fail('full_spelling', {'text': text, 'config': dcfg}, d if isinstance(d, H.Exn) else [d.pp_desc, [x.trs for x in d.tracts], d.w_flags], [canon, short + '14'])
        else:
            nontriv.add(text)
        ft = H.call(pytrs.find_twprge, text, preprocess=True)
        n_or += 1
        if ft != [canon]:
            fail('find_twprge', {'text': text}, ft, [canon])
        # ---- missing directions, default from config / keyword / MasterConfig
        has_ns, has_ew = r.choice([(False, True), (True, False), (False, False)])
        if g == 2 and not has_ew:
            continue
        sp = H.altdigits(r, r.choice(spellings_partial(t, ns, g, ew, has_ns, has_ew)), 0.1 if g >= 10 else 0.0)
        text = sp + ' Sec 14: NE/4'
        texts.append(text)
        channel = r.choice(['config', 'keyword', 'master', 'cfg_ns_kw_ew', 'cfg_ew_kw_ns', 'master_after_init'])
        old = (MC.default_ns, MC.default_ew)
        try:
            if channel == 'config':
                d = H.call(pytrs.PLSSDesc, text, config=f'{ns},{ew}')
            elif channel == 'keyword':
                d = H.call(lambda: (lambda o: (o.parse(default_ns=ns, default_ew=ew), o)[1])(pytrs.PLSSDesc(text, wait_to_parse=True)))
            elif channel == 'cfg_ns_kw_ew':   # one axis from the config string, the other from a parse keyword
                d = H.call(lambda: (lambda o: (o.parse(default_ew=ew), o)[1])(pytrs.PLSSDesc(text, config=f'{ns},wait_to_parse')))
            elif channel == 'cfg_ew_kw_ns':
                d = H.call(lambda: (lambda o: (o.parse(default_ns=ns), o)[1])(pytrs.PLSSDesc(text, config=f'{ew},wait_to_parse')))
            elif channel == 'master_after_init':   # the MasterConfig default in force when parse() is called, not when the object was made
                o = pytrs.PLSSDesc(text, wait_to_parse=True)
                MC.default_ns, MC.default_ew = ns, ew
                d = H.call(lambda: (o.parse(), o)[1])
            else:
                MC.default_ns, MC.default_ew = ns, ew
                d = H.call(pytrs.PLSSDesc, text)
            ft = H.call(pytrs.find_twprge, text, ns, ew, True)
        finally:
            MC.default_ns, MC.default_ew = old
        n_or += 2
        dist['partial'] += 1
        if isinstance(d, H.Exn) or canon not in d.pp_desc or [x.trs for x in d.tracts] != [short + '14'] or f'fixed_twprge<{short}>' not in d.w_flags:
            fail('missing_direction', {'text': text, 'channel': channel, 'defaults': [ns, ew]}, d if isinstance(d, H.Exn) else [d.pp_desc, [x.trs for x in d.tracts], d.w_flags],
                 [canon, short + '14', f'fixed_twprge<{short}>'])
        else:
            nontriv.add((text, channel))
        if ft != [canon]:
            fail('find_twprge_defaults', {'text': text, 'defaults': [ns, ew]}, ft, [canon])
        # ---- ocr_scrub
        if i % 3 == 0:
            gt, d1 = ocr_garble(r, t)
            gg, d2 = ocr_garble(r, g)
            if d1 or d2:
                text = f'T{gt}{ns.upper()}-R{gg}{ew.upper()} Sec 14: NE/4'
                texts.append(text)
                d = H.call(pytrs.PLSSDesc, text, config='ocr_scrub')
                n_or += 1
                dist['ocr'] += 1
                if isinstance(d, H.Exn) or [x.trs for x in d.tracts] != [short + '14']:
                    fail('ocr_scrub', {'text': text}, d if isinstance(d, H.Exn) else [d.pp_desc, [x.trs for x in d.tracts]], short + '14',
                         'C08-ocr-range2' if (g == 2 and d1) else None)
        # ---- several Twp/Rges in reading order; an equal explicit one does not hide a fixed one
        if i % 4 == 0:
            t2, g2 = r.choice(NUMS), r.choice([x for x in NUMS if x != 2])
            text = f'T{t}{ns.upper()}-R{g}{ew.upper()} Sec 14: NE/4, {r.choice(P.twprge_spellings(t2, ns, g2, ew))} Sec 22: SW/4, T{t}-R{g} Sec 3: ALL'
            if g != 2:
                texts.append(text)
                d = H.call(pytrs.PLSSDesc, text, config=f'{ns},{ew}')
                n_or += 1
                dist['multi'] += 1
                want = [f'{t}{ns}{g}{ew}14', f'{t2}{ns}{g2}{ew}22', f'{t}{ns}{g}{ew}03']
                if isinstance(d, H.Exn) or [x.trs for x in d.tracts] != want or f'fixed_twprge<{short}>' not in d.w_flags:
                    fail('multi_twprge', {'text': text, 'defaults': [ns, ew]}, d if isinstance(d, H.Exn) else [[x.trs for x in d.tracts], d.w_flags], [want, f'fixed_twprge<{short}>'])
    # a Twp/Rge lacking E/W followed by one that starts with the same text but spells its direction: the explicit one is kept
    for i in range(40 if tier == 'quick' else 400):
        t, g = r.choice(NUMS), r.choice([x for x in NUMS if x != 2])
        ns, dew = r.choice('ns'), r.choice('ew')
        ew2 = 'e' if dew == 'w' else 'w'
        first = r.choice([f'T{t}{ns.upper()}-R{g}', f'T{t}{ns.upper()} R{g}', f'Township {t} {FULL[ns]}, Range {g}'])
        second = r.choice([f'T{t}{ns.upper()}-R{g}{ew2.upper()}', f'T{t}{ns.upper()} R{g}{ew2.upper()}', f'Township {t} {FULL[ns]}, Range {g} {FULL[ew2]}'])
        text = f'{first} Sec 1: NE/4, {second} Sec 6: NW/4'
        d = H.call(pytrs.PLSSDesc, text, config=dew)
        n_or += 1
        dist['multi'] += 1
        want = [f'{t}{ns}{g}{dew}01', f'{t}{ns}{g}{ew2}06']
        if isinstance(d, H.Exn) or [x.trs for x in d.tracts] != want:
            fail('explicit_after_partial', {'text': text, 'config': dew}, d if isinstance(d, H.Exn) else [[x.trs for x in d.tracts], d.pp_desc], want)
        else:
            texts.append(text)
    d = H.call(pytrs.PLSSDesc, 'TlSN-R2W Sec 14: NE/4', config='ocr_scrub')
    n_or += 1
    if isinstance(d, H.Exn) or [x.trs for x in d.tracts] != ['15n2w14']:
        fail('ocr_scrub', {'text': 'TlSN-R2W Sec 14: NE/4'}, d if isinstance(d, H.Exn) else [x.trs for x in d.tracts], '15n2w14', 'C08-ocr-range2')
    parts = {}
    if mode != 'search':
        parts['model_vs_code'] = plsscorr.run(tier, 'c08', extra_texts=texts[:200 if tier == 'quick' else 2500], configs=['', 's,e', 'ocr_scrub', 'n,w', 'ocr_scrub,s,e'],
                                              functions=True, n=20 if tier == 'quick' else 200)
    parts['oracle_on_code'] = {
        'evaluations': n_or, 'distinct_nontrivial': len(nontriv), 'impl_failures': fails, 'n_impl_failures': len(fails), 'distribution': dist,
        'rule': 'numbers (1-3 digits; range 2 only with an explicit R) x directions x every documented spelling in four contexts: pp_desc holds T<t><NS>-R<r><EW>, the tract has the '
                'standard trs, find_twprge agrees, explicit directions are never overridden by defaults; spellings without N/S and/or E/W x default from config / parse keyword / one axis each / '
                'MasterConfig: filled in and reported by fixed_twprge<..>; ocr_scrub with look-alike letters; several Twp/Rges in reading order; non-trivial = case held',
        'samples': [{'text': 'Twp. 154 N., Rge. 97 W. Sec 14: NE/4'}, {'text': 'T154-R97 Sec 14: NE/4', 'channel': 'master', 'defaults': ['s', 'e']}]}
    return merge(parts)


def replay(rp):
    import pytrs
    f = rp['failure']
    d = f['detail']
    o = H.call(pytrs.PLSSDesc, d['text'], config=d.get('config') or (','.join(d['defaults']) if d.get('defaults') else None))
    got = o if isinstance(o, H.Exn) else [o.pp_desc, [x.trs for x in o.tracts], o.w_flags]
    print('input:', d, '\n observed:', got, '\n wanted:', f['want'])
    return False
