"""Helpers shared by property plugins."""
import os
import sys

sys.path.insert(0, os.path.dirname(os.path.dirname(os.path.abspath(__file__))))
import harness as H  # noqa


def prioritise(fails, per_known=3, cap=60):
    """Unknown failures first; at most `per_known` examples of each known finding."""
    unknown = [f for f in fails if not f.get('known_id')]
    seen, known = {}, []
    for f in fails:
        k = f.get('known_id')
        if k:
            seen[k] = seen.get(k, 0) + 1
            if seen[k] <= per_known:
                known.append(f)
    return (unknown + known)[:cap]


def merge(parts):
    """Combine several correspondence results into the plugin result."""
    out = {'evaluations': 0, 'distinct_nontrivial': 0, 'disagreements': [], 'samples': [], 'parts': {},
           'impl_failures': [], 'rule': ''}
    rules = []
    exhaustive = []
    for name, r in parts.items():
        out['evaluations'] += r.get('evaluations', 0)
        out['distinct_nontrivial'] += r.get('distinct_nontrivial', 0)
        for d in r.get('disagreements', []):
            d = dict(d)
            d['entry'] = name
            out['disagreements'].append(d)
        out['samples'] += r.get('samples', [])[:2]
        out['impl_failures'] += prioritise(r.get('impl_failures', []))
        out['parts'][name] = {k: v for k, v in r.items() if k in (
            'evaluations', 'distinct_nontrivial', 'n_disagreements', 'exhaustive', 'distribution', 'rule', 'n_impl_failures')}
        if r.get('rule'):
            rules.append(f'[{name}] {r["rule"]}')
        exhaustive.append(bool(r.get('exhaustive')))
    out['rule'] = ' ; '.join(rules)
    out['exhaustive'] = bool(exhaustive) and all(exhaustive)
    return out
