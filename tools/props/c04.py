"""C04 plugin: no description text is silently dropped."""
import os
import re
import sys

sys.path.insert(0, os.path.dirname(os.path.dirname(os.path.abspath(__file__))))
import harness as H
import textgen as G
import plssgen as P
from props.common import merge
sys.path.insert(0, os.path.join(os.path.dirname(os.path.dirname(os.path.abspath(__file__))), 'corr'))
import plsscorr

# foreign words: >= 4 alphanumerics, not a keyword of any pattern; endings chosen to collide with the cull words
WORDS = ['ZZZQ', 'QQXJ7', 'XENOLITH', 'BASIN', 'MARGIN', 'THEREOF', 'BATHE', 'KOALL', 'OVERLAND', 'Franklin', 'wherein', 'Proof', 'QAND', 'zzthe']
# foreign phrases that only a case-INSENSITIVE comparison (re.IGNORECASE lets 'i' match U+0130 / U+0131) would take for the connector ' all in'
# words without two adjacent `\w` characters: dotted / hyphenated single letters, scripts whose vowel signs are combining marks (Thai, Devanagari)
SPARSE_WORDS = ['Q.Z.J.y', 'X.Q.K.x', 'a-b-c-d', '\u0e17\u0e35\u0e48\u0e14\u0e34\u0e19', '\u092d\u0942\u092e\u093f']
FOLD_WORDS = ['ALL \u0130N', 'all \u0131n', 'All \u0131N']
SHORT_WORDS = ['QXZ', 'XQ7', 'ZQJ', 'QX', 'Q']   # 3 characters: the shortest that must still be reported; 1-2: see known finding C04-short-unused
MODES = ['', 'segment', 'sec_within', 'sec_colon_required', 'sec_colon_cautious', 'TRS_desc', 'desc_STR', 'copy_all', 'segment,sec_within', 'ocr_scrub']
PM_RGX = re.compile(r'(P\.?\s*M\.?|Principal\s+Meridian|Meridian)', re.I)


def token_boundaries(text):
    return [0] + [m.end() for m in re.finditer(r'\s+', text)] + [len(text)]


def where_is(word, d):
    for t in d.tracts:
        if word in t.desc:
            return 'tract'
    for f in d.e_flags:
        if f.startswith('unused_desc<') and word in f:
            return 'unused_flag'
    for f, ctx in d.e_flag_lines:
        if f.startswith('unused_desc<') and word in ctx:
            return 'unused_flag'
    return None


def run(tier, mode):
    import pytrs
    from pytrs.parser.rgxlib import twprge_regex
    from pytrs.parser.rgxlib.twprge import pp_twprge_pm

    def inside_pm_match(text, wpos, w):
        # the word overlaps a match of the library's own Twp/Rge + Principal Meridian pattern (known finding C04-pm-gap: everything between the
        # Twp/Rge and what the loose P.M. pattern takes for a meridian -- 'p m' across a blank is enough -- is replaced)
        return any(m.start() < wpos + len(w) and m.end() > wpos for m in pp_twprge_pm.finditer(text))
    r = H.rng('c04')
    fails, texts = [], []
    n_or = 0
    nontriv = set()
    dist = {'tract': 0, 'unused_flag': 0, 'lost': 0}
    n = 120 if tier == 'quick' else 2000
    for i in range(n):
        k = r.random()
        base = P.render(r, P.gen_desc(r, max_groups=2), r.choice(P.LAYOUTS)) if k < 0.5 else G.damage(r, G.structured_desc(r))
        if r.random() < 0.25:
            base = r.choice(['Beginning text ', 'Deed of record: ']) + base + r.choice(['', ' and the remainder', ', Williams County'])
        bounds = token_boundaries(base)
        for pos in (bounds if tier == 'thorough' and i % 4 == 0 else r.sample(bounds, min(len(bounds), 5))):
            w = r.choice(SHORT_WORDS) if r.random() < 0.3 else r.choice(WORDS)
            if r.random() < 0.12:
                w = r.choice(FOLD_WORDS)
            elif r.random() < 0.12:
                w = r.choice(SPARSE_WORDS)
            left = base[:pos]
            sep_l = '' if (not left or left[-1].isspace()) else ' '
            text = left + sep_l + w + ' ' + base[pos:]
            cfg = r.choice(MODES)
            d = H.call(pytrs.PLSSDesc, text, config=cfg)
            n_or += 1
            if isinstance(d, H.Exn):
                continue
            texts.append(text)
            loc = where_is(w, d)
            if loc:
                dist[loc] += 1
                nontriv.add((text, cfg))
                continue
            dist['lost'] += 1
            # known: a word inside the gap between a Twp/Rge and a principal-meridian designation (<= 25 chars) is discarded
            wpos = text.index(w)
            before = text[:wpos]
            after = text[wpos:wpos + 60]
            in_pm_gap = inside_pm_match(text, wpos, w) or (bool(PM_RGX.search(after)) and (any(wpos - m.end() <= 30 for m in twprge_regex.finditer(before))
                                                        or bool(re.search(r'\d\D{0,30}$', before))))
            # known: a word starting with N/S/E/W placed directly after a township or range number that lacks its direction
            # letter loses that first letter to the Twp/Rge match (the rest of the word stays)
            dir_letter = w[0].lower() in 'nsew' and bool(re.search(r'\d\W{0,3}$', before)) and (where_is(w[1:], d) is not None)
            # known: an unused block shorter than MIN_REPORTABLE_UNUSED_LEN (4, counting its surrounding blanks) is not reported, so a 1-2 character word is lost
            # (with sec_within the block is stripped first, so a 3-character word is lost too)
            kid = 'C04-pm-gap' if in_pm_gap else ('C04-direction-letter' if dir_letter else ('C04-short-unused' if (len(w) <= 2 or (len(w) == 3 and 'sec_within' in cfg)) else None))
            fails.append({'kind': 'word_lost', 'detail': {'text': text, 'word': w, 'config': cfg}, 'got': repr([(t.trs, t.desc) for t in d.tracts][:3]) + ' e_flags=' + repr(d.e_flags)[:120],
                          'want': f'{w} in a tract desc or an unused_desc flag', 'known_id': kid})
    # the known finding, probed explicitly
    t = 'T154N-R97W, ZZZQ of the 5th P.M. Sec 14: NE/4'
    d = pytrs.PLSSDesc(t)
    n_or += 1
    if not where_is('ZZZQ', d):
        fails.append({'kind': 'word_lost', 'detail': {'text': t, 'word': 'ZZZQ', 'config': ''}, 'got': repr([(x.trs, x.desc) for x in d.tracts]), 'want': 'ZZZQ kept', 'known_id': 'C04-pm-gap'})
    t = 'Twp. 15 N., Rge. 97 wherein E. Sec 1: NE/4'
    d = pytrs.PLSSDesc(t)
    n_or += 1
    if not where_is('wherein', d):
        fails.append({'kind': 'word_lost', 'detail': {'text': t, 'word': 'wherein', 'config': ''}, 'got': repr([(x.trs, x.desc) for x in d.tracts]), 'want': 'wherein kept',
                      'known_id': 'C04-direction-letter' if where_is('herein', d) else None})
    # two foreign words at once (under sec_within several unattached blocks are re-attached to the one tract: none may be lost)
    for i in range(60 if tier == 'quick' else 800):
        base = P.render(r, P.gen_desc(r, max_groups=1, max_secs=1), r.choice(P.LAYOUTS))
        bounds = token_boundaries(base)
        p1, p2 = sorted(r.sample(bounds, 2)) if len(bounds) >= 2 else (0, len(base))
        w1, w2 = r.sample(WORDS, 2)
        text = base[:p1] + (' ' if base[:p1] and not base[:p1][-1].isspace() else '') + w1 + ' ' + base[p1:p2] + (' ' if base[p1:p2] and not base[p1:p2][-1].isspace() else '') + w2 + ' ' + base[p2:]
        cfg = r.choice(['sec_within', 'sec_within', 'segment,sec_within', '', 'sec_within,sec_colon_cautious'])
        d = H.call(pytrs.PLSSDesc, text, config=cfg)
        n_or += 1
        if isinstance(d, H.Exn):
            continue
        texts.append(text)
        for w in (w1, w2):
            if where_is(w, d):
                nontriv.add((text, cfg, w))
                continue
            wpos = text.index(w)
            before = text[:wpos]
            dir_letter = w[0].lower() in 'nsew' and bool(re.search(r'\d\W{0,3}$', before)) and (where_is(w[1:], d) is not None)
            in_pm_gap = inside_pm_match(text, wpos, w) or (bool(PM_RGX.search(text[wpos:wpos + 60])) and (any(wpos - m.end() <= 30 for m in twprge_regex.finditer(before)) or bool(re.search(r'\d\D{0,30}$', before))))
            fails.append({'kind': 'word_lost', 'detail': {'text': text, 'word': w, 'config': cfg}, 'got': repr([(t.trs, t.desc) for t in d.tracts][:3]) + ' e_flags=' + repr(d.e_flags)[:120],
                          'want': f'{w} in a tract desc or an unused_desc flag', 'known_id': 'C04-pm-gap' if in_pm_gap else ('C04-direction-letter' if dir_letter else None)})
    for t, w, kid in [('Q T154N-R97W Sec 14: NE/4', 'Q', 'C04-short-unused'), ('T154N-R97W QXZ Sec 14: NE/4', 'QXZ', None), ('QXZ T154N-R97W Sec 14: NE/4', 'QXZ', None),
                      ('Sec 14: NE/4, T154N-R97W QXZ', 'QXZ', None), ('T154N-R97W ALL Sec 14: NE/4', 'ALL', None)]:
        d = pytrs.PLSSDesc(t)
        n_or += 1
        if not where_is(w, d):
            fails.append({'kind': 'word_lost', 'detail': {'text': t, 'word': w, 'config': ''}, 'got': repr([(x.trs, x.desc) for x in d.tracts]) + ' e_flags=' + repr(d.e_flags), 'want': w + ' kept', 'known_id': kid})
    parts = {}
    if mode != 'search':
        parts['model_vs_code'] = plsscorr.run(tier, 'c04', extra_texts=texts[:150 if tier == 'quick' else 2000], configs=MODES, functions=False, n=20 if tier == 'quick' else 200)
    parts['oracle_on_code'] = {
        'evaluations': n_or, 'distinct_nontrivial': len(nontriv), 'impl_failures': fails, 'n_impl_failures': len(fails), 'distribution': dist,
        'rule': 'valid and damaged descriptions (some with text before the first / after the last Twp/Rge) x insertion of a foreign word (14 words incl. ones ending in the '
                'cull words, plus 1-3 character words) at token boundaries x parse modes: the word must occur in some tract desc or in an unused_desc error flag; non-trivial = the word was found',
        'samples': [{'text': 'T154N-R97W Sec 14: NE/4 BASIN, Sec 15: W/2', 'config': 'segment'}]}
    return merge(parts)


def replay(rp):
    import pytrs
    f = rp['failure']
    d = f['detail']
    o = H.call(pytrs.PLSSDesc, d['text'], config=d['config'])
    loc = None if isinstance(o, H.Exn) else where_is(d['word'], o)
    print('text:', repr(d['text']), 'config:', d['config'], '\n word', d['word'], 'found in:', loc, '\n tracts:', None if isinstance(o, H.Exn) else [(t.trs, t.desc) for t in o.tracts], o.e_flags if not isinstance(o, H.Exn) else o)
    return loc is not None
