"""C13 plugin: Config text <-> settings, and the precedence keyword > config > defaults for
PLSSDesc and Tract.  (1) model vs code (Config parsing/decompiling; effective settings observed
by wrapping PLSSParser/TractParser), (2) the code judged by the property itself: round trip on
the documented value domain, unknown names rejected, the three channels agree, keyword wins."""
import itertools
import os
import sys

sys.path.insert(0, os.path.dirname(os.path.dirname(os.path.abspath(__file__))))
import harness as H
from props.common import merge

ATTRS = ['default_ns', 'default_ew', 'layout', 'wait_to_parse', 'parse_qq', 'clean_qq', 'sec_colon_required',
         'sec_colon_cautious', 'suppress_lot_divs', 'ocr_scrub', 'segment', 'qq_depth', 'qq_depth_min', 'qq_depth_max',
         'break_halves', 'sec_within']
BOOLS = ['wait_to_parse', 'parse_qq', 'clean_qq', 'suppress_lot_divs', 'sec_colon_required', 'sec_colon_cautious', 'ocr_scrub',
         'segment', 'break_halves', 'sec_within']
INTS = ['qq_depth_min', 'qq_depth_max', 'qq_depth']
LAYOUTS = ['TRS_desc', 'desc_STR', 'S_desc_TR', 'TR_desc_S', 'copy_all']
PD_KW = ['layout', 'default_ns', 'default_ew', 'parse_qq', 'clean_qq', 'sec_colon_cautious', 'sec_colon_required', 'segment',
         'ocr_scrub', 'sec_within', 'qq_depth_min', 'qq_depth_max', 'qq_depth', 'break_halves']
TR_KW = ['clean_qq', 'suppress_lot_divs', 'qq_depth_min', 'qq_depth_max', 'qq_depth', 'break_halves']
PE_FIELDS = ['layout', 'default_ns', 'default_ew', 'ocr_scrub', 'sec_within', 'parse_qq', 'clean_qq', 'require_colon', 'segment',
             'qq_depth_min', 'qq_depth_max', 'qq_depth', 'break_halves', 'handed_down_config']
TE_FIELDS = ['clean_qq', 'suppress_lot_divs', 'qq_depth_min', 'qq_depth_max', 'break_halves']
TEXT = 'T154N-R97W Sec 14: NE, N/2SW/4, Lot 1, N2 of Lot 2; Sec 15 W/2'


def domain(att):
    if att in BOOLS:
        return [True, False]
    if att in INTS:
        return [1, 2, 3]
    if att == 'layout':
        return LAYOUTS
    return ['n', 's'] if att == 'default_ns' else ['e', 'w']


def token(att, v):
    """documented text spelling of one setting"""
    if att in BOOLS:
        return att if v is True else f'{att}.{v}'
    if att in ('default_ns', 'default_ew'):
        return v
    return f'{att}.{v}'


def cfg_vals(c):
    return [getattr(c, a) for a in ATTRS]


def kws16(d):
    return [d.get(a) for a in ATTRS]


class Recorder:
    """Wraps PLSSParser / TractParser to record what reaches them."""

    def __init__(self):
        import pytrs.parser.plssdesc.plssdesc as pdm
        import pytrs.parser.tract.tract as trm
        self.pdm, self.trm = pdm, trm
        self.orig_pp, self.orig_tp = pdm.PLSSParser, trm.TractParser
        self.pd_calls, self.tr_calls = [], []
        rec = self

        class PP(self.orig_pp):
            def __init__(self, *a, **k):
                rec.pd_calls.append(dict(k))
                super().__init__(*a, **k)

        class TP(self.orig_tp):
            def __init__(self, text, clean_qq=False, suppress_lot_divs=False, qq_depth_min=2, qq_depth_max=None, qq_depth=None,
                         break_halves=False, parent=None):
                rec.tr_calls.append([clean_qq, suppress_lot_divs, qq_depth_min, qq_depth_max, qq_depth, break_halves])
                super().__init__(text, clean_qq, suppress_lot_divs, qq_depth_min, qq_depth_max, qq_depth, break_halves, parent)
        self.PP, self.TP = PP, TP

    def __enter__(self):
        self.pdm.PLSSParser = self.PP
        self.trm.TractParser = self.TP
        return self

    def __exit__(self, *a):
        self.pdm.PLSSParser = self.orig_pp
        self.trm.TractParser = self.orig_tp

    def reset(self):
        self.pd_calls.clear()
        self.tr_calls.clear()


def pd_observe(rec, conf, layout, pq, wait, later, kws):
    """returns (PLSSParser kwargs of the final parse, TractParser arg lists of that parse, tracts) or Exn"""
    import pytrs
    rec.reset()

    def go():
        d = pytrs.PLSSDesc(TEXT, layout=layout, config=conf, parse_qq=pq, wait_to_parse=wait)
        for c in later:
            d.config = c
        rec.reset()
        tl = d.parse(commit=False, **kws)
        return d, tl
    r = H.call(go)
    if isinstance(r, H.Exn):
        return r
    d, tl = r
    k = rec.pd_calls[0]
    eff = [k.get(f) for f in PE_FIELDS]
    return eff, [list(x) for x in rec.tr_calls], [(t.trs, t.desc, t.lots, t.qqs) for t in tl]


def tr_observe(rec, conf, pq, later, kws):
    import pytrs
    rec.reset()

    def go():
        t = pytrs.Tract('NE, N/2SW/4, Lot 1, N2 of Lot 2', trs='154n97w14', config=conf, parse_qq=pq)
        for c in later:
            t.config = c
        rec.reset()
        t.parse(commit=False, **kws)
        return t
    r = H.call(go)
    if isinstance(r, H.Exn):
        return r
    c = rec.tr_calls[0]
    # TractParser reduces qq_depth to min=max itself; Tract.parse already did: report min/max as passed
    return [c[0], c[1], c[2], c[3], c[5]]


def run(tier, mode):
    import pytrs
    from pytrs import Config
    r = H.rng('c13')
    cases, fails = [], []
    n_or = 0
    nontriv = set()
    dist = {}

    def bump(k):
        dist[k] = dist.get(k, 0) + 1

    def fail(kind, detail, got, want, known=None):
        fails.append({'kind': kind, 'detail': detail, 'got': repr(got)[:400], 'want': repr(want)[:400], 'known_id': known})
    # ---------------- Config text <-> attributes
    texts = ['', 'n,w', 's;e', 'N', 'W', 'clean_qq', 'clean_qq.False', 'clean_qq=True', 'clean_qq:False', 'qq_depth.2', 'qq_depth_min=3',
             'qq_depth_max:4', 'qq_depth.-1', 'layout.TRS_desc', 'TRS_desc', 'copy_all', 'default_ns.s', 'default_ew=East',
             'default_ns.x', 'default_ew.', ' n , w ; clean_qq \n, qq_depth . 2 ', 'foo', 'clean', 'qq_depth_mid.2', 'layouts.TRS_desc',
             'x=1', 'clean_qq.maybe', 'layout.bogus', 'clean_qq.True.False', 'qq_depth', 'layout', 'default_ns', 'segment.None',
             'qq_depth.None', 'qq_depth.٣', 'qq_depth.1_0', 'qq_depth.+2', ',,;', 'n,s', 'parse_qq,parse_qq.False', 'sec_within.0',
             'break_halves.1', 'wait_to_parse', 'ocr_scrub.false', 'CLEAN_QQ', 'n.w', 'e.', '.', '=', 'qq_depth=', 'clean_qq=']
    nrand = 150 if tier == 'quick' else 1500
    for _ in range(nrand):
        k = r.randint(1, 6)
        toks = []
        for a in r.sample(ATTRS, k):
            toks.append(token(a, r.choice(domain(a) + ([0, -3, 17] if a in INTS else []))))
        texts.append(r.choice([',', ';', ', ', ' ; ']).join(toks))
    # blanks in a config string never matter (the code deletes every `\s` character first): the same settings written with blanks of any kind --
    # ASCII or not -- around the separators and names give the same configuration (decided on the code itself)
    BLANKS = [' ', '\t', '\n', '\r', '\x0b', '\x0c', '\x1c', '\x1f', '\x85', '\xa0', '\u1680', '\u2003', '\u2009', '\u2028', '\u2029', '\u202f', '\u205f', '\u3000']
    for _ in range(60 if tier == 'quick' else 600):
        toks = [token(a, r.choice(domain(a))) for a in r.sample(ATTRS, r.randint(1, 5))]
        plain = ','.join(toks)
        b = lambda: ''.join(r.choice(BLANKS) for _ in range(r.randint(0, 2)))
        blanked = b() + (b() + ',' + b()).join(toks) + b()
        c1, c2 = H.call(Config, plain), H.call(Config, blanked)
        n_or += 2
        bump('blanks')
        v1 = c1 if isinstance(c1, H.Exn) else cfg_vals(c1)
        v2 = c2 if isinstance(c2, H.Exn) else cfg_vals(c2)
        if repr(v1) != repr(v2):
            fail('config_blanks', {'plain': plain, 'blanked': blanked}, v2, v1)
        elif blanked != plain:
            nontriv.add(('blanks', blanked))
        texts.append(blanked)
    for t in texts:
        c = H.call(Config, t)
        ev = c if isinstance(c, H.Exn) else cfg_vals(c)
        if mode != 'search':
            cases.append((H.req('config_parse', t), H.canon(ev), {'fn': 'Config', 'text': t}))
            if not isinstance(c, H.Exn):
                dt = H.call(c.decompile_to_text)
                cases.append((H.req('config_decompile', cfg_vals(c)), H.canon(dt), {'fn': 'decompile', 'text': t}))
    # round trip on the documented domain (oracle)
    nrt = 400 if tier == 'quick' else 4000
    for i in range(nrt):
        vals = {}
        for a in ATTRS:
            if r.random() < 0.45:
                vals[a] = r.choice(domain(a) + ([0, -2, 10, 123] if a in INTS else []))
        c = Config()
        for a, v in vals.items():
            setattr(c, a, v)
        text = H.call(c.decompile_to_text)
        back = H.call(Config, text) if not isinstance(text, H.Exn) else text
        n_or += 1
        bump('roundtrip')
        if isinstance(back, H.Exn) or cfg_vals(back) != cfg_vals(c):
            fail('roundtrip', {'values': vals, 'text': text}, back if isinstance(back, H.Exn) else cfg_vals(back), cfg_vals(c))
        elif vals:
            nontriv.add(('rt', text))
            t2 = back.decompile_to_text()
            if t2 != text:
                fail('roundtrip_text', {'values': vals}, t2, text)
        # the same through the documented token spelling and from_dict
        text2 = ','.join(token(a, v) for a, v in vals.items())
        b2 = H.call(Config, text2)
        b3 = H.call(Config.from_dict, vals)
        n_or += 2
        for nm, b in (('token_spelling', b2), ('from_dict', b3)):
            if isinstance(b, H.Exn) or cfg_vals(b) != cfg_vals(c):
                fail('roundtrip_' + nm, {'values': vals, 'text': text2}, b if isinstance(b, H.Exn) else cfg_vals(b), cfg_vals(c))
    # unknown names
    for bad in ['foo', 'clean', 'qq_depth_mid.2', 'layouts.TRS_desc', 'x=1', 'cleanqq', 'qq_depth_min_.2', 'parse', 'north', 'TRS',
                'clean_qq.True.False', 'n,foo', 'clean_qq;bar.1',
                # runs of the one-letter direction settings are not settings (a blank typed for the comma: 'n s' is read as 'ns')
                'ns', 'NS', 'n s', 'sN', 'ew', 'e w', 'wE', 'nsNS', 'clean_qq,ns', 'ew;qq_depth.3', 'nw', 'ne']:
        got = H.call(Config, bad)
        n_or += 1
        bump('unknown')
        if not (isinstance(got, H.Exn) and got.name == 'ValueError'):
            fail('unknown_name', {'text': bad}, got if isinstance(got, H.Exn) else cfg_vals(got), 'ValueError')
    # ... including names that happen to be other members of the Config class
    for nm_ in sorted(set(dir(Config)) - set(ATTRS)):
        for bad in (nm_, nm_ + '.1', nm_ + '=main'):
            got = H.call(Config, bad)
            n_or += 1
            bump('unknown')
            if not (isinstance(got, H.Exn) and got.name == 'ValueError'):
                fail('unknown_name', {'text': bad}, got if isinstance(got, H.Exn) else cfg_vals(got), 'ValueError')
    # ---------------- precedence / channels
    with Recorder() as rec:
        # documented depth interplay of Tract.parse: a qq_depth keyword wins; a qq_depth_min / qq_depth_max keyword switches the configured exact
        # qq_depth off (the other bound then comes from the attribute); with no depth keyword the configured qq_depth applies
        for ctx, kws, want in [('qq_depth.1', {'qq_depth_max': 3}, (2, 3)), ('qq_depth.1', {'qq_depth_min': 3}, (3, None)), ('qq_depth.1', {'qq_depth': 3}, (3, 3)),
                               ('qq_depth.1', {}, (1, 1)), ('qq_depth_min.1,qq_depth_max.3', {'qq_depth': 2}, (2, 2)), ('qq_depth.1,qq_depth_min.3', {'qq_depth_max': 4}, (3, 4)),
                               ('qq_depth.1', {'qq_depth_min': 1, 'qq_depth_max': 3}, (1, 3)), ('qq_depth.3', {'qq_depth_max': 1}, (2, 1)),
                               # a keyword whose value EQUALS what the object already holds (the default 2, or the configured bound) is still a keyword given
                               ('qq_depth.1', {'qq_depth_min': 2}, (2, None)), ('qq_depth.1,qq_depth_min.3', {'qq_depth_min': 3}, (3, None)),
                               ('qq_depth.1,qq_depth_max.4', {'qq_depth_max': 4}, (2, 4))]:
            o = tr_observe(rec, ctx, None, [], kws)
            n_or += 1
            bump('depth_interplay')
            if isinstance(o, H.Exn) or (o[2], o[3]) != want:
                fail('depth_interplay', {'class': 'Tract', 'config': ctx, 'keywords': kws}, o if isinstance(o, H.Exn) else (o[2], o[3]), want)
        combos = []
        for a in PD_KW:
            for v in domain(a):
                others = [x for x in domain(a) if x != v]
                combos.append((a, v, None))
                if others:
                    combos.append((a, v, others[0]))
        extra_ctx = ['', 'parse_qq', 'parse_qq,qq_depth.1', 'parse_qq,sec_colon_cautious', 'parse_qq,copy_all', 'parse_qq,qq_depth_min.1,qq_depth_max.3',
                     'segment,parse_qq,clean_qq']
        for (a, v, other) in combos:
            for ctx in (extra_ctx if tier == 'thorough' else extra_ctx[:4]):
                in_cfg = a in ATTRS
                tok = token(a, v) if in_cfg else None
                otok = token(a, other) if (other is not None and in_cfg) else None
                base = ctx
                runs = {}
                # channel 1: config string at creation
                conf1 = ','.join(x for x in [base, otok and None, tok] if x)
                # conflicting lower-priority source: `other` in the config, v as keyword
                variants = [
                    ('init_config', dict(conf=','.join(x for x in [base, tok] if x), later=[], kws={})),
                    ('assigned_config', dict(conf=base, later=[','.join(x for x in [base, tok] if x)], kws={})),
                    ('keyword', dict(conf=base, later=[], kws={a: v})),
                ]
                if other is not None:
                    variants.append(('keyword_over_config', dict(conf=','.join(x for x in [base, otok] if x), later=[], kws={a: v})))
                    variants.append(('keyword_over_assigned', dict(conf=base, later=[','.join(x for x in [base, otok] if x)], kws={a: v})))
                obs = {}
                for name, vv in variants:
                    o = pd_observe(rec, vv['conf'], None, None, True, vv['later'], vv['kws'])
                    obs[name] = o
                    if mode != 'search':
                        ev = o if isinstance(o, H.Exn) else o[0]
                        cases.append((H.req('pd_run', vv['conf'], None, None, True, vv['later'], kws16(vv['kws'])), H.canon(ev),
                                      {'fn': 'PLSSDesc.parse', 'setting': a, 'value': v, 'channel': name, 'ctx': ctx}))
                # oracle: all channels give the same effective parse (ignoring the handed-down text itself: its effect is
                # observed through the TractParser arguments and the resulting tracts)
                ref_name = 'keyword'
                ref = obs[ref_name]
                for name, o in obs.items():
                    n_or += 1
                    bump('channel')
                    if a in ('qq_depth_min', 'qq_depth_max') and 'qq_depth.' in ctx:
                        continue    # documented interplay: a configured exact depth overrides configured min/max, a keyword min/max overrides it
                    if isinstance(o, H.Exn) or isinstance(ref, H.Exn):
                        if not (isinstance(o, H.Exn) and isinstance(ref, H.Exn) and o.name == ref.name):
                            fail('channel', {'setting': a, 'value': v, 'other': other, 'ctx': ctx, 'channel': name}, o if isinstance(o, H.Exn) else 'ok', ref if isinstance(ref, H.Exn) else 'ok')
                        continue
                    same = (o[0][:-1] == ref[0][:-1]) and (o[1] == ref[1]) and (o[2] == ref[2])
                    if not same:
                        fail('channel', {'setting': a, 'value': v, 'other': other, 'ctx': ctx, 'channel': name, 'vs': ref_name},
                             {'parser': dict(zip(PE_FIELDS[:-1], o[0][:-1])), 'tract_parser': o[1][:2], 'tracts': o[2][:2]},
                             {'parser': dict(zip(PE_FIELDS[:-1], ref[0][:-1])), 'tract_parser': ref[1][:2], 'tracts': ref[2][:2]})
                    else:
                        nontriv.add((a, str(v), name, ctx))
        # init keywords layout / parse_qq vs config
        for layout in LAYOUTS:
            o1 = pd_observe(rec, 'parse_qq', layout, None, True, [], {})
            o2 = pd_observe(rec, 'parse_qq,' + layout, None, None, True, [], {})
            o3 = pd_observe(rec, 'parse_qq', None, None, True, [], {'layout': layout})
            n_or += 2
            if mode != 'search':
                cases.append((H.req('pd_run', 'parse_qq', layout, None, True, [], kws16({})), H.canon(o1 if isinstance(o1, H.Exn) else o1[0]),
                              {'fn': 'PLSSDesc(layout=)', 'layout': layout}))
            for nm, o in (('init_kw', o1), ('config', o2)):
                if isinstance(o, H.Exn) or isinstance(o3, H.Exn) or o[0][:-1] != o3[0][:-1] or o[2] != o3[2]:
                    fail('channel', {'setting': 'layout', 'value': layout, 'channel': nm}, o if isinstance(o, H.Exn) else o[0][:3], o3 if isinstance(o3, H.Exn) else o3[0][:3])
        for pq_kw, conf in [(True, ''), (False, 'parse_qq'), (True, 'parse_qq.False'), (None, 'parse_qq'), (False, '')]:
            rec.reset()
            d = H.call(lambda: pytrs.PLSSDesc(TEXT, config=conf, parse_qq=pq_kw))
            n_or += 1
            want = pq_kw if pq_kw is not None else ('parse_qq' == conf)
            if isinstance(d, H.Exn) or any(t.parse_complete != want for t in d.tracts):
                fail('precedence', {'setting': 'parse_qq', 'init_keyword': pq_kw, 'config': conf},
                     d if isinstance(d, H.Exn) else [t.parse_complete for t in d.tracts], want)
            if mode != 'search' and not isinstance(d, H.Exn):
                k = rec.pd_calls[0]
                cases.append((H.req('pd_run', conf, None, pq_kw, None, [], kws16({})), H.canon([k.get(f) for f in PE_FIELDS]),
                              {'fn': 'PLSSDesc(parse_qq=)', 'kw': pq_kw, 'config': conf}))
        # Tract
        for a in TR_KW:
            for v in domain(a):
                others = [x for x in domain(a) if x != v]
                for ctx in ['', 'qq_depth.1', 'qq_depth_min.1,qq_depth_max.3', 'clean_qq,break_halves']:
                    tok = token(a, v)
                    variants = [('init_config', dict(conf=','.join(x for x in [ctx, tok] if x), later=[], kws={})),
                                ('assigned_config', dict(conf=ctx, later=[','.join(x for x in [ctx, tok] if x)], kws={})),
                                ('keyword', dict(conf=ctx, later=[], kws={a: v}))]
                    if others:
                        otok = token(a, others[0])
                        variants.append(('keyword_over_config', dict(conf=','.join(x for x in [ctx, otok] if x), later=[], kws={a: v})))
                    obs = {}
                    for name, vv in variants:
                        o = tr_observe(rec, vv['conf'], None, vv['later'], vv['kws'])
                        obs[name] = o
                        if mode != 'search':
                            cases.append((H.req('tr_run', vv['conf'], None, vv['later'], kws16(vv['kws'])), H.canon(o),
                                          {'fn': 'Tract.parse', 'setting': a, 'value': v, 'channel': name, 'ctx': ctx}))
                    # qq_depth given as keyword overrides min/max from any source, but a configured qq_depth is itself
                    # overridden by keyword min/max: compare channels only where the documented precedence says they agree
                    ref = obs['keyword']
                    for name, o in obs.items():
                        n_or += 1
                        bump('tract_channel')
                        agree_expected = not (a in INTS and ctx in ('qq_depth.1', 'qq_depth_min.1,qq_depth_max.3'))
                        if agree_expected and o != ref:
                            fail('tract_channel', {'setting': a, 'value': v, 'ctx': ctx, 'channel': name},
                                 dict(zip(TE_FIELDS, o)) if not isinstance(o, H.Exn) else o,
                                 dict(zip(TE_FIELDS, ref)) if not isinstance(ref, H.Exn) else ref)
        for pq_kw, conf in [(True, ''), (False, 'parse_qq'), (True, 'parse_qq.False'), (None, 'parse_qq'), (False, ''), (None, '')]:
            t = H.call(lambda: pytrs.Tract('NE/4', trs='154n97w14', config=conf, parse_qq=pq_kw))
            n_or += 1
            want = pq_kw if pq_kw is not None else ('parse_qq' == conf)
            if isinstance(t, H.Exn) or t.parse_complete != want:
                fail('precedence', {'class': 'Tract', 'setting': 'parse_qq', 'init_keyword': pq_kw, 'config': conf},
                     t if isinstance(t, H.Exn) else t.parse_complete, want)
            # and through a PLSSDesc
            d = H.call(lambda: pytrs.PLSSDesc(TEXT, config=conf).parse(parse_qq=pq_kw, commit=False))
            n_or += 1
            if isinstance(d, H.Exn) or any(x.parse_complete != want for x in d):
                fail('precedence', {'class': 'PLSSDesc.parse', 'setting': 'parse_qq', 'keyword': pq_kw, 'config': conf},
                     d if isinstance(d, H.Exn) else [x.parse_complete for x in d], want)
    # a Config object given to several objects: a keyword passed to one object's parse() must not change what the
    # same Config means for the next object (its text, and the parse of a second object built from it)
    for a in ['clean_qq', 'break_halves', 'qq_depth', 'qq_depth_min', 'parse_qq', 'ocr_scrub', 'suppress_lot_divs']:
        for v in domain(a):
            for base in ['parse_qq', 'parse_qq,qq_depth_max.3', '']:
                rec.reset()
                c = H.call(Config, base)
                if isinstance(c, H.Exn):
                    continue
                before = c.decompile_to_text()
                ref = H.call(lambda: [(t.trs, t.desc, t.pp_desc, t.lots, t.qqs) for t in pytrs.PLSSDesc(TEXT, config=base).tracts])
                e = H.call(lambda: pytrs.PLSSDesc(TEXT, config=c).parse(commit=False, **({a: v} if a in PD_KW else {})))
                e2 = H.call(lambda: pytrs.Tract('NE, N/2SW/4, Lot 1', trs='154n97w14', config=c).parse(commit=False, **({a: v} if a in TR_KW else {})))
                after = c.decompile_to_text()
                got = H.call(lambda: [(t.trs, t.desc, t.pp_desc, t.lots, t.qqs) for t in pytrs.PLSSDesc(TEXT, config=c).tracts])
                n_or += 2
                bump('shared_config')
                if isinstance(e, H.Exn) or isinstance(e2, H.Exn) or before != after or got != ref:
                    fail('shared_config_changed', {'setting': a, 'value': v, 'config': base}, [after, got if isinstance(got, H.Exn) else got[:2]], [before, ref if isinstance(ref, H.Exn) else ref[:2]])
    parts = {}
    if cases:
        parts['model_vs_code'] = H.diff_cases(cases)
        parts['model_vs_code']['rule'] = ('Config(text) attributes and decompile_to_text on literal and generated texts (valid, odd separators, unknown names, '
                                          'odd values); effective settings reaching PLSSParser/TractParser (recorded by wrapping the classes) for every keyword-settable '
                                          'setting x value x channel (init config / assigned config / keyword / keyword over conflicting config) x context configs')
    parts['oracle_on_code'] = {
        'evaluations': n_or, 'distinct_nontrivial': len(nontriv), 'impl_failures': fails, 'n_impl_failures': len(fails), 'distribution': dist,
        'rule': 'real code judged by the property: random settings in the documented domain survive decompile->Config and from_dict; unknown names raise '
                'ValueError; for each setting the three channels give identical parser arguments, tract-parser arguments and tracts, and a keyword beats a '
                'conflicting config; non-trivial = distinct (setting,value,channel,context) or distinct round-tripped text',
        'samples': [{'setting': 'clean_qq', 'channels': ['init_config', 'assigned_config', 'keyword', 'keyword_over_config']},
                    {'roundtrip': 's,e,layout.TRS_desc,clean_qq,qq_depth_min.3'}]}
    return merge(parts)


def replay(rp):
    res = run('quick', 'search')
    f = rp['failure']
    bad = [x for x in res['impl_failures'] if x['kind'] == f['kind'] and x['detail'] == f['detail']]
    print('same failure now:', len(bad))
    for b in bad[:2]:
        print(b)
    return not bad
