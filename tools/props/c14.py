"""C14 plugin: re-parsing is idempotent and commit=False has no side effects.
(1) model vs code on operation histories (final snapshots), (2) oracle on the real objects:
commit=False leaves every observable attribute unchanged; re-parsing with unchanged settings
reproduces the same results without accumulation; a committed parse replaces earlier results;
the object equals a freshly constructed one given the final settings."""
import copy
import os
import sys

sys.path.insert(0, os.path.dirname(os.path.dirname(os.path.abspath(__file__))))
import harness as H
import textgen as G
import plssgen as P
from props.common import merge
from props.c13 import ATTRS, kws16

TRACT_TEXTS = ['NE/4', 'Lots 1 - 3, S/2N/2', 'Lot 1, Lot 1', 'N/2, N/2', 'Lot 1(40), Lot 1(38)', 'Lots 5 - 3 and NE/4NE/4', 'NE, SW of Lot 2',
               'That part of the N2 lying north of the river', 'Lots 1, 2, 2 and E/2E/2, E/2', '', 'NE', 'NE; SW', 'SE and NW']
PLSS_TEXTS = ['T154N-R97W Sec 14: NE/4, Sec 15: Lots 1 - 3, Lot 1', 'T154-R97 Sec 14: NE/4', 'Township 154 North, Range 97 West Sec 1: N/2, N/2; Sec 2: Lot 1(40), Lot 1(38)',
              'NE/4 of Section 14, T154N-R97W less and except the wellbore', 'T154N-R97W Sec 14 NE/4, Sec 15 W/2', 'no plss here', 'T1S-R2E Sections 5 - 3: Lots 4 - 2', 'T154N-R97W Sec 14: NE, Sec 15: SW',
              # OCR artefacts: read only under ocr_scrub -- a non-committing parse(ocr_scrub=True) must not make later parses read them
              'TlS4N-R97W Sec 14: NE/4', 'T1S4N-R9OW Sec I4: NE/4, Sec 15: W/2',
              # blocks that yield neither lots nor aliquots, under description-level flags that are handed down to the tracts
              'T154N-R97W Sections 14 - 15: That part lying north of the river', 'T154-R97 Sec 14: less and except the wellbore, Sec 15: NE',
              # the same description-level flag raised twice (two exception clauses far apart)
              'T154N-R97W Sec 14: NE/4 less and except the north 10 acres thereof; Sec 15: SW/4 less and except the south 5 acres; Sec 16: Lots 1 - 3']
T_KWS = [{}, {'clean_qq': True}, {'qq_depth': 1}, {'qq_depth_min': 1, 'qq_depth_max': 3}, {'break_halves': True}, {'suppress_lot_divs': True}, {'clean_qq': False, 'qq_depth_min': 3}]
P_KWS = [{}, {'parse_qq': True}, {'segment': True}, {'sec_colon_required': True}, {'sec_colon_cautious': True}, {'default_ns': 's', 'default_ew': 'e'},
         {'layout': 'copy_all'}, {'clean_qq': True, 'parse_qq': True}, {'sec_within': True}, {'ocr_scrub': True}]
CONFIGS = ['', 'parse_qq', 'clean_qq', 'qq_depth.1', 'parse_qq,clean_qq', 'qq_depth_min.1,break_halves', 'suppress_lot_divs']
PCONFIGS = ['', 'parse_qq', 'segment', 'sec_colon_cautious', 's,e', 'parse_qq,clean_qq', 'sec_within,parse_qq', 'copy_all']

T_PUBLIC = ['trs', 'desc', 'pp_desc', 'parse_complete', 'lots', 'qqs', 'lot_acres', 'aliquots_whole', 'w_flags', 'w_flag_lines', 'e_flags', 'e_flag_lines',
            'orig_index', 'source', 'orig_desc', 'clean_qq', 'suppress_lot_divs', 'qq_depth', 'qq_depth_min', 'qq_depth_max', 'break_halves', 'parse_qq', 'default_ns',
            'default_ew', 'ocr_scrub']
P_PUBLIC = ['orig_desc', 'pp_desc', 'current_layout', 'w_flags', 'w_flag_lines', 'e_flags', 'e_flag_lines', 'layout', 'default_ns', 'default_ew', 'parse_qq', 'clean_qq',
            'sec_colon_required', 'sec_colon_cautious', 'suppress_lot_divs', 'ocr_scrub', 'segment', 'qq_depth', 'qq_depth_min', 'qq_depth_max', 'break_halves', 'sec_within',
            'wait_to_parse', 'source']


def snap_tract(t):
    return copy.deepcopy({a: getattr(t, a) for a in T_PUBLIC})


def snap_plss(d):
    s_ = {a: getattr(d, a) for a in P_PUBLIC}
    s_['tracts'] = [(id(t), snap_tract(t)) for t in d.tracts]
    s_['config'] = d.config.decompile_to_text()
    return copy.deepcopy(s_)


def results_tract(t):
    return (t.pp_desc, t.lots, t.qqs, dict(t.lot_acres), t.aliquots_whole, t.w_flags, t.w_flag_lines, t.e_flags, t.e_flag_lines, t.parse_complete)


def wire_tract(t):
    return [t.trs, t.desc, t.orig_index, t.pp_desc, t.parse_complete, t.lots, t.qqs, dict(t.lot_acres), t.aliquots_whole,
            [t.w_flags, t.w_flag_lines, t.e_flags, t.e_flag_lines], [getattr(t, a, None) for a in ATTRS]]


def tract_attr_vals(t):
    # attributes a Tract does not have are None in the model's tr_defaults
    return [getattr(t, a, None) for a in ATTRS]


def gen_tract_ops(r, n):
    ops = []
    for _ in range(n):
        k = r.random()
        if k < 0.55:
            ops.append(('parse', r.random() < 0.6, dict(r.choice(T_KWS))))
        elif k < 0.75:
            ops.append(('preprocess', r.random() < 0.5, r.choice([None, True, False])))
        else:
            ops.append(('config', r.choice(CONFIGS)))
    return ops


def apply_tract_op(t, op):
    if op[0] == 'parse':
        return t.parse(commit=op[1], **op[2])
    if op[0] == 'preprocess':
        return t.preprocess(clean_qq=op[2], commit=op[1])
    t.config = op[1]


def wire_tract_op(op):
    if op[0] == 'parse':
        return ('parse', op[1], kws16(op[2]))
    if op[0] == 'preprocess':
        return ('preprocess', op[1], op[2])
    return ('config', op[1])


def gen_plss_ops(r, n):
    ops = []
    for _ in range(n):
        k = r.random()
        if k < 0.45:
            ops.append(('parse', r.random() < 0.6, dict(r.choice(P_KWS))))
        elif k < 0.65:
            ops.append(('parse_tracts', r.choice([None, None, 'clean_qq', 'qq_depth.1']), dict(r.choice(T_KWS[:5]))))
        elif k < 0.8:
            ops.append(('preprocess', r.random() < 0.5))
        else:
            ops.append(('config', r.choice(PCONFIGS)))
    return ops


def apply_plss_op(d, op):
    if op[0] == 'parse':
        return d.parse(commit=op[1], **op[2])
    if op[0] == 'parse_tracts':
        return d.parse_tracts(config=op[1], **op[2])
    if op[0] == 'preprocess':
        return d.preprocess(commit=op[1])
    d.config = op[1]


def wire_plss_op(op):
    if op[0] == 'parse':
        return ('parse', op[1], kws16(op[2]))
    if op[0] == 'parse_tracts':
        return ('parse_tracts', op[1], kws16(op[2]))
    if op[0] == 'preprocess':
        return ('preprocess', op[1])
    return ('config', op[1])


GEN_FLAG_PREFIXES = ('dup_lot<', 'dup_qq<', 'dup_lot_acreage<', 'nonsequential_lots')


def run(tier, mode):
    import pytrs
    r = H.rng('c14')
    fails, cases = [], []
    n_or = 0
    nontriv = set()
    dist = {'tract_histories': 0, 'plss_histories': 0, 'nocommit_checks': 0, 'reparse_checks': 0}

    def fail(kind, detail, got, want, known=None):
        fails.append({'kind': kind, 'detail': detail, 'got': repr(got)[:350], 'want': repr(want)[:350], 'known_id': known})
    # ------------------------------------------------ Tract
    n = 120 if tier == 'quick' else 2000
    for i in range(n):
        desc = r.choice(TRACT_TEXTS) if i % 3 else G.tract_desc(r)
        cfg = r.choice(CONFIGS)
        pq = r.choice([None, True, False])
        ops = gen_tract_ops(r, r.randint(1, 6 if tier == 'quick' else 14))
        t = H.call(lambda: pytrs.Tract(desc, trs='154n97w14', config=cfg, parse_qq=pq))
        if isinstance(t, H.Exn):
            continue
        dist['tract_histories'] += 1
        own_flags = False
        ok_history = True
        for j, op in enumerate(ops):
            before = snap_tract(t)
            res = H.call(apply_tract_op, t, op)
            n_or += 1
            if isinstance(res, H.Exn):
                ok_history = False
                break
            after = snap_tract(t)
            if op[0] == 'parse' and op[1] is True and list(t.lots) + list(t.qqs) != list(res):
                # a committed parse replaces the previous results: the object now holds exactly what this parse returned
                fail('committed_parse_not_replacing', {'class': 'Tract', 'desc': desc, 'config': cfg, 'parse_qq': pq, 'ops': ops[:j + 1]}, list(t.lots) + list(t.qqs), list(res))
                ok_history = False
                break
            if op[0] in ('parse', 'preprocess') and op[1] is False:
                dist['nocommit_checks'] += 1
                if after != before:
                    diff = [a for a in T_PUBLIC if before[a] != after[a]]
                    fail('commit_false_changed_object', {'class': 'Tract', 'desc': desc, 'config': cfg, 'parse_qq': pq, 'ops': ops[:j + 1]}, diff, 'no attribute changes')
                    ok_history = False
                    break
        if not ok_history:
            continue
        # re-parse with unchanged settings reproduces the results (no accumulation)
        t.parse()
        first = results_tract(t)
        t.parse()
        second = results_tract(t)
        n_or += 1
        dist['reparse_checks'] += 1
        if second != first:
            gen = any(f.startswith(GEN_FLAG_PREFIXES) for f in first[5])
            only_flags = second[:5] == first[:5] and second[9] == first[9]
            fail('reparse_not_idempotent', {'class': 'Tract', 'desc': desc, 'config': cfg, 'parse_qq': pq, 'ops': ops}, [second[5]], [first[5]],
                 'C14-tract-reparse-doubles' if (gen and only_flags) else None)
        else:
            nontriv.add(('tract', desc, cfg, repr(ops)))
        if mode != 'search':
            t2 = H.call(lambda: pytrs.Tract(desc, trs='154n97w14', config=cfg, parse_qq=pq))
            for op in ops:
                H.call(apply_tract_op, t2, op)
            cases.append((H.req('tract_history', desc, '154n97w14', cfg, pq, [wire_tract_op(o) for o in ops]), H.canon(wire_tract(t2)),
                          {'class': 'Tract', 'desc': desc, 'config': cfg, 'parse_qq': pq, 'ops': ops}))
    # ------------------------------------------------ PLSSDesc
    # reference results of the fixed texts, taken before any history has run in this process: the same parse, repeated after all the histories
    # below (overrides of every kind, committed or not), must reproduce them exactly
    proj0 = lambda x: (x.pp_desc, x.current_layout, x.w_flags, x.e_flags, [(t.trs, t.desc, t.lots, t.qqs, t.w_flags, t.e_flags) for t in x.tracts])
    reference = {}
    for text in PLSS_TEXTS:
        d0 = H.call(lambda: pytrs.PLSSDesc(text, parse_qq=True))
        if not isinstance(d0, H.Exn):
            reference[text] = (d0, proj0(d0))
    m = 60 if tier == 'quick' else 1000
    for i in range(m):
        text = r.choice(PLSS_TEXTS) if i % 3 else P.render(r, P.gen_desc(r, max_groups=2, max_secs=2, blocks=['NE/4', 'Lots 1 - 3, Lot 1', 'N/2, N/2', 'Lot 1(40), Lot 1(38)']), r.choice(P.LAYOUTS))
        cfg = r.choice(PCONFIGS)
        pq = r.choice([None, True])
        wait = r.random() < 0.3
        ops = gen_plss_ops(r, r.randint(1, 5 if tier == 'quick' else 12))
        d = H.call(lambda: pytrs.PLSSDesc(text, config=cfg, parse_qq=pq, wait_to_parse=wait))
        if isinstance(d, H.Exn):
            continue
        dist['plss_histories'] += 1
        ok_history = True
        for j, op in enumerate(ops):
            before = snap_plss(d)
            res = H.call(apply_plss_op, d, op)
            n_or += 1
            if isinstance(res, H.Exn):
                ok_history = False
                break
            after = snap_plss(d)
            if op[0] in ('parse', 'preprocess') and op[1] is False:
                dist['nocommit_checks'] += 1
                if after != before:
                    diff = [a for a in before if before[a] != after[a]]
                    fail('commit_false_changed_object', {'class': 'PLSSDesc', 'text': text, 'config': cfg, 'parse_qq': pq, 'wait': wait, 'ops': ops[:j + 1]}, diff, 'no attribute changes')
                    ok_history = False
                    break
        if not ok_history:
            continue
        # a committed parse replaces earlier results; repeating it changes nothing; equals a fresh object with the final config
        d.parse()
        first = snap_plss(d)
        d.parse()
        second = snap_plss(d)
        n_or += 1
        dist['reparse_checks'] += 1
        strip_ids = lambda s_: {k: (v if k != 'tracts' else [x[1] for x in v]) for k, v in s_.items()}
        if strip_ids(second) != strip_ids(first):
            fail('reparse_not_idempotent', {'class': 'PLSSDesc', 'text': text, 'config': cfg, 'ops': ops}, [a for a in first if strip_ids(first)[a] != strip_ids(second)[a]], 'identical results')
        else:
            nontriv.add(('plss', text, cfg, repr(ops)))
        # the re-parsed object equals a freshly constructed one given the same final settings
        final_cfg = pytrs.Config()
        for a in ATTRS:
            if a != 'wait_to_parse':
                setattr(final_cfg, a, getattr(d, a))
        fresh = H.call(lambda: pytrs.PLSSDesc(text, config=final_cfg.decompile_to_text(), source=d.source))
        if not isinstance(fresh, H.Exn):
            n_or += 1
            proj = lambda x: (x.pp_desc, x.current_layout, x.w_flags, x.w_flag_lines, x.e_flags, x.e_flag_lines,
                              [(t.trs, t.desc, t.orig_index, t.orig_desc, t.pp_desc, t.lots, t.qqs, t.w_flags, t.e_flags) for t in x.tracts])
            if proj(fresh) != proj(d):
                fail('differs_from_fresh_object', {'class': 'PLSSDesc', 'text': text, 'config': cfg, 'parse_qq': pq, 'wait': wait, 'ops': ops},
                     [a for a, (x, y) in enumerate(zip(proj(d), proj(fresh))) if x != y], 'same results as a fresh object with the final settings')
        # parse_tracts twice: results of each tract unchanged apart from the known doubling of tract-generated flags
        if not isinstance(H.call(d.parse_tracts), H.Exn):
            a1 = [results_tract(t) for t in d.tracts]
            # ... and re-parsing the tracts loses nothing the description had handed down to them: every flag of the description is still on each tract
            n_or += 1
            for t in d.tracts:
                import collections as _c
                have = _c.Counter(t.w_flags + t.e_flags)
                lost = [f for f, k_ in _c.Counter(list(d.w_flags) + list(d.e_flags)).items() if have[f] < k_]      # with multiplicity: the same flag raised twice stays twice
                if lost:
                    fail('parse_tracts_lost_handed_down_flags', {'class': 'PLSSDesc', 'text': text, 'config': cfg, 'parse_qq': pq, 'wait': wait, 'ops': ops, 'tract': t.trs}, lost, 'every description flag still on the tract')
                    break
            H.call(d.parse_tracts)
            a2 = [results_tract(t) for t in d.tracts]
            n_or += 1
            if a1 != a2:
                gen = any(f.startswith(GEN_FLAG_PREFIXES) for x in a1 for f in x[5])
                only_flags = all(x[:5] == y[:5] for x, y in zip(a1, a2))
                fail('parse_tracts_not_idempotent', {'class': 'PLSSDesc', 'text': text, 'config': cfg, 'ops': ops}, [x[5] for x in a2][:3], [x[5] for x in a1][:3],
                     'C14-tract-reparse-doubles' if (gen and only_flags) else None)
        if mode != 'search':
            d2 = H.call(lambda: pytrs.PLSSDesc(text, config=cfg, parse_qq=pq, wait_to_parse=wait))
            for op in ops:
                H.call(apply_plss_op, d2, op)
            obs = [d2.pp_desc, d2.current_layout, [wire_tract(t) for t in d2.tracts], [d2.w_flags, d2.w_flag_lines, d2.e_flags, d2.e_flag_lines],
                   [getattr(d2, a) for a in ATTRS]]
            cases.append((H.req('plss_history', text, cfg, pq, wait, [wire_plss_op(o) for o in ops], 'n', 'w'), H.canon(obs),
                          {'class': 'PLSSDesc', 'text': text, 'config': cfg, 'parse_qq': pq, 'wait': wait, 'ops': ops}))
    # the known finding, probed explicitly
    t = pytrs.Tract('Lot 1, Lot 1', trs='154n97w14', parse_qq=True)
    f1 = list(t.w_flags)
    t.parse()
    n_or += 1
    if t.w_flags != f1:
        fail('reparse_not_idempotent', {'class': 'Tract', 'desc': 'Lot 1, Lot 1', 'ops': ['parse']}, t.w_flags, f1, 'C14-tract-reparse-doubles')
    for text, (d0, p0) in reference.items():
        n_or += 2
        again = H.call(d0.parse)                                  # the object created first, re-parsed with unchanged settings
        fresh = H.call(lambda: pytrs.PLSSDesc(text, parse_qq=True))
        for how, obj in (('re-parse of the first object', d0 if not isinstance(again, H.Exn) else again), ('new object', fresh)):
            if isinstance(obj, H.Exn) or proj0(obj) != p0:
                fail('reparse_after_other_histories_differs', {'class': 'PLSSDesc', 'text': text, 'config': '', 'how': how}, obj if isinstance(obj, H.Exn) else proj0(obj), p0)
        # ... and re-parsing its tracts keeps every flag the description handed down, with multiplicity
        if not isinstance(again, H.Exn) and not isinstance(H.call(d0.parse_tracts), H.Exn):
            import collections as _c2
            n_or += 1
            for t in d0.tracts:
                have = _c2.Counter(t.w_flags + t.e_flags)
                lost = [f for f, k_ in _c2.Counter(list(d0.w_flags) + list(d0.e_flags)).items() if have[f] < k_]
                if lost:
                    fail('parse_tracts_lost_handed_down_flags', {'class': 'PLSSDesc', 'text': text, 'config': 'parse_qq', 'ops': ['parse()', 'parse_tracts()'], 'tract': t.trs}, lost,
                         'every description flag still on the tract, as often as the description has it')
                    break
    parts = {}
    if cases:
        parts['model_vs_code'] = H.diff_cases(cases, nontrivial=lambda e: len(e) > 200)
        parts['model_vs_code']['rule'] = ('random operation histories (parse(commit, keywords), parse_tracts(config, keywords), preprocess(commit), config assignment) on real Tract and '
                                          'PLSSDesc objects vs the extracted state machine: full final snapshot (results, flags with context, every setting attribute)')
    parts['oracle_on_code'] = {
        'evaluations': n_or, 'distinct_nontrivial': len(nontriv), 'impl_failures': fails, 'n_impl_failures': len(fails), 'distribution': dist,
        'rule': 'after every operation with commit=False a deep snapshot of all public attributes (incl. each tract of a PLSSDesc, by identity) must be unchanged; after the history, '
                'parse() twice must give identical results (no accumulation), parse_tracts() twice likewise; non-trivial = history completed and held',
        'samples': [{'class': 'Tract', 'desc': 'Lot 1, Lot 1', 'ops': [('parse', False, {}), ('config', 'clean_qq'), ('parse', True, {'qq_depth': 1})]}]}
    return merge(parts)


def replay(rp):
    import pytrs
    f = rp['failure']
    d = f['detail']
    if d.get('class') == 'Tract':
        t = pytrs.Tract(d['desc'], trs='154n97w14', config=d.get('config'), parse_qq=d.get('parse_qq'))
        for op in d.get('ops', []):
            if isinstance(op, (list, tuple)):
                H.call(apply_tract_op, t, tuple(op))
        t.parse()
        a = results_tract(t)
        t.parse()
        b = results_tract(t)
        print('after history: parse twice equal?', a == b, '\n', a[5], '\n', b[5])
        return a == b
    o = pytrs.PLSSDesc(d['text'], config=d.get('config'))
    print('replay of PLSSDesc histories: see detail', d)
    return False
