"""C16 plugin: parsing time stays bounded (support harness, level "other").
Pumping families prefix + unit^n + suffix and structural repetition, CPU time of
PLSSDesc(text, parse_qq=True) in isolated workers with a hard wall limit; a family is a violation
when a text of <= 300 characters takes more than 2 s of CPU (or has to be killed)."""
import os
import re
import sys

sys.path.insert(0, os.path.dirname(os.path.dirname(os.path.abspath(__file__))))
import harness as H
from props.common import merge
sys.path.insert(0, os.path.join(os.path.dirname(os.path.dirname(os.path.abspath(__file__))), 'pump'))
import pump

INTERVENER_RUN = re.compile(r'(\s*([/.,;:\-–—&]|and|thru|through|to)\s*)+')
NUM_END = re.compile(r'(Sec|Section|Sections|Lots?)\s*\d+(\s*-\s*)?$')
ALIQUOT_END = re.compile(r'(NE|NW|SE|SW|[NSEW])(/[24]|[¼½])$')
TWPRGE_END = re.compile(r'(T\d+[NS]-R\d+[EW]|Township \d+ (North|South))$')
TWPRGE_ANY = re.compile(r'T\d+[NS]-R\d+[EW]|Township \d+')


def known_id(fam):
    """which known finding (if any) covers this family"""
    if fam.get('kind') == 'lines':
        return 'C16-repeated-twprge' if TWPRGE_ANY.search(fam['unit']) else None
    if fam.get('kind') in ('texts', 'repeat'):
        return None
    u, p = fam['unit'], fam['prefix']
    if NUM_END.search(p) and re.search(r'\s', u) and INTERVENER_RUN.fullmatch(u):
        return 'C16-intervener-run'
    if TWPRGE_END.search(p) and u.strip() == '':
        return 'C16-whitespace-after-twprge'
    # a long section / lot LIST (separator + number, repeated) with another Twp/Rge further on in the text
    if NUM_END.search(p) and re.fullmatch(r'\s*([/.,;:&]|and)?\s*\d{1,3}\s*', u) and TWPRGE_ANY.search(fam['suffix']):
        return 'C16-section-list-before-twprge'
    # a whitespace run that reduce_whitespace() leaves standing: blanks alternating with line breaks, or blanks other than space / tab (NBSP, em space ...)
    if ALIQUOT_END.search(p) and u.strip() == '' and (('\n' in u and len(u) > 1) or any(c not in ' \t\n\r' for c in u)) and fam['suffix'].strip():
        return 'C16-aliquot-newline-run'
    return None


REPRESENTATIVES = ['pump|T154N-R97W Sec 14|. |', 'pump|T154N-R97W| |', 'lines|T154N-R97W|\n', 'pump|T154N-R97W Sec 14: NE/4| \n|X',
                   'pump|T154N-R97W Sec 14|, 1| T155N-R97W Sec 1: ALL']


def run(tier, mode):
    fams = pump.families(tier if mode != 'search' else 'thorough')
    todo = [f for f in fams if known_id(f) is None or f['id'] in REPRESENTATIVES]
    skipped = len(fams) - len(todo)
    res = []
    idx = {f['id']: f for f in todo}
    out = explore_list(todo)
    fails = []
    nontriv = set()
    dist = {'families': len(todo), 'skipped_as_known': skipped, 'slow': 0, 'max_cpu_fast_family': 0.0}
    for x in out:
        if x['slow']:
            # confirm once more before reporting (noise)
            again = pump.run_family(x['fam'])
            if not again['slow']:
                continue
            dist['slow'] += 1
            at = again['at'] or x['at'] or {}
            n = at.get('n')
            fam = x['fam']
            if fam.get('kind') == 'texts':
                text = fam['texts'][n] if n is not None and n < len(fam['texts']) else ''
            elif fam.get('kind') == 'repeat':
                text = f"{n} x PLSSDesc({fam['unit']!r}, config={fam['config']!r}) then PLSSDesc({fam['unit']!r}, parse_qq=True)"
            else:
                text = (fam['sep'].join([fam['unit']] * n)) if fam.get('kind') == 'lines' else fam['prefix'] + fam['unit'] * (n or 0) + fam['suffix']
            fails.append({'kind': 'slow_input', 'detail': {'family': x['id'], 'n': n, 'len': at.get('len'), 'text': text, 'killed': again['killed']},
                          'got': f"cpu > 2 s (cpu={at.get('cpu')}, killed={again['killed']})", 'want': '<= 2 s for <= 300 characters', 'known_id': known_id(fam)})
        else:
            nontriv.add(x['id'])
            if x['worst']:
                dist['max_cpu_fast_family'] = max(dist['max_cpu_fast_family'], x['worst']['cpu'])
    parts = {'timing_harness': {
        'evaluations': len(out), 'distinct_nontrivial': len(nontriv), 'impl_failures': fails, 'n_impl_failures': len(fails), 'distribution': dist,
        'rule': 'families prefix + unit^n + suffix (10 prefixes x 32 units x 5-7 suffixes, n up to 290, <= 300 characters) and k-fold repetition of lines/sections/lots; CPU time of '
                'PLSSDesc(text, parse_qq=True) per size in a worker process killed after 8 s wall; slow = > 2 s CPU or killed, confirmed by a second run; families covered by a known '
                'finding are represented by one member each; non-trivial = family completed under the limit',
        'samples': [{'family': 'pump|T154N-R97W Sec 14|-|: NE/4', 'sizes': [4, 8, 12, '...', 290]}]}}
    return merge(parts)


def explore_list(fams, nproc=12):
    import threading
    res = [None] * len(fams)
    it = iter(range(len(fams)))
    lock = threading.Lock()

    def work():
        while True:
            with lock:
                i = next(it, None)
            if i is None:
                return
            res[i] = pump.run_family(fams[i])
    ths = [threading.Thread(target=work) for _ in range(nproc)]
    for t in ths:
        t.start()
    for t in ths:
        t.join()
    return res


def replay(rp):
    import time
    import pytrs
    f = rp['failure']
    text = f['detail']['text']
    print('family:', f['detail']['family'], 'n =', f['detail']['n'], 'len =', len(text))
    fam = None
    for x in pump.families('thorough'):
        if x['id'] == f['detail']['family']:
            fam = x
    r = pump.run_family(fam) if fam else None
    print('now:', r and {k: r[k] for k in ('slow', 'killed', 'at')})
    return not (r and r['slow'])
