"""C17 plugin: custom_sort / sort_tracts.  (1) model vs code on lists x key strings,
(2) the code judged by an independent statement of the property (stable multi-pass sort by
rank tuples, errors last, key grammar)."""
import itertools
import os
import re
import sys

sys.path.insert(0, os.path.dirname(os.path.dirname(os.path.abspath(__file__))))
import harness as H
from props.common import merge

UNIVERSE = ['154n97w14', '154n97w01', '155n97w14', '154n96w14', '154n97e14', '154s97w14', '1s2e01', '3n5w36',
            '0n0w00', '999n999e99', '154n97w14',
            'XXXzXXXzXX', '154nXXXz01', 'XXXz97w02', '154n97wXX',
            '___z___z__', '154n___z14', '___z97w03', '154n97w__', '2s97wXX']

VARS = 'itrs'
METHODS = [None, 'ns', 'sn', 'ew', 'we', 'num']
REVS = [None, 'rev', 'reverse']
LEGAL = {'i': ('num', None), 't': ('ns', 'sn', 'num', None), 'r': ('ew', 'we', 'num', None), 's': ('num', None)}
PART = re.compile(r'([itrs])(?:\.(ns|sn|ew|we|num))?(?:\.(rev))?')


def part(v, m, r):
    return v + ('.' + m if m else '') + ('.' + r if r else '')


def all_parts():
    return [part(v, m, r) for v in VARS for m in METHODS for r in REVS]


def make_list(pytrs, kind, trss):
    if kind == 'tract':
        return pytrs.TractList([pytrs.Tract('NE/4', trs=t) for t in trss])
    return pytrs.TRSList([pytrs.TRS(t) for t in trss])


def wire_elt(i, e, is_tract):
    def d(v, t):
        return None if v is None else (v == t)
    return (i, is_tract, e._Tract__uid if is_tract else 0, e.twp_num, d(e.twp_ns, 'n'), e.rge_num,
            d(e.rge_ew, 'e'), e.sec_num)


def run_real(pytrs, kind, trss, key, reverse):
    lst = make_list(pytrs, kind, trss)
    elems = list(lst)
    ids = {id(e): i for i, e in enumerate(elems)}
    wire = [wire_elt(i, e, kind == 'tract') for i, e in enumerate(elems)]
    r = H.call(lst.custom_sort, key, reverse)
    if isinstance(r, H.Exn):
        return wire, r, elems
    return wire, [ids[id(e)] for e in lst], elems


# ---------------------------------------------------------------- independent spec

def spec_rank(e, var, method):
    """rank tuple: smaller sorts first (ascending pass)."""
    if var == 'i':
        return (0, getattr(e, '_Tract__uid', 0))
    num, d = {'t': (e.twp_num, e.twp_ns), 'r': (e.rge_num, e.rge_ew), 's': (e.sec_num, None)}[var]
    if num is None:
        return (1, 0, 0)
    if method in (None, 'num'):
        return (0, 0, num)
    first = {'ns': 'n', 'sn': 's', 'ew': 'e', 'we': 'w'}[method]
    return (0, 0, -num) if d == first else (0, 1, num)


def spec_parse(key):
    """list of (var, method, rev) or 'ValueError' -- by the property's grammar."""
    key = re.sub(r'\s', '', key.lower()).replace('reverse', 'rev')
    out = []
    for p in key.split(','):
        mo = PART.fullmatch(p)
        if not mo:
            return 'ValueError'
        v, m, r = mo.groups()
        if m not in LEGAL[v]:
            return 'ValueError'
        out.append((v, m, r is not None))
    return out


def spec_sort(elems, key, reverse):
    ps = spec_parse(key)
    if ps == 'ValueError':
        return H.Exn('ValueError')
    order = list(range(len(elems)))
    for v, m, r in ps:
        order.sort(key=lambda i: spec_rank(elems[i], v, m), reverse=r)   # list.sort is stable
    if reverse:
        order.reverse()
    return order


KNOWN_UNANCHORED = 'C17-unanchored-key'


def gen_cases(tier, r):
    parts = all_parts()
    keys = list(parts)
    keys += [' T.NS , s.Reverse', 'R.we.REV,i', 't . sn', 'i,s,r,t', 's,r,t', 't.ns,s.rev', 's.rev,t.sn.rev,r.ew',
             'r.we,r.ew', 't,t.rev', 'i.rev', 'I.NUM.REVERSE',
             's,t,s', 'i,s,i', 'r.rev,s,r.rev', 'S.Reverse, r.we, s.REV', 't.ns,r,t.ns', 's,s', 't.rev,i,t.rev,s',
             # the same variable under two DIFFERENT sub-methods: the later pass only ties what the earlier one ordered (N/S or E/W of one number)
             't.sn,t.num', 't.ns,t', 'r.ew, s, r', 'r.we,r.num', 't.sn,s,t.num.rev', 't.num,t.sn', 'r,r.ew.rev']   # a key component may recur: every occurrence is a pass
    bad = ['x', 'q.ns', 't.ew', 'r.ns', 's.ns', 'i.we', '', 't,,s', 't,', ',', 'x.ns', 'foo.ns', 'north', 't.nsx', 'xt', 't.foo',
           't.ns.bar', 'u.num', '.rev', 'rev', '5', 't;s', 'a,b', 'e.w']
    keys += bad
    n2 = 40 if tier == 'quick' else 400
    for _ in range(n2):
        k = r.randint(2, 4)
        ks = [r.choice(parts) for _ in range(k)]
        if r.random() < 0.3:
            ks.append(ks[0])
        keys.append(','.join(ks))
    lists = [[], ['154n97w14'], UNIVERSE, UNIVERSE[::-1], ['XXXzXXXzXX', '___z___z__'], ['2n70w01', 'XXXzXXXz03', '3n65w02'],
             ['154n97w14'] * 3 + ['154n97w01'] * 2]
    nl = 12 if tier == 'quick' else 120
    for _ in range(nl):
        lists.append([r.choice(UNIVERSE) for _ in range(r.randint(2, 9))])
    return keys, lists


def run(tier, mode):
    import pytrs
    r = H.rng('c17')
    keys, lists = gen_cases(tier, r)
    cases, fails, n_oracle = [], [], 0
    dist = {'ok': 0, 'ValueError': 0, 'other_exn': 0}
    nontriv = set()
    for li, trss in enumerate(lists):
        # every key on the first few lists, a sample on the others
        ks = keys if li < 4 else [r.choice(keys) for _ in range(12 if tier == 'quick' else 40)]
        for kind in ('tract', 'trs'):
            for key in ks:
                for reverse in ((False, True) if li < 3 else (r.random() < 0.3,)):
                    wire, got, elems = run_real(pytrs, kind, trss, key, reverse)
                    if mode != 'search':
                        cases.append((H.req('custom_sort', key, reverse, [tuple(w) for w in wire]), H.canon(got),
                                      {'kind': kind, 'trs': trss, 'key': key, 'reverse': reverse}))
                    if key == '':
                        continue          # `if not key: return None` -- nothing to judge
                    want = spec_sort(elems, key, reverse)
                    n_oracle += 1
                    if isinstance(got, H.Exn):
                        dist['ValueError' if got.name == 'ValueError' else 'other_exn'] += 1
                    else:
                        dist['ok'] += 1
                        if len(set(trss)) > 2:
                            nontriv.add((kind, tuple(trss), key, reverse))
                    if got != want:
                        known = None
                        if want == H.Exn('ValueError') and not isinstance(got, H.Exn) \
                                and any(not PART.fullmatch(p) and re.search('[itrs]', p)
                                        for p in re.sub(r'\s', '', key.lower()).replace('reverse', 'rev').split(',')):
                            known = KNOWN_UNANCHORED
                        fails.append({'kind': 'sort', 'list_kind': kind, 'trs': trss, 'key': key, 'reverse': reverse,
                                      'got': repr(got), 'want': repr(want), 'known_id': known})
    # PLSSDesc.sort_tracts wrapper
    d = pytrs.PLSSDesc('T154N-R97W Sec 14: NE/4, Sec 1: W/2, Sec 22: ALL; T155N-R97W Sec 3: S/2; T2S-R5E Sec 9: N/2', parse_qq=True)
    for key in ['s', 't.ns,s.rev', 'r.ew', 'i.rev', 't.sn']:
        d2 = pytrs.PLSSDesc(d.orig_desc)
        elems = list(d2.tracts)
        ids = {id(e): i for i, e in enumerate(elems)}
        res = H.call(d2.sort_tracts, key)
        got = res if isinstance(res, H.Exn) else [ids[id(e)] for e in d2.tracts]
        want = spec_sort(elems, key, False)
        n_oracle += 1
        if got != want:
            fails.append({'kind': 'sort_tracts', 'key': key, 'got': repr(got), 'want': repr(want), 'known_id': None})
    parts = {}
    if cases:
        parts['model_vs_code'] = H.diff_cases(cases)
        parts['model_vs_code']['rule'] = ('custom_sort on TractList and TRSList over a universe with ties, mixed N/S and E/W, error, '
                                          'undefined and partially undefined TRS x every canonical key part, spacing/case variants, '
                                          'illegal keys and random 2-3 key strings; result order (or exception class) compared')
    parts['oracle_on_code'] = {
        'evaluations': n_oracle, 'distinct_nontrivial': len(nontriv), 'impl_failures': fails, 'n_impl_failures': len(fails),
        'distribution': dist,
        'rule': 'real custom_sort/sort_tracts judged by an independent spec: successive stable sorts by rank tuples (errors last, '
                'before when reversed), key grammar by fullmatch; non-trivial = succeeded on a list with > 2 distinct TRS',
        'samples': [{'list': UNIVERSE[:5], 'key': 't.ns,s.rev'}]}
    return merge(parts)


def replay(rp):
    import pytrs
    f = rp['failure']
    _, got, elems = run_real(pytrs, f.get('list_kind', 'tract'), f['trs'], f['key'], f['reverse'])
    want = spec_sort(elems, f['key'], f['reverse'])
    print('key', f['key'], 'list', f['trs'], '\n observed', got, '\n wanted  ', want)
    return got == want
