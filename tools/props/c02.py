"""C02 plugin: correspondence (exhaustive small scope) + oracle sweep of the implementation
with an independent rational tiling checker."""
import itertools
import re
import sys
import os
from fractions import Fraction

sys.path.insert(0, os.path.dirname(os.path.dirname(os.path.abspath(__file__))))
import harness as H
from props.common import merge
sys.path.insert(0, os.path.join(os.path.dirname(os.path.dirname(os.path.abspath(__file__))), 'corr'))
import c02 as corr

XB = {'E': 1, 'W': 0}
YB = {'N': 1, 'S': 0}


def comp_bits(c):
    xs, ys = [], []
    if c == 'ALL':
        return xs, ys
    for ch in c:
        if ch in XB:
            xs.append(XB[ch])
        if ch in YB:
            ys.append(YB[ch])
    return xs, ys


def region(chain_largest_first):
    xs, ys = [], []
    for c in chain_largest_first:
        x, y = comp_bits(c)
        xs += x
        ys += y
    return xs, ys


def interval(bits):
    lo, w = Fraction(0), Fraction(1)
    for b in bits:
        w /= 2
        if b:
            lo += w
    return lo, lo + w


PIECE_ATOM = re.compile(r'([NSEW]2|NE|NW|SE|SW|ALL)')


def piece_comps(p):
    """'N2NESW' -> ['N','NE','SW'] smallest first; None if not a well-formed piece."""
    pos, out = 0, []
    while pos < len(p):
        mo = PIECE_ATOM.match(p, pos)
        if not mo:
            return None
        a = mo.group(1)
        out.append(a[0] if a.endswith('2') else a)
        pos = mo.end()
    return out


def judge(chain_lf, mn, mx, bh, pieces):
    """Return None if the pieces satisfy C02 for this chain, else a reason."""
    if not isinstance(pieces, list):
        return f'raised {pieces!r}'
    xs, ys = region(chain_lf)
    if mx is not None:
        xs, ys = xs[:mx], ys[:mx]
    rx, ry = interval(xs), interval(ys)
    target = (rx[1] - rx[0]) * (ry[1] - ry[0])
    rects = []
    for p in pieces:
        comps = piece_comps(p)
        if comps is None:
            return f'malformed piece {p!r}'
        if len(comps) < mn:
            return f'piece {p!r} shallower than min depth'
        if mn and any(len(c) != 2 for c in comps[len(comps) - mn:]):
            return f'piece {p!r}: its {mn} largest components are not all quarters'
        if mx is not None and len(comps) > mx:
            return f'piece {p!r} deeper than max depth'
        if bh and any(len(c) == 1 for c in comps):
            return f'piece {p!r} contains a half under break_halves'
        bx, by = region(list(reversed(comps)))
        ix, iy = interval(bx), interval(by)
        if not (rx[0] <= ix[0] and ix[1] <= rx[1] and ry[0] <= iy[0] and iy[1] <= ry[1]):
            return f'piece {p!r} lies outside the region'
        rects.append((ix, iy, p))
    area = sum((ix[1] - ix[0]) * (iy[1] - iy[0]) for ix, iy, _ in rects)
    if area != target:
        return f'areas add up to {area}, region is {target}'
    for (a, b) in itertools.combinations(rects, 2):
        if a[0][0] < b[0][1] and b[0][0] < a[0][1] and a[1][0] < b[1][1] and b[1][0] < a[1][1]:
            return f'pieces {a[2]!r} and {b[2]!r} overlap'
    return None


def known_id(case):
    if case.get('mx') == 0 or case.get('qq') == 0:
        return 'C02-depth0'
    return None


def oracle_sweep(maxlen, maxd, through_tract=True):
    from pytrs.parser.tract import aliquot_parse as ap
    import pytrs
    fails = []
    n = 0
    chains = [('ALL',)]
    for k in range(1, maxlen + 1):
        chains += list(itertools.product(corr.COMPS, repeat=k))
    for ch in chains:
        text = 'ALL' if ch == ('ALL',) else corr.render(ch)
        lf = list(reversed(ch))
        for mn in range(0, maxd):
            for mx in [None] + list(range(mn, maxd + 1)):
                for bh in (False, True):
                    n += 1
                    got = H.call(ap.parse_aliquot, text, mn, mx, None, bh)
                    why = judge(lf, mn, mx, bh, got)
                    if why:
                        c = {'text': text, 'mn': mn, 'mx': mx, 'qq': None, 'bh': bh, 'got': repr(got)[:200], 'why': why}
                        c['known_id'] = known_id(c)
                        fails.append(c)
        if through_tract and len(ch) <= 2:
            for qq in range(0, maxd + 1):
                n += 1
                cfg = f'qq_depth.{qq}'
                got = H.call(lambda: pytrs.Tract(text, parse_qq=True, config=cfg).qqs)
                why = judge(lf, qq, qq, False, got)
                if why:
                    c = {'text': text, 'config': cfg, 'qq': qq, 'got': repr(got)[:200], 'why': why, 'via': 'Tract'}
                    c['known_id'] = known_id(c)
                    fails.append(c)
    # "chains of any length": a few long ones, of the shapes that make the standardisation loop run longest (a half behind many quarters moves
    # forward one place per pass), judged by the same rational oracle -- far beyond what the interpreter's recursion limit would allow a
    # pass-per-stack-frame formulation
    for L in (60, 400, 1300):
        for ch in (('NE',) * L + ('N',), ('SW', 'NE') * (L // 2) + ('E',), ('NE',) * L, ('S',) + ('NW',) * L):      # (one half at most: halves double the pieces under break_halves)
            text = corr.render(ch)
            lf = list(reversed(ch))
            for mn, mx, bh in ((2, None, False), (1, None, True), (0, 3, False)):
                n += 1
                got = H.call(ap.parse_aliquot, text, mn, mx, None, bh)
                why = judge(lf, mn, mx, bh, got)
                if why:
                    fails.append({'text': text if len(text) < 200 else f'{text[:12]}...({len(ch)} components)...{text[-8:]}', 'chain_len': len(ch), 'mn': mn, 'mx': mx, 'qq': None, 'bh': bh,
                                  'got': repr(got)[:200], 'why': why[:300], 'known_id': None})
    # keep one representative per known id plus all unknown
    seen, keep = set(), []
    for f in fails:
        if f['known_id']:
            if f['known_id'] in seen:
                continue
            seen.add(f['known_id'])
        keep.append(f)
    return {'evaluations': n, 'distinct_nontrivial': n, 'impl_failures': keep[:50], 'n_impl_failures': len(fails),
            'exhaustive': True,
            'rule': f'implementation judged by the rational tiling oracle on all chains of length <= {maxlen} x depth box; every case distinct',
            'samples': [{'text': corr.render(chains[5]), 'mn': 2, 'mx': None}]}


def run(tier, mode):
    maxlen = 3 if tier == 'quick' else 4
    parts = {}
    if mode != 'search':
        parts['model_vs_code'] = corr.run(maxlen=maxlen, maxd=4)
    parts['oracle_on_code'] = oracle_sweep(maxlen, 4)
    return merge(parts)


def replay(rp):
    from pytrs.parser.tract import aliquot_parse as ap
    f = rp['failure']
    if f.get('via') == 'Tract':
        import pytrs
        got = H.call(lambda: pytrs.Tract(f['text'], parse_qq=True, config=f['config']).qqs)
        lf = [c for c in reversed(re.findall(r'(ALL|[NSEW]{1,2})[½¼]?', f['text']))]
        why = judge(lf, f['qq'], f['qq'], False, got)
    else:
        got = H.call(ap.parse_aliquot, f['text'], f['mn'], f['mx'], f.get('qq'), f['bh'])
        lf = [c for c in reversed(re.findall(r'(ALL|[NSEW]{1,2})[½¼]?', f['text']))]
        why = judge(lf, f['mn'], f['mx'], f['bh'], got)
    print('input:', f, '\nobserved:', got, '\nverdict:', why)
    return why is None
