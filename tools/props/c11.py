"""C11 plugin: copy_all, forced or as fallback, keeps the whole text in exactly one tract."""
import os
import sys

sys.path.insert(0, os.path.dirname(os.path.dirname(os.path.abspath(__file__))))
import harness as H
import textgen as G
import plssgen as P
from props.common import merge
sys.path.insert(0, os.path.join(os.path.dirname(os.path.dirname(os.path.abspath(__file__))), 'corr'))
import plsscorr

TRIM_EDGES = ['', '', '.', '; ', ', and', ' of', ' in', ' the', '-', ':']


def run(tier, mode):
    import pytrs
    from pytrs.parser.plssdesc.plss_preprocess import plss_preprocess
    from pytrs.parser.rgxlib import twprge_regex, multisec_regex, no_num_sec_regex
    r = H.rng('c11')
    fails, texts = [], []
    n_or = 0
    nontriv = set()
    dist = {'forced': 0, 'fallback_no_twprge': 0, 'fallback_no_sec': 0, 'fallback_rejected': 0, 'normal': 0}

    def fail(kind, detail, got, want, known=None):
        fails.append({'kind': kind, 'detail': detail, 'got': repr(got)[:300], 'want': repr(want)[:300], 'known_id': known})
    n = 250 if tier == 'quick' else 4000
    for i in range(n):
        k = r.random()
        t = P.render(r, P.gen_desc(r), r.choice(P.LAYOUTS)) if k < 0.4 else G.damage(r, G.structured_desc(r)) if k < 0.7 else G.any_text(r)
        if i % 3 == 0:
            # a colon-first layout with every colon removed (all sections get rejected under sec_colon_required)
            t = P.render(r, P.gen_desc(r, max_groups=1), r.choice(['TRS_desc', 'S_desc_TR'])).replace(':', '')
            if i % 12 == 6:
                # the colon the patterns accept BETWEEN the keyword and the number ('Section: 14') is not the colon after the section: still every section rejected
                import re as _re
                t = _re.sub(r'\b(Sections?|Secs?\.?|Sects?\.?) (?=\d)', lambda m_: m_.group(1) + ': ', t)
        if r.random() < 0.3:
            t = r.choice(TRIM_EDGES) + t + r.choice(TRIM_EDGES)
        texts.append(t)
        extra = r.choice(['', '', 'segment', 'sec_within', 'parse_qq', 'segment,sec_within'])
        # ---- forced, three channels
        other = r.choice(['TRS_desc', 'desc_STR', 'S_desc_TR', 'TR_desc_S'])
        for ch, f in (('init_keyword', lambda: pytrs.PLSSDesc(t, layout='copy_all', config=extra or None)),
                      ('init_keyword_over_config', lambda: pytrs.PLSSDesc(t, layout='copy_all', config=','.join(x for x in [extra, other] if x))),
                      ('parse_argument_over_config', lambda: pytrs.PLSSDesc(t, config=','.join(x for x in [extra, other, 'wait_to_parse'] if x)).parse(layout='copy_all', commit=False)),
                      ('config', lambda: pytrs.PLSSDesc(t, config=','.join(x for x in [extra, 'copy_all'] if x))),
                      ('parse_argument', lambda: pytrs.PLSSDesc(t, config=extra or None, wait_to_parse=True).parse(layout='copy_all', commit=False))):
            o = H.call(f)
            n_or += 1
            dist['forced'] += 1
            if isinstance(o, H.Exn):
                fail('forced_raises', {'text': t, 'channel': ch, 'config': extra}, o, 'one tract')
                continue
            tl = o.tracts if hasattr(o, 'tracts') else o
            pp = plss_preprocess(t)[0] if not hasattr(o, 'pp_desc') or ch.startswith('parse_argument') else o.pp_desc
            if 'ocr_scrub' in extra:
                pass
            if len(tl) != 1 or tl[0].desc != pp:
                fail('forced_copy_all', {'text': t, 'channel': ch, 'config': extra}, [(x.trs, x.desc) for x in tl][:3], [('*', pp)])
            else:
                nontriv.add(('forced', t, ch))
        # ---- deduced: fallback situations
        pp = plss_preprocess(t)[0]
        has_tr = twprge_regex.search(pp) is not None
        has_secword = no_num_sec_regex.search(pp) is not None
        d = H.call(lambda: pytrs.PLSSDesc(t, config=extra or None))
        n_or += 1
        if isinstance(d, H.Exn):
            continue
        whole = [x for x in d.tracts if x.desc == d.pp_desc and len(d.pp_desc) > 0]
        if len(whole) > 1:
            fail('two_whole_text_tracts', {'text': t, 'config': extra}, [(x.trs, x.desc) for x in d.tracts][:3], 'at most one tract carrying the complete text')
        if not has_tr or not has_secword:
            kind = 'fallback_no_twprge' if not has_tr else 'fallback_no_sec'
            dist[kind] += 1
            if d.current_layout != 'copy_all' or len(d.tracts) != 1 or d.tracts[0].desc != d.pp_desc:
                fail(kind, {'text': t, 'config': extra}, [d.current_layout, [(x.trs, x.desc) for x in d.tracts][:3]], ['copy_all', [('*', d.pp_desc)]])
            elif not d.e_flags and not (has_tr and multisec_regex.search(pp)):
                fail('fallback_without_error_flag', {'text': t, 'config': extra}, d.e_flags, 'an error flag')
            else:
                nontriv.add((kind, t))
        else:
            dist['normal'] += 1
        # ---- every section rejected: colon required on colon-less text
        import re as _re2
        if has_tr and has_secword and not _re2.search(r'\d\s*:', t) and i % 2 == 0:
            rc_cfg = r.choice(['sec_colon_required', 'sec_colon_required', 'sec_colon_required,sec_within', 'sec_colon_required,segment,sec_within'])
            d2 = H.call(lambda: pytrs.PLSSDesc(t, config=rc_cfg))
            n_or += 1
            if isinstance(d2, H.Exn):
                continue
            if d2.current_layout in ('TRS_desc', 'S_desc_TR') and 'segment' in rc_cfg:
                # under `segment` every segment is parsed as a description of its own (its layout re-deduced), so the unit that falls
                # back is the segment: cut the segments here, independently, from the Twp/Rge matches of the preprocessed text
                from pytrs.parser.plssdesc.plss_parse import cleanup_desc as _cd, deduce_layout as _dl
                ppd = d2.pp_desc
                tms = list(twprge_regex.finditer(ppd))
                if d2.current_layout == 'TRS_desc':
                    segs = [ppd[m.start():(tms[j + 1].start() if j + 1 < len(tms) else len(ppd))] for j, m in enumerate(tms)]
                else:
                    segs = [ppd[(tms[j - 1].end() if j else 0):m.end()] for j, m in enumerate(tms)]
                segs = [_cd(x) for x in segs]
                # (a Twp/Rge the finder itself sets aside -- `twprge_ignored` -- does not delimit a segment: no claim then)
                if tms and all(_dl(x) in ('TRS_desc', 'S_desc_TR', 'copy_all') for x in segs) and not any(f.startswith('twprge_ignored') for f in d2.w_flags):
                    dist['fallback_rejected_segments'] = dist.get('fallback_rejected_segments', 0) + 1
                    want = [_cd(x) for x in segs]
                    got = [x.desc for x in d2.tracts]
                    # with sec_within a lone tract takes the text outside the segment back in, so it may hold more than its segment, never less
                    ok = got == want if 'sec_within' not in rc_cfg else (len(got) == len(want) and all(w in g_ for w, g_ in zip(want, got)))
                    if not ok:
                        fail('fallback_rejected_sections_segmented', {'text': t, 'config': rc_cfg}, [(x.trs, x.desc) for x in d2.tracts][:3], [('*', x) for x in segs][:3])
                    else:
                        nontriv.add(('rejected_seg', t))
            elif d2.current_layout in ('TRS_desc', 'S_desc_TR'):
                dist['fallback_rejected'] += 1
                trimmed = d2.pp_desc != pytrs.parser.plssdesc.plss_parse.cleanup_desc(d2.pp_desc)
                if len(d2.tracts) != 1 or d2.tracts[0].desc != d2.pp_desc:
                    fail('fallback_rejected_sections', {'text': t, 'config': rc_cfg}, [(x.trs, x.desc) for x in d2.tracts][:3], [('*', d2.pp_desc)],
                         'C11-fallback-cleaned' if (len(d2.tracts) == 1 and trimmed and d2.tracts[0].desc == pytrs.parser.plssdesc.plss_parse.cleanup_desc(d2.pp_desc)) else None)
                else:
                    nontriv.add(('rejected', t))
    parts = {}
    if mode != 'search':
        parts['model_vs_code'] = plsscorr.run(tier, 'c11', extra_texts=texts[:120 if tier == 'quick' else 1500],
                                              configs=['copy_all', 'layout.copy_all', 'copy_all,segment', 'sec_colon_required', '', 'copy_all,sec_within,parse_qq', 'sec_colon_required,segment'],
                                              functions=False, n=30 if tier == 'quick' else 300)
    parts['oracle_on_code'] = {
        'evaluations': n_or, 'distinct_nontrivial': len(nontriv), 'impl_failures': fails, 'n_impl_failures': len(fails), 'distribution': dist,
        'rule': 'rendered/damaged/soup texts (some with trimmable edges) x {layout=copy_all via init keyword, config string, parse(layout=)} x extra modes: exactly one tract whose desc '
                'is the whole preprocessed text; for deduced layouts: texts lacking a Twp/Rge or a section word fall back to one whole-text tract with an error flag unless both were '
                'identified; colon-required on colon-less text keeps the whole text in one tract; never two tracts carrying the complete text; non-trivial = the situation occurred and held',
        'samples': [{'text': 'NE/4 of Section, T154N-R97W', 'channel': 'config'}]}
    return merge(parts)


def replay(rp):
    import pytrs
    f = rp['failure']
    d = f['detail']
    ch = d.get('channel')
    if ch == 'init_keyword':
        o = H.call(lambda: pytrs.PLSSDesc(d['text'], layout='copy_all', config=d['config'] or None))
    elif ch == 'config':
        o = H.call(lambda: pytrs.PLSSDesc(d['text'], config=','.join(x for x in [d['config'], 'copy_all'] if x)))
    else:
        o = H.call(lambda: pytrs.PLSSDesc(d['text'], config=d.get('config') or None))
    got = o if isinstance(o, H.Exn) else [(x.trs, x.desc) for x in o.tracts]
    print('input:', d, '\n observed:', got, '\n was:', f['got'], 'wanted', f['want'])
    return repr(got[:3])[:300] != f['got']
