"""C07 plugin: aliquot spellings normalise to one canonical text; preprocessing is a fixed point.
(1) model vs code (scrub_aliquots, TractParser), (2) canon oracle on the real code."""
import os
import sys

sys.path.insert(0, os.path.dirname(os.path.dirname(os.path.abspath(__file__))))
import harness as H
from props.common import merge
sys.path.insert(0, os.path.join(os.path.dirname(os.path.dirname(os.path.abspath(__file__))), 'corr'))
import tractcorr

W = {'N': 'North', 'S': 'South', 'E': 'East', 'W': 'West'}
COMPS = ['N', 'S', 'E', 'W', 'NE', 'NW', 'SE', 'SW']


def canon1(c):
    return c + ('½' if len(c) == 1 else '¼')


def spellings(c):
    if len(c) == 1:
        w = W[c]
        return [c + '½', c + '/2', c + '2', c + ' 1/2', c + '1/2', w + ' Half', w.lower() + ' half', w + ' One Half', c + '. 1/2', w + ' 1/2', c + ' ½']
    a, b = c
    full = W[a] + W[b].lower()
    split = W[a] + ' ' + W[b]
    return [c + '¼', c + '/4', c + '4', c + ' 1/4', c + '1/4', full + ' Quarter', full.lower() + ' quarter', split + ' One Quarter',
            split + ' Quarter', full + ' 1/4', f'{a}.{b}. 1/4', c + ' ¼']


JOINERS = ['', ' ', ' of ', ' of the ']


def render(r, chain):
    parts = []
    for i, c in enumerate(chain):
        sp = r.choice(spellings(c))
        if i > 0:
            prev = parts[-1]
            j = r.choice(JOINERS)
            if j == '' and prev[-1] not in '¼½24':
                j = ' '
            if r.random() < 0.15:
                j = r.choice([j.upper(), j.title()])      # 'OF THE', 'Of The': the words are matched whatever their case
            if r.random() < 0.15:
                # any blank the patterns' `\s` accepts joins components like a space does: no-break / thin / ideographic space, tab
                j = j.replace(' ', r.choice(['\xa0', '\u2009', '\u202f', '\u3000', '\t', '  ']))
            parts.append(j)
        parts.append(sp)
    return ''.join(parts)


CFGS = [None, 'clean_qq', 'qq_depth_min.1', 'qq_depth.3', 'break_halves', 'clean_qq,qq_depth_min.3', 'qq_depth_min.1,qq_depth_max.2']


def run(tier, mode):
    import pytrs
    from pytrs.parser.tract.tract_preprocess import scrub_aliquots
    r = H.rng('c07')
    fails, texts = [], []
    n_or = 0
    nontriv = set()
    dist = {}

    def fail(kind, detail, got, want, known=None):
        fails.append({'kind': kind, 'detail': detail, 'got': repr(got)[:300], 'want': repr(want)[:300], 'known_id': known})
    n = 400 if tier == 'quick' else 6000
    for i in range(n):
        L = r.choice([1, 2, 2, 3, 3, 4, 5])
        chain = [r.choice(COMPS) for _ in range(L)]
        text = render(r, chain)
        texts.append(text)
        canon = ''.join(canon1(c) for c in chain)
        dist[L] = dist.get(L, 0) + 1
        for cq in (False, True):
            got = H.call(scrub_aliquots, text, cq)
            n_or += 1
            if got != canon:
                fail('normalise', {'chain': chain, 'text': text, 'clean_qq': cq}, got, canon)
                continue
            again = H.call(scrub_aliquots, got, cq)
            if again != got:
                fail('fixed_point', {'chain': chain, 'text': text, 'clean_qq': cq}, again, got)
        cfg = r.choice(CFGS)
        a = H.call(lambda: pytrs.Tract(text, parse_qq=True, config=cfg))
        b = H.call(lambda: pytrs.Tract(canon, parse_qq=True, config=cfg))
        n_or += 1
        if isinstance(a, H.Exn) or isinstance(b, H.Exn) or (a.qqs, a.lots, a.pp_desc) != (b.qqs, b.lots, b.pp_desc) or a.pp_desc != canon:
            fail('same_result', {'chain': chain, 'text': text, 'config': cfg}, a if isinstance(a, H.Exn) else [a.pp_desc, a.qqs[:4]],
                 b if isinstance(b, H.Exn) else [b.pp_desc, b.qqs[:4]])
        else:
            if L > 1:
                nontriv.add(text)
            # re-parsing / re-preprocessing changes nothing
            before = (a.pp_desc, list(a.qqs), list(a.lots))
            p2 = a.preprocess(commit=True)
            a.parse()
            if (a.pp_desc, a.qqs, a.lots) != before or p2 != before[0]:
                fail('reparse', {'chain': chain, 'text': text, 'config': cfg}, [a.pp_desc, a.qqs[:4]], before)
    # a half followed by a run of bare quarters (no fraction marker): all are aliquots
    for i in range(60 if tier == 'quick' else 600):
        h = r.choice('NSEW')
        qs = [r.choice(['NE', 'NW', 'SE', 'SW']) for _ in range(r.randint(1, 3))]
        hs = r.choice([h + '2', h + '/2', h + '½', W[h] + ' Half'])
        text = hs
        for q in qs:
            j = r.choice(['', ' ', ' of ', ' of the '])
            if j == '' and text[-1] not in '¼½24' and not text[-1].isupper():
                j = ' '
            text += j + q
        texts.append(text)
        canon = h + '½' + ''.join(q + '¼' for q in qs)
        for cq in (False, True):
            got = H.call(scrub_aliquots, text, cq)
            n_or += 1
            if got != canon:
                fail('half_then_bare_quarters', {'text': text, 'clean_qq': cq}, got, canon)
    # under clean_qq, bare quarters anywhere in a chain (with any joiner) are aliquots: same canonical text, and a fixed point
    for i in range(150 if tier == 'quick' else 1500):
        chain = [r.choice(COMPS) for _ in range(r.choice([2, 2, 3, 3, 4]))]
        text = ''
        for k, c in enumerate(chain):
            sp = c if (len(c) == 2 and r.random() < 0.5) else r.choice(spellings(c))
            if k > 0:
                j = r.choice(JOINERS)
                if j == '' and (text[-1] not in '¼½24' and not (text[-1].isupper() and len(chain[k - 1]) == 2 and sp == c)):
                    j = ' '
                text += j
            text += sp
        texts.append(text)
        canon = ''.join(canon1(c) for c in chain)
        got = H.call(scrub_aliquots, text, True)
        n_or += 1
        if got != canon:
            fail('bare_quarters_clean_qq', {'chain': chain, 'text': text, 'clean_qq': True}, got, canon)
        elif H.call(scrub_aliquots, got, True) != got:
            fail('fixed_point', {'chain': chain, 'text': text, 'clean_qq': True}, H.call(scrub_aliquots, got, True), got)
        else:
            a = H.call(lambda: pytrs.Tract(text, parse_qq=True, config='clean_qq'))
            b = H.call(lambda: pytrs.Tract(canon, parse_qq=True, config='clean_qq'))
            n_or += 1
            if isinstance(a, H.Exn) or isinstance(b, H.Exn) or (a.qqs, a.lots, a.pp_desc) != (b.qqs, b.lots, b.pp_desc):
                fail('same_result', {'chain': chain, 'text': text, 'config': 'clean_qq'}, a if isinstance(a, H.Exn) else [a.pp_desc, a.qqs[:4]], b if isinstance(b, H.Exn) else [b.pp_desc, b.qqs[:4]])
    # a bare quarter is an aliquot only under clean_qq -- also when the same Tract was parsed under clean_qq before
    for q in ['NE', 'NW', 'SE', 'SW']:
        for txt in (q, q + ', Lot 1', 'Lot 2; ' + q):
            for seq in ('config_then_kw', 'kw_then_plain', 'preprocess_then_kw'):
                def go():
                    if seq == 'config_then_kw':
                        t = pytrs.Tract(txt, parse_qq=True, config='clean_qq')
                        t.parse(clean_qq=False)
                    elif seq == 'kw_then_plain':
                        t = pytrs.Tract(txt)
                        t.parse(clean_qq=True)
                        t.parse()
                    else:
                        t = pytrs.Tract(txt)
                        t.preprocess(clean_qq=True, commit=True)
                        t.parse(clean_qq=False)
                    return t
                t = H.call(go)
                ref = H.call(lambda: pytrs.Tract(txt, parse_qq=True))
                n_or += 1
                if isinstance(t, H.Exn) or isinstance(ref, H.Exn) or (t.qqs, t.lots, t.pp_desc) != (ref.qqs, ref.lots, ref.pp_desc) or t.qqs:
                    fail('bare_quarter_after_clean_qq', {'text': txt, 'sequence': seq}, t if isinstance(t, H.Exn) else [t.pp_desc, t.qqs], [txt, []])
    # bare quarters
    for q in ['NE', 'NW', 'SE', 'SW']:
        for ctx in [('', ''), ('', ', Lot 1'), ('Lot 2, ', ''), ('; ', '; ')]:
            t = ctx[0] + q + ctx[1]
            n_or += 3
            if scrub_aliquots(t, False) != t:
                fail('bare_quarter', {'text': t, 'clean_qq': False}, scrub_aliquots(t, False), t)
            if scrub_aliquots(t, True) != ctx[0] + q + '¼' + ctx[1]:
                fail('bare_quarter', {'text': t, 'clean_qq': True}, scrub_aliquots(t, True), ctx[0] + q + '¼' + ctx[1])
            for h in 'NSEW':
                t2 = ctx[0] + h + '/2' + q + ctx[1]
                w2 = ctx[0] + h + '½' + q + '¼' + ctx[1]
                if scrub_aliquots(t2, False) != w2:
                    fail('bare_quarter_after_half', {'text': t2}, scrub_aliquots(t2, False), w2)
    parts = {}
    if mode != 'search':
        parts['model_vs_code'] = tractcorr.run(tier, 'c07', extra_texts=texts[-60:] + texts[:300 if tier == 'quick' else 3000], which=('scrub', 'tract'))
    parts['oracle_on_code'] = {
        'evaluations': n_or, 'distinct_nontrivial': len(nontriv), 'impl_failures': fails, 'n_impl_failures': len(fails), 'distribution': dist,
        'rule': 'random chains (length 1-5) x an independent documented spelling per component x joiner: scrub_aliquots = canonical text under both clean_qq, '
                'second application is the identity, Tract gives the same pp_desc/lots/qqs as for the canonical spelling under every setting, re-preprocess/re-parse '
                'changes nothing; bare quarters only under clean_qq or after a half; non-trivial = chain longer than one',
        'samples': [{'chain': ['N', 'NE', 'SW'], 'text': 'North Half of the NE/4 of SW 1/4'}]}
    return merge(parts)


def replay(rp):
    from pytrs.parser.tract.tract_preprocess import scrub_aliquots
    f = rp['failure']
    d = f['detail']
    got = H.call(scrub_aliquots, d['text'], bool(d.get('clean_qq')))
    print('text:', repr(d['text']), '\n scrub_aliquots now:', repr(got), '\n failure was:', f['kind'], f['got'], 'wanted', f['want'])
    return repr(got)[:300] == f['want']
