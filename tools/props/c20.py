"""C20 plugin: optional parse modes are conservative where they are not needed."""
import os
import sys

sys.path.insert(0, os.path.dirname(os.path.dirname(os.path.abspath(__file__))))
import harness as H
import plssgen as P
from props.common import merge
sys.path.insert(0, os.path.join(os.path.dirname(os.path.dirname(os.path.abspath(__file__))), 'corr'))
import plsscorr


def tr(d):
    return [(t.trs, t.desc) for t in d.tracts]


def run(tier, mode):
    import pytrs
    from pytrs.parser.plssdesc.plss_parse import cleanup_desc
    r = H.rng('c20')
    fails, texts = [], []
    n_or = 0
    nontriv = set()
    dist = {'segment': 0, 'colon_all': 0, 'colon_none': 0, 'sec_within': 0}

    def fail(kind, detail, got, want, known=None):
        fails.append({'kind': kind, 'detail': detail, 'got': repr(got)[:350], 'want': repr(want)[:350], 'known_id': known})
    n = 200 if tier == 'quick' else 3500
    for i in range(n):
        D = P.gen_desc(r)
        layout = P.LAYOUTS[i % 4]
        # the colon after a section reference may be preceded by blanks of any kind and number (the pattern reads `\s*:`)
        text = P.render(r, D, layout, colons=[':', ':', ':', ' :', '\n:', ' \n:', '\n\n:', '\xa0 :', '\t:'] if i % 3 == 0 else None)
        texts.append(text)
        base = H.call(pytrs.PLSSDesc, text)
        if isinstance(base, H.Exn):
            continue
        # ---- segment on a single-layout description
        seg = H.call(pytrs.PLSSDesc, text, config='segment')
        n_or += 1
        dist['segment'] += 1
        if isinstance(seg, H.Exn) or tr(seg) != tr(base):
            # known: a Twp/Rge-first chunk whose text between Twp/Rge and section word is shorter than 4 characters re-deduces its layout
            short = layout == 'TR_desc_S' and any(len(b) < 4 for _, secs in D for _, b in secs[:1])
            fail('segment_changes_tracts', {'text': text, 'layout': layout}, seg if isinstance(seg, H.Exn) else tr(seg), tr(base), 'C20-segment-short-block' if short else None)
        elif len(D) > 1:
            nontriv.add(('segment', text))
        # ---- colon modes
        if layout in ('TRS_desc', 'S_desc_TR'):
            # every section is followed by a colon (that is how these layouts are rendered)
            dist['colon_all'] += 1
            for cfg in ('sec_colon_required', 'sec_colon_cautious'):
                o = H.call(pytrs.PLSSDesc, text, config=cfg)
                n_or += 1
                if isinstance(o, H.Exn) or tr(o) != tr(base) or o.w_flags != base.w_flags:
                    fail('colon_mode_changes_result', {'text': text, 'config': cfg}, o if isinstance(o, H.Exn) else [tr(o), o.w_flags], [tr(base), base.w_flags])
                else:
                    nontriv.add((cfg, text))
            # no section has a colon
            nocolon = text.replace(':', '')
            texts.append(nocolon)
            b2 = H.call(pytrs.PLSSDesc, nocolon)
            c2 = H.call(pytrs.PLSSDesc, nocolon, config='sec_colon_cautious')
            q2 = H.call(pytrs.PLSSDesc, nocolon, config='sec_colon_required')
            n_or += 2
            dist['colon_none'] += 1
            if not isinstance(b2, H.Exn):
                if isinstance(c2, H.Exn) or tr(c2) != tr(b2) or not any(f.startswith('pulled_sec_without_colon') for f in c2.w_flags):
                    fail('cautious_no_colon', {'text': nocolon}, c2 if isinstance(c2, H.Exn) else [tr(c2), c2.w_flags], [tr(b2), 'pulled_sec_without_colon<...>'])
                whole = q2.pp_desc if not isinstance(q2, H.Exn) else None
                if isinstance(q2, H.Exn) or len(q2.tracts) != 1 or q2.tracts[0].desc not in (whole, cleanup_desc(whole)):
                    fail('required_no_colon', {'text': nocolon}, q2 if isinstance(q2, H.Exn) else tr(q2), 'one fallback tract with the whole text')
                else:
                    nontriv.add(('nocolon', nocolon))
                # ... also when the other optional modes are on at the same time
                for extra in ('sec_colon_required,sec_within', 'sec_colon_required,segment', 'sec_colon_required,segment,sec_within'):
                    q3 = H.call(pytrs.PLSSDesc, nocolon, config=extra)
                    n_or += 1
                    if isinstance(q3, H.Exn) or len(q3.tracts) != 1 or q3.tracts[0].desc not in (q3.pp_desc, cleanup_desc(q3.pp_desc)):
                        if len(D) == 1:     # one Twp/Rge: a single chunk also under segment
                            fail('required_no_colon', {'text': nocolon, 'config': extra}, q3 if isinstance(q3, H.Exn) else tr(q3), 'one fallback tract with the whole text')
    # ---- sec_within
    leads = ['That part of the NE/4', 'A strip of land 100 feet wide across the N/2', 'All that portion of the SW/4 lying south of the highway', 'The East 80 rods']
    trails = ['lying within the right-of-way', 'being a part of the original townsite', 'described in Book 12, Page 45', 'containing 12.5 acres, more or less']
    m = 120 if tier == 'quick' else 2000
    for i in range(m):
        lead, trail = r.choice(leads), r.choice(trails)
        g = P.gen_secgroup(r)
        secs = P.expand_secs(g)
        sec_txt = P.render_secgroup(r, g)
        t, ns, rg, ew = r.choice([1, 7, 154, 99]), r.choice('ns'), r.choice([1, 3, 97, 101]), r.choice('ew')
        trt = P.twprge_spellings(t, ns, rg, ew)[r.choice([0, 1, 2, 5])]
        place = i % 4
        mid = r.choice(['being a part of the original grant', 'situated in Williams County', 'as shown on the plat'])
        want_desc = f'{lead} {trail}'
        if place == 3:      # Twp/Rge inside, with text on both sides of it after the section
            text = f'{lead} of {sec_txt}, {mid}, {trt}, {trail}'
            want_desc = f'{lead} {mid} {trail}'
        elif place == 0:      # Twp/Rge before
            text = f'{trt}, {lead} of {sec_txt}, {trail}'
        elif place == 1:    # Twp/Rge inside (right after the section)
            text = f'{lead} of {sec_txt}, {trt}, {trail}'
        else:               # Twp/Rge after
            text = f'{lead} of {sec_txt}, {trail}, {trt}'
        texts.append(text)
        o = H.call(pytrs.PLSSDesc, text, config='sec_within')
        n_or += 1
        dist['sec_within'] += 1
        want = [(f'{t}{ns}{rg}{ew}{x:02d}', want_desc) for x in secs]
        if isinstance(o, H.Exn) or tr(o) != want or sum(f.startswith('sec_within<') for f in o.w_flags) != len(secs):
            fail('sec_within', {'text': text, 'placement': ['before', 'inside', 'after', 'inside_with_text'][place]}, o if isinstance(o, H.Exn) else [tr(o), o.w_flags], [want, 'sec_within<...> x%d' % len(secs)])
        else:
            nontriv.add(('within', text))
            # segment is conservative here too: one Twp/Rge, one layout
            o2 = H.call(pytrs.PLSSDesc, text, config='segment,sec_within')
            n_or += 1
            if isinstance(o2, H.Exn) or tr(o2) != tr(o):
                fail('segment_changes_tracts', {'text': text, 'config': 'segment,sec_within'}, o2 if isinstance(o2, H.Exn) else tr(o2), tr(o))
    parts = {}
    if mode != 'search':
        parts['model_vs_code'] = plsscorr.run(tier, 'c20', extra_texts=texts[:100 if tier == 'quick' else 1200] + texts[-60:],
                                              configs=['segment', 'sec_within', 'sec_colon_required', 'sec_colon_cautious', 'segment,sec_within', ''],
                                              functions=False, n=20 if tier == 'quick' else 200)
    parts['oracle_on_code'] = {
        'evaluations': n_or, 'distinct_nontrivial': len(nontriv), 'impl_failures': fails, 'n_impl_failures': len(fails), 'distribution': dist,
        'rule': 'single-layout descriptions of C01 x segment (same tracts); colon-first layouts with every colon present x both colon modes (nothing changes) and with every colon '
                'removed (cautious = default + warning, required = one whole-text tract); (leading text, section or multi-section, trailing text, Twp/Rge before/inside/after) x '
                'sec_within (tracts of that section described by lead + trail, with a sec_within warning each); non-trivial = the situation occurred and held',
        'samples': [{'text': 'That part of the NE/4 of Sec 13, T154N-R97W, lying within the right-of-way', 'config': 'sec_within'}]}
    return merge(parts)


def replay(rp):
    import pytrs
    f = rp['failure']
    d = f['detail']
    cfg = d.get('config') or {'segment_changes_tracts': 'segment', 'cautious_no_colon': 'sec_colon_cautious', 'required_no_colon': 'sec_colon_required', 'sec_within': 'sec_within'}.get(f['kind'])
    o = H.call(pytrs.PLSSDesc, d['text'], config=cfg)
    got = o if isinstance(o, H.Exn) else [tr(o), o.w_flags]
    print('text:', repr(d['text']), 'config:', cfg, '\n observed:', got, '\n wanted:', f['want'])
    return False
