"""C06 plugin: compositional tract parsing.  (1) model vs code on tract texts, (2) metamorphic
oracle on the real code: the whole equals the concatenation of what each element yields alone."""
import os
import sys

sys.path.insert(0, os.path.dirname(os.path.dirname(os.path.abspath(__file__))))
import harness as H
from props.common import merge
sys.path.insert(0, os.path.join(os.path.dirname(os.path.dirname(os.path.abspath(__file__))), 'corr'))
import tractcorr

HALF = ['N/2', 'S/2', 'E/2', 'W/2', 'N½', 'S2']
QUARTER = ['NE/4', 'NW/4', 'SE/4', 'SW/4', 'NE¼', 'SW 1/4']
SEPS = [', ', '; ', ';', ',', ' ; ', ',  ']


def gen_element(r, used):
    """(text, kind, ends_in_aliquot). Lot numbers are kept distinct across elements via `used`."""
    def fresh(k=1):
        base = max(used) + 1 if used else 1
        nums = list(range(base, base + k))
        used.update(nums)
        return nums
    k = r.random()
    if k < 0.15:
        n, = fresh()
        return f'Lot {H.numstr(r, n)}', 'lot', False
    if k < 0.3:
        ns = fresh(r.randint(2, 4))
        return f'Lots {H.numstr(r, ns[0])} {r.choice(["-", "through", "thru"])} {H.numstr(r, ns[-1])}', 'lotrange', False
    if k < 0.45:
        n, = fresh()
        ac = r.choice(['40.00', '38.29', '39', '160'])
        n = H.numstr(r, n, p_alt=0.2, p_zero=0.2)      # '07', '007', other-script digits: int() reads them all as 7
        return (f'Lot {n}({ac})' if r.random() < 0.5 else f'Lot {n} [{ac}]'), 'lotacre', False
    if k < 0.6:
        ns = fresh(r.randint(1, 3))
        aq = r.choice(HALF + QUARTER)
        lots = f'Lot {H.numstr(r, ns[0])}' if len(ns) == 1 else r.choice([f'Lots {H.numstr(r, ns[0])} - {H.numstr(r, ns[-1])}', f'Lot {ns[0]} - Lot {ns[-1]}', f'L{ns[0]} thru L{ns[-1]}', f'Lot {ns[0]} through Lot {ns[-1]}'])
        return f'{aq} of {lots}', 'lotdiv', False
    if k < 0.9:
        chain = ''.join(r.choice(['', '', ' of the ', ' ']).join([r.choice(HALF + QUARTER) for _ in range(r.randint(1, 2))] + [r.choice(QUARTER)]))
        return chain, 'aliquot', True
    return r.choice(HALF), 'aliquot', True


def observe(pytrs, text, cfg):
    t = H.call(pytrs.Tract, text, parse_qq=True, config=cfg)
    if isinstance(t, H.Exn):
        return t
    return {'lots': t.lots, 'qqs': t.qqs, 'acres': dict(t.lot_acres), 'lots_qqs': t.lots_qqs, 'ilots': t.ilots, 'w_flags': t.w_flags,
            'aliquots_whole': t.aliquots_whole}


def run(tier, mode):
    import pytrs
    r = H.rng('c06')
    fails = []
    n_or = 0
    nontriv = set()
    dist = {}
    texts = []

    def fail(kind, detail, got, want, known=None):
        fails.append({'kind': kind, 'detail': detail, 'got': repr(got)[:300], 'want': repr(want)[:300], 'known_id': known})
    n = 250 if tier == 'quick' else 3000
    for i in range(n):
        used = set()
        els = [gen_element(r, used) for _ in range(r.randint(2, 5))]
        if r.random() < 0.15:
            els.append(('ALL', 'all', True))
        if r.random() < 0.25:              # a deliberate duplicate
            j = r.randrange(len(els))
            if els[j][1] != 'all':
                els.insert(r.randrange(len(els) + 1), els[j])
        seps = [r.choice(SEPS + (['\n'] if r.random() < 0.2 else [])) for _ in els[:-1]]
        text = els[0][0] + ''.join(s_ + e[0] for s_, e in zip(seps, els[1:]))
        cfg = r.choice([None, None, 'suppress_lot_divs', 'qq_depth_min.1', 'clean_qq', 'qq_depth.1', 'break_halves'])
        texts.append(text)
        whole = observe(pytrs, text, cfg)
        singles = [observe(pytrs, e[0], cfg) for e in els]
        n_or += 1
        for e in els:
            dist[e[1]] = dist.get(e[1], 0) + 1
        nl_after_aliquot = any(s_ == '\n' and e[2] for s_, e in zip(seps, els[:-1]))
        all_not_last = any(e[1] == 'all' for e in els[:-1])
        known = 'C06-newline' if nl_after_aliquot else ('C06-all-context' if all_not_last else None)
        detail = {'text': text, 'elements': [e[0] for e in els], 'config': cfg}
        if isinstance(whole, H.Exn) or any(isinstance(s_, H.Exn) for s_ in singles):
            fail('exception', detail, whole, 'no exception', None)
            continue
        # an aliquot written directly before a lot group qualifies EVERY lot of the group (unless divisions are suppressed) -- also when the range repeats the word 'Lot'
        for e, s_ in zip(els, singles):
            if e[1] == 'lotdiv' and cfg != 'suppress_lot_divs' and not all(' of L' in x for x in s_['lots']):
                fail('lot_division_incomplete', {'text': e[0], 'config': cfg}, s_['lots'], 'every lot of the group qualified by the aliquot')
        want_lots = sum((s_['lots'] for s_ in singles), [])
        want_qqs = sum((s_['qqs'] for s_ in singles), [])
        want_acres = {}
        for s_ in singles:
            want_acres.update(s_['acres'])
        bad = None
        if whole['lots'] != want_lots:
            bad = ('lots', whole['lots'], want_lots)
        elif whole['qqs'] != want_qqs:
            bad = ('qqs', whole['qqs'], want_qqs)
        elif whole['acres'] != want_acres:
            bad = ('lot_acres', whole['acres'], want_acres)
        elif not set(whole['acres']) <= {x.split(' of ')[-1] for x in whole['lots']}:
            bad = ('lot_acres_keys', whole['acres'], 'every acreage attributed to one of the reported lots ' + repr(whole['lots']))
        elif whole['lots_qqs'] != whole['lots'] + whole['qqs']:
            bad = ('lots_qqs', whole['lots_qqs'], whole['lots'] + whole['qqs'])
        elif whole['ilots'] != [int(x.split('L')[-1]) for x in whole['lots']]:
            bad = ('ilots', whole['ilots'], whole['lots'])
        else:
            dl = len(set(whole['lots'])) < len(whole['lots'])
            dq = len(set(whole['qqs'])) < len(whole['qqs'])
            fl = any(f.startswith('dup_lot<') for f in whole['w_flags'])
            fq = any(f.startswith('dup_qq<') for f in whole['w_flags'])
            if dl != fl:
                bad = ('dup_lot_flag', whole['w_flags'], 'dup_lot present' if dl else 'no dup_lot')
            elif dq != fq:
                bad = ('dup_qq_flag', whole['w_flags'], 'dup_qq present' if dq else 'no dup_qq')
        if bad:
            fail(bad[0], detail, bad[1], bad[2], known)
        elif len(els) > 2:
            nontriv.add(text)
    # direct expectations (not metamorphic): acreage attribution and lot divisions
    direct = [('Lot 1(40.1), Lot 2 [39]', None, ['L1', 'L2'], {'L1': '40.1', 'L2': '39'}),
              ('N/2 of Lots 1 - 3 and Lot 5', None, ['N2 of L1', 'N2 of L2', 'N2 of L3', 'L5'], {}),
              ('N/2 of Lots 1 - 3 and Lot 5', 'suppress_lot_divs', ['L1', 'L2', 'L3', 'L5'], {}),
              ('Lot 7(40), NE/4 of Lot 8[160]; Lot 9', None, ['L7', 'NE of L8', 'L9'], {'L7': '40', 'L8': '160'}),
              ('Lot 01(40.00)', None, ['L1'], {'L1': '40.00'}), ('N/2 of Lot 1 - Lot 3', None, ['N2 of L1', 'N2 of L2', 'N2 of L3'], {}),
              ('N/2 of L1 thru L3, NE/4', None, ['N2 of L1', 'N2 of L2', 'N2 of L3'], {}), ('Lot 1, Lot 02 [38.5]; NE/4', None, ['L1', 'L2'], {'L2': '38.5'}),
              ('Lot \u0663(40)', None, ['L3'], {'L3': '40'}), ('N/2 of Lot 007(12.5)\nLot 8', None, ['N2 of L7', 'L8'], {'L7': '12.5'})]
    for text, cfg, lots, acres in direct:
        o = observe(pytrs, text, cfg)
        n_or += 1
        if isinstance(o, H.Exn) or o['lots'] != lots or o['acres'] != acres:
            fail('direct', {'text': text, 'config': cfg}, o if isinstance(o, H.Exn) else [o['lots'], o['acres']], [lots, acres])
    # settings given to parse(): an explicit keyword (False included) beats the configured value, and a commit=False parse with other
    # settings leaves the tract's own duplicate warnings exactly as they were (present iff ITS lots/aliquots repeat)
    for text in ['N/2 of Lot 1, S/2 of Lot 1', 'N/2 of Lot 1, Lot 3, E/2SW/4 of Lots 7 - 8', 'N/2NE/4NE/4, S/2NE/4NE/4', 'Lot 1, NE/4 of Lot 2; W/2']:
        for conf in [None, 'suppress_lot_divs', 'suppress_lot_divs.False']:
            for kw in [None, True, False]:
                t = H.call(pytrs.Tract, text, config=conf)
                if isinstance(t, H.Exn):
                    continue
                got = H.call(lambda: t.parse(commit=True, **({} if kw is None else {'suppress_lot_divs': kw})))
                eff = kw if kw is not None else (conf == 'suppress_lot_divs')
                ref = observe(pytrs, text, 'suppress_lot_divs' if eff else None)
                n_or += 1
                if isinstance(got, H.Exn) or isinstance(ref, H.Exn) or t.lots != ref['lots'] or t.qqs != ref['qqs']:
                    fail('keyword_suppress_lot_divs', {'text': text, 'config': conf, 'keyword': kw}, got if isinstance(got, H.Exn) else [t.lots, t.qqs], [ref['lots'], ref['qqs']] if not isinstance(ref, H.Exn) else ref)
        t = H.call(pytrs.Tract, text, parse_qq=True)
        if not isinstance(t, H.Exn):
            before = (list(t.w_flags), list(t.lots), list(t.qqs))
            for kws in [{'suppress_lot_divs': True}, {'qq_depth': 2}, {'qq_depth_min': 1}, {'clean_qq': True}]:
                H.call(lambda: t.parse(commit=False, **kws))
                n_or += 1
                after = (list(t.w_flags), list(t.lots), list(t.qqs))
                if after != before:
                    fail('dup_flag_after_uncommitted_parse', {'text': text, 'keywords': kws}, after[0], before[0])
                    break
    # the two known findings are probed explicitly so that they are reported on every run
    for text, kid, want in [('NE/4\nLot 1', 'C06-newline', (['L1'], 4)), ('ALL, Lot 1', 'C06-all-context', (['L1'], 16))]:
        o = observe(pytrs, text, None)
        n_or += 1
        if isinstance(o, H.Exn) or (o['lots'], len(o['qqs'])) != want:
            fail('known_probe', {'text': text}, o if isinstance(o, H.Exn) else (o['lots'], len(o['qqs'])), want, kid)
    parts = {}
    if mode != 'search':
        parts['model_vs_code'] = tractcorr.run(tier, 'c06', extra_texts=texts[:300 if tier == 'quick' else 3000], which=('tract', 'lot'))
    parts['oracle_on_code'] = {
        'evaluations': n_or, 'distinct_nontrivial': len(nontriv), 'impl_failures': fails, 'n_impl_failures': len(fails), 'distribution': dist,
        'rule': 'sequences of 2-6 elements (single lot | lot range | lot with (acreage)/[acreage] | aliquot-of-lots | aliquot chain | ALL, deliberate repeats) '
                'joined by comma/semicolon/newline x settings; whole-description lots/qqs/lot_acres must equal the concatenation of the elements parsed alone, '
                'lots_qqs = lots+qqs, ilots mirrors lots, dup_lot/dup_qq present iff a repeat; non-trivial = more than two elements',
        'samples': [{'text': 'Lots 1 - 3, NE/4, N/2 of Lot 5; S/2SW/4'}]}
    return merge(parts)


def replay(rp):
    import pytrs
    f = rp['failure']
    d = f['detail']
    whole = observe(pytrs, d['text'], d.get('config'))
    print('text:', repr(d['text']), 'config:', d.get('config'), '\n observed:', whole, '\n failure was:', f['kind'], f['got'], 'wanted', f['want'])
    return False if isinstance(whole, H.Exn) else repr(whole.get(f['kind'], None))[:300] != f['got']
