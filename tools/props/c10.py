"""C10 plugin: flags are well-typed, shared with tracts, and raised whenever warranted."""
import os
import sys

sys.path.insert(0, os.path.dirname(os.path.dirname(os.path.abspath(__file__))))
import harness as H
import textgen as G
import plssgen as P
from props.common import merge
from props.c03 import rand_config, TRICKY
sys.path.insert(0, os.path.join(os.path.dirname(os.path.dirname(os.path.abspath(__file__))), 'corr'))
import plsscorr

# trigger phrase -> flag
TRIGGERS = [('less and except', 'less_except', 'less and except'), ('Less & Except', 'less_except', 'less'), ('excepting', 'less_except', 'except'),
            ('insofar as', 'insofar', 'insofar'), ('only insofar', 'insofar', 'only insofar'), ('in so far as', 'insofar', 'in so far'),
            ('including', 'including', 'incl'), ('surface to the base of', 'depth', 'surface'), ('limited to depths', 'depth', 'depths'),
            ('wellbore', 'well', 'wellbore'), ('well bore', 'well', 'well'), ('the Johnston #1 well', 'well', 'well'), ('from the top of the', 'depth', 'top'),
            # the same wording with blanks and letters that only Unicode-aware `\s` / IGNORECASE accept: no-break and thin spaces, long s, dotted capital I
            ('in\u00a0so\u00a0far as', 'insofar', 'far'), ('only in\u2009so far as', 'insofar', 'far'), ('in\u017fofar as', 'insofar', 'ofar'),
            ('\u0130NSOFAR AS', 'insofar', 'nsofar'), ('le\u017fs and except', 'less_except', 'and except'),
            # inflected and compound forms of the trigger words (the patterns match inside a word)
            ('limited to the Three Forks formations', 'depth', 'formations'), ('subsurface rights only', 'depth', 'subsurface'), ('all surfaces excluded', 'depth', 'surfaces'),
            ('excepted therefrom', 'less_except', 'except')]


def typed_ok(obj):
    """flags are lists of str paired one-to-one with (str, str) tuples"""
    for fl, ll in (('w_flags', 'w_flag_lines'), ('e_flags', 'e_flag_lines')):
        f, l = getattr(obj, fl), getattr(obj, ll)
        if not isinstance(f, list) or not all(isinstance(x, str) for x in f):
            return (fl + '_not_strings', repr(f)[:200])
        if not isinstance(l, list) or not all(isinstance(x, tuple) and len(x) == 2 and isinstance(x[0], str) and isinstance(x[1], str) for x in l):
            return (ll + '_not_pairs', repr(l)[:200])
        if [x[0] for x in l] != f:
            return (fl + '_not_paired', repr((f, l))[:300])
    return None


def check_desc(d, tracts):
    bad = typed_ok(d)
    if bad:
        return ('desc_' + bad[0], bad[1])
    for k, t in enumerate(tracts):
        bad = typed_ok(t)
        if bad:
            return ('tract_' + bad[0], (k, bad[1]))
        for fl in ('w_flags', 'e_flags', 'w_flag_lines', 'e_flag_lines'):
            have = getattr(t, fl)
            for x in getattr(d, fl):
                if x not in have:
                    return ('not_handed_down', (k, fl, repr(x)[:120]))
    if d.desc_is_flawed != bool(d.e_flags):
        return ('desc_is_flawed', (d.desc_is_flawed, d.e_flags))
    if any(t.trs_is_error() for t in tracts) and 'twprge_error' not in d.e_flags:
        return ('error_tract_unflagged', [t.trs for t in tracts])
    return None


def run(tier, mode):
    import pytrs
    r = H.rng('c10')
    fails, texts = [], []
    n_or = 0
    nontriv = set()
    dist = {'checked': 0, 'with_flags': 0, 'triggers': 0}
    n = 400 if tier == 'quick' else 6000
    pool = list(TRICKY) + ['T154N-R97W Sec 14 NE/4', 'NE/4 of Section 4 of T155N-R98W, Sec 14: NE/4, T154N-R97W', 'T154N-R97W Section 4 of T155N-R98W: NE/4',
                           'T154-R97 Sec 14: Lots 1 - 3, Lot 1, Lots 5 - 4', 'T154N-R97W Sec 14: NE/4 T155N-R97W']
    for i in range(n):
        k = r.random()
        t = pool[i] if i < len(pool) else (P.render(r, P.gen_desc(r), r.choice(P.LAYOUTS)) if k < 0.35 else G.damage(r, G.structured_desc(r)) if k < 0.7 else G.any_text(r))
        texts.append(t)
        cfg = rand_config(r) if i % 3 else r.choice(['sec_colon_cautious', 'sec_colon_cautious,parse_qq', 'sec_colon_required', ''])
        d = H.call(lambda: pytrs.PLSSDesc(t, config=cfg))
        n_or += 1
        if isinstance(d, H.Exn):
            continue
        dist['checked'] += 1
        dist['with_flags'] += bool(d.w_flags or d.e_flags)
        seqs = [('init', lambda: d.tracts)]
        if i % 2 == 0:
            seqs.append(('parse_tracts', lambda: (d.parse_tracts(), d.tracts)[1]))
            seqs.append(('parse_commit_false', lambda: d.parse(commit=False, parse_qq=True)))
        for nm, f in seqs:
            tl = H.call(f)
            if isinstance(tl, H.Exn):
                continue
            bad = check_desc(d, tl)
            if bad:
                fails.append({'kind': bad[0], 'detail': {'text': t, 'config': cfg, 'via': nm}, 'got': repr(bad[1])[:300], 'want': 'typed, paired, handed down, flawed iff e_flags', 'known_id': None})
                break
        else:
            if d.w_flags or d.e_flags:
                nontriv.add((t, cfg))
    # trigger phrases inside generated descriptions
    m = 150 if tier == 'quick' else 2500
    for i in range(m):
        D = P.gen_desc(r, max_groups=2, max_secs=2, blocks=['NE/4', 'W/2', 'Lots 1 - 3', 'That part of the N/2 lying north of the river'])
        layout = r.choice(P.LAYOUTS)
        phrase, flag, core = r.choice(TRIGGERS)
        # put the phrase inside one block (at its end, with some following words)
        gi = r.randrange(len(D))
        si = r.randrange(len(D[gi][1]))
        g, b = D[gi][1][si]
        tail = r.choice(['', ' the north 10 acres', ' depths below 5000 feet'])
        pos = r.choice(['end', 'start', 'pad'])
        nb = f'{b}, {phrase}{tail}' if pos == 'end' else (f'{phrase}{tail} {b}' if pos == 'start' else f'{b} ' + 'x' * r.randint(0, 45) + f' {phrase}{tail}')
        D[gi][1][si] = (g, nb)
        text = P.render(r, D, layout)
        cfg = r.choice(['', 'segment', 'sec_within', 'parse_qq', 'sec_colon_required', 'sec_colon_cautious', 'copy_all'])
        if cfg == 'sec_colon_required' and r.random() < 0.7:
            text = text.replace(':', '')     # every section rejected: the chunk is re-run as copy_all -- the warnings must survive
        texts.append(text)
        d = H.call(lambda: pytrs.PLSSDesc(text, config=cfg))
        n_or += 1
        dist['triggers'] += 1
        if isinstance(d, H.Exn):
            continue
        words = core
        ctxs = [c.lower() for f_, c in d.w_flag_lines if f_ == flag]
        if flag not in d.w_flags:
            fails.append({'kind': 'trigger_not_flagged', 'detail': {'text': text, 'config': cfg, 'phrase': phrase, 'flag': flag}, 'got': repr(d.w_flags)[:200], 'want': flag, 'known_id': None})
        elif not any(words in c for c in ctxs):
            fails.append({'kind': 'trigger_not_in_context', 'detail': {'text': text, 'config': cfg, 'phrase': core, 'flag': flag}, 'got': repr(ctxs)[:300], 'want': words, 'known_id': None})
        else:
            nontriv.add((text, cfg))
    parts = {}
    if mode != 'search':
        parts['model_vs_code'] = plsscorr.run(tier, 'c10', extra_texts=texts[:120 if tier == 'quick' else 1500] + texts[-80:],
                                              configs=['', 'sec_colon_cautious', 'segment', 'sec_within', 'parse_qq', 'sec_colon_required', 'sec_colon_cautious,segment,parse_qq'],
                                              functions=False, n=30 if tier == 'quick' else 300)
    parts['oracle_on_code'] = {
        'evaluations': n_or, 'distinct_nontrivial': len(nontriv), 'impl_failures': fails, 'n_impl_failures': len(fails), 'distribution': dist,
        'rule': 'rendered/damaged/soup texts x random configurations (colon-cautious second pass, ignored Twp/Rge, fallback chunks included), after init, parse_tracts() and '
                'parse(commit=False): flag lists are lists of str paired with (str,str) tuples on the description and every tract, every description flag is on every tract, '
                'desc_is_flawed iff e_flags, error tract => twprge_error; plus trigger phrases placed in generated descriptions must raise their warning with the words in '
                'the context; non-trivial = a flag was present',
        'samples': [{'text': 'T154N-R97W Sec 14 NE/4', 'config': 'sec_colon_cautious'}, {'phrase': 'less and except', 'flag': 'less_except'}]}
    return merge(parts)


def replay(rp):
    import pytrs
    f = rp['failure']
    d = f['detail']
    o = H.call(lambda: pytrs.PLSSDesc(d['text'], config=d['config']))
    if isinstance(o, H.Exn):
        print(o)
        return True
    bad = check_desc(o, o.tracts)
    print('text:', repr(d['text']), d['config'], '\n w_flags:', o.w_flags, '\n w_flag_lines:', o.w_flag_lines, '\n e_flags:', o.e_flags, '\n problem now:', bad)
    if f['kind'].startswith('trigger'):
        return d['flag'] in o.w_flags and any(d['phrase'].lower() in c.lower() for f_, c in o.w_flag_lines if f_ == d['flag'])
    return bad is None
