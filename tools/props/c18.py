"""C18 plugin: filter / filter_errors / filter_duplicates / group_by / group_by_nested /
unpack_group / construction paths.  (1) model vs code, (2) the code judged by an independent
statement of the property."""
import itertools
import os
import re
import sys

sys.path.insert(0, os.path.dirname(os.path.dirname(os.path.abspath(__file__))))
import harness as H
from props.common import merge

TRSS = ['154n97w14', '154n97w01', '155n97w14', '154n97w14', '1s2e01', 'XXXzXXXzXX', '154nXXXz01', '154n97wXX',
        '___z___z__', '154n___z14', '154n97w__', 'XXXz97w__']
DESCS = ['NE/4', 'Lots 1 - 3, S/2N/2', 'NE/4 ', 'W/2', 'Lot 1, Lot 1']
STD = re.compile(r'(\d{1,3}[ns]|XXXz|___z)(\d{1,3}[ew]|XXXz|___z)(\d{2}|XX|__)')


def build(pytrs, r, kind, n):
    """A list with repeated instances, equal TRS, parsed and unparsed tracts."""
    pool = []
    for _ in range(max(2, n // 2 + 1)):
        trs = r.choice(TRSS)
        if kind == 'tract':
            pool.append(pytrs.Tract(r.choice(DESCS), trs=trs, parse_qq=r.random() < 0.6))
        else:
            pool.append(pytrs.TRS(trs))
    elems = [r.choice(pool) for _ in range(n)]
    if kind == 'tract' and r.random() < 0.3:
        # tracts of one section whose DIFFERENT aliquot lists run together to the same string ('NENE'+'SWSWSW' = 'NENESW'+'SWSW'), plus a true duplicate
        trs0 = r.choice(TRSS)
        extra = [pytrs.Tract(d_, trs=trs0, parse_qq=True) for d_ in ('NE/4NE/4, SW/4SW/4SW/4', 'NE/4NE/4SW/4, SW/4SW/4', 'SW/4SW/4SW/4, NE/4NE/4')]
        elems = elems[:max(0, n - 3)] + extra
        r.shuffle(elems)
    cls = pytrs.TractList if kind == 'tract' else pytrs.TRSList
    return cls(elems), elems


def ids_of(lst, elems):
    """positions (first index of the identical object) -- used only to name elements"""
    return [next(i for i, e in enumerate(elems) if e is x) for x in lst]


def positions(result, elems_positions):
    return result


# ---------------------------------------------------------------- spec helpers

def comp_state(trs):
    mo = STD.fullmatch(trs)
    if not mo:
        return ('err', 'err', 'err')
    out = []
    for g in mo.groups():
        out.append('err' if g[0] == 'X' else 'undef' if g[0] == '_' else 'ok')
    return tuple(out)


def spec_filter_errors(elems, twp, rge, sec, undef):
    sel = []
    for e in elems:
        st = comp_state(e.trs)
        want = [s for s, on in zip(st, (twp, rge, sec)) if on]
        sel.append(('err' in want) or (undef and 'undef' in want))
    return sel


def dup_keys(pytrs, e, method, kind):
    """(hash, derived key) by the documented meaning of each method."""
    h = ('I%d' % id(e)) if isinstance(e, pytrs.Tract) else 'T' + e.trs
    if method == 'default':
        method = 'instance' if kind == 'tract' else 'trs'
    if method == 'instance':
        return h, None, True
    if method == 'lots_qqs':
        if not isinstance(e, pytrs.Tract) or not e.parse_complete:
            return h, None, False
        return h, 'K%s_%s' % (e.trs, sorted(set(e.lots_qqs))), False
    if method == 'desc':
        if isinstance(e, pytrs.Tract):
            return h, 'K%s_%s' % (e.trs, e.pp_desc.strip()), False
        return h, 'K' + e.trs, False
    return h, 'K' + e.trs, False


def spec_dups(pytrs, elems, method, kind):
    seen_h, seen_k, sel = set(), set(), []
    for e in elems:
        h, k, _ = dup_keys(pytrs, e, method, kind)
        d = h in seen_h or (k is not None and k in seen_k)
        seen_h.add(h)
        if k is not None:
            seen_k.add(k)
        sel.append(d)
    return sel


def render(v):
    return repr(v)


ATTRS = ['twprge', 'sec', 'trs', 'twp', 'rge', 'sec_num', 'twp_ns', 'nonexistent_attr']


def flatten_group(d, path=()):
    out = []
    for k, v in d.items():
        if isinstance(v, dict):
            out += flatten_group(v, path + (k,))
        else:
            out.append((path + (k,), v))
    return out


def run(tier, mode):
    import pytrs
    r = H.rng('c18')
    cases, fails = [], []
    n_or = 0
    nontriv = set()
    dist = {}

    def fail(kind, detail, got, want, known=None):
        fails.append({'kind': kind, 'detail': detail, 'got': repr(got)[:300], 'want': repr(want)[:300], 'known_id': known})

    def bump(k):
        dist[k] = dist.get(k, 0) + 1
    nlists = 40 if tier == 'quick' else 400
    for li in range(nlists):
        kind = 'tract' if li % 2 == 0 else 'trs'
        n = r.randint(0, 9)
        # ---- filter(key, drop)
        for drop in (False, True):
            lst, elems = build(pytrs, r, kind, n)
            pos = list(range(len(elems)))
            marks = [r.random() < 0.5 for _ in elems]
            tag = {}
            # key by position: wrap elements through a parallel walk (filter passes elements, so use identity+counter)
            it = iter(marks)
            # (the predicate answers by position, once per element: a filter that asks twice, or out of order, is caught -- possibly by running the iterator dry)
            got = H.call(lambda: lst.filter(lambda x: next(it, False), drop=drop))
            sel_pos = [i for i, m_ in enumerate(marks) if m_]
            rem_pos = [i for i, m_ in enumerate(marks) if not m_] if drop else pos
            ok = (not isinstance(got, H.Exn) and len(got) == len(sel_pos) and all(g is elems[i] for g, i in zip(got, sel_pos))
                  and len(lst) == len(rem_pos) and all(g is elems[i] for g, i in zip(lst, rem_pos))
                  and type(got) is type(lst))
            n_or += 1
            bump('filter')
            if not ok:
                fail('filter', {'marks': marks, 'drop': drop, 'kind': kind}, got if isinstance(got, H.Exn) else [ids_of(got, elems), ids_of(lst, elems)], [sel_pos, rem_pos])
            if mode != 'search':
                cases.append((H.req('filter', marks, drop), H.canon((sel_pos if ok else ['?'], rem_pos if ok else ['?'])),
                              {'fn': 'filter', 'marks': marks, 'drop': drop}))
        # ---- filter_errors
        for drop in (False, True):
            lst, elems = build(pytrs, r, kind, n)
            twp, rge, sec, undef = (r.random() < 0.7, r.random() < 0.7, r.random() < 0.7, r.random() < 0.5)
            got = H.call(lst.filter_errors, twp=twp, rge=rge, sec=sec, undef=undef, drop=drop)
            sel = spec_filter_errors(elems, twp, rge, sec, undef)
            want_sel = [e for e, s_ in zip(elems, sel) if s_]
            want_rem = [e for e, s_ in zip(elems, sel) if not s_] if drop else elems
            n_or += 1
            bump('filter_errors')
            if isinstance(got, H.Exn) or not (len(got) == len(want_sel) and all(a is b for a, b in zip(got, want_sel))
                                              and len(lst) == len(want_rem) and all(a is b for a, b in zip(lst, want_rem))):
                fail('filter_errors', {'trs': [e.trs for e in elems], 'args': [twp, rge, sec, undef, drop]},
                     got if isinstance(got, H.Exn) else [e.trs for e in got], [e.trs for e in want_sel])
        # ---- filter_duplicates
        for method in ['default', 'instance', 'lots_qqs', 'desc', 'trs']:
            for drop in (False, True):
                lst, elems = build(pytrs, r, kind, n)
                keys = [dup_keys(pytrs, e, method, kind) for e in elems]
                only_inst = keys[0][2] if keys else (method == 'instance' or (method == 'default' and kind == 'tract'))
                sel = spec_dups(pytrs, elems, method, kind)
                got = H.call(lst.filter_duplicates, method=method, drop=drop)
                want_sel = [i for i, s_ in enumerate(sel) if s_]
                want_rem = [i for i, s_ in enumerate(sel) if not s_] if drop else list(range(len(elems)))
                n_or += 1
                bump('filter_duplicates')
                if isinstance(got, H.Exn):
                    obs = got
                    good = False
                else:
                    good = (len(got) == len(want_sel) and all(g is elems[i] for g, i in zip(got, want_sel))
                            and len(lst) == len(want_rem) and all(g is elems[i] for g, i in zip(lst, want_rem)))
                    obs = None if good else [[e.trs for e in got], len(lst)]
                if not good:
                    fail('filter_duplicates', {'method': method, 'drop': drop, 'kind': kind, 'trs': [e.trs for e in elems],
                                               'same_instance_as': ids_of(elems, elems),
                                               'parsed': [getattr(e, 'parse_complete', None) for e in elems]}, obs, [want_sel, want_rem])
                if any(sel):
                    nontriv.add(('dup', method, tuple(sel)))
                if mode != 'search' and good:
                    cases.append((H.req('filter_duplicates', only_inst, drop, [(h, k) for h, k, _ in keys]),
                                  H.canon((want_sel, want_rem)), {'fn': 'filter_duplicates', 'method': method, 'drop': drop}))
        # ---- group_by / group_by_nested / unpack_group
        for na in (1, 2, 3):
            lst, elems = build(pytrs, r, kind, n)
            attrs = r.sample(ATTRS, na)
            rows = [[render(getattr(e, a, f'{a}: n/a')) for a in attrs] for e in elems]
            arg = attrs if (na > 1 or r.random() < 0.5) else attrs[0]
            g1 = H.call(lst.group_by, arg)
            g2 = H.call(lst.group_by_nested, arg)
            # spec: ordered dict keyed by the tuple of attribute values
            spec = {}
            for i, e in enumerate(elems):
                spec.setdefault(tuple(getattr(e, a, f'{a}: n/a') for a in attrs), []).append(i)
            want = [(k, v) for k, v in spec.items()]
            for name, g in (('group_by', g1), ('group_by_nested', g2)):
                n_or += 1
                bump(name)
                if isinstance(g, H.Exn):
                    fail(name, {'attrs': attrs, 'trs': [e.trs for e in elems]}, g, 'a dict')
                    continue
                if name == 'group_by':
                    flat = [((k if isinstance(k, tuple) and isinstance(arg, list) and na > 1 else (k,)), v) for k, v in g.items()]
                else:
                    flat = flatten_group(g)
                # compare as a mapping key -> identity sequence (dict key order is not part of the property)
                okg = len(flat) == len(want) and len({tuple(k) for k, _ in flat}) == len(flat)
                if okg:
                    for k, v in flat:
                        wv = spec.get(tuple(k))
                        if wv is None or len(v) != len(wv) or any(x is not elems[i] for x, i in zip(v, wv)) \
                                or type(v) is not type(lst):
                            okg = False
                if not okg:
                    fail(name, {'attrs': attrs, 'trs': [e.trs for e in elems]}, [(k, [x.trs for x in v]) for k, v in flat][:6],
                         [(k, [elems[i].trs for i in v]) for k, v in want][:6])
                else:
                    un = type(lst).unpack_group(g)
                    if sorted(id(x) for x in un) != sorted(id(x) for x in elems):
                        fail('unpack_group', {'attrs': attrs}, len(un), len(elems))
                    if len(want) > 1:
                        nontriv.add((name, tuple(attrs), tuple(tuple(v) for _, v in want)))
            if mode != 'search' and not isinstance(g1, H.Exn):
                if isinstance(arg, list) and na > 1:
                    flat1 = [(tuple(k), v) for k, v in g1.items()]
                else:
                    flat1 = [((k,), v) for k, v in g1.items()]
                # positions: the j-th element of a group is the j-th position carrying that key
                obs = [([render(x) for x in k], spec.get(k, [])[:len(v)] if all(x is elems[i] for x, i in zip(v, spec.get(k, []))) else ['?'])
                       for k, v in flat1]
                cases.append((H.req('group_by', rows), H.canon(obs) if rows else H.canon([]),
                              {'fn': 'group_by', 'attrs': attrs, 'n': len(elems)}))
        # into=
        lst, elems = build(pytrs, r, kind, n)
        lst2, elems2 = build(pytrs, r, kind, r.randint(0, 5))
        g = H.call(lst.group_by, 'twprge')
        if not isinstance(g, H.Exn):
            before = {k: list(v) for k, v in g.items()}
            g_ = H.call(lst2.group_by, 'twprge', g)
            n_or += 1
            bump('group_into')
            okk = not isinstance(g_, H.Exn)
            if okk:
                for k in set(before) | {e.twprge for e in elems2}:
                    wantv = before.get(k, []) + [e for e in elems2 if e.twprge == k]
                    gotv = list(g_.get(k, []))
                    if len(gotv) != len(wantv) or any(a is not b for a, b in zip(gotv, wantv)):
                        okk = False
            if not okk:
                fail('group_into', {'trs1': [e.trs for e in elems], 'trs2': [e.trs for e in elems2]}, g_, 'existing groups extended in order')
    # ---- construction paths
    t1 = pytrs.Tract('NE/4', trs='154n97w14')
    t2 = pytrs.Tract('W/2', trs='154n97w15', parse_qq=True)
    s1 = pytrs.TRS('155n97w01')
    d1 = pytrs.PLSSDesc('T154N-R97W Sec 14: NE/4, Sec 15: W/2')
    good_tract = [t1, t2, t1]
    good_trs = [t1, '154n97w20', s1, t2, 'junk']
    bad_items = [3, None, 2.5, ['x'], object(), d1]

    def trs_of(x):
        return x if isinstance(x, str) else x.trs

    def expect(kind, items):
        if kind == 'tract':
            return 'TypeError' if any(not isinstance(x, pytrs.Tract) for x in items) else list(items)
        if any(not isinstance(x, (str, pytrs.TRS, pytrs.Tract)) for x in items):
            return 'TypeError'
        return [pytrs.TRS(trs_of(x)).trs for x in items]

    def observe(kind, lst):
        if isinstance(lst, H.Exn):
            return lst.name
        if kind == 'tract':
            return list(lst)
        if any(type(x) is not pytrs.TRS for x in lst):
            return ['not-a-TRS:' + type(x).__name__ for x in lst]
        return [x.trs for x in lst]

    def same(a, b):
        if isinstance(a, str) or isinstance(b, str):
            return a == b
        return len(a) == len(b) and all((x is y) or (isinstance(x, str) and x == y) for x, y in zip(a, b))
    for kind, cls, good in (('tract', pytrs.TractList, good_tract), ('trs', pytrs.TRSList, good_trs)):
        item_sets = [[], good, good[:1]]
        for b in bad_items:
            item_sets += [[b], good[:2] + [b], [b] + good[:1], good[:1] + [b] + good[1:]]
        if kind == 'tract':
            item_sets += [['foo'], good[:1] + ['154n97w14']]
        wrappers = [('list', list), ('tuple', tuple), ('gen', lambda l: (x for x in l))]
        if kind == 'tract':
            wrappers.append(('TractList', lambda l: pytrs.TractList(l) if all(isinstance(x, pytrs.Tract) for x in l) else list(l)))
        else:
            wrappers.append(('TractList', lambda l: pytrs.TractList(l) if l and all(isinstance(x, pytrs.Tract) for x in l) else list(l)))
            wrappers.append(('TRSList', lambda l: pytrs.TRSList(l) if l and all(isinstance(x, pytrs.TRS) for x in l) else list(l)))
        item_sets += [[t1, t2]] + ([[s1, s1]] if kind == 'trs' else [])
        for items in item_sets:
            want = expect(kind, items)
            for wname, wrap in wrappers:
                paths = {
                    'constructor': lambda: cls(wrap(items)),
                    'extend': lambda: (lambda l: (l.extend(wrap(items)), l)[1])(cls(good[:1])),
                    'iadd': lambda: (lambda l: l.__iadd__(wrap(items)))(cls(good[:1])),
                    'add': lambda: cls(good[:1]) + wrap(items),
                }
                for pname, f in paths.items():
                    got = observe(kind, H.call(f))
                    base = [] if pname == 'constructor' else (expect(kind, good[:1]))
                    w = want if want == 'TypeError' else base + want
                    n_or += 1
                    bump('construct_' + pname)
                    if not same(got, w):
                        fail('construct', {'kind': kind, 'path': pname, 'iterable': wname, 'items': [type(x).__name__ for x in items]},
                             got if isinstance(got, str) else [trs_of(x) for x in got], w if isinstance(w, str) else [trs_of(x) for x in w])
            # single-element paths
            for x in items[:3]:
                w1 = expect(kind, [x])
                for pname, f in {
                    'append': lambda: (lambda l: (l.append(x), l)[1])(cls(good[:1])),
                    'insert': lambda: (lambda l: (l.insert(0, x), l)[1])(cls(good[:1])),
                    'setitem': lambda: (lambda l: (l.__setitem__(0, x), l)[1])(cls(good[:1])),
                }.items():
                    got = observe(kind, H.call(f))
                    base = expect(kind, good[:1])
                    if w1 == 'TypeError':
                        w = 'TypeError'
                    elif pname == 'append':
                        w = base + w1
                    elif pname == 'insert':
                        w = w1 + base
                    else:
                        w = w1
                    n_or += 1
                    bump('construct_' + pname)
                    if not same(got, w):
                        fail('construct', {'kind': kind, 'path': pname, 'item': type(x).__name__}, got if isinstance(got, str) else [trs_of(y) for y in got],
                             w if isinstance(w, str) else [trs_of(y) for y in w])
        # a str as the iterable itself
        for pname, f in {'constructor': lambda: cls('154n97w14'), 'extend': lambda: cls().extend('154n97w14')}.items():
            got = H.call(f)
            n_or += 1
            if not (isinstance(got, H.Exn) and got.name == 'TypeError'):
                fail('construct', {'kind': kind, 'path': pname, 'iterable': 'str'}, got, 'TypeError')
        # from_multiple with nesting
        nests = [([t1, [t2, [t1]], d1], [t1, t2, t1] + list(d1.tracts)), ([d1, t1], list(d1.tracts) + [t1]), ([[[]], t2], [t2]),
                 ([t1, 3], 'TypeError'), ([[t1, [None]]], 'TypeError')]
        if kind == 'tract':
            nests += [(['foo'], 'TypeError'), ([t1, ['154n97w14']], 'TypeError')]
        else:
            nests += [(['154n97w14', [s1, t1]], ['154n97w14', s1, t1]), ([pytrs.TractList([t1, t2]), s1], [t1, t2, s1])]
        for objs, want in nests:
            got = observe(kind, H.call(cls.from_multiple, *objs))
            w = want if want == 'TypeError' else expect(kind, want)
            n_or += 1
            bump('from_multiple')
            if not same(got, w):
                fail('from_multiple', {'kind': kind, 'objects': repr(objs)[:200]}, got if isinstance(got, str) else [trs_of(y) for y in got],
                     w if isinstance(w, str) else [trs_of(y) for y in w])
    # PLSSDesc wrappers
    d = pytrs.PLSSDesc('T154N-R97W Sec 14: NE/4, Sec 15: W/2, Sec 14: Lot 1; T155N-R97W Sec 14: ALL', parse_qq=True)
    g = H.call(d.group_by, ['twprge', 'sec'])
    n_or += 1
    if isinstance(g, H.Exn) or [tuple(k) for k in g] != [('154n97w', '14'), ('154n97w', '15'), ('155n97w', '14')] \
            or [len(v) for v in g.values()] != [2, 1, 1]:
        fail('plssdesc.group_by', {}, g, '3 groups of sizes 2,1,1')
    f = H.call(d.filter, lambda t: t.sec == '14')
    n_or += 1
    if isinstance(f, H.Exn) or [t.trs for t in f] != ['154n97w14', '154n97w14', '155n97w14']:
        fail('plssdesc.filter', {}, f, 'the three Sec 14 tracts')
    parts = {}
    if cases:
        parts['model_vs_code'] = H.diff_cases(cases)
        parts['model_vs_code']['rule'] = ('filter (random masks, drop on/off), filter_duplicates (5 methods x drop, lists with repeated instances, equal TRS, '
                                          'parsed/unparsed tracts), group_by with 1-3 attributes: selected/remaining positions and group tables compared')
    parts['oracle_on_code'] = {
        'evaluations': n_or, 'distinct_nontrivial': len(nontriv), 'impl_failures': fails, 'n_impl_failures': len(fails),
        'distribution': dist,
        'rule': 'real TractList/TRSList operations judged by an independent statement: filters by identity sequences, duplicates by the '
                'documented methods, groups by attribute tuples in first-occurrence order, unpack_group as a permutation, every construction '
                'path either keeps every element (converted) in order or raises TypeError; non-trivial = a duplicate was present / more than one group',
        'samples': [{'filter_duplicates': 'lots_qqs', 'list': 'tracts with equal trs, parsed and unparsed'},
                    {'construct': 'TRSList(TractList([...]))'}]}
    return merge(parts)


def replay(rp):
    res = run('quick', 'search')
    bad = [f for f in res['impl_failures'] if f['kind'] == rp['failure']['kind'] and not f.get('known_id')]
    print('failures of this kind now:', len(bad))
    for b in bad[:3]:
        print(b)
    return not bad
