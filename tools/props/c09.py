"""C09 plugin: every tract is well-formed and traceable to its source."""
import os
import re
import sys

sys.path.insert(0, os.path.dirname(os.path.dirname(os.path.abspath(__file__))))
import harness as H
import textgen as G
import plssgen as P
from props.common import merge
from props.c03 import rand_config, TRICKY
sys.path.insert(0, os.path.join(os.path.dirname(os.path.dirname(os.path.abspath(__file__))), 'corr'))
import plsscorr

STD = re.compile(r'(?:(\d{1,3})([ns])|XXXz)(?:(\d{1,3})([ew])|XXXz)(?:(\d{2})|XX)')


def check_tract(t, k, text, source):
    """returns a description of what is wrong, or None"""
    mo = STD.fullmatch(t.trs)
    if not mo or not t.trs.isascii():
        return ('trs_form', t.trs)
    tn, ns, rn, ew, sn = mo.groups()
    want = {'twp': (tn + ns) if tn else 'XXXz', 'rge': (rn + ew) if rn else 'XXXz', 'sec': sn if sn else 'XX',
            'twp_num': int(tn) if tn else None, 'rge_num': int(rn) if rn else None, 'sec_num': int(sn) if sn else None,
            'twp_ns': ns, 'rge_ew': ew}
    want['twprge'] = want['twp'] + want['rge']
    for a, v in want.items():
        if getattr(t, a) != v:
            return ('attribute_' + a, (t.trs, getattr(t, a), v))
    if t.orig_desc != text:
        return ('orig_desc', t.orig_desc[:60])
    if t.source != source:
        return ('source', t.source)
    if t.orig_index != k:
        return ('orig_index', (t.orig_index, k))
    return None


def run(tier, mode):
    import pytrs
    r = H.rng('c09')
    fails, texts = [], []
    n_or = 0
    nontriv = set()
    dist = {'tracts': 0, 'error_trs': 0, 'multi': 0}
    n = 450 if tier == 'quick' else 7000
    pool = list(TRICKY) + ['T154N-R97W Sec 0: NE/4', 'T154N-R97W Sections 0 - 2: NE/4', 'T154N-R97W Sec 00: NE/4, Sec 100: W/2', 'T0N-R0E Sec 1: ALL',
                           'T154N-R97W Sections 1 - 3: NE/4, Sec 5: S/2', 'Sections 1 - 3 and 9: NE/4, Sec 5: S/2, T154N-R97W',
                           # characters that do not survive an encode/decode round trip (lone surrogates, as left by errors='surrogateescape') and astral ones
                           'T154N-R97W Sec 14: NE/4 \udc96 Sec 15: W/2', 'NE/4 of Section 14, T154N-R97W \ud83d', 'T154N-R97W Sec 14: NE/4 \U0001F600 Sec 15: W/2']
    for i in range(n):
        k = r.random()
        if i < len(pool):
            t = pool[i]
        elif k < 0.4:
            t = P.render(r, P.gen_desc(r), r.choice(P.LAYOUTS))
            if k < 0.08:
                t = H.altdigits(r, t)      # every number in digits of another script (what `\\d` and int() accept): the tracts must come out in standard form all the same
        elif k < 0.7:
            t = G.damage(r, G.structured_desc(r))
        else:
            t = G.any_text(r)
        texts.append(t)
        cfg = rand_config(r) if i % 2 else ''
        src = r.choice([None, 'book 12', 7, 0, '', False, (1, 'b')])     # any tag, falsy ones included (row 0 of an enumeration)
        d = H.call(lambda: pytrs.PLSSDesc(t, config=cfg, source=src))
        n_or += 1
        if isinstance(d, H.Exn):
            continue      # C03's concern
        for variant, tl in (('init', d.tracts), ('parse', H.call(lambda: d.parse(commit=False)))):
            if isinstance(tl, H.Exn):
                continue
            for k_, tr in enumerate(tl):
                dist['tracts'] += 1
                dist['error_trs'] += 'X' in tr.trs
                bad = check_tract(tr, k_, t, src)
                if bad:
                    fails.append({'kind': bad[0], 'detail': {'text': t, 'config': cfg, 'tract': k_, 'via': variant}, 'got': repr(bad[1])[:300], 'want': 'well-formed, consistent, traceable', 'known_id': None})
                    break
            else:
                if len(tl) > 1:
                    dist['multi'] += 1
                    nontriv.add((t, cfg))
    parts = {}
    if mode != 'search':
        parts['model_vs_code'] = plsscorr.run(tier, 'c09', extra_texts=texts[:150 if tier == 'quick' else 2000], functions=False, n=30 if tier == 'quick' else 300)
    parts['oracle_on_code'] = {
        'evaluations': n_or, 'distinct_nontrivial': len(nontriv), 'impl_failures': fails, 'n_impl_failures': len(fails), 'distribution': dist,
        'rule': 'rendered, damaged and soup texts x random configurations x source tags: every tract of PLSSDesc (init and parse(commit=False)) must have a trs of the standard '
                'form or error placeholders (never undefined), attributes equal to an independent decomposition of trs, orig_desc = input, source = parent source, '
                'orig_index = position; non-trivial = more than one tract',
        'samples': [{'text': 'T154N-R97W Sections 1 - 3: NE/4, Sec 5: S/2'}]}
    return merge(parts)


def replay(rp):
    import pytrs
    f = rp['failure']
    d = f['detail']
    o = H.call(lambda: pytrs.PLSSDesc(d['text'], config=d['config'], source='book 12'))
    if isinstance(o, H.Exn):
        print(o)
        return True
    bad = [check_tract(tr, k, d['text'], 'book 12') for k, tr in enumerate(o.tracts)]
    print('text:', repr(d['text']), d['config'], '\n problems now:', [b for b in bad if b])
    return not any(bad)
