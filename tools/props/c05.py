"""C05 plugin: elided lists of sections / lots.  (1) model vs code (SecUnpacker, LotUnpacker,
TractParser) on rendered lists and generated texts, (2) the code judged by `expand`."""
import os
import sys

sys.path.insert(0, os.path.dirname(os.path.dirname(os.path.abspath(__file__))))
import harness as H
from props.common import merge
sys.path.insert(0, os.path.join(os.path.dirname(os.path.dirname(os.path.abspath(__file__))), 'corr'))
import tractcorr

# incl. the abbreviated / misspelled forms the through-pattern accepts (`th[rough]{3,6}\.?`, `thru\.?`), with their optional period
THRU = [' - ', '-', ' – ', '—', ' through ', ' thru ', ' to ', '- ', ' -', ' Through ', ' THROUGH ', ' Thru ', ' THRU ', ' TO ',
        ' through. ', ' thru. ', ' throu. ', ' thrgh. ', ' thrugh ', ' throug. ']
AND = [' and ', ' & ', ', ', ', and ', ',', ' and, ', ' AND ', ' And ']
# every spelling of the keyword the library's own pattern lists, the misspellings included ('Secton' and 'Seciton' contain the range word 'to')
SEC_SING = ['Section', 'Sec', 'Sec.', 'Sect.', 'section', 'SECTION', '§', 'Sect', 'Secton', 'Seciton', 'Secion', 'Sectn', 'Secn', 'SECTON']
SEC_PLUR = ['Sections', 'Secs', 'Secs.', 'Sects.', 'sections', 'Sectons', 'Secitons', 'Secions']
LOT_SING = ['Lot', 'lot', 'LOT']
LOT_PLUR = ['Lots', 'lots', 'LOTS']


def expand(items):
    out = []
    for it in items:
        if isinstance(it, tuple):
            a, b = it
            step = 1 if a <= b else -1
            out += list(range(a, b + step, step))
        else:
            out.append(it)
    return out


def gen_items(r, maxn, kmax=4):
    items = []
    for _ in range(r.randint(1, kmax)):
        k = r.random()
        a = r.randint(1, maxn)
        if k < 0.45:
            items.append(a)
        elif k < 0.8:
            items.append((a, min(maxn, a + r.randint(1, 5))))
        else:
            items.append((a, max(1, a - r.randint(1, 5))))
    return items


def render(r, items, sing, plur, repeat_kw=True):
    n_nums = sum(2 if isinstance(i, tuple) else 1 for i in items)
    kw = r.choice(plur if n_nums > 1 else sing)
    parts = []
    for i, it in enumerate(items):
        lead = ''
        if i > 0 and repeat_kw and r.random() < 0.3:
            # a repeated keyword inside the list: the patterns accept the word with an optional plural 's' directly
            # followed by the number (an abbreviation point after the plural 's' is only accepted for the leading keyword)
            lead = r.choice([k for k in (sing + plur) if not k.endswith('s.')]) + ' '
        if isinstance(it, tuple):
            mid = r.choice(THRU)
            if repeat_kw and r.random() < 0.15:
                mid = mid.rstrip() + ' ' + r.choice(sing) + ' ' if mid.strip() else mid
            parts.append(f'{lead}{H.numstr(r, it[0])}{mid}{H.numstr(r, it[1])}')
        else:
            parts.append(f'{lead}{H.numstr(r, it)}')
    txt = kw + ' ' + parts[0]
    for p in parts[1:]:
        txt += r.choice(AND) + p
    return txt


def descending(items):
    return any(isinstance(i, tuple) and i[0] > i[1] for i in items)


def run(tier, mode):
    import pytrs
    r = H.rng('c05')
    fails = []
    n_or = 0
    nontriv = set()
    dist = {'sections': 0, 'lots': 0, 'descending': 0, 'plss': 0}
    rendered = []

    def fail(kind, detail, got, want, known=None):
        fails.append({'kind': kind, 'detail': detail, 'got': repr(got)[:300], 'want': repr(want)[:300], 'known_id': known})
    n = 300 if tier == 'quick' else 4000
    for i in range(n):
        # ---- sections
        items = gen_items(r, 36 if i % 3 else 99)
        txt = render(r, items, SEC_SING, SEC_PLUR)
        want = [f'{x:02d}' for x in expand(items)]
        rendered.append(txt)
        got = H.call(pytrs.find_sec, txt)
        n_or += 1
        dist['sections'] += 1
        if got != want:
            fail('find_sec', {'text': txt, 'items': items}, got, want)
        elif len(items) > 1:
            nontriv.add(txt)
        if i % 4 == 0:
            desc = f'T154N-R97W {txt}: NE/4'
            d = H.call(pytrs.PLSSDesc, desc)
            n_or += 1
            dist['plss'] += 1
            gs = d if isinstance(d, H.Exn) else [(t.sec, t.desc) for t in d.tracts]
            ws = [(x, 'NE/4') for x in want]
            if gs != ws:
                fail('plssdesc_sections', {'text': desc, 'items': items}, gs, ws)
            # whole sections conveyed: the list ends the text (its last marker coincides with the end of the text), with or without the colon
            for tail in ('', ':'):
                dtext = f'T154N-R97W {txt}{tail}' if i % 8 == 0 else f'{txt}{tail} T154N-R97W'
                d3 = H.call(pytrs.PLSSDesc, dtext)
                n_or += 1
                if isinstance(d3, H.Exn) or [t.sec for t in d3.tracts] != want:
                    fail('plssdesc_sections_at_end', {'text': dtext, 'items': items}, d3 if isinstance(d3, H.Exn) else [t.sec for t in d3.tracts], want)
            if gs != ws:
                pass
            elif descending(items):
                # a descending section range raises the non-sequential warning -- also when the section is only accepted on the colon-cautious second pass
                for dtext, cfg in ((desc, ''), (f'T154N-R97W {txt} NE/4', 'sec_colon_cautious')):
                    d2 = H.call(pytrs.PLSSDesc, dtext, config=cfg)
                    n_or += 1
                    if isinstance(d2, H.Exn) or [t.sec for t in d2.tracts] != want or not any(f.startswith('nonsequential_sections') for f in d2.w_flags):
                        fail('plssdesc_nonsequential_flag', {'text': dtext, 'items': items, 'config': cfg}, d2 if isinstance(d2, H.Exn) else [[t.sec for t in d2.tracts], d2.w_flags], [want, 'nonsequential_sections<...>'])
        # ---- lots
        items = gen_items(r, 40 if i % 3 else 999)
        txt = render(r, items, LOT_SING, LOT_PLUR)
        rendered.append(txt)
        nums = expand(items)
        t = H.call(pytrs.Tract, txt, parse_qq=True)
        n_or += 1
        dist['lots'] += 1
        if isinstance(t, H.Exn):
            fail('tract_lots', {'text': txt, 'items': items}, t, nums)
            continue
        want_flag = descending(items) or any(isinstance(i_, tuple) and i_[0] == i_[1] for i_ in items)
        has_flag = 'nonsequential_lots' in t.w_flags
        if t.lots != [f'L{x}' for x in nums] or t.ilots != nums:
            fail('tract_lots', {'text': txt, 'items': items}, [t.lots, t.ilots], nums)
        elif descending(items) and not has_flag:
            fail('tract_lots_flag', {'text': txt, 'items': items}, t.w_flags, 'nonsequential_lots')
        elif not want_flag and has_flag:
            fail('tract_lots_flag', {'text': txt, 'items': items}, t.w_flags, 'no nonsequential_lots')
        else:
            if descending(items):
                dist['descending'] += 1
            if len(items) > 1:
                nontriv.add(txt)
    parts = {}
    if mode != 'search':
        parts['model_vs_code'] = tractcorr.run(tier, 'c05', extra_texts=rendered[:400 if tier == 'quick' else 3000], which=('sec', 'lot', 'tract'))
    parts['oracle_on_code'] = {
        'evaluations': n_or, 'distinct_nontrivial': len(nontriv), 'impl_failures': fails, 'n_impl_failures': len(fails), 'distribution': dist,
        'rule': 'random item sequences (single | ascending range | descending range) rendered with every connective spelling, singular/plural/repeated keyword; '
                'find_sec, PLSSDesc tract sections and Tract.lots/.ilots/nonsequential flag judged by expand(items); non-trivial = more than one item',
        'samples': [{'items': [(1, 3), 5, (9, 7)], 'text': 'Sections 1 - 3, 5 and Sec 9 thru 7'}]}
    return merge(parts)


def replay(rp):
    import pytrs
    f = rp['failure']
    txt = f['detail']['text']
    if f['kind'] == 'find_sec':
        got = H.call(pytrs.find_sec, txt)
    elif f['kind'] == 'plssdesc_sections':
        d = H.call(pytrs.PLSSDesc, txt)
        got = d if isinstance(d, H.Exn) else [(t.sec, t.desc) for t in d.tracts]
    else:
        t = H.call(pytrs.Tract, txt, parse_qq=True)
        got = t if isinstance(t, H.Exn) else [t.lots, t.ilots, t.w_flags]
    print('text:', txt, '\n observed:', got, '\n wanted:', f['want'])
    return repr(got)[:300] == f['want']
