"""C15 plugin: results depend only on text and settings, not on what ran before.
(1) model vs code on histories over the process-wide state (TRS cache on/off/cleared/warm,
MasterConfig toggled, returned dicts and lists mutated), (2) oracle: the probe evaluated after a
history equals the same probe evaluated in a FRESH interpreter under the same MasterConfig."""
import json
import os
import subprocess
import sys

sys.path.insert(0, os.path.dirname(os.path.dirname(os.path.abspath(__file__))))
import harness as H
from props.common import merge

TRS_STRS = ['154n97w14', '1s2e01', 'XXXzXXXzXX', '___z___z__', '154nXXXz01', 'junk', '', None, '154n97w__', '999n999e99',
            '154N97W14', '154n97wXX', '154n97wxx', 'xxxzXXXz14', '___Z___z01', '1S2E01']
# hand-written histories that run first: (history, probe)
CORPUS = [
    ([('construct', 154, 97, 14), ('master', 's', 'e')], ('construct', 154, 97, 14)),
    ([('master', 's', 'e'), ('construct', 154, '97', 14), ('master', 'n', 'w')], ('construct', 154, '97', 14)),
    ([('trs', '154n97wXX')], ('trs', '154n97wxx')),
    ([('trs', '154n97wxx')], ('trs', '154n97wXX')),
    ([('tract', 'NE/4', '154n97wxx', '')], ('parse', 'T154N-R97W NE/4 of the land', '')),
    ([('trs', '154N97W14'), ('todict', '154n97w14'), ('mutate',)], ('trs', '154N97W14')),
    ([('trs', '154n97w14'), ('todict', '154n97w14'), ('mutate',)], ('trs', '154n97w14')),
    ([('todict', '154n97w14'), ('mutate',)], ('parse', 'T154N-R97W Sec 14: NE/4, Sec 15: W/2', '')),
    ([('parse', 'T154N-R97W Sec 14: NE/4, Sec 15: W/2', ''), ('mutate',)], ('tract', 'NE/4', '154n97w14', 'parse_qq')),
    ([('parse', 'T154-R97 Sec 14: NE/4', ''), ('master', 's', 'e')], ('parse', 'T154-R97 Sec 14: NE/4', '')),
    ([('find', 'T154-R97 Sec 14: NE/4'), ('master', 's', 'e')], ('find', 'T154-R97 Sec 14: NE/4')),
    ([('master', 'n', 'w')], ('late', 'T154-R97 Sec 14: NE/4', '', 's', 'e')),
    ([('use', False)], ('repoint', '154n97w14', '155n98w15')),
    ([('use', False), ('trs', '154n97w14')], ('repoint', '154n97w14', 'nonsense')),
    ([('use', False)], ('repoint', '154n97w14', '')),
]

TEXTS = ['T154N-R97W Sec 14: NE/4, Sec 15: W/2', 'T154-R97 Sec 14: NE/4', 'T1-R2 Sec 1: Lots 1 - 3', 'NE/4 of Section 14, T154N-R97W', 'TI54N-R97W Sec 14: NE/4',
         'T15N-RlOW Sec 1: ALL', 'Township 7 South, Range 9 East, Sec 3: S/2', 'no plss']
CONFIGS = ['', 'parse_qq', 'ocr_scrub', 's,e', 'segment', 'clean_qq,parse_qq']
DESCS = ['NE/4', 'Lots 1 - 3, S/2N/2', 'Lot 1, Lot 1']
TWPS = [154, '154', '154n', '7s', None, 'abc', 0]
SECS = [14, '14', 0, None, 'x', 100]

FIELDS = ['trs', 'twp', 'twp_num', 'twp_ns', 'twp_undef', 'rge', 'rge_num', 'rge_ew', 'rge_undef', 'sec', 'sec_num', 'sec_undef']

PROBE_CODE = r'''
import json, sys
sys.path.insert(0, %(tools)r)
import pytrs
from props.c15 import apply_op
ops = json.loads(sys.stdin.read())
pytrs.MasterConfig.default_ns, pytrs.MasterConfig.default_ew = ops['mc']
keep = []
out = apply_op(pytrs, ops['probe'], keep)
print(json.dumps(out, default=repr))
'''


def obs_tract(t):
    return [t.trs, t.desc, t.orig_index, t.pp_desc, t.parse_complete, list(t.lots), list(t.qqs), [[k, v] for k, v in t.lot_acres.items()], list(t.aliquots_whole),
            [list(t.w_flags), list(t.w_flag_lines), list(t.e_flags), list(t.e_flag_lines)]]


def apply_op(pytrs, op, keep):
    """run one operation on the real library; `keep` collects returned mutable values for later mutation"""
    k = op[0]
    try:
        if k == 'trs':
            o = pytrs.TRS(op[1])
            return [getattr(o, f) for f in FIELDS]
        if k == 'todict':
            d = pytrs.trs_to_dict(op[1])
            keep.append(d)
            keep.append(pytrs.trs_to_dict(pytrs.TRS(op[1])))      # the same conversion handed a TRS object instead of a string
            keep.append(pytrs.TRS.trs_to_dict(pytrs.TRS(op[1])))
            return [d[f] for f in FIELDS]
        if k == 'construct':
            return pytrs.TRS.from_twprgesec(op[1], op[2], op[3]).trs
        if k == 'late':      # object made under other MasterConfig defaults, parsed under the ones in force now
            now = (pytrs.MasterConfig.default_ns, pytrs.MasterConfig.default_ew)
            pytrs.MasterConfig.default_ns, pytrs.MasterConfig.default_ew = op[3], op[4]
            try:
                d = pytrs.PLSSDesc(op[1], config=','.join(x for x in [op[2], 'wait_to_parse'] if x))
            finally:
                pytrs.MasterConfig.default_ns, pytrs.MasterConfig.default_ew = now
            d.parse()
            return normalise([d.pp_desc, d.current_layout, [obs_tract(t) for t in d.tracts], [list(d.w_flags), list(d.w_flag_lines), list(d.e_flags), list(d.e_flag_lines)]])
        if k == 'repoint':   # an existing TRS object re-pointed to another string
            o = pytrs.TRS(op[1])
            o.trs = op[2]
            return [getattr(o, f) for f in FIELDS]
        if k == 'clear':
            pytrs.TRS._clear_cache()
            return None
        if k == 'use':
            pytrs.TRS._USE_CACHE = op[1]
            return None
        if k == 'master':
            pytrs.MasterConfig.default_ns, pytrs.MasterConfig.default_ew = op[1], op[2]
            return None
        if k == 'parse':
            d = pytrs.PLSSDesc(op[1], config=op[2])
            result = normalise([d.pp_desc, d.current_layout, [obs_tract(t) for t in d.tracts], [list(d.w_flags), list(d.w_flag_lines), list(d.e_flags), list(d.e_flag_lines)]])
            keep.extend([d.tracts_to_dict('trs', 'lots', 'w_flags', 'lot_acres'), d.w_flags, d.tracts[0].to_dict('w_flags', 'lots', 'lot_acres') if d.tracts else {}])
            if d.tracts:
                keep.append(pytrs.TRS.trs_to_dict(pytrs.TRS(d.tracts[0].trs)))
                keep.append(d.tracts[0].to_list('lots', 'qqs', 'w_flag_lines'))
            return result
        if k == 'tract':
            t = pytrs.Tract(op[1], trs=op[2], config=op[3])
            result = normalise(obs_tract(t) + [None])
            keep.append(t.to_dict('lots', 'qqs', 'w_flags'))
            return result
        if k == 'find':
            l = pytrs.find_twprge(op[1], preprocess=True)
            keep.append(l)
            return l
        if k == 'mutate':
            for x in keep:
                if isinstance(x, dict):
                    for kk in list(x):
                        x[kk] = 'SCRIBBLED' if not isinstance(x[kk], (list, dict)) else x[kk]
                        if isinstance(x[kk], list):
                            x[kk].append('SCRIBBLED')
                        if isinstance(x[kk], dict):
                            x[kk]['SCRIBBLED'] = 1
                    x['extra'] = 999
                elif isinstance(x, list):
                    for y in x:
                        if isinstance(y, dict):
                            for kk in list(y):
                                if isinstance(y[kk], list):
                                    y[kk].append('SCRIBBLED')
                                elif isinstance(y[kk], dict):
                                    y[kk]['SCRIBBLED'] = 1
                                else:
                                    y[kk] = 'SCRIBBLED'
                        elif isinstance(y, list):
                            y.append('SCRIBBLED')
                    x.append('SCRIBBLED')
            return None
    except Exception as e:  # noqa
        return {'EXC': type(e).__name__}
    raise ValueError(op)


def gen_op(r):
    k = r.random()
    if k < 0.18:
        return ('trs', r.choice(TRS_STRS))
    if k < 0.26:
        return ('todict', r.choice(TRS_STRS))
    if k < 0.34:
        return ('construct', r.choice(TWPS), r.choice([97, '97w', '97', None, 'q']), r.choice(SECS))
    if k < 0.40:
        return ('clear',)
    if k < 0.47:
        return ('use', r.random() < 0.5)
    if k < 0.57:
        return ('master', r.choice('ns'), r.choice('ew'))
    if k < 0.72:
        return ('parse', r.choice(TEXTS), r.choice(CONFIGS))
    if k < 0.80:
        return ('tract', r.choice(DESCS), r.choice(['154n97w14', '1s2e01', 'junk']), r.choice(['', 'parse_qq', 'clean_qq']))
    if k < 0.88:
        return ('find', r.choice(TEXTS))
    return ('mutate',)


def wire_op(op):
    return tuple(op)


def normalise(out):
    """JSON round trip (tuples -> lists) so that in-process and subprocess results compare"""
    return json.loads(json.dumps(out, default=repr))


def run(tier, mode):
    import pytrs
    r = H.rng('c15')
    fails, cases = [], []
    n_or = 0
    nontriv = set()
    dist = {}
    MC = pytrs.MasterConfig
    n = 60 if tier == 'quick' else 800
    tools_dir = os.path.dirname(os.path.dirname(os.path.abspath(__file__)))
    for i in range(n):
        if i < len(CORPUS):
            ops, probe = [tuple(o) for o in CORPUS[i][0]], tuple(CORPUS[i][1])
        else:
            ops = [gen_op(r) for _ in range(r.randint(2, 9 if tier == 'quick' else 25))]
            earlier = [o for o in ops if o[0] not in ('clear', 'use', 'master', 'mutate')]
            k = r.random()
            if earlier and k < 0.4:          # the probe repeats an earlier operation (memoisation keyed too coarsely)
                probe = r.choice(earlier)
            elif k < 0.55 and any(o[0] in ('trs', 'todict') and isinstance(o[1], str) and o[1] for o in ops):   # ... or differs from one only in case
                o = r.choice([o for o in ops if o[0] in ('trs', 'todict') and isinstance(o[1], str) and o[1]])
                probe = ('trs', r.choice([o[1].swapcase(), o[1].lower(), o[1].upper()]))
            elif k < 0.65:
                probe = ('late', r.choice(TEXTS), r.choice(['', 'parse_qq', 'segment']), r.choice('ns'), r.choice('ew'))
            elif k < 0.75:
                probe = ('repoint', r.choice(TRS_STRS), r.choice(TRS_STRS))
            else:
                probe = gen_op(r)
                while probe[0] in ('clear', 'use', 'master', 'mutate'):
                    probe = gen_op(r)
        # reset the process-wide state
        pytrs.TRS._clear_cache()
        pytrs.TRS._USE_CACHE = True
        MC.default_ns, MC.default_ew = 'n', 'w'
        keep = []
        outs = []
        try:
            for op in ops:
                outs.append(normalise(apply_op(pytrs, op, keep)))
                dist[op[0]] = dist.get(op[0], 0) + 1
            got = normalise(apply_op(pytrs, probe, keep))
            mc_now = (MC.default_ns, MC.default_ew)
        finally:
            pytrs.TRS._clear_cache()
            pytrs.TRS._USE_CACHE = True
            MC.default_ns, MC.default_ew = 'n', 'w'
        # ---- oracle: the same probe in a fresh interpreter under the same MasterConfig
        if True:
            # composite probes are judged against the plain operation they must be equivalent to
            fresh_probe = ('parse', probe[1], probe[2]) if probe[0] == 'late' else (('trs', probe[2]) if probe[0] == 'repoint' else probe)
            p = subprocess.run([H.PY, '-c', PROBE_CODE % {'tools': tools_dir}], input=json.dumps({'mc': mc_now, 'probe': fresh_probe}), text=True,
                               capture_output=True, env=dict(os.environ, PYTHONPATH=H.REPO, PYTHONHASHSEED='0'), timeout=120)
            n_or += 1
            try:
                fresh = json.loads(p.stdout.strip().split('\n')[-1])
            except Exception:
                fresh = {'HARNESS': p.stderr[-300:]}
            if normalise(got) != fresh:
                fails.append({'kind': 'probe_depends_on_history', 'detail': {'history': ops, 'probe': probe, 'master_config': mc_now},
                              'got': repr(normalise(got))[:300], 'want': repr(fresh)[:300], 'known_id': None})
            else:
                nontriv.add(repr((ops, probe)))
        if mode != 'search' and probe[0] not in ('late', 'repoint'):
            full = [wire_op(o) for o in ops] + [wire_op(probe)]
            # compare the probe outcome (and every earlier outcome) with the model
            exp = outs + [got]

            def canon_out(o, op):
                if isinstance(o, dict) and 'EXC' in o:
                    return H.Exn(o['EXC'])
                return o
            cases.append((H.req('ghistory', full), [canon_out(o, op) for o, op in zip(exp, ops + [probe])], {'history': ops, 'probe': probe}))
    # a Config OBJECT handed to several descriptions: what an earlier one was parsed with (keywords) must not reach a later one through it
    for kw in ({'parse_qq': True, 'qq_depth': 1}, {'parse_qq': True, 'clean_qq': True}, {'ocr_scrub': True}, {'parse_qq': True, 'break_halves': True, 'qq_depth_min': 1}):
        for ctext in ('n,w', '', 's,e,parse_qq'):
            cfg = pytrs.Config(ctext)
            before = cfg.decompile_to_text()
            probe_text = 'T155N-R98W Sec 1: Lots 1 - 3, S/2NE/4, NE'
            want_d = H.call(lambda: pytrs.PLSSDesc(probe_text, config=pytrs.Config(ctext)))
            first = H.call(lambda: pytrs.PLSSDesc('T154N-R97W Sec 14: NE/4', config=cfg).parse(**kw))
            got_d = H.call(lambda: pytrs.PLSSDesc(probe_text, config=cfg))
            n_or += 1
            if isinstance(want_d, H.Exn) or isinstance(got_d, H.Exn) or isinstance(first, H.Exn):
                continue
            w_, g_ = [obs_tract(t) for t in want_d.tracts], [obs_tract(t) for t in got_d.tracts]
            if normalise(w_) != normalise(g_) or cfg.decompile_to_text() != before:
                fails.append({'kind': 'probe_depends_on_history', 'detail': {'history': [['parse', 'T154N-R97W Sec 14: NE/4', 'shared Config(%r)' % ctext, kw]], 'probe': ['PLSSDesc', probe_text, 'the same Config object'],
                                                                           'master_config': None},
                              'got': repr([x[:7] for x in g_])[:300] + ' config now ' + repr(cfg.decompile_to_text()), 'want': repr([x[:7] for x in w_])[:300] + ' config ' + repr(before), 'known_id': None})
    parts = {}
    if cases:
        got = H.run_model([c[0] for c in cases])
        bad = []
        for c, g in zip(cases, got):
            mo = H.parse_sexp(g)
            ok = isinstance(mo, list) and len(mo) == len(c[1])
            if ok:
                for a, b, op in zip(c[1], mo, c[2]['history'] + [c[2]['probe']]):
                    if op[0] == 'tract':
                        b = b if isinstance(b, H.Exn) else b[:10] + [None]
                    if normalise(a if not isinstance(a, H.Exn) else {'E': a.name}) != normalise(b if not isinstance(b, H.Exn) else {'E': b.name}):
                        ok = False
                        bad.append({'case': c[2], 'op': op, 'python': repr(a)[:300], 'model': repr(b)[:300]})
                        break
            elif len(bad) < 20:
                bad.append({'case': c[2], 'python': 'n/a', 'model': repr(mo)[:300]})
        parts['model_vs_code'] = {'evaluations': len(cases), 'distinct_nontrivial': len({c[0] for c in cases}), 'n_disagreements': len(bad), 'disagreements': bad[:20],
                                  'samples': [cases[0][2]] if cases else [],
                                  'rule': 'random histories over TRS(), trs_to_dict, from_twprgesec, cache clear/on/off, MasterConfig changes, PLSSDesc, Tract, find_twprge and mutation of '
                                          'every dict/list returned so far; every outcome of the history compared with the extracted state machine'}
    parts['oracle_on_code'] = {
        'evaluations': n_or, 'distinct_nontrivial': len(nontriv), 'impl_failures': fails, 'n_impl_failures': len(fails), 'distribution': dist,
        'rule': 'the probe evaluated after the history must equal the same probe evaluated in a fresh interpreter with the MasterConfig the history left (subprocess per probe); '
                'histories include cache manipulation, MasterConfig toggling, other parses (ocr_scrub among them) and scribbling on returned dicts/lists; non-trivial = distinct history',
        'samples': [{'history': [('todict', '154n97w14'), ('mutate',), ('master', 's', 'e')], 'probe': ('parse', 'T154-R97 Sec 14: NE/4', '')}]}
    return merge(parts)


def replay(rp):
    import pytrs
    f = rp['failure']
    d = f['detail']
    keep = []
    for op in d['history']:
        apply_op(pytrs, tuple(op), keep)
    got = apply_op(pytrs, tuple(d['probe']), keep)
    print('history:', d['history'], '\n probe:', d['probe'], '\n after history:', repr(normalise(got))[:300], '\n fresh interpreter gave:', f['want'])
    return repr(normalise(got))[:300] == f['want']
