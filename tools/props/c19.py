"""C19 plugin: tracts_to_dict/list, iter forms, tracts_to_csv, TractWriter.
(1) model rows vs what csv.reader reads back from the real files, (2) the real files judged by
an independent statement (scalar text / joined contents, header rule, one row per tract)."""
import csv
import os
import shutil
import sys

sys.path.insert(0, os.path.dirname(os.path.dirname(os.path.abspath(__file__))))
import harness as H
from props.common import merge

DESCS = [
    # cells that csv must quote for reasons other than a comma: a lone carriage return (no comma, quote or line feed in the cell), a line separator, a tab
    'T154N-R97W\rSec 14: NE/4',
    # falsy values inside list cells: lot number 0 (ilots holds the int 0), section 0
    'T154N-R97W Sec 0: Lot 0, Lot 1(38.29), Lots 00 - 2 and NE/4',
    'T154N-R97W Sec 14: NE/4\u2028and the S/2 of the\tSW/4 =SUM(A1)',
    'T154N-R97W Sec 14: Lots 1 - 3, Lot 1, NE/4 less and except the well',
    'T154N-R97W Sec 14: Lot 1(38.12), Lot 2 [40.00], N/2 of Lot 3, "quoted, text" in the SW/4\nT155N-R97W Sec 1: ALL, including the wellbore',
    'T1S-R2E Sec 1 - 3: That part of the N/2, lying north of the river; insofar as it covers depths from the surface to 100 feet',
    'NE/4 of Section, T154N-R97W',
    'no plss here',
    'T154-R97 Sec 14: NE/4',
]


def scalar_ok(v):
    return v is None or isinstance(v, (str, int, bool))


def wire_val(v):
    if scalar_ok(v):
        return ('S', v)
    if isinstance(v, dict):
        if all(scalar_ok(k) and scalar_ok(x) for k, x in v.items()):
            return ('M', [(k, x) for k, x in v.items()])
    if isinstance(v, (list, tuple)):
        if all(scalar_ok(x) for x in v):
            return ('L', list(v))
        if all(isinstance(x, (list, tuple)) and all(scalar_ok(y) for y in x) for x in v):
            return ('L2', [list(x) for x in v])
    raise ValueError(f'attribute value outside the modelled shapes: {v!r}')


def wire_tract(t, atts, known):
    return [(a, wire_val(getattr(t, a))) for a in dict.fromkeys(atts) if a in known]


def cell_text(v):
    """what csv writes for a scalar cell"""
    return '' if v is None else str(v)


def spec_cell(v):
    """the property: scalar value, or list / dict contents joined into one string"""
    if isinstance(v, dict):
        return ','.join(f'{k}:{x}' for k, x in v.items())
    if isinstance(v, (list, tuple)):
        flat = []
        for x in v:
            if isinstance(x, (list, tuple)):
                flat += list(x)
            else:
                flat.append(x)
        return ', '.join(str(x) for x in flat)
    return cell_text(v)


def read_csv(fp):
    with open(fp, newline='') as f:
        return [row for row in csv.reader(f)]


def run(tier, mode):
    import pytrs
    from pytrs.tractwriter import TractWriter
    r = H.rng('c19')
    ATTS = list(pytrs.Tract.ATTRIBUTES)
    NICE = dict(pytrs.Tract.ATTRIBUTES)
    known = set(ATTS)
    scratch = os.path.join(H.BUILD, f'c19_scratch_{os.getpid()}')
    shutil.rmtree(scratch, ignore_errors=True)
    os.makedirs(scratch)
    cases, fails = [], []
    n_or = 0
    nontriv = set()
    dist = {}

    def bump(k):
        dist[k] = dist.get(k, 0) + 1

    def fail(kind, detail, got, want, known_id=None):
        fails.append({'kind': kind, 'detail': detail, 'got': repr(got)[:400], 'want': repr(want)[:400], 'known_id': known_id})
    try:
        descs = [pytrs.PLSSDesc(t, parse_qq=True, source='src-%d' % i if i % 2 else None) for i, t in enumerate(DESCS)]
        att_sets = [[a] for a in ATTS] + [ATTS, ['trs', 'no_such_attribute', 'desc'], ['ilots', 'w_flag_lines'], []]
        npairs = 30 if tier == 'quick' else 351
        pairs = [(a, b) for i, a in enumerate(ATTS) for b in ATTS[i + 1:]]
        att_sets += [list(p) for p in (r.sample(pairs, npairs) if npairs < len(pairs) else pairs)]
        for _ in range(10 if tier == 'quick' else 100):
            att_sets.append(r.sample(ATTS + ['bogus', 'trs'], r.randint(3, 8)))
        fi = 0
        for di, d in enumerate(descs):
            tl = d.tracts
            sets = att_sets if di < 5 else [r.choice(att_sets) for _ in range(12 if tier == 'quick' else 60)]
            for atts in sets:
                # ---- records
                recs_l = H.call(tl.tracts_to_list, atts)
                recs_d = H.call(tl.tracts_to_dict, atts)
                it_l = H.call(lambda: list(tl.iter_to_list(atts)))
                it_d = H.call(lambda: list(tl.iter_to_dict(atts)))
                want_l = [[getattr(t, a, f'{a}: n/a') for a in atts] for t in tl]
                want_d = [{a: getattr(t, a, f'{a}: n/a') for a in atts} for t in tl]
                n_or += 4
                bump('records')
                for nm, got, want in (('tracts_to_list', recs_l, want_l), ('tracts_to_dict', recs_d, want_d),
                                      ('iter_to_list', it_l, want_l), ('iter_to_dict', it_d, want_d)):
                    if isinstance(got, H.Exn) or got != want or (nm.endswith('dict') and got and list(got[0]) != list(want[0])):
                        fail('records', {'fn': nm, 'desc': di, 'atts': atts}, got, want)
                if not atts:
                    continue
                # ---- csv writers
                for (nice_arg, nice_wire) in ((False, None), (True, True)) if r.random() < 0.7 else ((NICE_LIST(atts), NICE_LIST(atts)),):
                    for mode_ in ('w', 'a'):
                        for pre_exists in (False, True, 'empty'):       # 'empty': a file that exists already but holds nothing (a header goes to NEW files only)
                            if r.random() < (0.5 if tier == 'quick' else 0.0) and not (mode_ == 'a' and not pre_exists):
                                continue
                            for writer in ('tracts_to_csv', 'TractWriter'):
                                fi += 1
                                fp = os.path.join(scratch, f'f{fi}.csv')
                                pre_rows = []
                                if pre_exists == 'empty':
                                    open(fp, 'w').close()
                                elif pre_exists:
                                    with open(fp, 'w', newline='') as f:
                                        csv.writer(f).writerow(['old', 'row'])
                                    pre_rows = [['old', 'row']] if mode_ == 'a' else []
                                uid = None
                                hp, wp = [], []
                                if writer == 'tracts_to_csv':
                                    res = H.call(tl.tracts_to_csv, atts, fp, mode_, nice_arg)
                                else:
                                    uid = r.choice([None, 7])
                                    hp = r.choice([[], ['Extra']])
                                    wp = ['x', 3] if hp else []

                                    def go():
                                        w = TractWriter(atts, fp, mode_, plus_cols=hp or None, nice_headers=nice_arg, uid=uid)
                                        try:
                                            return w.write(tl, plus_cols=wp or None)
                                        finally:
                                            w.close()
                                    res = H.call(go)
                                n_or += 1
                                bump(writer)
                                if isinstance(res, H.Exn):
                                    fail('csv_total', {'writer': writer, 'desc': di, 'atts': atts, 'mode': mode_}, res, 'no exception')
                                    continue
                                got_rows = read_csv(fp)
                                os.remove(fp)
                                # spec
                                hdr = []
                                if not (pre_exists and mode_ == 'a'):
                                    if nice_arg is True:
                                        h = [NICE.get(a, a) for a in atts]
                                    elif isinstance(nice_arg, list):
                                        h = list(nice_arg)
                                    else:
                                        h = list(atts)
                                    h = h + hp + (['UID'] if uid is not None else [])
                                    hdr = [h]
                                body = []
                                for k, t in enumerate(tl, start=1):
                                    row = [spec_cell(getattr(t, a, f'{a}: n/a')) for a in atts] + [cell_text(x) for x in wp]
                                    if uid is not None:
                                        row.append(None)      # uid cell: checked for shape only
                                    body.append(row)
                                want_rows = pre_rows + hdr + body
                                okk = len(got_rows) == len(want_rows)
                                if okk:
                                    for g, w_ in zip(got_rows, want_rows):
                                        if len(g) != len(w_) or any(b is not None and a != b for a, b in zip(g, w_)):
                                            okk = False
                                if not okk:
                                    fail('csv_content', {'writer': writer, 'desc': di, 'atts': atts, 'mode': mode_, 'pre_exists': pre_exists,
                                                         'nice': repr(nice_arg)[:40], 'uid': uid, 'plus': hp}, got_rows[:3], want_rows[:3])
                                else:
                                    nontriv.add((writer, tuple(atts), mode_, pre_exists, repr(nice_arg)[:20]))
                                if mode != 'search':
                                    try:
                                        wt = [wire_tract(t, atts, known) for t in tl]
                                    except ValueError as e:
                                        cases.append(('bad', '!', {'error': str(e)}))
                                        continue
                                    nice_w = None if nice_arg is False else nice_arg
                                    obs = got_rows[len(pre_rows):]
                                    if writer == 'tracts_to_csv':
                                        rq = H.req('tracts_to_csv', wt, atts, bool(pre_exists), mode_ == 'a', nice_w)
                                    else:
                                        rq = H.req('tractwriter', wt, atts, bool(pre_exists), mode_ == 'a', nice_w, hp, wp, uid)
                                    cases.append((rq, ('ROWS', obs), {'writer': writer, 'atts': atts, 'desc': di, 'mode': mode_}))
        # one writer used over several sessions (write, close, open, write): a new file gets its header once and every row of every session is kept
        for mode_ in ('w', 'a'):
            for di, tl in [(i_, d_.tracts) for i_, d_ in enumerate(descs)][:3]:
                if not len(tl):
                    continue
                fi += 1
                fp = os.path.join(scratch, f'g{fi}.csv')
                atts = ['trs', 'desc']

                def go2():
                    w = TractWriter(atts, fp, mode_)
                    w.write(tl)
                    w.close()
                    w.open()
                    w.write(tl)
                    w.close()
                res = H.call(go2)
                n_or += 1
                bump('TractWriter_sessions')
                rows = [] if isinstance(res, H.Exn) else read_csv(fp)
                want_rows = [atts] + [[spec_cell(t.trs), spec_cell(t.desc)] for t in tl] * 2
                if isinstance(res, H.Exn) or rows != want_rows:
                    fail('csv_sessions', {'writer': 'TractWriter', 'desc': di, 'mode': mode_}, res if isinstance(res, H.Exn) else rows[:4], want_rows[:4])
                if os.path.exists(fp):
                    os.remove(fp)
        parts = {}
        if cases:
            got = H.run_model([c[0] for c in cases if c[0] != 'bad'])
            bad = [{'case': c[2], 'python': 'harness', 'model': 'n/a'} for c in cases if c[0] == 'bad']
            k = 0
            for c in cases:
                if c[0] == 'bad':
                    continue
                g = H.parse_sexp(got[k])
                k += 1
                model_rows = g if isinstance(g, H.Exn) else [[cell_text(x) for x in row] for row in g]
                if model_rows != c[1][1]:
                    if len(bad) < 20:
                        bad.append({'case': c[2], 'request': c[0][:300], 'python': repr(c[1][1])[:300], 'model': repr(model_rows)[:300]})
            parts['model_vs_code'] = {'evaluations': len(cases), 'distinct_nontrivial': len({c[0] for c in cases}), 'n_disagreements': len(bad),
                                      'disagreements': bad, 'samples': [c[2] for c in cases[:2]],
                                      'rule': 'rows produced by the model for the real tract attribute values vs the rows csv.reader reads back from the files the '
                                              'real writers produced (both writers, w/a, new/existing file, header options, plus_cols, uid)'}
        parts['oracle_on_code'] = {
            'evaluations': n_or, 'distinct_nontrivial': len(nontriv), 'impl_failures': fails, 'n_impl_failures': len(fails), 'distribution': dist,
            'rule': 'real exports judged by an independent statement: records equal getattr values (n/a placeholder for unknown names), files re-read with '
                    'csv.reader hold header? + one row per tract with scalar text or joined list/dict contents; every single attribute of Tract.ATTRIBUTES, '
                    'sampled pairs and larger subsets, descriptions with lots, acreages, flags with context, multi-line text, commas and quotes',
            'samples': [{'atts': ['ilots', 'w_flag_lines'], 'writer': 'tracts_to_csv', 'mode': 'w'}]}
        return merge(parts)
    finally:
        shutil.rmtree(scratch, ignore_errors=True)


def NICE_LIST(atts):
    return ['H%d' % i for i in range(len(atts))]


def replay(rp):
    res = run('quick', 'search')
    f = rp['failure']
    bad = [x for x in res['impl_failures'] if x['kind'] == f['kind']]
    print('failures of this kind now:', len(bad))
    for b in bad[:2]:
        print(b)
    return not bad
