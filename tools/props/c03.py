"""C03 plugin: parsing is total.  (1) model vs code incl. exception classes, (2) oracle: any text x
any valid configuration never raises and yields >= 1 tract; invalid arguments raise the documented types."""
import os
import sys

sys.path.insert(0, os.path.dirname(os.path.dirname(os.path.abspath(__file__))))
import harness as H
import textgen as G
from props.common import merge
sys.path.insert(0, os.path.join(os.path.dirname(os.path.dirname(os.path.abspath(__file__))), 'corr'))
import plsscorr
import tractcorr

BOOLS = ['segment', 'sec_within', 'sec_colon_required', 'sec_colon_cautious', 'ocr_scrub', 'clean_qq', 'suppress_lot_divs', 'break_halves', 'parse_qq']
LAYOUTS = ['TRS_desc', 'desc_STR', 'S_desc_TR', 'TR_desc_S', 'copy_all']
TRICKY = ['T154N-R97W Section: NE/4', 'Section NE/4 T154N-R97W', 'T154N-R97W Sec 14 NE/4', 'NE/4 of Section, T154N-R97W', '', ' ', '\n', 'Sec', 'T154N-R97W',
          'Sec 14', 'Sec 14:', 'T154N-R97WSec 14: NE/4', 'Sec 14T154N-R97W', 'T154N-R97W Sec 100: NE/4', 'T154N-R97W Sec 000: Lot 0', 'T0N-R0W Sec 0: ALL',
          'T154N-R9oW Sec 14: NE/4', 'T1S4N-RlOW Sec I4: NE/4', 'Lots 5 - 1(40)', 'Lot 1 through', 'N/2 of', 'Section 4 of T154N-R97W: NE/4',
          'Sections 4 - 6 of Township 154 North, Range 97 West', 'T154N-R97W Sec 14: ' + 'NE/4 ' * 20, '§§§ 14', 'T154N-R97W\x0bSec\x1c14:\x85NE/4',
          'Township ١٥٤ North, Range ٩٧ West Sec ١٤', 'Sec 14 thru', 'Sec 5 - 5: NE/4 T154N-R97W', 'Lots 1 - 400', 'Sec 999 - 990 T1N-R1W',
          'Lot 4(40.12), Lot 4(40.12), S/2NW/4', 'Lots 1(38.29), 2(40.00) and 1(38.30)', 'T154N-R97W Sec 14: Lot 1(40), Lot 1(41)', 'Lot 1(40), NE/4, Lot 1(40)',
          'Lots 3 - 1(40), 2(39.5)', 'N/2 of Lot 1(40), N/2 of Lot 1(40)', 'T154N-R97W of Section 14: NE/4', 'T154N-R97W in said Section 14 NE/4',
          # digit runs beyond CPython's 4300-digit limit on str -> int conversion, wherever a number is read
          'T154N-R97W Sec ' + '1' * 4301 + ': NE/4', 'NE/4 of Section 14 - ' + '1' * 4301 + ', T154N-R97W', 'T154N-R97W Sec 14: Lots 1 - ' + '2' * 4400,
          'T' + '1' * 4301 + 'N-R97W Sec 14: NE/4', 'T154N-R' + '9' * 4302 + 'W Sec 14: NE/4', 'Lot ' + '3' * 4301 + '(40.00)', 'T154N-R97W Sec 14: Lot 1(' + '4' * 4301 + ')',
          'Sec ' + '0' * 4301 + '1 T154N-R97W',
          'T154N-R97W (5th P.M.), Sec 14: NE/4', 'NE/4 of Section 14, T154N-R97W [5th P.M.]', 'T154N | R97W Sec 14: NE/4', 'T154N-R97W \\5th P.M. Sec 14: NE/4']


def rand_config(r):
    toks = []
    for b in BOOLS:
        k = r.random()
        if k < 0.25:
            toks.append(b)
        elif k < 0.32:
            toks.append(b + '.False')
    if r.random() < 0.3:
        toks.append(r.choice(LAYOUTS))
    if r.random() < 0.3:
        toks.append(r.choice(['n', 's']))
    if r.random() < 0.3:
        toks.append(r.choice(['e', 'w']))
    k = r.random()
    if k < 0.15:
        toks.append('qq_depth.%d' % r.randint(1, 3))
    elif k < 0.35:
        mn = r.randint(1, 3)
        toks.append('qq_depth_min.%d' % mn)
        if r.random() < 0.5:
            toks.append('qq_depth_max.%d' % (mn + r.randint(0, 2)))
    r.shuffle(toks)
    return ','.join(toks)


GLUE_VOCAB = ['§', '§§', 'T', 'R', 'N', 'S', 'E', 'W', '1', '2', '5', '54', '154', '97', 'N2', 'W2', 'Sec', 'Sec.', 'Section', 'Sect', '14', '14:', ' ', ' ', ',', '-',
              'T1N', 'R2W', 'T154N-R97W', '154N97W', '5N3W', 'West', 'East', 'est', 'st', 't', 'e', 's', ':', 'NE/4', 'and', 'of', 'North', 'South', 'Range', 'Township',
              '\n', '.', '&', 'thru', 'P.M.', 'PM', 'the', '5th']


def run(tier, mode):
    import pytrs
    r = H.rng('c03')
    fails = []
    n_or = 0
    nontriv = set()
    dist = {'plss': 0, 'tract': 0, 'invalid_args': 0, 'exn_kinds': {}, 'glue_soup': 0, 'glued_pp': 0}
    texts = list(TRICKY)
    from pytrs.parser.rgxlib import twprge_regex as _TR, multisec_regex as _MS
    n = 500 if tier == 'quick' else 8000
    for _ in range(n):
        k = r.random()
        texts.append(G.soup(r, 8) if k < 0.4 else G.damage(r, G.structured_desc(r)) if k < 0.8 else G.any_text(r))
    for _ in range(n // 10):   # lot lists with acreages, duplicates included (the duplicate-acreage bookkeeping of LotUnpacker)
        lots = [r.randint(1, 4) for _ in range(r.randint(2, 5))]
        texts.append(r.choice(['', 'T154N-R97W Sec 14: ']) + r.choice([', ', ' and ', '; ']).join(
            f'{r.choice(["Lot", "Lots", "N/2 of Lot"])} {x}' + (f'({r.choice(["40", "38.29", "40.00", "0", "", ".", "40.", ".5", "000.000000"])})' if r.random() < 0.7 else '') for x in lots))
        # the same lot restated in a separate block (something other than a list connective in between), with every shape of bracket the acreage pattern
        # accepts -- also the empty and the dot-only one, which no number parser reads
        x = r.randint(1, 4)
        br = lambda: r.choice(['({})', '[{}]']).format(r.choice(['', '.', '40.10', '40.1', '38', '.5', '5.']))
        texts.append(r.choice(['', 'T154N-R97W Sec 14: ']) + f'Lot {x}{br()}' + r.choice([' and the NE/4; ', ' less the N/2; ', '; NE/4, ']) + f'Lot {x}{br()}')
    # characters that mean something to `re` (or to str.format / %-formatting) inside the text a preprocessing pattern matches: the principal-meridian pattern lets up
    # to 25 arbitrary characters into its match, e.g. a parenthesised or bracketed meridian
    META = ['(', ')', '[', ']', '{', '}', '\\', '*', '+', '?', '|', '^', '$', '.', '%s', '{0}', '\\1', '\\g<1>', '(?i)', '5th', 'of the', ' ', ' ']
    for _ in range(n // 8):
        filler = ''.join(r.choice(META) for _ in range(r.randint(1, 6)))[:22]
        texts.append(r.choice(['T154N-R97W', 'Township 154 North, Range 97 West', 'NE/4 of Section 14, T154N-R97W']) + r.choice([' ', ', ', '']) + filler
                     + r.choice(['P.M.', 'PM', 'Principal Meridian', ' P. M.)']) + r.choice(['', ', Sec 14: NE/4', ']', ')']))
    # halves followed by a quarter in every spelling the half-plus-quarter scrubber accepts (hyphenated, 'Nort'/'Sout', dotted, spaced),
    # ending at every terminator its look-ahead accepts
    for _ in range(n // 5):
        q = r.choice(['N', 'Nort', 'North', 'S', 'Sout', 'South']) + r.choice(['', ' ', '-', '  ', ' - ', '--']) + r.choice(['East', 'West'])
        if r.random() < 0.3:
            q = r.choice(['N', 'S']) + r.choice(['', ' ', '  ', '.', '. ']) + r.choice(['E', 'W']) + r.choice(['', '.'])
        if r.random() < 0.3:
            q = r.choice([q.upper(), q.lower()])
        t = r.choice(['N', 'S', 'E', 'W']) + r.choice(['/2', '½', ' 1/2', '2']) + r.choice([' ', ' of ', ' of the ', '', ' of the\n']) + q + r.choice(['', ' ', '.', ',', ';', ' and Lot 1', ' N½', 'NE¼'])
        texts.append(r.choice(['', 'T154N-R97W Sec 14: ', 'Lots 1 - 3, and the ']) + t)
    # the one situation theorem C03_plss_parser_raises leaves open: a Twp/Rge match starting or ending exactly where a section match starts.
    # Tokens glued together without blanks aim at it; `glued_pp` counts the preprocessed texts in which it occurs.
    for _ in range(n // 4):
        dist['glue_soup'] += 1
        texts.append(''.join(r.choice(GLUE_VOCAB) for _ in range(r.randint(2, 9))))
    for i, t in enumerate(texts):
        for cfg in ([''] + [rand_config(r) for _ in range(3)] if i < len(TRICKY) else [rand_config(r)]):
            n_or += 1
            dist['plss'] += 1
            d = H.call(pytrs.PLSSDesc, t, config=cfg)
            if isinstance(d, H.Exn):
                dist['exn_kinds'][d.name] = dist['exn_kinds'].get(d.name, 0) + 1
                fails.append({'kind': 'plssdesc_raises', 'detail': {'text': t, 'config': cfg}, 'got': repr(d), 'want': 'no exception', 'known_id': None})
                continue
            _pp = d.pp_desc or ''
            if {m.start() for m in _MS.finditer(_pp)} & ({m.end() for m in _TR.finditer(_pp)} | {m.start() for m in _TR.finditer(_pp)}):
                dist['glued_pp'] += 1
            if len(d.tracts) < 1:
                fails.append({'kind': 'no_tract', 'detail': {'text': t, 'config': cfg}, 'got': '0 tracts', 'want': '>= 1 tract', 'known_id': None})
                continue
            if len(t) > 20:
                nontriv.add((t, cfg))
            if i % 3 == 0:
                # the other entry points: parse(), parse_tracts(), preprocess()
                for nm, f in (('parse', lambda: d.parse(commit=False, segment=True, sec_within=True)), ('parse_tracts', lambda: d.parse_tracts(clean_qq=True)),
                              ('preprocess', lambda: d.preprocess(ocr_scrub=True))):
                    e = H.call(f)
                    n_or += 1
                    if isinstance(e, H.Exn):
                        fails.append({'kind': 'plssdesc_raises', 'detail': {'text': t, 'config': cfg, 'call': nm}, 'got': repr(e), 'want': 'no exception', 'known_id': None})
        if i % 2 == 0 or i < len(TRICKY) or i >= len(TRICKY) + n:
            tcfg = ','.join(x for x in rand_config(r).split(',') if x.split('.')[0] in ('clean_qq', 'suppress_lot_divs', 'break_halves', 'parse_qq', 'qq_depth', 'qq_depth_min', 'qq_depth_max', 'ocr_scrub', 'n', 's', 'e', 'w'))
            n_or += 1
            dist['tract'] += 1
            tr = H.call(lambda: pytrs.Tract(t, trs='154n97w14', config=tcfg, parse_qq=True))
            if isinstance(tr, H.Exn):
                fails.append({'kind': 'tract_raises', 'detail': {'text': t, 'config': tcfg}, 'got': repr(tr), 'want': 'no exception', 'known_id': None})
            else:
                e = H.call(tr.parse)
                if isinstance(e, H.Exn):
                    fails.append({'kind': 'tract_raises', 'detail': {'text': t, 'config': tcfg, 'call': 'parse'}, 'got': repr(e), 'want': 'no exception', 'known_id': None})
    # invalid arguments: only the documented exception types
    invalid = [(lambda: pytrs.PLSSDesc(123), 'TypeError'), (lambda: pytrs.PLSSDesc(None), 'TypeError'), (lambda: pytrs.PLSSDesc(b'T154N'), 'TypeError'),
               (lambda: pytrs.PLSSDesc('x', config=5), 'ConfigError'), (lambda: pytrs.PLSSDesc('x', config=['n']), 'ConfigError'),
               (lambda: pytrs.PLSSDesc('x', config='foo'), 'ValueError'), (lambda: pytrs.PLSSDesc('x', config='default_ns.x'), 'DefaultNSError'),
               (lambda: pytrs.PLSSDesc('x', config='default_ew.q'), 'DefaultEWError'), (lambda: pytrs.Tract('x', config=5), 'ConfigError'),
               (lambda: pytrs.Tract('x', config='bogus.1'), 'ValueError'), (lambda: pytrs.Tract('x', trs=5), 'TypeError'),
               (lambda: pytrs.PLSSDesc('T154-R97 Sec 1: NE').parse(default_ns='x'), 'DefaultNSError'),
               (lambda: pytrs.PLSSDesc('T154-R97 Sec 1: NE').parse(default_ew='x'), 'DefaultEWError')]
    for f, want in invalid:
        got = H.call(f)
        n_or += 1
        dist['invalid_args'] += 1
        if not (isinstance(got, H.Exn) and got.name == want):
            fails.append({'kind': 'invalid_args', 'detail': {'call': invalid.index((f, want))}, 'got': repr(got), 'want': want, 'known_id': None})
    parts = {}
    if mode != 'search':
        parts['model_vs_code'] = plsscorr.run(tier, 'c03', extra_texts=texts[:len(TRICKY) + (150 if tier == 'quick' else 2000)], functions=True,
                                              n=50 if tier == 'quick' else 500)
    parts['oracle_on_code'] = {
        'evaluations': n_or, 'distinct_nontrivial': len(nontriv), 'impl_failures': fails, 'n_impl_failures': len(fails), 'distribution': dist,
        'rule': 'token soup, damaged structured descriptions, hand-picked tricky inputs (section word without number, colon modes on colon-less text, look-alike digits, '
                'unicode digits/whitespace, empty) x random valid configurations (all booleans, forced layouts, directions, depth settings): PLSSDesc init/parse/parse_tracts/'
                'preprocess and Tract init/parse must not raise and PLSSDesc must hold >= 1 tract; invalid arguments must raise exactly the documented class; '
                'non-trivial = text longer than 20 characters that parsed',
        'samples': [{'text': 'T154N-R97W Section: NE/4', 'config': 'sec_colon_required,segment'}]}
    return merge(parts)


def replay(rp):
    import pytrs
    f = rp['failure']
    d = f['detail']
    if f['kind'] == 'tract_raises':
        got = H.call(lambda: pytrs.Tract(d['text'], trs='154n97w14', config=d['config'], parse_qq=True))
    else:
        got = H.call(pytrs.PLSSDesc, d.get('text', ''), config=d.get('config'))
    print('input:', d, '\n observed:', got if isinstance(got, H.Exn) else 'no exception, %s tracts' % (len(got.tracts) if hasattr(got, 'tracts') else '-'))
    return not isinstance(got, H.Exn) and (not hasattr(got, 'tracts') or len(got.tracts) >= 1)
