"""C12 plugin: correspondence + oracle sweep (round trip, idempotence, strictness, components)."""
import os
import re
import sys

sys.path.insert(0, os.path.dirname(os.path.dirname(os.path.abspath(__file__))))
import harness as H
from props.common import merge
sys.path.insert(0, os.path.join(os.path.dirname(os.path.dirname(os.path.abspath(__file__))), 'corr'))
import c12 as corr

# independent statement of the standard form (digits as Python's \d)
STD = re.compile(r'(\d{1,3}[nsNS]|XXXz|___z)(\d{1,3}[ewEW]|XXXz|___z)(\d{2}|XX|__)?')


def expected_trs(x):
    """What TRS(x).trs must be, by the property, for a string x."""
    if x in ('', None):
        return '___z___z__'
    mo = STD.fullmatch(x)
    if not mo:
        return 'XXXzXXXzXX'
    twp, rge, sec = mo.groups()
    return twp.lower() if twp[0] not in 'X_' else twp, rge, sec


def oracle(tier):
    import pytrs
    fails = []
    n = 0
    r = H.rng('c12o')

    def fail(kind, inp, got, want):
        fails.append({'kind': kind, 'input': inp, 'got': repr(got)[:200], 'want': repr(want)[:200], 'known_id': None})
    # round trip
    nums = [0, 1, 2, 9, 10, 99, 100, 154, 999] + [r.randrange(1000) for _ in range(30 if tier == 'quick' else 300)]
    secs = [0, 1, 9, 10, 36, 99] + [r.randrange(100) for _ in range(5)]
    for t in nums:
        for g in nums[:12]:
            for sc in secs[:6]:
                ns, ew = r.choice('ns'), r.choice('ew')
                for (et, er, es) in [(t, g, sc), (str(t), str(g), str(sc)), (f'{t}{ns}', f'{g}{ew}', sc),
                                     (f'{t}{ns.upper()}', f'{g}{ew.upper()}', str(sc)), (str(t).rjust(3, '0'), g, sc)]:
                    n += 1
                    has_dir = isinstance(et, str) and et[-1].lower() in 'ns'
                    obj = H.call(pytrs.TRS.from_twprgesec, et, er, es, ns, ew)
                    want = f'{t}{ns}{g}{ew}{sc:02d}'
                    if isinstance(obj, H.Exn) or obj.trs != want:
                        fail('roundtrip', [et, er, es, ns, ew], getattr(obj, 'trs', obj), want)
                        continue
                    got = (obj.twp_num, obj.twp_ns, obj.rge_num, obj.rge_ew, obj.sec_num, obj.twp, obj.rge, obj.sec, obj.twprge)
                    exp = (t, ns, g, ew, sc, f'{t}{ns}', f'{g}{ew}', f'{sc:02d}', f'{t}{ns}{g}{ew}')
                    if got != exp:
                        fail('decompose', want, got, exp)
                    if isinstance(et, str) and has_dir:      # the same with ocr_scrub on: digits stay digits, the direction letter stays a direction
                        n += 1
                        o2 = H.call(pytrs.TRS.from_twprgesec, et, er, es, ns, ew, True)
                        if isinstance(o2, H.Exn) or o2.trs != want:
                            fail('roundtrip_ocr_scrub', [et, er, es, ns, ew, True], getattr(o2, 'trs', o2), want)
                    again = pytrs.TRS(obj.trs)
                    if again.trs != obj.trs or again != obj or hash(again) != hash(obj):
                        fail('idempotent', obj.trs, again.trs, obj.trs)
                    # equal strings compare and hash equal however the object came to hold its string: built empty and set, or re-pointed from another value
                    n += 1
                    late = pytrs.TRS()
                    late.set_twprgesec(t, g, sc, ns, ew)
                    moved = pytrs.TRS('8s102e03')
                    moved.trs = want
                    for how, o3 in (('set_twprgesec on an empty TRS', late), ('.trs reassigned', moved)):
                        if o3.trs != obj.trs or o3 != obj or hash(o3) != hash(obj) or o3 not in {obj}:
                            fail('equal_strings_hash_equal', {'trs': want, 'how': how}, [o3.trs, o3 == obj, hash(o3) == hash(obj)], [want, True, True])
    # strictness + idempotence over mutations
    strings = []
    for v in corr.valid_strings():
        strings.append(v)
        strings += corr.mutations(v) if tier == 'thorough' else corr.mutations(v)[::2]
    for x in strings:
        n += 1
        pytrs.TRS._clear_cache()
        got = H.call(lambda: pytrs.TRS(x).trs)
        e = expected_trs(x)
        if isinstance(e, tuple):
            twp, rge, sec = e
            want = (twp.lower() if twp[0] not in 'X_' else twp) + (rge.lower() if rge[0] not in 'X_' else rge) + (sec or 'XX')
        else:
            want = e
        if got != want:
            fail('strict', x, got, want)
        elif not isinstance(got, H.Exn):
            g2 = H.call(lambda: pytrs.TRS(got).trs)
            if g2 != got:
                fail('idempotent', got, g2, got)
    # the same strings again WITHOUT clearing the cache, each preceded by its case variants: the result depends on the string alone
    pytrs.TRS._clear_cache()
    for x in strings[::3] + ['', '___Z___Z__', 'XXXz12e07', 'xxxz12e07', '___z___z__', '154n97wXX', '154n97wxx']:
        for v in (x.upper(), x.lower(), x.swapcase()):
            H.call(lambda: pytrs.TRS(v).trs)
        n += 1
        got = H.call(lambda: pytrs.TRS(x).trs)
        e = expected_trs(x)
        if isinstance(e, tuple):
            twp, rge, sec = e
            want = (twp.lower() if twp[0] not in 'X_' else twp) + (rge.lower() if rge[0] not in 'X_' else rge) + (sec or 'XX')
        else:
            want = e
        if got != want:
            fail('strict_after_case_variants', x, got, want)
    pytrs.TRS._clear_cache()
    # components: placeholder / junk in one position, others kept
    for junk, ph in [('abc', 'XXXz'), ('XXXz', 'XXXz'), ('___z', '___z'), (None, '___z'), ('', '___z'), ('1234', 'XXXz')]:
        n += 2
        a = H.call(lambda: pytrs.TRS.from_twprgesec(junk, 97, 14).trs)
        if a != f'{ph}97w14':
            fail('component', [junk, 97, 14], a, f'{ph}97w14')
        b = H.call(lambda: pytrs.TRS.from_twprgesec(154, junk, 14).trs)
        if b != f'154n{ph}14':
            fail('component', [154, junk, 14], b, f'154n{ph}14')
    for junk, ph in [('abc', 'XX'), ('XX', 'XX'), ('__', '__'), (None, '__'), ('', '__'), ('123', 'XX')]:
        n += 1
        c = H.call(lambda: pytrs.TRS.from_twprgesec(154, 97, junk).trs)
        if c != f'154n97w{ph}':
            fail('component', [154, 97, junk], c, f'154n97w{ph}')
    return {'evaluations': n, 'distinct_nontrivial': n, 'impl_failures': fails[:50], 'n_impl_failures': len(fails),
            'rule': 'implementation judged by an independent statement of the standard form: round trip over boundary+random numbers x 5 encodings, '
                    'strictness/idempotence over all single-character mutations of valid strings, component placeholders',
            'samples': [{'from_twprgesec': [154, '97w', '14']}, {'TRS': '1154n97w14'}]}


def run(tier, mode):
    parts = {}
    if mode != 'search':
        parts['model_vs_code'] = corr.run(tier)
    parts['oracle_on_code'] = oracle(tier if mode != 'search' else 'thorough')
    return merge(parts)


def replay(rp):
    import pytrs
    f = rp['failure']
    print('input:', f)
    if f['kind'] in ('strict', 'idempotent'):
        got = H.call(lambda: pytrs.TRS(f['input']).trs)
    else:
        got = H.call(lambda: pytrs.TRS.from_twprgesec(*f['input']).trs) if isinstance(f['input'], list) else None
    print('observed now:', got, ' wanted:', f['want'])
    return repr(got)[:200] == f['want']
