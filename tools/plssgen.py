"""plssgen.py -- abstract PLSS descriptions, their renderings in the four documented layouts,
and the tracts they denote (used by the oracles of C01, C04, C05, C08, C09, C10, C11, C20)."""

FULL = {'n': 'North', 's': 'South', 'e': 'East', 'w': 'West'}
LAYOUTS = ['TRS_desc', 'TR_desc_S', 'desc_STR', 'S_desc_TR']

# description blocks containing no Twp/Rge or section reference, no leading/trailing separators or cull words
BLOCKS = ['NE/4', 'W/2', 'Lots 1 - 3, S/2N/2', 'ALL', 'S/2SW/4', 'That part of the N/2 lying north of the river',
          'Lot 1(38.29), Lot 2', 'NE/4NW/4; S/2NW/4', 'A tract of land beginning at the NE corner, thence S 330 feet',
          'N/2 of Lot 5', 'E/2 less and except the wellbore of the Johnston #1 well', 'SE/4, including all accretions',
          'The East 80 rods thereof', 'W½SE¼', 'Lot 3 of the \u0130ST\u0130KLAL Tract', 'Block \u0130\u0130\u0130 of the Stra\u00dfe Addition']
MULTILINE_BLOCKS = ['NE/4\nW/2SW/4', 'Lots 1, 2\nS/2NE/4']


def twprge_spellings(t, ns, r, ew):
    """documented spellings of a Twp/Rge (the bare '154N-97W' form needs an explicit R when the range is 2)"""
    NS, EW = ns.upper(), ew.upper()
    out = [f'T{t}{NS}-R{r}{EW}', f'Township {t} {FULL[ns]}, Range {r} {FULL[ew]}', f'Twp. {t} {NS}., Rge. {r} {EW}.',
           f't{t}{ns}-r{r}{ew}', f'T-{t}-{NS}, R-{r}-{EW}', f'T{t}{NS} R{r}{EW}', f'Township {t} {FULL[ns]} Range {r} {FULL[ew]}']
    if r != 2:
        out.append(f'{t}{NS}-{r}{EW}')
    return out


def sec_words(plural):
    return ['Sections', 'Secs', 'Secs.'] if plural else ['Section', 'Sec', 'Sec.', 'Sect.', '§']


def gen_secgroup(r):
    k = r.random()
    a = r.randint(1, 36)
    if k < 0.6:
        return ('single', [a])
    if k < 0.8:
        b = r.randint(1, 36)
        while b == a:
            b = r.randint(1, 36)
        return ('and', [a, b])
    b = min(36, a + r.randint(1, 4))
    if b == a:
        a -= 1
    return ('thru', [a, b])


def expand_secs(g):
    kind, nums = g
    if kind == 'thru':
        return list(range(nums[0], nums[1] + 1))
    return list(nums)


def render_secgroup(r, g):
    kind, nums = g
    if kind == 'single':
        return f'{r.choice(sec_words(False))} {nums[0]}'
    if kind == 'and':
        return f'{r.choice(sec_words(True))} {nums[0]}{r.choice([" and ", " & ", ", "])}{nums[1]}'
    return f'{r.choice(sec_words(True))} {nums[0]}{r.choice([" - ", " through ", " thru ", "-"])}{nums[1]}'


def gen_desc(r, max_groups=3, max_secs=3, blocks=None, multiline=False, repeat=0.0):
    """D = [(twprge, [(secgroup, block), ...]), ...] with distinct Twp/Rges"""
    blocks = blocks or (BLOCKS + (MULTILINE_BLOCKS if multiline else []))
    D, seen = [], set()
    for _ in range(r.randint(1, max_groups)):
        while True:
            tr = (r.choice([1, 2, 7, 15, 154, 99, 100, 9]), r.choice('ns'), r.choice([1, 3, 9, 97, 20, 101, 22, 2]), r.choice('ew'))
            if tr not in seen:
                seen.add(tr)
                break
        secs = [(gen_secgroup(r), r.choice(blocks)) for _ in range(r.randint(1, max_secs))]
        D.append((tr, secs))
    if len(D) >= 2 and r.random() < repeat:
        # the first Twp/Rge comes back after another one (A, B, A): a later group under an earlier heading
        D.append((D[0][0], [(gen_secgroup(r), r.choice(blocks)) for _ in range(r.randint(1, max_secs))]))
    return D


def expected_tracts(D):
    out = []
    for (t, ns, rg, ew), secs in D:
        for g, block in secs:
            for n in expand_secs(g):
                out.append((f'{t}{ns}{rg}{ew}{n:02d}', block))
    return out


LAST_CONNS = []   # connectors used by the last render() for the first block of each Twp/Rge group


def render(r, D, layout, spell=None, canonical=False, conns=None, colons=None):
    """one of the documented renderings of D in the given layout; conns = connectors allowed between a
    description block and the section reference that follows it (default: ' of ')"""
    parts = []
    del LAST_CONNS[:]
    conns = conns or [' of ']
    colons = colons or [':']       # how the colon after a section reference is written (blanks of any kind may precede it)
    for (t, ns, rg, ew), secs in D:
        sp = twprge_spellings(t, ns, rg, ew)
        tr = sp[0] if canonical else (sp[spell % len(sp)] if spell is not None else r.choice(sp))
        gsep = '\n' if canonical else r.choice(['\n', ', ', '; '])
        if layout == 'TRS_desc':
            body = gsep.join(f'{render_secgroup(r, g)}{r.choice(colons) if len(colons) > 1 else colons[0]} {b}' for g, b in secs)
            parts.append(tr + ('\n' if canonical else r.choice(['\n', ', ', ' '])) + body)
        elif layout == 'TR_desc_S':
            cs = [r.choice(conns) if len(conns) > 1 else conns[0] for _ in secs]
            LAST_CONNS.append(cs[0])
            body = gsep.join(f'{b}{c}{render_secgroup(r, g)}' for (g, b), c in zip(secs, cs))
            parts.append(tr + ('\n' if canonical else r.choice(['\n', ', ', ' '])) + body)
        elif layout == 'desc_STR':
            cs = [r.choice(conns) if len(conns) > 1 else conns[0] for _ in secs]
            LAST_CONNS.append(cs[0])
            body = gsep.join(f'{b}{c}{render_secgroup(r, g)}' for (g, b), c in zip(secs, cs))
            parts.append(body + ', ' + tr)
        else:
            body = gsep.join(f'{render_secgroup(r, g)}{r.choice(colons) if len(colons) > 1 else colons[0]} {b}' for g, b in secs)
            parts.append(body + ', ' + tr)
    return ('\n' if canonical else r.choice(['\n', '\n\n', '; '])).join(parts)
