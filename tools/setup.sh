#!/bin/sh
# MANIFEST.setup_cmd: build the whole framework from files on disk (offline).
set -e
V=$(cd "$(dirname "$0")/.." && pwd)
cd "$V"
mkdir -p _build evidence replays
PYTHONPATH=/repo PYTHONHASHSEED=0 /venv/bin/python tools/translate.py
cd coq
coq_makefile -f _CoqProject -o Makefile
timeout 7200 make -j16
cd ..
for g in $(ls coq/Extract | sed -n 's/^Drv_\(.*\)\.v$/\1/p'); do sh tools/build_driver.sh "$g"; done
echo setup done
