"""harness.py -- shared plumbing for the checks: environment, wire format, running the
extracted model, evidence/replay writers, known findings."""
import json
import os
import random
import subprocess
import sys
import time

VERIF = os.path.dirname(os.path.dirname(os.path.abspath(__file__)))
REPO = os.environ.get('PYTRS_REPO', '/repo')
BUILD = os.path.join(VERIF, '_build')
DRIVER = os.path.join(BUILD, 'extract', os.environ.get('VERIF_DRIVER_GROUP', 'aliquot'), 'driver')
PY = '/venv/bin/python'
NPROC = int(os.environ.get('VERIF_NPROC', '12'))


def seed():
    try:
        return int(os.environ.get('VERIF_SEED', '0'))
    except ValueError:
        return 0


def rng(tag=''):
    return random.Random(f'{seed()}:{tag}')


# ---------------------------------------------------------------- wire format

def S(x):
    return '(S' + ''.join(' %d' % ord(c) for c in x) + ')'


def canon(v):
    """Python value -> wire s-expression (canonical form used for diffing)."""
    if v is None:
        return 'N'
    if v is True:
        return 'T'
    if v is False:
        return 'F'
    if isinstance(v, int):
        return '(I %d)' % v
    if isinstance(v, str):
        return S(v)
    if isinstance(v, list):
        return '(L' + ''.join(' ' + canon(x) for x in v) + ')'
    if isinstance(v, tuple):
        return '(U' + ''.join(' ' + canon(x) for x in v) + ')'
    if isinstance(v, dict):
        return '(L' + ''.join(' (U ' + canon(k) + ' ' + canon(x) + ')' for k, x in v.items()) + ')'
    if isinstance(v, Exn):
        return '(E' + ''.join(' %d' % ord(c) for c in v.name) + ')'
    if isinstance(v, BaseException):
        return '(E' + ''.join(' %d' % ord(c) for c in type(v).__name__) + ')'
    raise TypeError(f'cannot canon {type(v)}')


class Exn:
    def __init__(self, name):
        self.name = name

    def __repr__(self):
        return f'Exn({self.name})'

    def __eq__(self, o):
        return isinstance(o, Exn) and o.name == self.name


def parse_sexp(line):
    """wire s-expression -> Python value (for readable replay files)."""
    toks = line.replace('(', ' ( ').replace(')', ' ) ').split()
    pos = 0

    def val():
        nonlocal pos
        t = toks[pos]
        pos += 1
        if t == 'N':
            return None
        if t == 'T':
            return True
        if t == 'F':
            return False
        if t != '(':
            raise ValueError(f'bad token {t} in {line[:80]}')
        kind = toks[pos]
        pos += 1
        if kind == 'I':
            n = int(toks[pos])
            pos += 2
            return n
        if kind in ('S', 'E'):
            cps = []
            while toks[pos] != ')':
                cps.append(int(toks[pos]))
                pos += 1
            pos += 1
            s = ''.join(chr(c) for c in cps)
            return s if kind == 'S' else Exn(s)
        items = []
        while toks[pos] != ')':
            items.append(val())
        pos += 1
        return items if kind == 'L' else tuple(items)
    if line.startswith('!'):
        return Exn('DRIVER:' + line)
    return val()


def run_model(lines, nproc=None):
    """Run wire-format request lines through the extracted model; returns output lines."""
    if not lines:
        return []
    nproc = nproc or NPROC
    nproc = max(1, min(nproc, (len(lines) + 49) // 50))
    chunks = [lines[i::nproc] for i in range(nproc)]
    procs = []
    for ch in chunks:
        p = subprocess.Popen(['sh', '-c', f'ulimit -s unlimited 2>/dev/null; exec {DRIVER}'],
                             stdin=subprocess.PIPE, stdout=subprocess.PIPE, text=True)
        procs.append(p)
    import threading
    outs = [None] * nproc

    def feed(i):
        o, _ = procs[i].communicate('\n'.join(chunks[i]) + '\n')
        outs[i] = o.split('\n')
    ths = [threading.Thread(target=feed, args=(i,)) for i in range(nproc)]
    for t in ths:
        t.start()
    for t in ths:
        t.join()
    res = [None] * len(lines)
    for i in range(nproc):
        got = outs[i]
        for j, _ in enumerate(chunks[i]):
            res[i + j * nproc] = got[j] if j < len(got) else '!missing'
    return res


def req(entry, *args):
    return entry + ''.join(' ' + canon(a) for a in args)


# ---------------------------------------------------------------- evidence etc.

def write_json(path, obj):
    os.makedirs(os.path.dirname(path), exist_ok=True)
    tmp = path + '.tmp'
    with open(tmp, 'w') as f:
        json.dump(obj, f, indent=1, ensure_ascii=True, default=repr)
    os.replace(tmp, path)


def load_known():
    p = os.path.join(VERIF, 'known_findings.json')
    if not os.path.exists(p):
        return []
    return json.load(open(p))


class Timer:
    def __init__(self):
        self.t0 = time.time()

    def s(self):
        return round(time.time() - self.t0, 2)


def diff_cases(cases, nontrivial=None, max_report=20):
    """cases: list of (request_line, expected_canon, description).  Runs the model and
    returns a result dict with the disagreements."""
    got = run_model([c[0] for c in cases])
    bad = []
    nt = set()
    for (rq, e, d), g in zip(cases, got):
        if e != g:
            if len(bad) < max_report:
                bad.append({'case': d, 'request': rq, 'python': e, 'model': g})
            else:
                bad.append(None)
        if nontrivial is None or nontrivial(e):
            nt.add(rq)
    nbad = len(bad)
    bad = [b for b in bad if b is not None]
    return {'evaluations': len(cases), 'distinct_nontrivial': len(nt), 'n_disagreements': nbad,
            'disagreements': bad, 'samples': [c[2] for c in cases[:3]]}


def call(f, *a, **k):
    """Run f and return its value or the exception (canonicalised by class name)."""
    import warnings
    with warnings.catch_warnings():
        warnings.simplefilter('ignore')
        try:
            return f(*a, **k)
        except Exception as e:  # noqa  (RecursionError included: unbounded recursion in the code is an exception it raised)
            return Exn(type(e).__name__)


# digits of other scripts: `\d`, int() and str.isdecimal() accept them like 0-9 (the library reads numbers with `\d` and int())
DIGIT_SCRIPTS = [0x0660, 0x06F0, 0x0966, 0xFF10, 0x0E50, 0x1D7CE]   # Arabic-Indic, Extended Arabic-Indic, Devanagari, Fullwidth, Thai, Mathematical bold


def altdigits(r, s, p=1.0):
    """the ASCII digits of s rewritten in one other script (with probability p; else unchanged)"""
    if r.random() >= p:
        return s
    base = r.choice(DIGIT_SCRIPTS)
    return ''.join(chr(base + ord(c) - 48) if '0' <= c <= '9' else c for c in s)


def numstr(r, n, p_alt=0.12, p_zero=0.08, width=3):
    """a spelling of the non-negative integer n that int() reads back: plain, zero-padded (up to `width` digits) or in another script"""
    s = str(n)
    if r.random() < p_zero and len(s) < width:
        s = s.rjust(r.randint(len(s) + 1, width), '0')
    return altdigits(r, s, p_alt)
