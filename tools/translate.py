#!/venv/bin/python
"""translate.py -- regenerate coq/Gen/*.v from /repo's current working tree.

Fail-closed: anything unexpected (unknown regex node, missing call site, missing
constant) makes this script exit non-zero, which the checks report as a broken tie.

Run with /venv/bin/python, PYTHONPATH=/repo, PYTHONHASHSEED=0.
"""
import ast
import hashlib
import json
import os
import re
import sys

REPO = os.environ.get('PYTRS_REPO', '/repo')
VERIF = os.path.dirname(os.path.dirname(os.path.abspath(__file__)))
GEN = os.path.join(VERIF, 'coq', 'Gen')
CACHE = os.path.join(VERIF, '_build', 'cscache.json')

sys.path.insert(0, REPO)
import warnings as _w
_w.simplefilter('ignore')
import re._parser as sre_parse          # noqa: E402
import re._constants as sre_c           # noqa: E402

import pytrs                            # noqa: E402
assert os.path.realpath(pytrs.__file__).startswith(os.path.realpath(REPO) + os.sep), pytrs.__file__


class TranslateError(Exception):
    pass


# ----------------------------------------------------------------------------
# character sets, computed by CPython's own engine over all code points

ALLCHARS = ''.join(chr(i) for i in range(0x110000) if not (0xD800 <= i <= 0xDFFF))
_cs_cache = {}
if os.path.exists(CACHE):
    try:
        _cs_cache = json.load(open(CACHE))
        if _cs_cache.get('__py__') != sys.version:
            _cs_cache = {}
    except Exception:
        _cs_cache = {}
_cs_cache['__py__'] = sys.version


def ranges_of_class(cls_src, flags):
    """cls_src is the source of a one-character pattern ('[...]', '.', literal)."""
    flags = flags & ~re.VERBOSE
    key = f"{flags}:{cls_src}"
    if key in _cs_cache:
        return [tuple(x) for x in _cs_cache[key]]
    rgx = re.compile('(?:' + cls_src + ')+', flags)
    out = []
    for mo in rgx.finditer(ALLCHARS):
        s = mo.group(0)
        # ALLCHARS skips the surrogate block; a run never spans it contiguously
        # in code-point terms unless both sides are in -- split there.
        lo, hi = ord(s[0]), ord(s[-1])
        if lo < 0xD800 and hi > 0xDFFF:
            out.append((lo, 0xD7FF))
            out.append((0xE000, hi))
        else:
            out.append((lo, hi))
    # surrogates: test individually (lone surrogates are legal str elements)
    sur = re.compile(cls_src, flags)
    run = None
    for cp in range(0xD800, 0xE000):
        if sur.fullmatch(chr(cp)):
            if run and run[1] == cp - 1:
                run[1] = cp
            else:
                if run:
                    out.append(tuple(run))
                run = [cp, cp]
    if run:
        out.append(tuple(run))
    out.sort()
    # merge adjacent
    merged = []
    for lo, hi in out:
        if merged and merged[-1][1] + 1 >= lo:
            merged[-1] = (merged[-1][0], max(hi, merged[-1][1]))
        else:
            merged.append((lo, hi))
    _cs_cache[key] = merged
    return merged


def esc_in_class(cp):
    ch = chr(cp)
    if ch in '\\]^-[':
        return '\\' + ch
    if cp < 32 or cp == 127 or ch == ' ' or ch == '#':
        return '\\x%02x' % cp if cp < 256 else ch
    return ch


CAT_SRC = {
    sre_c.CATEGORY_DIGIT: r'\d', sre_c.CATEGORY_NOT_DIGIT: r'\D',
    sre_c.CATEGORY_SPACE: r'\s', sre_c.CATEGORY_NOT_SPACE: r'\S',
    sre_c.CATEGORY_WORD: r'\w', sre_c.CATEGORY_NOT_WORD: r'\W',
}


def class_source(op, av):
    """Source text of a one-character pattern equivalent to the node."""
    if op is sre_c.LITERAL:
        return '[' + esc_in_class(av) + ']'
    if op is sre_c.NOT_LITERAL:
        return '[^' + esc_in_class(av) + ']'
    if op is sre_c.ANY:
        return '.'
    if op is sre_c.IN:
        parts = []
        neg = False
        for o, a in av:
            if o is sre_c.NEGATE:
                neg = True
            elif o is sre_c.LITERAL:
                parts.append(esc_in_class(a))
            elif o is sre_c.RANGE:
                parts.append(esc_in_class(a[0]) + '-' + esc_in_class(a[1]))
            elif o is sre_c.CATEGORY:
                if a not in CAT_SRC:
                    raise TranslateError(f'unknown category {a}')
                parts.append(CAT_SRC[a])
            else:
                raise TranslateError(f'unknown IN item {o}')
        return '[' + ('^' if neg else '') + ''.join(parts) + ']'
    raise TranslateError(f'not a char node {op}')


class PatEmitter:
    def __init__(self):
        self.cs_defs = {}      # ranges tuple -> name
        self.cs_order = []
        self.lines = []
        self.names = []
        self.meta = {}

    def cs_name(self, ranges):
        key = tuple(ranges)
        if key not in self.cs_defs:
            name = f'cs_{len(self.cs_defs)}'
            self.cs_defs[key] = name
            self.cs_order.append((name, key))
        return self.cs_defs[key]

    def conv_seq(self, items, flags):
        terms = [self.conv(op, av, flags) for op, av in items]
        if not terms:
            return 'Eps'
        out = terms[-1]
        for t in reversed(terms[:-1]):
            out = f'(Seq {t} {out})'
        return out

    def conv(self, op, av, flags):
        if flags & ~(re.IGNORECASE | re.UNICODE | re.VERBOSE):
            raise TranslateError(f'unsupported flags {flags}')
        if op in (sre_c.LITERAL, sre_c.NOT_LITERAL, sre_c.ANY, sre_c.IN):
            rg = ranges_of_class(class_source(op, av), flags)
            return f'(Chr {self.cs_name(rg)})'
        if op is sre_c.MAX_REPEAT:
            mn, mx, sub = av
            mxs = 'None' if mx is sre_c.MAXREPEAT else f'(Some {int(mx)}%nat)'
            return f'(Rep {int(mn)}%nat {mxs} {self.conv_seq(sub, flags)})'
        if op is sre_c.SUBPATTERN:
            group, add_flags, del_flags, sub = av
            if add_flags or del_flags:
                raise TranslateError('inline flags not supported')
            body = self.conv_seq(sub, flags)
            if group is None:
                return body
            return f'(Grp {int(group)}%nat {body})'
        if op is sre_c.BRANCH:
            _, alts = av
            terms = [self.conv_seq(a, flags) for a in alts]
            out = terms[-1]
            for t in reversed(terms[:-1]):
                out = f'(Alt {t} {out})'
            return out
        if op is sre_c.ASSERT:
            direction, sub = av
            body = self.conv_seq(sub, flags)
            if direction == 1:
                return f'(Ahead {body})'
            lo, hi = sub.getwidth()
            if lo != hi:
                raise TranslateError('variable-width look-behind')
            return f'(Behind {int(lo)}%nat {body})'
        if op is sre_c.AT:
            if av is sre_c.AT_BOUNDARY:
                ws = ranges_of_class(r'\w', flags)
                return f'(Bnd {self.cs_name(ws)})'
            if av is sre_c.AT_END:
                return 'Eos'
            if av is sre_c.AT_BEGINNING:
                return 'Bos'
            raise TranslateError(f'unsupported AT {av}')
        raise TranslateError(f'unsupported regex node {op}')

    def add(self, name, pattern, flags):
        if isinstance(pattern, re.Pattern):
            flags = pattern.flags
            pattern = pattern.pattern
        else:
            flags = flags | re.UNICODE
        tree = sre_parse.parse(pattern, flags)
        flags = tree.state.flags
        term = self.conv_seq(tree, flags)
        ng = tree.state.groups - 1
        self.lines.append(f'Definition {name} : re := {term}.')
        self.lines.append(f'Definition {name}_ng : nat := {ng}%nat.')
        for gname, gi in sorted(tree.state.groupdict.items(), key=lambda kv: kv[1]):
            self.lines.append(f'Definition {name}_g_{gname} : nat := {gi}%nat.')
        self.names.append(name)
        self.meta[name] = {'pattern': pattern, 'flags': int(flags), 'ngroups': ng,
                           'groupdict': dict(tree.state.groupdict)}

    def render(self):
        out = ['(* GENERATED by tools/translate.py from /repo -- do not edit *)',
               'From Coq Require Import List NArith.',
               'From PyTRS Require Import Engine.Regex.',
               'Import ListNotations.',
               '']
        for name, key in self.cs_order:
            body = '; '.join(f'({lo}, {hi})' for lo, hi in key)
            out.append(f'Definition {name} : list (N * N) := [{body}]%N.')
        out.append('')
        out.extend(self.lines)
        out.append('')
        out.append('Definition all_patterns : list (str * (re * nat)) := [')
        out.append(';\n'.join(f'  ({coq_str(n)}, ({n}, {n}_ng))' for n in self.names))
        out.append('].')
        out.append('')
        return '\n'.join(out)


# ----------------------------------------------------------------------------
# locating inline patterns by an ast scan (fail-closed)

# (relative file, enclosing function, index among re.* calls with a literal or
#  f-string pattern in that function) -> Coq name
INLINE_SITES = {
    ('pytrs/parser/trs/trs.py', 'construct_trs', 0): 'inl_trs_twp',
    ('pytrs/parser/trs/trs.py', 'construct_trs', 1): 'inl_trs_rge',
    ('pytrs/parser/trs/trs.py', 'construct_trs', 2): 'inl_trs_sec',
    ('pytrs/parser/unpack/unpackers.py', 'twprge_natural_to_short', 0): 'inl_nat_to_short',
    ('pytrs/parser/unpack/unpackers.py', 'twprge_short_to_natural', 0): 'inl_short_to_nat',
    ('pytrs/parser/tract/tract_parse.py', 'parse', 0): 'inl_tp_ws',
    ('pytrs/parser/plssdesc/plss_preprocess.py', 'reduce_whitespace', 0): 'inl_rw_spaces',
    ('pytrs/parser/plssdesc/plss_preprocess.py', 'reduce_whitespace', 1): 'inl_rw_tabs',
    ('pytrs/parser/plssdesc/plss_preprocess.py', 'reduce_whitespace', 2): 'inl_rw_cr',
    ('pytrs/parser/plssdesc/plss_preprocess.py', 'reduce_whitespace', 3): 'inl_rw_nl',
    ('pytrs/parser/plssdesc/plss_preprocess.py', 'reduce_whitespace', 4): 'inl_rw_lead',
    ('pytrs/parser/config/config.py', '_text_to_attributes', 0): 'inl_cfg_ws',
    ('pytrs/parser/config/config.py', '_text_to_attributes', 1): 'inl_cfg_sep',
    ('pytrs/parser/config/config.py', '_text_to_attributes', 2): 'inl_cfg_kv1',
    ('pytrs/parser/config/config.py', '_set_str_to_values', 0): 'inl_cfg_kv2',
    ('pytrs/parser/containers/containers.py', '_sort_custom', 0): 'inl_sort_ws',
    ('pytrs/parser/containers/containers.py', '_sort_custom', 1): 'inl_sort_reverse',
}
# function-local string constants used as patterns through a Name
LOCAL_PATTERN_CONSTS = {
    ('pytrs/parser/containers/containers.py', '_sort_custom', 'pat'): 'inl_sort_pat',
}
# files whose every re.* call must be accounted for
SCANNED_FILES = [
    'pytrs/parser/trs/trs.py',
    'pytrs/parser/unpack/unpackers.py',
    'pytrs/parser/tract/tract_parse.py',
    'pytrs/parser/tract/tract_preprocess.py',
    'pytrs/parser/tract/aliquot_parse.py',
    'pytrs/parser/tract/tract.py',
    'pytrs/parser/plssdesc/plss_preprocess.py',
    'pytrs/parser/plssdesc/plss_parse.py',
    'pytrs/parser/plssdesc/plssdesc.py',
    'pytrs/parser/config/config.py',
    'pytrs/parser/containers/containers.py',
]
RE_FUNCS = {'sub', 'search', 'split', 'compile', 'finditer', 'match', 'fullmatch', 'findall', 'subn'}


def module_of(relpath):
    import importlib
    mod = relpath[:-3].replace('/', '.')
    return importlib.import_module(mod)


def scan_inline():
    found = {}
    for rel in SCANNED_FILES:
        path = os.path.join(REPO, rel)
        tree = ast.parse(open(path, encoding='utf-8').read())
        mod = module_of(rel)

        class V(ast.NodeVisitor):
            def __init__(self):
                self.stack = []
                self.counts = {}

            def visit_FunctionDef(self, node):
                self.stack.append(node.name)
                self.generic_visit(node)
                self.stack.pop()

            def visit_Call(self, node):
                f = node.func
                if (isinstance(f, ast.Attribute) and isinstance(f.value, ast.Name)
                        and f.value.id == 're' and f.attr in RE_FUNCS):
                    # outermost enclosing *top-level or method* function
                    fn = self.stack[0] if self.stack else '<module>'
                    # prefer the innermost named function for nested defs
                    fn = self.stack[-1] if self.stack else '<module>'
                    if node.args:
                        a = node.args[0]
                        if isinstance(a, (ast.Constant, ast.JoinedStr)):
                            ns = dict(vars(mod))
                            try:
                                val = eval(compile(ast.Expression(a), rel, 'eval'), ns)
                            except Exception as e:
                                raise TranslateError(f'cannot evaluate pattern at {rel}:{node.lineno}: {e}')
                            k = (rel, fn)
                            i = self.counts.get(k, 0)
                            self.counts[k] = i + 1
                            found[(rel, fn, i)] = (f.attr, val, node.lineno)
                        elif isinstance(a, ast.Name):
                            found[(rel, fn, 'name:' + a.id, node.lineno)] = (f.attr, None, node.lineno)
                        else:
                            raise TranslateError(f'unrecognised pattern argument at {rel}:{node.lineno}')
                self.generic_visit(node)
        V().visit(tree)
    return found


KNOWN_NAME_SITES = {
    # (file, function, name) pattern passed by variable; modelled explicitly
    ('pytrs/parser/trs/trs.py', 'compile_trs_unpacker_regex', 'name:pattern'),
    ('pytrs/parser/tract/tract_preprocess.py', 'sub_scrubber', 'name:scrubber_rgx'),
    ('pytrs/parser/tract/tract_preprocess.py', 'remove_aliquot_interveners', 'name:aliquot_intervener_remover_regex'),
    ('pytrs/parser/containers/containers.py', 'parse_key', 'name:pat'),
}


def local_const(rel, func, name):
    path = os.path.join(REPO, rel)
    tree = ast.parse(open(path, encoding='utf-8').read())
    for node in ast.walk(tree):
        if isinstance(node, ast.FunctionDef) and node.name == func:
            for sub in ast.walk(node):
                if isinstance(sub, ast.Assign) and len(sub.targets) == 1 \
                        and isinstance(sub.targets[0], ast.Name) and sub.targets[0].id == name:
                    return ast.literal_eval(sub.value)
    raise TranslateError(f'local constant {name} not found in {rel}:{func}')


# ----------------------------------------------------------------------------

def coq_str(s):
    """Python str -> Coq `list N` literal."""
    return '[' + '; '.join(str(ord(c)) for c in s) + ']%N'


def coq_ident(s):
    return re.sub(r'[^A-Za-z0-9_]', '_', s)


def gen_patterns():
    em = PatEmitter()
    import pytrs.parser.rgxlib as rgxlib
    names = sorted(n for n in dir(rgxlib) if isinstance(getattr(rgxlib, n), re.Pattern))
    for n in names:
        em.add(n, getattr(rgxlib, n), 0)
    from pytrs.parser.trs import TRS
    em.add('trs_unpacker_regex', TRS._TRS_UNPACKER_REGEX, 0)

    found = scan_inline()
    seen_sites = set()
    for key, (fn, val, lineno) in sorted(found.items(), key=lambda kv: str(kv[0])):
        if len(key) == 4:
            if key[:3] not in KNOWN_NAME_SITES:
                raise TranslateError(f'unexpected re.{fn} call with variable pattern at {key[0]}:{lineno} ({key[2]})')
            continue
        if key not in INLINE_SITES:
            raise TranslateError(f'unexpected inline re.{fn} call at {key[0]}:{lineno} in {key[1]}')
        em.add(INLINE_SITES[key], val, 0)
        em.meta[INLINE_SITES[key]]['refunc'] = fn
        seen_sites.add(key)
    missing = set(INLINE_SITES) - seen_sites
    if missing:
        raise TranslateError(f'inline pattern call sites not found: {sorted(missing)}')
    for (rel, func, name), cname in LOCAL_PATTERN_CONSTS.items():
        em.add(cname, local_const(rel, func, name), 0)
    return em


def write_if_changed(path, text):
    os.makedirs(os.path.dirname(path), exist_ok=True)
    if os.path.exists(path) and open(path, encoding='utf-8').read() == text:
        return False
    with open(path, 'w', encoding='utf-8') as f:
        f.write(text)
    return True


def main():
    try:
        em = gen_patterns()
        changed = []
        if write_if_changed(os.path.join(GEN, 'Patterns.v'), em.render()):
            changed.append('Patterns.v')
        import gen_tables
        text = gen_tables.render(REPO, coq_str, coq_ident, local_const, TranslateError)
        if write_if_changed(os.path.join(GEN, 'Tables.v'), text):
            changed.append('Tables.v')
        import gen_pytables
        if write_if_changed(os.path.join(GEN, 'PyTables.v'), gen_pytables.render(TranslateError)):
            changed.append('PyTables.v')
        os.makedirs(os.path.dirname(CACHE), exist_ok=True)
        json.dump(_cs_cache, open(CACHE, 'w'))
        json.dump(em.meta, open(os.path.join(VERIF, '_build', 'patterns_meta.json'), 'w'), indent=1)
        print('translate: ok; changed:', changed)
    except TranslateError as e:
        print('TRANSLATE-ERROR:', e)
        sys.exit(3)


if __name__ == '__main__':
    sys.path.insert(0, os.path.dirname(os.path.abspath(__file__)))
    main()
