#!/bin/sh
# Extract Extract/Drv_<group>.v to OCaml (ExtrOcamlBasic only) and build the line driver.
set -e
G=${1:-aliquot}
V=$(cd "$(dirname "$0")/.." && pwd)
B=$V/_build/extract/$G
mkdir -p "$B"
cd "$B"
cat > extract_$G.v <<EOT
From Coq Require Import Extraction ExtrOcamlBasic.
From PyTRS Require Import Extract.Drv_$G.
Extraction "model.ml" dispatch.
EOT
coqc -Q "$V/coq" PyTRS extract_$G.v >/dev/null
cp "$V/tools/driver/driver.ml" .
if [ ! -f driver ] || ! cmp -s model.ml model.ml.prev || ! cmp -s driver.ml driver.ml.prev; then
  ocamlfind ocamlopt -O3 -w -a -o driver model.mli model.ml driver.ml 2>/dev/null || ocamlfind ocamlopt -w -a -o driver model.mli model.ml driver.ml
  cp model.ml model.ml.prev; cp driver.ml driver.ml.prev
fi
echo "driver built: $B/driver"
