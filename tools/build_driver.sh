#!/bin/sh
# Extract the model to OCaml and build the line driver.  cwd-independent.
set -e
V=$(cd "$(dirname "$0")/.." && pwd)
B=$V/_build/extract
mkdir -p "$B"
cd "$B"
# extraction (not part of the .vo build: it only writes model.ml)
( cd "$V/coq" && coqc -Q . PyTRS Extract/Extract.v >/dev/null && mv -f model.ml model.mli "$B/" && rm -f Extract/Extract.vo Extract/Extract.glob Extract/.Extract.aux Extract/Extract.vok Extract/Extract.vos )
cp "$V/tools/driver/driver.ml" .
ocamlfind ocamlopt -w -a -o driver model.mli model.ml driver.ml
echo "driver built: $B/driver"
