"""PLSS-level correspondence shared by C01/C03/C04/C08/C09/C10/C11/C20: PLSSDesc end to end and
the internal functions (plss_preprocess, find_twprge, find_sec, deduce_layout, cleanup_desc,
TwpRgeFinder, SecFinder) -- model vs code on structured, damaged and soup texts x configs."""
import os
import sys

sys.path.insert(0, os.path.dirname(os.path.dirname(os.path.abspath(__file__))))
import harness as H
import textgen as G

CONFIGS = ['', 'parse_qq', 'segment', 'sec_within', 'sec_colon_required', 'sec_colon_cautious', 'ocr_scrub', 'clean_qq,parse_qq',
           's,e', 'copy_all', 'TRS_desc', 'desc_STR', 'S_desc_TR', 'TR_desc_S', 'segment,sec_within,parse_qq',
           'sec_colon_cautious,segment', 'parse_qq,qq_depth.1', 'ocr_scrub,s,e,segment', 'parse_qq,suppress_lot_divs,break_halves',
           'sec_within,sec_colon_required', 'layout.copy_all,segment']


def obs_tract(t):
    return [t.trs, t.desc, t.orig_index, t.pp_desc, t.parse_complete, t.lots, t.qqs, dict(t.lot_acres), t.aliquots_whole,
            [t.w_flags, t.w_flag_lines, t.e_flags, t.e_flag_lines]]


def obs_desc(d, tracts):
    return [d.pp_desc, d.current_layout, [obs_tract(t) for t in tracts], [d.w_flags, d.w_flag_lines, d.e_flags, d.e_flag_lines]]


def plssdesc_case(pytrs, text, config, layout=None, parse_qq=None):
    def go():
        d = pytrs.PLSSDesc(text, layout=layout, config=config, parse_qq=parse_qq)
        return obs_desc(d, d.tracts)
    o = H.call(go)
    return (H.req('plssdesc', text, config, layout, parse_qq, 'n', 'w'), H.canon(o),
            {'fn': 'PLSSDesc', 'text': text, 'config': config, 'layout': layout, 'parse_qq': parse_qq}), o


def gen_texts(r, n, extra=()):
    out = list(extra)
    out += [t for t in G.corpus() if len(t) < 400][:200]
    for _ in range(n):
        out.append(G.any_text(r))
    return out


def run(tier, tag, extra_texts=(), configs=None, functions=True, n=None):
    import pytrs
    from pytrs.parser.plssdesc import plss_preprocess as PP
    from pytrs.parser.plssdesc import plss_parse as PA
    r = H.rng('plsscorr:' + tag)
    n = n if n is not None else (250 if tier == 'quick' else 3000)
    texts = gen_texts(r, n, extra_texts)
    configs = configs or CONFIGS
    cases = []
    dist = {'tracts>1': 0, 'copy_all': 0, 'e_flags': 0, 'exn': 0, 'layouts': {}}
    for i, t in enumerate(texts):
        cfgs = [''] + [r.choice(configs) for _ in range(2 if tier == 'quick' else 3)]
        if i < len(extra_texts):
            cfgs = list(dict.fromkeys(cfgs + [r.choice(configs)]))
        for cfg in dict.fromkeys(cfgs):
            c, o = plssdesc_case(pytrs, t, cfg)
            cases.append(c)
            if isinstance(o, H.Exn):
                dist['exn'] += 1
            else:
                dist['tracts>1'] += len(o[2]) > 1
                dist['copy_all'] += o[1] == 'copy_all'
                dist['e_flags'] += bool(o[3][2])
                dist['layouts'][o[1]] = dist['layouts'].get(o[1], 0) + 1
        if functions and i % 3 == 0:
            ocr = r.random() < 0.3
            dns, dew = r.choice([(None, None), ('s', 'e'), ('n', None)])
            cases.append((H.req('plss_preprocess', t, dns, dew, ocr, 'n', 'w'),
                          H.canon(H.call(lambda: list(PP.plss_preprocess(t, dns, dew, ocr)))), {'fn': 'plss_preprocess', 'text': t, 'args': [dns, dew, ocr]}))
            cases.append((H.req('find_twprge', t, dns, dew, True, ocr, 'n', 'w'),
                          H.canon(H.call(PP.find_twprge, t, dns, dew, True, ocr)), {'fn': 'find_twprge', 'text': t, 'args': [dns, dew, ocr]}))
            cases.append((H.req('find_sec', t), H.canon(H.call(PP.find_sec, t)), {'fn': 'find_sec', 'text': t}))
            cases.append((H.req('deduce_layout', t), H.canon(H.call(PA.deduce_layout, t)), {'fn': 'deduce_layout', 'text': t}))
            cases.append((H.req('cleanup_desc', t), H.canon(H.call(PA.cleanup_desc, t)), {'fn': 'cleanup_desc', 'text': t}))
            lay = r.choice([None, 'TRS_desc', 'desc_STR', 'S_desc_TR', 'TR_desc_S', 'copy_all'])

            def tf():
                f = PA.TwpRgeFinder(t, lay)
                return [[(m[1], m[2], m[3]) for m in f.matches], f.flags, f.flag_lines]
            cases.append((H.req('twprge_finder', t, lay, 'n', 'w'), H.canon(H.call(tf)), {'fn': 'TwpRgeFinder', 'text': t, 'layout': lay}))
            rc = r.choice([False, True, 'sec_colon_cautious'])

            def sf():
                f = PA.SecFinder(t, lay, rc)
                return [[(m[1], m[2], m[3]) for m in f.matches], f.flags, f.flag_lines]
            cases.append((H.req('sec_finder', t, lay, rc), H.canon(H.call(sf)), {'fn': 'SecFinder', 'text': t, 'layout': lay, 'rc': rc}))
    res = H.diff_cases(cases, nontrivial=lambda e: len(e) > 120)
    res['distribution'] = dist
    res['rule'] = ('PLSSDesc(text, config) end to end (pp_desc, layout, every tract with trs/desc/orig_index/pp_desc/lots/qqs/acres/flags with context, all four '
                   'description flag lists) on corpus + structured + damaged + soup texts x sampled configs; plus plss_preprocess, find_twprge, find_sec, '
                   'deduce_layout, cleanup_desc, TwpRgeFinder, SecFinder directly; non-trivial = canonical result longer than 120 characters')
    return res


if __name__ == '__main__':
    import json
    res = run(sys.argv[1] if len(sys.argv) > 1 else 'quick', 'cli')
    print(json.dumps({k: v for k, v in res.items() if k != 'disagreements'}, ensure_ascii=True)[:900])
    seen = set()
    for b in res['disagreements'][:12]:
        print(json.dumps(b['case'], ensure_ascii=True)[:300])
        print('   PY ', str(H.parse_sexp(b['python']))[:700])
        print('   MO ', str(H.parse_sexp(b['model']))[:700])
