"""Tract-level correspondence shared by C05/C06/C07: TractParser (through Tract), scrub_aliquots,
SecUnpacker, LotUnpacker -- model vs code on structured, damaged and soup texts."""
import os
import sys

sys.path.insert(0, os.path.dirname(os.path.dirname(os.path.abspath(__file__))))
import harness as H
import textgen as G

CONFIGS = [
    (False, False, 2, None, None, False),
    (True, False, 2, None, None, False),
    (False, True, 2, None, None, False),
    (True, False, 1, 3, None, True),
    (False, False, 2, None, 1, False),
    (False, False, 3, None, None, False),
]


def tract_obs(pytrs, text, cfg):
    cq, sup, mn, mx, qq, bh = cfg
    from pytrs.parser.tract.tract_parse import TractParser

    def go():
        p = TractParser(text, clean_qq=cq, suppress_lot_divs=sup, qq_depth_min=mn, qq_depth_max=mx, qq_depth=qq, break_halves=bh)
        return [p.text, p.lots, p.qqs, dict(p.lot_acres), p.aliquots_whole, p.w_flags, p.w_flag_lines, p.e_flags, p.e_flag_lines]
    return H.call(go)


def texts(r, n, extra=()):
    out = list(extra)
    out += [t for t in G.corpus() if len(t) < 200][:150]
    for _ in range(n):
        k = r.random()
        if k < 0.5:
            out.append(G.tract_desc(r))
        elif k < 0.7:
            out.append(G.damage(r, G.tract_desc(r)))
        elif k < 0.9:
            out.append(G.soup(r, 6))
        else:
            out.append(G.block(r))
    return out


def run(tier, tag, extra_texts=(), which=('tract', 'scrub', 'sec', 'lot')):
    import pytrs
    from pytrs.parser.tract.tract_preprocess import scrub_aliquots
    from pytrs.parser.unpack import SecUnpacker, LotUnpacker
    r = H.rng('tractcorr:' + tag)
    n = 250 if tier == 'quick' else 2500
    ts = texts(r, n, extra_texts)
    cases = []
    dist = {'lots': 0, 'qqs': 0, 'flags': 0, 'exn': 0}
    for i, t in enumerate(ts):
        if 'tract' in which:
            cfgs = CONFIGS if i % 5 == 0 else [CONFIGS[i % len(CONFIGS)]]
            for cfg in cfgs:
                o = tract_obs(pytrs, t, cfg)
                if isinstance(o, H.Exn):
                    dist['exn'] += 1
                else:
                    dist['lots'] += bool(o[1])
                    dist['qqs'] += bool(o[2])
                    dist['flags'] += bool(o[5])
                cq, sup, mn, mx, qq, bh = cfg
                cases.append((H.req('tract_parser', t, cq, sup, mn, mx, qq, bh, [[], [], [], []]), H.canon(o),
                              {'fn': 'TractParser', 'text': t, 'cfg': list(cfg)}))
        if 'scrub' in which:
            for cq in (False, True):
                cases.append((H.req('scrub_aliquots', t, cq), H.canon(H.call(scrub_aliquots, t, cq)), {'fn': 'scrub_aliquots', 'text': t, 'clean_qq': cq}))
        if 'sec' in which and i % 2 == 0:
            def so():
                u = SecUnpacker(t)
                return [u.sec_list, u.flags, u.flag_lines]
            cases.append((H.req('sec_unpacker', t), H.canon(H.call(so)), {'fn': 'SecUnpacker', 'text': t}))
        if 'lot' in which and i % 2 == 1:
            def lo():
                u = LotUnpacker(t)
                return [u.lot_list, dict(u.lot_acres), u.flags, u.flag_lines, u.aliquots_through]
            cases.append((H.req('lot_unpacker', t), H.canon(H.call(lo)), {'fn': 'LotUnpacker', 'text': t}))
    res = H.diff_cases(cases, nontrivial=lambda e: len(e) > 40)
    res['distribution'] = dist
    res['rule'] = ('TractParser on corpus + generated tract texts (elements of lots/aliquots/prose joined by separators, damaged, token soup) x 6 settings; '
                   'scrub_aliquots x clean_qq; SecUnpacker / LotUnpacker on the same texts; all outputs incl. flags with context compared; '
                   'non-trivial = canonical result longer than 40 characters')
    return res


if __name__ == '__main__':
    import json
    res = run(sys.argv[1] if len(sys.argv) > 1 else 'quick', 'cli')
    print(json.dumps({k: v for k, v in res.items() if k != 'disagreements'}, ensure_ascii=True)[:600])
    for b in res['disagreements'][:8]:
        print(json.dumps(b, ensure_ascii=True)[:900])
