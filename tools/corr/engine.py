"""Engine-level correspondence: every generated pattern, real CPython `re` vs the
extracted Gallina matcher, on search/finditer/match/fullmatch/sub/split with pos/endpos."""
import json
import os
import re
import sys

sys.path.insert(0, os.path.dirname(os.path.dirname(os.path.abspath(__file__))))
import harness as H
import textgen as T


def py_mo(mo, ng):
    if mo is None:
        return None
    spans = []
    for i in range(1, ng + 1):
        a, b = mo.span(i)
        spans.append(None if a < 0 else (a, b))
    return (mo.start(), mo.end(), spans)


def texts_for(r, n):
    c = T.corpus()
    out = []
    for _ in range(n):
        k = r.random()
        if k < 0.3 and c:
            out.append(r.choice(c))
        elif k < 0.5:
            out.append(T.tract_desc(r))
        else:
            out.append(T.any_text(r))
    return out


def run(n_texts=40, patterns=None, tag='engine'):
    meta = json.load(open(os.path.join(H.BUILD, 'patterns_meta.json')))
    r = H.rng(tag)
    reqs, expect, descr = [], [], []
    for name, m in sorted(meta.items()):
        if patterns and name not in patterns:
            continue
        p = re.compile(m['pattern'], m['flags'])
        ng = m['ngroups']
        for t in texts_for(r, n_texts):
            L = len(t)
            ops = ['search', 'finditer']
            if r.random() < 0.3:
                ops.append('match')
            if r.random() < 0.2:
                ops.append('fullmatch')
            if r.random() < 0.3:
                ops.append('sub')
            if ng == 0 and r.random() < 0.3:
                ops.append('split')
            for op in ops:
                if op in ('search', 'finditer', 'match'):
                    if r.random() < 0.5:
                        pos, endpos = 0, L
                    else:
                        pos = r.randint(0, L)
                        endpos = r.randint(0, L + 2)
                    if op == 'search':
                        ev = py_mo(p.search(t, pos, endpos), ng)
                    elif op == 'match':
                        ev = py_mo(p.match(t, pos, endpos), ng)
                    else:
                        ev = [py_mo(x, ng) for x in p.finditer(t, pos, endpos)]
                    reqs.append(H.req('re_' + op, name, t, pos, endpos))
                elif op == 'fullmatch':
                    ev = py_mo(p.fullmatch(t), ng)
                    reqs.append(H.req('re_fullmatch', name, t))
                elif op == 'sub':
                    repl = r.choice(['', ' ', ';;', 'X½'])
                    ev = p.sub(repl.replace('\\', '\\\\'), t)
                    reqs.append(H.req('re_sub', name, repl, t))
                else:
                    ev = p.split(t)
                    reqs.append(H.req('re_split', name, t))
                expect.append(H.canon(ev))
                descr.append((name, op, t))
    got = H.run_model(reqs)
    bad = []
    nontrivial = set()
    for rq, e, g, d in zip(reqs, expect, got, descr):
        if e != g:
            bad.append({'pattern': d[0], 'op': d[1], 'text': d[2], 'request': rq, 'python': e, 'model': g})
        if e not in ('N', '(L)'):
            nontrivial.add(rq)
    return {'evaluations': len(reqs), 'distinct_nontrivial': len(nontrivial), 'disagreements': bad,
            'patterns': len(set(d[0] for d in descr)),
            'samples': [{'pattern': d[0], 'op': d[1], 'text': d[2]} for d in descr[:3]]}


if __name__ == '__main__':
    n = int(sys.argv[1]) if len(sys.argv) > 1 else 40
    res = run(n)
    print(json.dumps({k: v for k, v in res.items() if k != 'disagreements'}, indent=1)[:800])
    print('disagreements:', len(res['disagreements']))
    for b in res['disagreements'][:10]:
        print(json.dumps(b, ensure_ascii=True)[:1500])
