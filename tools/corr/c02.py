"""C02 correspondence: parse_aliquot / standardize / pass_back / combine, model vs code,
exhaustive over chains up to a length and all depth settings in a box."""
import itertools
import os
import sys

sys.path.insert(0, os.path.dirname(os.path.dirname(os.path.abspath(__file__))))
import harness as H

COMPS = ['N', 'S', 'E', 'W', 'NE', 'NW', 'SE', 'SW']


def render(chain):
    """chain is in text order (smallest first)."""
    return ''.join(c + ('½' if len(c) == 1 else '¼') for c in chain)


def depth_box(maxd):
    out = []
    for mn in range(0, maxd):
        for mx in [None] + list(range(mn, maxd + 1)):
            out.append((mn, mx, None))
    for qq in range(0, maxd + 1):
        out.append((2, None, qq))
    out += [(-1, None, None), (2, 1, None), (3, -1, None), (1, -2, None)]
    return out


def run(maxlen=3, maxd=4):
    from pytrs.parser.tract import aliquot_parse as ap
    cases = []
    chains = [('ALL',)]
    for n in range(1, maxlen + 1):
        chains += list(itertools.product(COMPS, repeat=n))
    for ch in chains:
        text = 'ALL' if ch == ('ALL',) else render(ch)
        for mn, mx, qq in depth_box(maxd):
            for bh in (False, True):
                ev = H.call(ap.parse_aliquot, text, mn, mx, qq, bh)
                cases.append((H.req('parse_aliquot', text, mn, mx, qq, bh), H.canon(ev),
                              {'text': text, 'mn': mn, 'mx': mx, 'qq': qq, 'bh': bh}))
        lst = list(reversed(ch))
        for fn in ('standardize_aliquot_components', 'pass_back_halves', 'combine_consecutive_halves'):
            ev = H.call(getattr(ap, fn), list(lst))
            nm = 'standardize' if fn.startswith('standardize') else fn
            cases.append((H.req(nm, lst), H.canon(ev), {'fn': fn, 'comps': lst}))
    res = H.diff_cases(cases)
    res['exhaustive'] = True
    res['rule'] = (f'all chains over the 8 components of length 1..{maxlen} plus ALL, x depth box '
                   f'(min 0..{maxd - 1}, max None/min..{maxd}, qq_depth 0..{maxd}, 4 irregular settings) x break_halves; '
                   'plus the three list functions on each chain; non-trivial = every case (distinct request)')
    return res


if __name__ == '__main__':
    import json
    ml = int(sys.argv[1]) if len(sys.argv) > 1 else 3
    res = run(ml)
    print(json.dumps({k: v for k, v in res.items() if k != 'disagreements'}, ensure_ascii=True)[:600])
    for b in res['disagreements'][:8]:
        print(json.dumps(b, ensure_ascii=True)[:900])
