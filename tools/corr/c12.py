"""C12 correspondence: construct_trs / trs_to_dict / pretty_twprge, model vs code."""
import itertools
import os
import sys

sys.path.insert(0, os.path.dirname(os.path.dirname(os.path.abspath(__file__))))
import harness as H

FIELDS = ['trs', 'twp', 'twp_num', 'twp_ns', 'twp_undef', 'rge', 'rge_num', 'rge_ew', 'rge_undef',
          'sec', 'sec_num', 'sec_undef']
NUMS_T = [0, 1, 2, 9, 10, 99, 100, 154, 999, 1000, -5]
NUMS_S = [0, 1, 9, 10, 14, 36, 99, 100, -1]
# incl. characters that only a case-insensitive or folding comparison would take for a direction letter: long s (U+017F, folds to 's'),
# Kelvin sign (U+212A, folds to 'k'), fullwidth N
PROBE = ['1', '0', 'n', 'w', 'X', '_', 'z', ' ', 'x', '-', 'S', '٣', '\n', '\u017f', '\u212a', '\uff2e']


def encodings(n, d, kind):
    """Ways to hand a number + direction to construct_trs."""
    out = [n, str(n), str(n).rjust(3, '0')]
    if kind != 'sec':
        out += [f'{n}{d}', f'{n}{d.upper()}', f'{str(n).rjust(2, "0")}{d}']
    return out


def valid_strings():
    out = []
    for t, ns, r, ew, sc in [(154, 'n', 97, 'w', '14'), (1, 's', 2, 'e', '01'), (999, 'n', 100, 'e', '36')]:
        out.append(f'{t}{ns}{r}{ew}{sc}')
    out += ['XXXzXXXzXX', '___z___z__', '154nXXXz01', 'XXXz97w__', '154n97wXX', '___z97w14', '154n97w']
    return out


def mutations(x):
    out = set()
    for i in range(len(x) + 1):
        for c in PROBE:
            out.add(x[:i] + c + x[i:])
    for i in range(len(x)):
        out.add(x[:i] + x[i + 1:])
        for c in PROBE:
            out.add(x[:i] + c + x[i + 1:])
    out.add(x.upper())
    out.add(x.title())
    out.add(x + x)
    return sorted(out)


def trs_cases(strings):
    import pytrs
    cases = []
    for x in strings:
        pytrs.TRS._clear_cache()
        d = H.call(pytrs.trs_to_dict, x)
        ev = [d[k] for k in FIELDS] if isinstance(d, dict) else d
        cases.append((H.req('trs_to_dict', x), H.canon(ev), {'fn': 'trs_to_dict', 'arg': x}))
        obj = H.call(pytrs.TRS, x)
        if not isinstance(obj, H.Exn):
            cases.append((H.req('pretty_twprge', x), H.canon(obj.pretty_twprge()), {'fn': 'pretty_twprge', 'arg': x}))
    return cases


def construct_cases(r, n_random):
    import pytrs
    MC = pytrs.MasterConfig
    cases = []

    def one(twp, rge, sec, dns, dew, ocr, mcns='n', mcew='w'):
        old = (MC.default_ns, MC.default_ew)
        MC.default_ns, MC.default_ew = mcns, mcew
        try:
            ev = H.call(pytrs.TRS.construct_trs, twp, rge, sec, dns, dew, ocr)
        finally:
            MC.default_ns, MC.default_ew = old
        cases.append((H.req('construct_trs', twp, rge, sec, dns, dew, ocr, mcns, mcew), H.canon(ev),
                      {'fn': 'construct_trs', 'args': [twp, rge, sec, dns, dew, ocr, mcns, mcew]}))
    # boundary numbers x encodings (twp varied with fixed rge/sec, and so on)
    for t in NUMS_T:
        for d in 'ns':
            for e in encodings(t, d, 'twp'):
                one(e, 97, 14, None, None, False)
                one(e, '97w', '14', 's', 'e', False)
    for g in NUMS_T:
        for d in 'ew':
            for e in encodings(g, d, 'rge'):
                one(154, e, 14, None, None, False)
                one('154s', e, 1, 'n', 'w', False, 's', 'e')
    for sc in NUMS_S:
        for e in encodings(sc, '', 'sec'):
            one(154, 97, e, None, None, False)
    odd = [None, '', 'abc', 'XXXz', '___z', 'XX', '__', ' 15 ', '+7', '1_5', '15 n', 'n', 'N', '15x', 'IS4', 'l54n',
           'O7w', '٣٤n', '15N', '15ſ', '15İ', '-5n', '5-n', '1154n', '0', '00', '000n']
    for a in odd:
        one(a, 97, 14, None, None, False)
        one(154, a, 14, None, None, True)
        one(154, 97, a, None, None, False)
        one(a, a, a, 's', 'e', True)
    for dns, dew in [('x', 'w'), ('n', 'q'), ('N', 'E'), ('S', 'W'), ('', 'w'), ('north', 'w'), ('n', 'West')]:
        one(154, 97, 14, dns, dew, False)
    for mcns, mcew in [('s', 'e'), ('N', 'E'), ('x', 'w')]:
        one(154, 97, 14, None, None, False, mcns, mcew)
        one('154', '97e', 14, None, None, False, mcns, mcew)
    pool = odd + [str(n) for n in NUMS_T] + NUMS_T + ['154n', '97W', '14', 7]
    for _ in range(n_random):
        one(r.choice(pool), r.choice(pool), r.choice(pool + NUMS_S), r.choice([None, 'n', 's', 'N']),
            r.choice([None, 'e', 'w', 'W']), r.random() < 0.3, r.choice(['n', 's']), r.choice(['e', 'w']))
    return cases


def run(tier='quick'):
    r = H.rng('c12')
    strings = []
    for v in valid_strings():
        strings.append(v)
        strings += mutations(v) if tier == 'thorough' else mutations(v)[::3]
    strings += [None, '', ' ', 'T154N-R97W', '154n97w14\n', '١٥٤n97w14', '154ſ97w14', '154N97W14', '154n97W14']
    cases = trs_cases(strings) + construct_cases(r, 300 if tier == 'quick' else 3000)
    res = H.diff_cases(cases)
    res['rule'] = ('trs_to_dict + pretty_twprge on valid strings and every single-character insertion/deletion/substitution '
                   f'over {len(PROBE)} probe characters (quick: every third), case variants, doubling; construct_trs on boundary '
                   'numbers x encodings x defaults x MasterConfig + odd inputs + random combinations; distinct requests counted')
    return res


if __name__ == '__main__':
    import json
    res = run(sys.argv[1] if len(sys.argv) > 1 else 'quick')
    print(json.dumps({k: v for k, v in res.items() if k != 'disagreements'}, ensure_ascii=True)[:500])
    for b in res['disagreements'][:10]:
        print(json.dumps(b, ensure_ascii=True)[:700])
