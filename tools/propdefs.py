"""propdefs.py -- static description of each claimed property's check."""

TRUSTED_BASE = [
    'Coq 8.16.1 kernel incl. its bytecode VM (vm_compute); no native_compute; guard/positivity/universe checks on',
    'Coq standard library only',
    'tools/translate.py (+ CPython 3.12 re._parser and re for character-set tables) regenerating coq/Gen/*.v from /repo on every run',
    'hand-written model (coq/Engine, coq/PyRt, coq/Model) tied to /repo by differential execution of the extracted OCaml (ExtrOcamlBasic directives only) against the real code',
    'OCaml 4.13.1 ocamlfind ocamlopt; tools/driver/driver.ml; tools/harness.py canonicalisation',
    'the specification files coq/Spec/*.v',
]
ASSUMPTIONS = [
    'theorems are about the Gallina model, not Python bytecode; the model is tied to the source by the translator (patterns, tables) and by the correspondence run recorded in coverage.correspondence',
]

PROPS = {
    'C02': {
        'group': 'aliquot',
        'level': 'proof',
        'explanation': 'C02_tiling: for every chain, min depth, max depth (absent or >= max(min,1)) and break_halves, '
                       'parse_comps returns pieces that tile exactly the truncated region (point-wise, exists-unique) and meet the depth rules; '
                       'C02_extracted_blocks_valid: the hypothesis is met on every call the tract parser makes -- for ANY text, every block cut out by aliquot_unpacker_regex is a concatenation of '
                       'clean halves/quarters (Engine/RegexLang.v) in which single_aliquot_unpacker_regex finds at least one component (Engine/RegexComplete.v) and only the eight documented ones, '
                       'so the component list is a valid chain; '
                       'tied to aliquot_parse.py by regenerated tables + exhaustive differential execution.',
        'build_timeout': 2400,
    },
    'C12': {
        'group': 'trs',
        'level': 'proof',
        'explanation': 'Proved for EVERY string (no bound): TRS(x).trs is either the error TRS or x split into its three components, each at most '
                       'case-normalised (C12_strict, via TRS_trs_spec); wrapping again is idempotent for every string and None (C12_idem); from_twprgesec on any '
                       'township/range < 1000, section < 100, any encoding and default source yields the canonical string (C12_construct) whose dictionary decomposes '
                       'to exactly those components (C12_decompose); empty means undefined. The proofs invert every complete path of the regenerated unpacker pattern '
                       '(Engine/RegexSpec.v all-paths semantics + Proofs/C12/Match.v), prove completeness by constructing a path, and uniqueness of the decomposition '
                       '(prefix code); finite number domains are closed by vm_compute sweeps lifted with forallb_forall. Equality/hash of TRS objects is outside the '
                       'model (checked by the oracle on the real code only). Tied to trs.py by regenerated patterns/placeholders + differential execution.',
    },
}

PROPS['C17'] = {
    'group': 'containers',
    'level': 'proof',
    'explanation': 'Theorems about the model of _sort_custom for ALL lists and key strings: result is a permutation; the passes are stable and the '
                   'result is lexicographically ordered with the last key most significant (C17_lex_stable); error/undefined elements come last '
                   '(first when reversed) for every sort definition (C17_errors_last); the key grammar is decided on the regenerated pattern '
                   '(C17_keys, C17_no_var_rejected; the un-anchored search is refuted and listed as a known finding). Tied to containers.py by the '
                   'regenerated key pattern/table + differential execution + an independent oracle on the real code.',
}
PROPS['C18'] = {
    'group': 'containers',
    'level': 'proof',
    'explanation': 'Theorems for ALL lists: filter/_new_list_from_self returns exactly List.filter and (drop) leaves exactly the others in order; '
                   'filter_duplicates selects exactly the elements with an earlier equal instance/derived key; group_by puts every element in exactly '
                   'one group keyed by its value, order kept, unpack_group is a permutation; construction either converts every element in order or '
                   'raises TypeError. Tied to containers.py by differential execution + an independent oracle on the real code.',
}

PROPS['C13'] = {
    'group': 'config',
    'level': 'proof',
    'explanation': 'Theorems about the model of config.py and of the lock-down code of PLSSDesc/Tract, for ALL stored configs, attribute states and keyword sets: '
                   'effective setting = keyword if given else attribute (C13_precedence_*), a value given through .config has the same effect as the keyword '
                   '(C13_channels), keyword beats a conflicting config, the handed-down tract config carries the effective tract settings, colon-mode and depth '
                   'interplay characterised; unknown names raise ValueError for every line; token-level round trip for every setting value in the documented domain '
                   '(finite sweep on the regenerated patterns/tables, ints -100..1000) and the FULL text round trip decompile_to_text -> Config(text) for every configuration in '
                   'that domain (C13_roundtrip: the string level is closed by the characterisation of re.split on a character class and of re.sub(\\s*) on blank-free text, '
                   'Engine/RegexChr.v, for texts of any length). Tied to the code by regenerated tables/patterns, differential execution '
                   '(effective settings observed by wrapping PLSSParser/TractParser) and an independent oracle on the real code.',
}

PROPS['C19'] = {
    'group': 'export',
    'level': 'proof',
    'explanation': 'Theorems about the model of to_list/to_dict/get_headers/scrub_row/tracts_to_csv/TractWriter for ALL tract lists, attribute lists and '
                   'value shapes: one record/row per tract in order, values equal the attributes, unknown names give the n/a placeholder, every cell is the '
                   'scalar or the joined list/dict contents (total: no shape raises), header row iff new file or write mode, every documented attribute has a '
                   'header in the regenerated table. The csv module itself is outside the model (rows = cells handed to csv.writer); tied to the code by '
                   'differential execution against files re-read with csv.reader + an independent oracle on the real files.',
    'trusted_extra': ["Python's csv module (writerow/reader round trip) is assumed, exercised by the correspondence on text with commas, quotes and newlines"],
}

PROPS['C05'] = {
    'group': 'tract',
    'level': 'proof',
    'explanation': 'Level A theorems about the model of SecUnpacker/LotUnpacker, for ANY regex step function and lists of any length: if the right-to-left '
                   'stream of (number, through-to-its-left) is that of a list l, the loop returns exactly expand(l) (ranges inclusive in their stated direction, '
                   'concatenated in reading order, duplicates kept), with one nonsequential flag per range whose start is not below its end (C05_sections, C05_lots). '
                   'The seam (the regenerated multisec/multilot patterns yield that stream on rendered lists) is checked on examples by vm_compute and carried by '
                   'differential execution and an expand() oracle on find_sec / PLSSDesc / Tract for random items x connective spellings x keywords.',
}

PROPS['C06'] = {
    'group': 'tract',
    'level': 'proof',
    'explanation': 'PARTIAL. Proved for all lists about the model of TractParser: duplicate detection is exact (find_duplicates = [] iff NoDup, every report is a real repeat), '
                   'dup_lot/dup_qq warnings are appended exactly when a lot/aliquot repeats and nothing else is, the leading aliquot is applied to exactly the first '
                   'aliquots_through lots. That each comma/semicolon-separated element is matched independently by the regenerated patterns (the extraction loops) is not a theorem; '
                   'it is carried by differential execution of the model and by a metamorphic oracle on the real code (whole = concatenation of the parts). '
                   'Refuted with witnesses and listed as known findings: newline after an aliquot does not separate; ALL followed by another element is dropped.',
}

PROPS['C07'] = {
    'group': 'tract',
    'level': 'proof',
    'build_timeout': 2400,
    'explanation': 'PARTIAL. Proved on the regenerated patterns: every documented spelling of every single component in every listed separator context under both clean_qq '
                   'normalises to the canonical token with the context untouched; every pair of components with independent (core) spellings and any joiner collapses to the '
                   'canonical pair; the canonical text of every chain of length 1-3 is a fixed point; bare quarters are rewritten only under clean_qq or after a half '
                   '(each a complete enumeration of the finite family named in the theorem, by vm_compute + forallb_forall); for every text each substitute-until-stable '
                   'loop returns a fixed point of its pass. Longer chains are not covered by a theorem; they are carried by differential execution and a canon oracle on the real code.',
}

_PLSS_TIE = ('Tied to plss_parse.py / plss_preprocess.py / plssdesc.py by the regenerated patterns and tables, end-to-end differential execution of the extracted model '
             '(every tract with trs/desc/index/lots/qqs/flags with context, all description flags, layout, pp_desc) and an independent oracle on the real code.')
PROPS['C01'] = {
    'group': 'plss', 'level': 'proof', 'build_timeout': 2400,
    'explanation': 'PARTIAL. The whole parse pipeline (preprocess, finders, chunker, marker walk, clean-up, tract construction, tract parsing) is modelled in Coq and agrees with the code on every '
                   'compared run; the four documented layout examples are proved by computation on the regenerated patterns (C01_documented_examples). Unbounded theorems for ALL FOUR layouts '
                   '(C01_walk_trs_desc, C01_walk_s_desc_tr, C01_walk_tr_desc_s, C01_walk_desc_str): for ANY number of Twp/Rge groups and sections per group, a marker sequence of the layout\'s shape makes the walk '
                   'stage exactly one component per section, in reading order, with its own section value, the Twp/Rge of its own group and the cleaned block that belongs to it (premises shown satisfiable '
                   'on a real two-group chunk). What the regex finders report for every rendering is not a theorem: they are decided on each run by the expected_tracts(D) oracle over random descriptions x layouts x spellings x separators, incl. '
                   'the pretty_desc round trip (known finding: multi-line blocks). ' + _PLSS_TIE,
}
PROPS['C03'] = {
    'group': 'plss', 'level': 'proof', 'build_timeout': 2400,
    'explanation': 'PARTIAL (one named gap). Proved for all texts/settings: every successful parse stages at least one tract component and yields exactly one tract per section named; '
                   'illegal default directions raise DefaultNSError/DefaultEWError. TOTALITY, for EVERY text: (1) C03_tract_parser_total -- TractParser (scrubbers, lot and aliquot extraction, lot divisions, '
                   'aliquot parser) raises nothing under any valid depth setting: the groups read are set on every path of the regenerated patterns (always_set/always_any), number groups hold 1-3 decimal digits (minw/maxw/csets: within what int() converts -- the model carries CPython\'s 4300-digit limit), aliquots_through never '
                   'exceeds the number of lots, every block cut out by aliquot_unpacker_regex is a string of clean halves/quarters (Engine/RegexLang.v: the language of the pattern bounds what the '
                   'executable matcher consumes) so every component found in it is one of the eight documented ones and C02_core applies; (2) C03_plss_parser_raises -- PLSSParser (preprocessing with every '
                   'scrubber pattern and its own group table, chunking, both finders, marker walk, flags, sec_within, construct_tracts) raises nothing but the documented default-direction errors, EXCEPT '
                   'possibly TypeError in exactly one situation the theorem names: in a chunk of the preprocessed text a Twp/Rge match starts or ends exactly where a section match starts (SEC_END met '
                   'before any SEC_START: C03_walk_raises + marker provenance). IndexError on sec_nums[0] is excluded by C03_sec_match_has_section, which rests on the completeness of the matcher for '
                   'look-around-free patterns (Engine/RegexComplete.v: every word of the language that lies ahead is consumed by some path, so the text of a multisec_regex match is found again). '
                   'NOT proved: that the glued situation cannot arise after preprocessing; it is searched for on each run (glued-token soup; evidence field glued_pp, never non-zero) together with the '
                   'soup/damaged-text x random-configuration oracle (no exception, >= 1 tract, documented rejection classes) and the comparison of exception classes model vs code. ' + _PLSS_TIE,
}
PROPS['C04'] = {
    'group': 'plss', 'level': 'proof', 'build_timeout': 2400,
    'explanation': 'PARTIAL. Proved for all texts, marker lists and layouts: the marker walk hands every text-bearing block either to a tract (after clean-up) or, verbatim and in order, to the unused '
                   'components; cleanup_desc returns a contiguous piece of its input; every unused block of reportable length becomes an unused_desc flag carrying it verbatim. The preprocessing half is '
                   'refuted for the P.M. gap (known finding) and otherwise carried by the foreign-word insertion oracle over token boundaries x parse modes. ' + _PLSS_TIE,
}
PROPS['C08'] = {
    'group': 'plss', 'level': 'proof', 'build_timeout': 3000,
    'explanation': 'PARTIAL. Proved: for every regex match an explicit direction is never overridden by any legal default (C08_explicit_never_overridden); complete enumerations on the regenerated patterns '
                   'of townships {7,154} x ranges {2,97} x directions x every documented spelling x defaults (argument / MasterConfig): rewritten to T..-R.., sole Twp/Rge found, missing directions filled '
                   'and reported as fixed; OCR examples. Other numbers/contexts are decided on each run by the oracle over 16 numbers x spellings x channels (config, parse keyword, MasterConfig) x ocr_scrub. ' + _PLSS_TIE,
}
PROPS['C09'] = {
    'group': 'plss', 'level': 'proof', 'build_timeout': 2400,
    'explanation': 'Proved for all texts/settings: orig_index of the k-th tract is k; every tract trs is the normalised TRS(twprge+sec).trs; the attribute dictionary the code derives for a tract is '
                   'exactly the decomposition of the tract\'s final .trs string (C09_attributes_decompose, from the dictionary-level idempotence proved for EVERY string in Proofs/C12/Full.v); every '
                   'tract trs is the error TRS or its raw string split into components that are at most case-normalised (C09_trs_strict); a non-matching non-empty string normalises to the error TRS. '
                   'WELL-FORMED (C09_well_formed): for every text and setting every tract trs is the error TRS or <1-3 digits><n|s>/error-twp + <1-3 digits><e|w>/error-rge + <2 digits>/error-sec, '
                   'never the undefined placeholder -- the raw twprge+sec string is free of the placeholder character because the groups of the regenerated twprge_regex cannot hold it (computed from '
                   'the pattern by Engine/RegexStatic.group_chars) and sections are two-digit renderings of integers; the invariant is carried through finders, marker walk, chunk parser, '
                   'sec_within and construct_tracts. orig_desc/source are decided on each run by an independent decomposition oracle on rendered/damaged/soup texts x configurations. ' + _PLSS_TIE,
}
PROPS['C10'] = {
    'group': 'plss', 'level': 'proof', 'build_timeout': 2400,
    'explanation': 'Proved for EVERY text and setting (C10_paired): on the description and on every tract, w_flags/e_flags are paired one-to-one in order with their (flag, context) lines -- through '
                   'unpackers, TractParser, finders (incl. the colon-cautious second pass and ignored Twp/Rge), ChunkParser, gen_flags_chunk, PLSSParser and hand-down; every description flag is appended to '
                   'every tract; an error tract puts twprge_error among the error flags. Trigger wording (C10_triggers): for each of 29 trigger wordings (well/wellbore, depth(s)/surface/formation/down/top/base, '
                   'incl..., less/less and except/except/limit..., insofar/in so far/(but) only insofar) and EVERY text before and after it (any length; word boundary where the pattern asks for one) the regenerated '
                   'FLAG_TABLE pattern fires and the flag is raised (match computed on a representative and lifted to all contexts by Engine/RegexLift.v: lift, search_hit). That the context '
                   'line contains the triggering words, and wordings outside the table, are decided on each run by the phrase-placement oracle. ' + _PLSS_TIE,
}
PROPS['C11'] = {
    'group': 'plss', 'level': 'proof', 'build_timeout': 2400,
    'explanation': 'Proved for every text, default, mode and tract setting (C11_forced, C11_forced_plssdesc): a forced copy_all layout yields exactly one tract whose description is the whole preprocessed text; '
                   'the same holds for the DEDUCED fallback (C11_deduced): whenever no Twp/Rge or no section word can be found in the preprocessed text, the layout is copy_all and there is exactly one whole-text tract; '
                   'the three channels reach the parser (effective layout = keyword else attribute); every chunk yields at least one tract component, the stand-in stages the whole chunk exactly once. '
                   'such a fallback carries the twprge_error flag whenever no Twp/Rge, or no section, can be matched (C11_fallback_error_flag: the single tract then has an error TRS, by the dictionary theorems of C12). '
                   'Refuted sub-claim (known finding): the chunk-level fallback tract is cleaned at its edges. "Never two whole-text tracts" is decided on each run by the oracle. ' + _PLSS_TIE,
}
PROPS['C20'] = {
    'group': 'plss', 'level': 'proof', 'build_timeout': 2400,
    'explanation': 'Proved for every text: if every section match carries a colon the three colon modes give identical finder results (matches, flags, lines); if none does, requiring it rejects all while the cautious mode accepts on its second pass exactly what the default accepts (same matches and finder flags) and adds the pulled_sec_without_colon warning; '
                   'rebuild_sec_within with exactly one staged tract joins the cleaned leading (index 0) and trailing unused blocks of >= 4 characters around the description in order and otherwise changes nothing. '
                   'Segment on single-layout descriptions and the end-to-end effect of the modes are decided on each run by the oracle over generated descriptions and placements. ' + _PLSS_TIE,
}

PROPS['C14'] = {
    'group': 'objects', 'level': 'proof', 'build_timeout': 2400,
    'explanation': 'Theorems about the object state machine (Tract / PLSSDesc over parse(commit, keywords), parse_tracts, preprocess, config assignment) built on the full parser model, for all states and '
                   'keyword sets: commit=False returns the object unchanged; a committed PLSSDesc parse reads only text, settings and MasterConfig, replaces the results and is idempotent; what a Tract '
                   'parse computes is independent of the flags it holds and its flags are the held ones followed by the generated ones (so lots/aliquots/acreages/pp_desc are reproduced exactly; the '
                   'doubling of its own warnings is refuted with a witness and listed as a known finding). Aliasing is outside a pure model: it is decided on each run by deep snapshots around every '
                   'commit=False call and by random operation histories executed on real objects and on the extracted state machine.',
}

PROPS['C15'] = {
    'group': 'objects', 'level': 'proof', 'build_timeout': 2400,
    'explanation': 'Theorems about the model of the process-wide state (TRS cache and its switch, MasterConfig) for ALL histories: in every reachable state each cache entry equals the recomputed '
                   'decomposition; every outcome of TRS(), trs_to_dict, from_twprgesec, PLSSDesc, Tract, find_twprge is the pure function of its arguments and the MasterConfig in force -- cache on, off, '
                   'cold or warm; the probe after any history equals the probe in a fresh process under the MasterConfig the history left (C15_probe). Aliasing of returned objects is outside a pure model: '
                   'it is decided on each run by histories with mutation steps executed on the real library and compared with the state machine and with a fresh interpreter per probe.',
}

PROPS['C16'] = {
    'group': 'plss', 'level': 'other', 'build_timeout': 2400,
    'run_timeout': {'quick': 2400, 'thorough': 6 * 3600},
    'explanation': 'Wall-clock time of CPython\'s regex engine is not a quantity a Gallina model can be put into checked correspondence with, so C16 is decided by a timing harness, not by a theorem: '
                   'pumping families prefix + unit^n + suffix over the token/character vocabulary of the patterns and k-fold structural repetition, CPU time of PLSSDesc(text, parse_qq=True) per size in '
                   'isolated workers with a hard kill; a text of <= 300 characters taking > 2 s CPU (confirmed twice) is a violation with the text as replay. Three families already violate it on the '
                   'unchanged tree and are listed as known findings (each is re-measured on every run). Proved in Coq (the part the control code owns): the shrinking substitute-until-stable loops '
                   'converge within length+1 passes for every text; fuel is unobservable.',
    'technique': 'timing harness over pumping families (support for a property no model can express) + Coq termination lemmas for the control loops',
}

NOT_CLAIMED = {}
