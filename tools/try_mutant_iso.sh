#!/bin/sh
# usage: tools/try_mutant_iso.sh <seeded dir> <Cxx> [tier]
# Like try_mutant.sh but fully isolated: the patch is applied in a scratch worktree of /repo HEAD and the
# check runs from a scratch copy of /verif with PYTRS_REPO pointing at that worktree, so neither /repo nor
# /verif is touched (usable while background runs read /repo).  Both scratch dirs are removed afterwards.
D=$(readlink -f "$1"); P=$2; T=${3:-quick}; N=$(basename "$D")
WT=/tmp/wt/try_$N; VF=/tmp/vf/$N
rm -rf "$WT" "$VF"; mkdir -p /tmp/vf /tmp/wt
git -C /repo worktree add --detach "$WT" HEAD -q || exit 2
git -C "$WT" apply "$D/patch.diff" || { echo "$N: PATCH DOES NOT APPLY"; git -C /repo worktree remove --force "$WT"; exit 3; }
rsync -a --exclude .git --exclude seeded --exclude replays /verif/ "$VF/"
( cd "$VF" && PYTRS_REPO="$WT" PYTHONPATH="$WT" python3 tools/check.py $P --tier $T > "$VF/out.txt" 2>&1; echo "exit=$?" >> "$VF/out.txt" )
echo "== $N $P $T"; grep -E "VIOLATION|KNOWN|$P $T|exit=" "$VF/out.txt" | cut -c1-220
for f in "$VF"/replays/${P}_*.json; do [ -f "$f" ] && { echo "-- replay $(basename $f):"; head -c 600 "$f"; echo; }; done
git -C /repo worktree remove --force "$WT"; rm -rf "$VF"
