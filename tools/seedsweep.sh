#!/bin/sh
# usage: tools/seedsweep.sh "<seeds>" [tier]  -- run every claimed check for each seed; print alarms
T=${2:-quick}
for s in $1; do
  for p in C01 C02 C03 C04 C05 C06 C07 C08 C09 C10 C11 C12 C13 C14 C15 C16 C17 C18 C19 C20; do
    out=$(VERIF_SEED=$s python3 tools/check.py $p --tier $T 2>&1); rc=$?
    echo "seed=$s $p rc=$rc $(echo "$out" | tail -1 | cut -c1-120)"
    if [ $rc != 0 ]; then echo "$out" | grep VIOLATION; cp replays/${p}_${T}_$s.json replays/alarm_${p}_$s.json 2>/dev/null; fi
  done
done
