#!/usr/bin/env python3
"""Print a Python source file without long docstrings/blank lines (reading aid)."""
import ast, sys
def strip(path):
    src = open(path).read()
    tree = ast.parse(src)
    lines = src.split('\n')
    kill = set()
    for node in ast.walk(tree):
        if isinstance(node, (ast.FunctionDef, ast.ClassDef, ast.Module, ast.AsyncFunctionDef)):
            b = node.body
            if b and isinstance(b[0], ast.Expr) and isinstance(getattr(b[0], 'value', None), ast.Constant) and isinstance(b[0].value.value, str):
                d = b[0]
                if d.end_lineno - d.lineno >= 2:
                    for i in range(d.lineno, d.end_lineno + 1):
                        kill.add(i)
    for i, l in enumerate(lines, 1):
        if i in kill or l.strip() == '':
            continue
        print(f"{i}\t{l}")
for p in sys.argv[1:]:
    print("#####", p)
    strip(p)
