#!/venv/bin/python
"""runprop.py <Cxx> <tier> <mode> <result.json>  -- runs inside /venv/bin/python with
PYTHONPATH=/repo: the property's correspondence, oracle sweep and (mode=search) the
failing-input search.  Also: runprop.py replay <path>."""
import importlib
import json
import os
import sys
import traceback

sys.path.insert(0, os.path.dirname(os.path.abspath(__file__)))
sys.path.insert(0, os.path.join(os.path.dirname(os.path.abspath(__file__)), 'corr'))
import harness as H  # noqa


def main():
    if sys.argv[1] == 'replay':
        rp = json.load(open(sys.argv[2]))
        mod = importlib.import_module('props.' + rp['property'].lower())
        ok = mod.replay(rp)
        print('replay:', 'violation reproduced' if not ok else 'not reproduced')
        sys.exit(0 if ok else 1)
    pid, tier, mode, out = sys.argv[1:5]
    import pytrs
    assert os.path.realpath(pytrs.__file__).startswith(os.path.realpath(H.REPO) + os.sep), pytrs.__file__
    mod = importlib.import_module('props.' + pid.lower())
    try:
        res = mod.run(tier, mode)
    except Exception:
        res = {'disagreements': [{'entry': 'harness', 'detail': traceback.format_exc()[-2000:]}]}
    H.write_json(out, res)


if __name__ == '__main__':
    main()
