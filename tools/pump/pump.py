"""pump.py -- timing exploration for C16 (a support harness, not a proof): pumping families
prefix + unit^n + suffix and structural repetition, each in its own worker process with a hard
wall limit; reports the families whose CPU time exceeds the limit at <= max_len characters."""
import json
import os
import subprocess
import sys
import threading

HERE = os.path.dirname(os.path.abspath(__file__))
PY = '/venv/bin/python'
REPO = os.environ.get('PYTRS_REPO', '/repo')

UNITS = [' ', '\t', '. ', ', ', ' and', ' and ', '-', '–', '.', ',', ';', ':', ' of', ' the ', 'x', '1', ' 1', ' N', '/', ' & ', '\n', ' ,', '. . ', ' - ', '1 ', '..', ', 1', ' \t', '\t ', ' \n', '\n ', '9',
         '\xa0', '\u2003', '\xa0 ',     # blanks that only the Unicode-aware `\s` accepts
         ' north', ' of the road']     # plain English words outside the patterns' vocabulary
PREFIXES = ['T154N-R97W', 'T154N-R97W Sec 14', 'T154N-R97W Sec 14: Lot 1', 'T154N-R97W Sec 14: NE/4', '', 'Township 154 North', 'Sec 14', 'Lots 1', 'T154N-R97W Sec 1: Lots 1 - ', 'T154N-R97W Sections 1 - ',
            'T155N', 'T154N-R97W\nSec 14: NE/4\nT155N',     # a township read, its range still to come
            'T154N-R97W Sec 14 lying ']     # the in-between check of TwpRgeFinder ('Sec N lying within T..R..'), when another Twp/Rge follows
SUFFIXES = ['', ' NE/4', ': NE/4', ' Sec 1: ALL', 'X', 'Sec 22: S/2', ' T155N-R97W Sec 1: ALL', ' of the 5th P.M.', ' 2']
LINES = [('T154N-R97W', '\n'), ('T154N-R97W Sec 14: NE/4', '\n'), ('Sec 14: NE/4', ', '), ('Lot 1', ', '), ('T154N-R97W Sec 14: NE/4', ', '), ('NE/4', ' and '),
         ('Township 154 North, Range 97 West', '\n'), ('T154N-R97W Sec 1', '; ')]


def families(tier):
    fams = []
    for p in PREFIXES:
        for u in UNITS:
            for sfx in (SUFFIXES if tier == 'thorough' else SUFFIXES[:7]):
                fams.append({'id': f'pump|{p}|{u}|{sfx}', 'prefix': p, 'unit': u, 'suffix': sfx, 'sizes': [4, 8, 12, 16, 20, 24, 28, 32, 48, 64, 96, 128, 200, 290]})
    for u, sep in LINES:
        fams.append({'id': f'lines|{u}|{sep}', 'kind': 'lines', 'unit': u, 'sep': sep, 'prefix': '', 'suffix': '', 'sizes': [2, 3, 4, 5, 6, 7, 8, 10, 12, 16, 24]})
    # every chain of up to three aliquot components written without joiners (the until-stable loops of the aliquot parser)
    comps = ['N/2', 'S/2', 'E/2', 'W/2', 'NE/4', 'NW/4', 'SE/4', 'SW/4']
    chains = [a + b for a in comps for b in comps] + [a + b + c for a in comps for b in comps for c in comps] + \
             [a + ' of the ' + b for a in comps for b in comps]
    texts = ['T154N-R97W Sec 1: ' + ch for ch in chains]
    for k in range(0, len(texts), 80):
        part = texts[k:k + 80]
        fams.append({'id': f'texts|aliquot-chains|{k}', 'kind': 'texts', 'texts': part, 'unit': '', 'sep': '', 'prefix': '', 'suffix': '', 'sizes': list(range(len(part)))})
    # the same short description parsed again and again in one process (state carried between calls)
    for cfg in ['ocr_scrub', 'parse_qq', 'segment,sec_within', 'clean_qq,parse_qq']:
        fams.append({'id': f'repeat|T154N-R97W Sec 14: NE/4 of the land|{cfg}', 'kind': 'repeat', 'unit': 'T154N-R97W Sec 14: NE/4 of the land', 'config': cfg,
                     'sep': '', 'prefix': '', 'suffix': '', 'sizes': [5, 10, 20, 40, 80]})
    return fams


def run_family(fam, limit_cpu=2.0, wall=8.0):
    """returns {'id', 'worst': {...}, 'slow': bool, 'killed': bool}"""
    env = dict(os.environ, PYTHONPATH=REPO, PYTHONHASHSEED='0')
    p = subprocess.Popen([PY, os.path.join(HERE, 'worker.py')], stdin=subprocess.PIPE, stdout=subprocess.PIPE, stderr=subprocess.DEVNULL, text=True, env=env)
    timer = threading.Timer(wall, p.kill)
    timer.start()
    try:
        out, _ = p.communicate(json.dumps(fam) + '\n')
    finally:
        timer.cancel()
    rows = [json.loads(l) for l in out.split('\n') if l.strip().startswith('{')]
    done = [r for r in rows if 'cpu' in r]
    started = [r for r in rows if r.get('start')]
    killed = p.returncode not in (0, None) and (not done or (started and started[-1]['n'] != done[-1]['n']))
    worst = max(done, key=lambda r: r['cpu']) if done else None
    slow = bool(worst and worst['cpu'] > limit_cpu) or killed
    at = None
    if killed and started:
        at = started[-1]
    elif slow:
        at = worst
    return {'id': fam['id'], 'fam': fam, 'worst': worst, 'slow': slow, 'killed': killed, 'at': at}


def explore(tier='quick', nproc=12, only=None):
    fams = families(tier)
    if only:
        fams = [f for f in fams if f['id'] in only]
    res = [None] * len(fams)
    idx = iter(range(len(fams)))
    lock = threading.Lock()

    def work():
        while True:
            with lock:
                i = next(idx, None)
            if i is None:
                return
            res[i] = run_family(fams[i])
    ths = [threading.Thread(target=work) for _ in range(nproc)]
    for t in ths:
        t.start()
    for t in ths:
        t.join()
    return res


if __name__ == '__main__':
    r = explore(sys.argv[1] if len(sys.argv) > 1 else 'quick')
    slow = [x for x in r if x['slow']]
    print(len(r), 'families;', len(slow), 'slow')
    for x in slow:
        print(json.dumps({'id': x['id'], 'at': x['at'], 'killed': x['killed']}))
