"""pump worker: times PLSSDesc(text, parse_qq=True) for growing n of one family, printing one JSON
line per size; the parent kills it when it runs over the wall limit (a long regex match cannot be
interrupted from inside the interpreter)."""
import json
import resource
import sys
import time


def cpu():
    r = resource.getrusage(resource.RUSAGE_SELF)
    return r.ru_utime + r.ru_stime


def main():
    import pytrs
    fam = json.loads(sys.stdin.readline())
    for n in fam['sizes']:
        text = fam['prefix'] + fam['unit'] * n + fam['suffix']
        if fam.get('kind') == 'lines':
            text = fam['sep'].join([fam['unit']] * n)
        elif fam.get('kind') == 'texts':      # explicit list of short texts, n = index
            text = fam['texts'][n]
        elif fam.get('kind') == 'repeat':     # n earlier parses in the same process, then the timed one
            text = fam['unit']
            print(json.dumps({'n': n, 'len': len(text), 'start': True}), flush=True)    # the earlier parses count: being killed during them is slow too
            for _ in range(n):
                try:
                    pytrs.PLSSDesc(text, config=fam['config'])
                except Exception:  # noqa
                    pass
        if len(text) > fam.get('max_len', 300):
            break
        print(json.dumps({'n': n, 'len': len(text), 'start': True}), flush=True)
        t0 = cpu()
        try:
            pytrs.PLSSDesc(text, parse_qq=True)
            exc = None
        except Exception as e:  # noqa
            exc = type(e).__name__
        dt = cpu() - t0
        print(json.dumps({'n': n, 'len': len(text), 'cpu': round(dt, 4), 'exc': exc}), flush=True)
        if dt > fam.get('stop_at', 2.5):
            break


if __name__ == '__main__':
    main()
