#!/usr/bin/env python3
"""Regenerate MANIFEST.json from tools/propdefs.py (keeps it valid at all times)."""
import json
import os
import sys

V = os.path.dirname(os.path.dirname(os.path.abspath(__file__)))
sys.path.insert(0, os.path.join(V, 'tools'))
import propdefs

ALL = [json.loads(l)['id'] for l in open(os.path.join(V, 'properties.jsonl'))]
checks = []
for pid in ALL:
    if pid not in propdefs.PROPS:
        continue
    pd = propdefs.PROPS[pid]
    checks.append({
        'property_id': pid,
        'quick_cmd': f'python3 tools/check.py {pid} --tier quick',
        'thorough_cmd': f'python3 tools/check.py {pid} --tier thorough',
        'evidence_file': f'/verif/evidence/{pid}.json',
        'replay_cmd_template': 'python3 tools/check.py replay {path}',
        'engine': 'coq-model',
        'level_claimed': {'category': pd.get('level', 'proof'), 'text': pd['explanation'],
                          'design_ref': f'DESIGN.md section 6, {pid}'},
        'level_note': pd.get('level_note', 'Trusted: Coq kernel + VM; translator; hand-written model tied by differential execution of extracted OCaml; Spec files. See DESIGN.md section 7.'),
        'technique': pd.get('technique', 'Coq proof about a model + translator-regenerated tables/patterns + differential correspondence'),
    })
na = [{'property_id': pid, 'reason': propdefs.NOT_CLAIMED.get(pid, 'check not built yet (work in progress; see DESIGN.md section 10)')}
      for pid in ALL if pid not in propdefs.PROPS]
m = {
    'version': 1,
    'setup_cmd': 'sh tools/setup.sh',
    'hooks': {'guard': 'PYTRS_VERIF', 'enable': 'none needed: the harness wraps pyTRS from outside (no source hooks)',
              'baseline_off_cmd': 'cd /repo && /venv/bin/python -m pytest -ra -q -p no:cacheprovider --timeout=900 --continue-on-collection-errors',
              'source_commits': [], 'add_only': True},
    'engines': [{'name': 'coq-model', 'path': 'coq/', 'serves_properties': [c['property_id'] for c in checks],
                 'kind_free_text': 'Coq 8.16.1 development: generated patterns/tables (Gen), regex engine, Python runtime model, control model, specs, proofs; extracted to OCaml for differential execution against /repo'}],
    'checks': checks,
    'not_applicable': na,
    'notes': 'Every check: translate /repo -> coq/Gen, full .vo build of the property cone, Print Assumptions, extraction + correspondence, oracle sweep; see DESIGN.md.',
}
json.dump(m, open(os.path.join(V, 'MANIFEST.json'), 'w'), indent=1)
print('MANIFEST.json:', len(checks), 'checks,', len(na), 'not claimed')
