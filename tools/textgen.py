"""textgen.py -- input generators shared by the correspondence checks and searches.
Every random choice derives from the rng passed in (seeded from VERIF_SEED)."""
import ast
import glob
import os

REPO = os.environ.get('PYTRS_REPO', '/repo')

# ---------------------------------------------------------------- corpus

_corpus = None


def corpus():
    """Every string literal of /repo/tests (>= 2 chars), layout examples, and the minimised
    past disagreements kept under /verif/corpus/*.txt (one JSON string per line)."""
    global _corpus
    if _corpus is not None:
        return _corpus
    out = []
    seen = set()

    def add(s):
        if isinstance(s, str) and 2 <= len(s) <= 700 and s not in seen:
            seen.add(s)
            out.append(s)
    import json
    here = os.path.dirname(os.path.dirname(os.path.abspath(__file__)))
    for p in sorted(glob.glob(os.path.join(here, 'corpus', '*.txt'))):
        for line in open(p, encoding='utf-8'):
            line = line.strip()
            if line:
                try:
                    add(json.loads(line))
                except Exception:
                    pass
    for p in sorted(glob.glob(os.path.join(REPO, 'tests', '*.py'))):
        try:
            tree = ast.parse(open(p, encoding='utf-8').read())
        except Exception:
            continue
        for node in ast.walk(tree):
            if isinstance(node, ast.Constant) and isinstance(node.value, str):
                add(node.value)
    try:
        from pytrs.parser.config.layouts import IMPLEMENTED_LAYOUT_EXAMPLES
        for block in IMPLEMENTED_LAYOUT_EXAMPLES.split("\n\n"):
            add(block.split("\n", 1)[-1])
    except Exception:
        pass
    _corpus = out
    return out


# ---------------------------------------------------------------- vocabulary

TWPRGE_SPELLINGS = [
    'T{t}{NS}-R{r}{EW}', 'T{t}{NS} R{r}{EW}', 'T{t}{NS}, R{r}{EW}', 't{t}{ns}-r{r}{ew}',
    'Township {t} {North}, Range {r} {West}', 'Twp. {t} {Nd}, Rge. {r} {Wd}',
    'T-{t}-{NS}, R-{r}-{EW}', 'Township {t} {North} Range {r} {West}',
    'T. {t} {Nd}, R. {r} {Wd}', 'T{t}{NS}R{r}{EW}', 'Twp {t}{NS} Rge {r}{EW}',
]
TWPRGE_SPELLINGS_NO_R = ['{t}{NS}-{r}{EW}', '{t}{ns}-{r}{ew}', '{t} {North} {r} {West}']
SEC_WORDS = ['Section', 'Sec', 'Sec.', 'Sect.', 'Sect', 'section', 'SECTION', 'sec', '§', 'Secton', 'Sectn', 'Secn']
SEC_WORDS_PL = ['Sections', 'Secs', 'Secs.', 'Sects.', 'sections', '§§'.replace('§§', '§s')]
THRU = [' - ', '-', ' – ', '—', ' through ', ' thru ', ' to ', ' thru. ', ' thorugh ']
AND = [' and ', ' & ', ', ', ', and ', ' and Section ', ', Sec. ', '; ']
ALIQ_TOKENS = ['NE/4', 'NW/4', 'SE/4', 'SW/4', 'N/2', 'S/2', 'E/2', 'W/2', 'NE¼', 'N½', 'NE', 'SW', 'N2', 'S2',
               'NE4', 'North Half', 'Northeast Quarter', 'North East One Quarter', 'N 1/2', 'SE 1/4',
               'E½', 'W½', 'S½', 'NW¼', 'SE¼', 'SW¼', 'ALL', 'All', 'N.E. 1/4', 'So. 1/2', 'South Half',
               'N/2NE/4', 'S/2 of the NW/4', 'E/2W/2', 'NE/4NE/4', 'W½SE¼', 'E2NE', 'N2 of the SW']
LOT_TOKENS = ['Lot 1', 'Lots 1 - 3', 'Lots 1, 2', 'Lot 4(38.29)', 'Lots 1(40.00), 2(39.88)', 'L1', 'Lts 2-4',
              'Lot 5 and Lot 7', 'N/2 of Lot 1', 'Lots 8 through 10', 'Lot 3 [39.1]', 'Lots 7 - 5', 'Lots 1 & 2',
              'N½ of Lots 1 - 3 and Lot 5', 'Lot 12', 'Lot 1, Lot 1', 'Lots 1-3, 5, 7-9']
PROSE = ['That part of the', 'lying north of the river', 'a tract of land', 'beginning at the NE corner',
         'thence S 0°15\' W 330 feet', 'less and except the wellbore of the Johnston #1 well',
         'insofar and only insofar as', 'from the surface to the base of the Bakken formation',
         'including all accretions', 'limited to depths below 5,000 feet', 'except the north 10 acres',
         'containing 160.00 acres, more or less', 'the East 80 rods', 'as described in Book 12, Page 45',
         'said tract', 'within', 'of', 'in', 'and', 'the', 'all of', 'all in', 'ZZZQ', 'QQXJ7',
         'right-of-way', 'only in so far as', 'down to 100 feet', 'top of the formation', 'well']
SEPS = [', ', '; ', '\n', ' ', ': ', ',', ';', '\n\n', ' - ', '. ', '  ', '\t', ':', ' of ', ' in ']
PM = [' of the 5th P.M.', ', 6th Principal Meridian', ' 5th PM', ' of the Sixth P. M.', ', Indian Meridian']
WEIRD = ['', ' ', ' ', ' ', '١٥٤', '１５４', 'ſ', 'K', 'İ', '\r\n', '\x0b', '\x1c', ' ',
         'é', '𝟙', '\ud800', '½', '¼', '°', '(', ')', '[', ']', '|', '_', '~', '/', '.', '..', '...', ',,', '::',
         'T', 'R', 'N', 'S', 'E', 'W', 'Lot', 'L', 'Sec', 'Section', '2', '4', '0', '00', '007', '100', '1000',
         'of the', 'oof', 'tthhee', 'teh', 'P.M.', 'Principal Meridian', 'One', 'Half', 'Quarter', '1/2', '1/4',
         'through', 'thru', 'to', 'and', '&', 'I', 'l', 'O', 'TIS4N-R97W', 'T154N-R9TW', 'TlS4N-RO7W']


def twprge(r, spell=None, nums=None):
    t, g = nums or (r.choice([1, 2, 7, 15, 154, 999, 20, 100, 9]), r.choice([1, 2, 3, 9, 97, 20, 101, 999, 22]))
    ns = r.choice('NS')
    ew = r.choice('EW')
    sp = spell or r.choice(TWPRGE_SPELLINGS + TWPRGE_SPELLINGS_NO_R[:1])
    full = {'N': 'North', 'S': 'South', 'E': 'East', 'W': 'West'}
    return sp.format(t=t, r=g, NS=ns, EW=ew, ns=ns.lower(), ew=ew.lower(), North=full[ns], West=full[ew],
                     Nd=ns + '.', Wd=ew + '.')


def secref(r, colon=None):
    n = r.choice([1, 2, 5, 9, 11, 14, 15, 22, 36, 3, 100, 0, 7])
    k = r.random()
    if k < 0.55:
        s = f'{r.choice(SEC_WORDS)} {n}'
    elif k < 0.75:
        a, b = n, r.choice([1, 3, 8, 12, 30])
        s = f'{r.choice(SEC_WORDS_PL)} {a}{r.choice(THRU)}{b}'
    elif k < 0.9:
        s = f'{r.choice(SEC_WORDS_PL)} {n}{r.choice(AND)}{r.choice([4, 6, 10, 25])}'
    else:
        s = f'{r.choice(SEC_WORDS_PL)} {n}{r.choice(THRU)}{n + 2}{r.choice(AND)}{r.choice([17, 19])}'
    if colon is None:
        colon = r.random() < 0.6
    return s + (':' if colon else '')


def block(r):
    k = r.random()
    if k < 0.35:
        return r.choice(ALIQ_TOKENS)
    if k < 0.5:
        return r.choice(ALIQ_TOKENS) + r.choice([', ', ' and ', '; ']) + r.choice(ALIQ_TOKENS)
    if k < 0.65:
        return r.choice(LOT_TOKENS)
    if k < 0.8:
        return r.choice(LOT_TOKENS) + r.choice([', ', '; ', ' and ']) + r.choice(ALIQ_TOKENS)
    n = r.randint(1, 3)
    return ' '.join(r.choice(PROSE + ALIQ_TOKENS) for _ in range(n))


def structured_desc(r):
    """A description in one of the four documented layouts."""
    lay = r.choice(['TRS_desc', 'TR_desc_S', 'desc_STR', 'S_desc_TR'])
    parts = []
    for _ in range(r.choice([1, 1, 1, 2, 2, 3])):
        tr = twprge(r)
        secs = [(secref(r, colon=(lay in ('TRS_desc', 'S_desc_TR')) and r.random() < 0.9), block(r))
                for _ in range(r.choice([1, 1, 2, 2, 3]))]
        if lay == 'TRS_desc':
            parts.append(tr + r.choice(['\n', ', ', ' ', '\n\n']) + r.choice(['\n', ', ', '; ']).join(
                f'{s} {b}' for s, b in secs))
        elif lay == 'TR_desc_S':
            parts.append(tr + r.choice(['\n', ', ', ' ']) + r.choice(['\n', ', ', '; ']).join(
                f'{b} of {s}' for s, b in secs))
        elif lay == 'desc_STR':
            parts.append(r.choice([', ', '; ', '\n']).join(f'{b} of {s}' for s, b in secs) + r.choice([', ', ' of ', ' in ', ', all in ']) + tr)
        else:
            parts.append(r.choice(['\n', ', ', '; ']).join(f'{s} {b}' for s, b in secs) + r.choice([', ', ' of ', ', all in ']) + tr)
    d = r.choice(['\n', '\n\n', ', ', '; ']).join(parts)
    if r.random() < 0.1:
        d = d.replace(tr, tr + r.choice(PM), 1)
    return d


def damage(r, s):
    """Token-level damage of a text."""
    toks = s.replace('\n', ' \n ').split(' ')
    for _ in range(r.choice([1, 1, 2, 3])):
        if not toks:
            break
        k = r.random()
        i = r.randrange(len(toks))
        if k < 0.25:
            del toks[i]
        elif k < 0.4:
            toks.insert(i, toks[i])
        elif k < 0.55:
            j = r.randrange(len(toks))
            toks[i], toks[j] = toks[j], toks[i]
        elif k < 0.7:
            toks[i] = toks[i].replace(':', '')
        elif k < 0.85:
            toks.insert(i, r.choice(PROSE + WEIRD))
        else:
            toks = toks[:i]
    out = ' '.join(toks).replace(' \n ', '\n')
    if r.random() < 0.15:
        out = out[:r.randrange(len(out) + 1)]
    return out


def soup(r, maxtok=10):
    n = r.randint(0, maxtok)
    toks = []
    for _ in range(n):
        k = r.random()
        if k < 0.15:
            toks.append(twprge(r))
        elif k < 0.3:
            toks.append(secref(r))
        elif k < 0.45:
            toks.append(r.choice(ALIQ_TOKENS))
        elif k < 0.55:
            toks.append(r.choice(LOT_TOKENS))
        elif k < 0.7:
            toks.append(r.choice(PROSE))
        elif k < 0.85:
            toks.append(r.choice(WEIRD))
        else:
            toks.append(str(r.choice([0, 1, 2, 4, 14, 97, 154, 1000])))
    return ''.join(t + r.choice(SEPS + ['', '', ' ', ' ']) for t in toks)


def tract_desc(r):
    n = r.choice([1, 1, 2, 2, 3, 4])
    els = [r.choice(ALIQ_TOKENS + LOT_TOKENS + PROSE[:12]) for _ in range(n)]
    return ''.join(e + r.choice([', ', '; ', ' ', ' and ', '\n', ' of ', '']) for e in els).rstrip()


def any_text(r):
    k = r.random()
    if k < 0.35:
        return structured_desc(r)
    if k < 0.6:
        return damage(r, structured_desc(r))
    if k < 0.85:
        return soup(r)
    if k < 0.95:
        return tract_desc(r)
    c = corpus()
    return damage(r, r.choice(c)) if c else soup(r)
