#!/usr/bin/env python3
"""check.py -- entry point of every MANIFEST command.

    python3 tools/check.py C02 --tier quick|thorough
    python3 tools/check.py replay <path>

Steps (DESIGN.md section 5): translate /repo -> coq/Gen ; build the property's cone
(full .vo build) ; re-check Properties/Cxx.v and collect Print Assumptions ; extract
the property's driver ; run the correspondence + oracle sweep in /venv/bin/python ;
decide ; write evidence/Cxx.json.  Exit 0 unless a violation not listed in
known_findings.json is found."""
import argparse
import fcntl
import json
import os
import re
import subprocess
import sys
import time

VERIF = os.path.dirname(os.path.dirname(os.path.abspath(__file__)))
COQ = os.path.join(VERIF, 'coq')
BUILD = os.path.join(VERIF, '_build')
PY = '/venv/bin/python'
REPO = os.environ.get('PYTRS_REPO', '/repo')
ENV = dict(os.environ, PYTHONPATH=REPO, PYTRS_REPO=REPO, PYTHONHASHSEED='0', PIP_NO_INDEX='1',
           PYTHONDONTWRITEBYTECODE='1')

sys.path.insert(0, os.path.join(VERIF, 'tools'))
import propdefs  # noqa: E402

FORBIDDEN = re.compile(r'\b(Admitted|admit|Axiom|Axioms|Parameter|Parameters|Conjecture|Hypothesis|Variable)\b'
                       r'|Unset\s+Guard|bypass_check|type-in-type|impredicative-set|Admit\s+Obligations')
STD_AXIOMS = ('functional_extensionality', 'classic', 'proof_irrelevance', 'JMeq_eq', 'Eqdep.Eq_rect_eq',
              'propositional_extensionality', 'constructive_indefinite_description',
              'constructive_definite_description')


def sh(cmd, timeout, cwd=None, env=None):
    try:
        p = subprocess.run(cmd, shell=isinstance(cmd, str), cwd=cwd, env=env or ENV, timeout=timeout,
                           stdout=subprocess.PIPE, stderr=subprocess.STDOUT, text=True, errors='replace')
        return p.returncode, p.stdout
    except subprocess.TimeoutExpired as e:
        out = e.stdout or ''
        if isinstance(out, bytes):
            out = out.decode('utf-8', 'replace')
        return 124, out + '\n[timeout]'


def scan_forbidden(files):
    """Forbidden declarations in the development.  `Variable`/`Hypothesis` are allowed inside
    a Section only; comments are stripped first."""
    hits = []
    for f in files:
        src = open(f, encoding='utf-8').read()
        # strip (nested) comments
        out, depth, i = [], 0, 0
        while i < len(src):
            if src.startswith('(*', i):
                depth += 1
                i += 2
            elif src.startswith('*)', i) and depth:
                depth -= 1
                i += 2
            else:
                if depth == 0:
                    out.append(src[i])
                elif src[i] == '\n':
                    out.append('\n')
                i += 1
        code = ''.join(out)
        in_section = 0
        for ln, line in enumerate(code.split('\n'), 1):
            if re.match(r'\s*Section\b', line):
                in_section += 1
            if re.match(r'\s*End\b', line) and in_section:
                in_section -= 1
            for mo in FORBIDDEN.finditer(line):
                w = mo.group(0)
                if w in ('Variable', 'Hypothesis') and in_section:
                    continue
                if w in ('Variable', 'Hypothesis', 'Parameter', 'Parameters') and not re.match(r'\s*(Local\s+|Global\s+)?' + w, line):
                    continue
                hits.append(f'{os.path.relpath(f, VERIF)}:{ln}: {line.strip()[:100]}')
    return hits


def cone_files(target_v):
    """.v files the target depends on (via coqdep), inside coq/."""
    rc, out = sh(f'coqdep -Q . PyTRS -sort {target_v}', 120, cwd=COQ)
    files = [os.path.join(COQ, x) for x in out.split() if x.endswith('.v')]
    return [f for f in files if os.path.exists(f)]


def ensure_makefile():
    mk = os.path.join(COQ, 'Makefile')
    cp = os.path.join(COQ, '_CoqProject')
    if not os.path.exists(mk) or os.path.getmtime(mk) < os.path.getmtime(cp):
        rc, out = sh('coq_makefile -f _CoqProject -o Makefile', 120, cwd=COQ)
        if rc:
            raise RuntimeError('coq_makefile failed: ' + out[-500:])


def parse_assumptions(out, theorems):
    """Split coqc output of Properties/Cxx.v into per-theorem assumption reports."""
    reports = {}
    blocks = re.split(r'(?m)^(?=Closed under the global context|Axioms:)', out)
    blocks = [b for b in blocks if b.startswith('Closed under') or b.startswith('Axioms:')]
    for th, b in zip(theorems, blocks):
        if b.startswith('Closed under'):
            reports[th] = []
        else:
            names = re.findall(r'(?m)^([A-Za-z_][\w\.\']*)\s*:', b[len('Axioms:'):])
            reports[th] = names
    return reports


def main():
    ap = argparse.ArgumentParser()
    ap.add_argument('prop')
    ap.add_argument('path', nargs='?')
    ap.add_argument('--tier', default=os.environ.get('VERIF_TIER', 'quick'))
    a = ap.parse_args()
    if a.prop == 'replay':
        rc, out = sh([PY, os.path.join(VERIF, 'tools', 'runprop.py'), 'replay', a.path], 3600)
        print(out)
        sys.exit(rc)
    pid = a.prop
    tier = a.tier if a.tier in ('quick', 'thorough') else 'quick'
    if pid not in propdefs.PROPS:
        print(f'unknown property {pid}')
        sys.exit(2)
    pd = propdefs.PROPS[pid]
    t0 = time.time()
    os.makedirs(BUILD, exist_ok=True)
    os.makedirs(os.path.join(VERIF, 'evidence'), exist_ok=True)
    seed = int(os.environ.get('VERIF_SEED', '0') or 0)
    lock = open(os.path.join(BUILD, 'lock'), 'w')
    fcntl.flock(lock, fcntl.LOCK_EX)

    broken = []        # list of dicts: what no longer checks
    proof = {'theorems': [], 'axioms': {}, 'checker_cmd': ''}
    try:
        # 1. translate
        rc, out = sh([PY, os.path.join(VERIF, 'tools', 'translate.py')], 600)
        if rc:
            broken.append({'kind': 'translator_failed', 'detail': out[-1500:]})
        # 2. build the cone
        thm_v = f'Properties/{pid}.v'
        drv_v = f'Extract/Drv_{pd["group"]}.v'
        if not broken:
            ensure_makefile()
            targets = [thm_v + 'o'.replace('o', 'o')] if False else []
            targets = [thm_v[:-2] + '.vo', drv_v[:-2] + '.vo']
            rc, out = sh(f'make -j16 {" ".join(targets)}', pd.get('build_timeout', 1500), cwd=COQ)
            if rc:
                mo = re.findall(r'File "\./([^"]+)", line (\d+)', out)
                where = f'{mo[-1][0]}:{mo[-1][1]}' if mo else 'unknown'
                broken.append({'kind': 'proof_broken', 'file': where, 'detail': out[-2500:]})
        # 3. property theorems + Print Assumptions
        if not broken:
            src = open(os.path.join(COQ, thm_v), encoding='utf-8').read()
            theorems = re.findall(r'(?m)^\s*(?:Theorem|Corollary)\s+([\w\']+)', src)
            cmd = f'coqc -Q . PyTRS {thm_v}'
            rc, out = sh(cmd, 900, cwd=COQ)
            proof['checker_cmd'] = f'cd coq && make {thm_v[:-2]}.vo && {cmd}   (coqc 8.16.1, full .vo build of the dependency cone)'
            if rc:
                broken.append({'kind': 'proof_broken', 'file': thm_v, 'detail': out[-2500:]})
            else:
                rep = parse_assumptions(out, theorems)
                proof['theorems'] = theorems
                proof['axioms'] = rep
                if len(rep) != len(theorems):
                    broken.append({'kind': 'proof_broken', 'file': thm_v,
                                   'detail': 'Print Assumptions missing under a theorem'})
                for th, axs in rep.items():
                    badax = [x for x in axs if not any(sx in x for sx in STD_AXIOMS)]
                    if badax:
                        broken.append({'kind': 'proof_broken', 'file': thm_v,
                                       'detail': f'{th} depends on non-standard axioms {badax}'})
            hits = scan_forbidden(cone_files(thm_v))
            if hits:
                broken.append({'kind': 'proof_broken', 'file': hits[0], 'detail': 'forbidden declaration: ' + '; '.join(hits[:5])})
            if tier == 'thorough' and not broken and pd.get('coqchk', True):
                rc, out = sh(f'coqchk -silent -o -Q . PyTRS PyTRS.Properties.{pid}', 1800, cwd=COQ)
                proof['coqchk'] = out[-1200:]
                if rc:
                    broken.append({'kind': 'proof_broken', 'file': thm_v, 'detail': 'coqchk failed: ' + out[-800:]})
        # 4. driver for this property's group
        if not broken:
            rc, out = sh(['sh', os.path.join(VERIF, 'tools', 'build_driver.sh'), pd['group']], 600)
            if rc:
                broken.append({'kind': 'correspondence_broken', 'file': drv_v, 'detail': out[-1500:]})
    finally:
        fcntl.flock(lock, fcntl.LOCK_UN)

    # 5. correspondence + oracle sweep (+ search when something is broken)
    res_path = os.path.join(BUILD, f'result_{pid}_{os.getpid()}.json')
    mode = 'search' if broken else 'full'
    env = dict(ENV, VERIF_SEED=str(seed), VERIF_TIER=tier, VERIF_DRIVER_GROUP=pd['group'])
    rc, out = sh([PY, os.path.join(VERIF, 'tools', 'runprop.py'), pid, tier, mode, res_path],
                 pd.get('run_timeout', {'quick': 1500, 'thorough': 6 * 3600})[tier], env=env)
    result = {}
    if os.path.exists(res_path):
        result = json.load(open(res_path))
        os.remove(res_path)
    else:
        broken.append({'kind': 'correspondence_broken', 'file': 'tools/runprop.py', 'detail': out[-2500:]})

    # 6. decide
    known = [k for k in json.load(open(os.path.join(VERIF, 'known_findings.json')))
             if k.get('property') == pid and k.get('status') == 'known'] \
        if os.path.exists(os.path.join(VERIF, 'known_findings.json')) else []
    violations = []      # (what, replay dict)
    known_hits = {}
    for f in result.get('impl_failures', []):
        kid = f.get('known_id')
        if kid and any(k['id'] == kid for k in known):
            known_hits.setdefault(kid, f)
        else:
            violations.append(('impl_failing_input', f))
    for d in result.get('disagreements', []):
        broken.append({'kind': 'correspondence_broken', 'file': d.get('entry', pd['group']), 'detail': d})
    for k in known:
        if k['id'] in known_hits:
            print(f"KNOWN-FINDING: property={pid} {k['what']}")
        else:
            print(f"NOTE: known finding {k['id']} was not reproduced in this run")
    exit_code = 0
    os.makedirs(os.path.join(VERIF, 'replays'), exist_ok=True)
    stale = os.path.join(VERIF, 'replays', f'{pid}_{tier}_{seed}.json')
    if os.path.exists(stale):
        os.remove(stale)
    if violations:
        f = violations[0][1]
        rp = os.path.join(VERIF, 'replays', f'{pid}_{tier}_{seed}.json')
        json.dump({'property': pid, 'kind': 'impl_failing_input', 'failure': f,
                   'all_failures': [v[1] for v in violations][:20],
                   'also_broken': broken[:5],
                   'reproduce': f'python3 tools/check.py replay {rp}'}, open(rp, 'w'), indent=1, default=repr)
        print(f'VIOLATION property={pid} replay={rp}')
        exit_code = 1
    elif broken:
        rp = os.path.join(VERIF, 'replays', f'{pid}_{tier}_{seed}.json')
        json.dump({'property': pid, 'kind': broken[0]['kind'], 'no_longer_checks': broken[:10],
                   'search': result.get('search_summary', 'search found no input on which the implementation violates the property'),
                   'reproduce': f'python3 tools/check.py {pid} --tier {tier}'}, open(rp, 'w'), indent=1, default=repr)
        print(f'VIOLATION property={pid} replay={rp} no-failing-input-found')
        exit_code = 1

    # 7. evidence
    nthm = len(proof['theorems'])
    discharged = nthm if not any(b['kind'] == 'proof_broken' for b in broken) else 0
    cov = {
        'obligations': max(nthm, 1),
        'discharged': discharged if nthm else 0,
        'checker_cmd': proof['checker_cmd'] or f'cd coq && make Properties/{pid}.vo',
        'trusted_base': propdefs.TRUSTED_BASE + pd.get('trusted_extra', []),
        'theorems': proof['theorems'],
        'axioms_reported': proof['axioms'],
        'evaluations': result.get('evaluations', 0),
        'distinct_nontrivial': result.get('distinct_nontrivial', 0),
        'rule': result.get('rule', ''),
        'samples': result.get('samples', [])[:5] or [f'theorem {t}' for t in proof['theorems'][:3]],
        'exhaustive': bool(result.get('exhaustive', False)),
        'correspondence': result.get('parts', {}),
        'known_findings_reproduced': sorted(known_hits),
        'broken': [{k: (v if k != 'detail' else str(v)[:400]) for k, v in b.items()} for b in broken[:5]],
        'explanation': pd.get('explanation', ''),
    }
    if 'coqchk' in proof:
        cov['coqchk'] = proof['coqchk']
    ev = {'property_id': pid, 'tier': tier, 'seed': seed, 'level': pd.get('level', 'proof'),
          'coverage': cov, 'assumptions': pd.get('assumptions', []) + propdefs.ASSUMPTIONS,
          'wall_s': round(time.time() - t0, 1), 'violations': len(violations) + (1 if broken and not violations else 0)}
    tmp = os.path.join(VERIF, 'evidence', f'{pid}.json.tmp')
    json.dump(ev, open(tmp, 'w'), indent=1, default=repr)
    os.replace(tmp, os.path.join(VERIF, 'evidence', f'{pid}.json'))
    print(f'{pid} {tier}: theorems={nthm} discharged={cov["discharged"]} evaluations={cov["evaluations"]} '
          f'violations={ev["violations"]} wall={ev["wall_s"]}s')
    sys.exit(exit_code)


if __name__ == '__main__':
    main()
