#!/bin/sh
# usage: tools/try_mutant.sh <seeded dir> <Cxx> [tier]  -- apply patch to /repo, run check, undo
D=$1; P=$2; T=${3:-quick}
cd /verif
git -C /repo apply --check "$D/patch.diff" || { echo "PATCH DOES NOT APPLY"; exit 3; }
git -C /repo apply "$D/patch.diff"
python3 tools/check.py $P --tier $T > /tmp/mut_out.txt 2>&1; rc=$?
git -C /repo checkout -- .
grep -E "VIOLATION|KNOWN|$P $T" /tmp/mut_out.txt | cut -c1-200
echo "exit=$rc"
