(* driver.ml -- generic line driver for the extracted model.
   Input line:  <entry> <sexp> <sexp> ...     Output line: <sexp>
   sexp: N | T | F | (I int) | (S cp cp ...) | (L v ...) | (U v ...) | (E cp ...) *)
open Model
type nonrec string = Stdlib.String.t
module String = Stdlib.String
module List = Stdlib.List
module Buffer = Stdlib.Buffer
module Char = Stdlib.Char

let rec pos_of_int n = if n = 1 then XH else if n land 1 = 0 then XO (pos_of_int (n lsr 1)) else XI (pos_of_int (n lsr 1))
let n_of_int n = if n = 0 then N0 else Npos (pos_of_int n)
let z_of_int n = if n = 0 then Z0 else if n > 0 then Zpos (pos_of_int n) else Zneg (pos_of_int (-n))
let rec int_of_pos = function XH -> 1 | XO p -> 2 * int_of_pos p | XI p -> 2 * int_of_pos p + 1
let int_of_n = function N0 -> 0 | Npos p -> int_of_pos p
let int_of_z = function Z0 -> 0 | Zpos p -> int_of_pos p | Zneg p -> - (int_of_pos p)

(* tokenizer *)
let tokens (line : string) : string list =
  let buf = Buffer.create 16 and out = ref [] in
  let flush () = if Buffer.length buf > 0 then (out := Buffer.contents buf :: !out; Buffer.clear buf) in
  String.iter (fun c -> match c with
    | '(' | ')' -> flush (); out := String.make 1 c :: !out
    | ' ' | '\t' | '\r' | '\n' -> flush ()
    | c -> Buffer.add_char buf c) line;
  flush (); List.rev !out

exception Parse of string

let rec parse_val (ts : string list) : pv * string list =
  match ts with
  | "N" :: r -> (VNone, r)
  | "T" :: r -> (VBool true, r)
  | "F" :: r -> (VBool false, r)
  | "(" :: "I" :: n :: ")" :: r -> (VInt (z_of_int (int_of_string n)), r)
  | "(" :: "S" :: r -> let (cps, r') = parse_ints r in (VStr cps, r')
  | "(" :: "E" :: r -> let (cps, r') = parse_ints r in (VExn cps, r')
  | "(" :: "L" :: r -> let (vs, r') = parse_vals r in (VList vs, r')
  | "(" :: "U" :: r -> let (vs, r') = parse_vals r in (VTuple vs, r')
  | t :: _ -> raise (Parse t)
  | [] -> raise (Parse "eof")
and parse_ints ts = match ts with
  | ")" :: r -> ([], r)
  | n :: r -> let (l, r') = parse_ints r in (n_of_int (int_of_string n) :: l, r')
  | [] -> raise (Parse "eof")
and parse_vals ts = match ts with
  | ")" :: r -> ([], r)
  | _ -> let (v, r) = parse_val ts in let (l, r') = parse_vals r in (v :: l, r')

let rec parse_all ts = match ts with [] -> [] | _ -> let (v, r) = parse_val ts in v :: parse_all r

let rec print_val (b : Buffer.t) (v : pv) : unit =
  match v with
  | VNone -> Buffer.add_string b "N"
  | VBool true -> Buffer.add_string b "T"
  | VBool false -> Buffer.add_string b "F"
  | VInt z -> Buffer.add_string b "(I "; Buffer.add_string b (string_of_int (int_of_z z)); Buffer.add_string b ")"
  | VStr s -> Buffer.add_string b "(S"; List.iter (fun c -> Buffer.add_char b ' '; Buffer.add_string b (string_of_int (int_of_n c))) s; Buffer.add_string b ")"
  | VExn s -> Buffer.add_string b "(E"; List.iter (fun c -> Buffer.add_char b ' '; Buffer.add_string b (string_of_int (int_of_n c))) s; Buffer.add_string b ")"
  | VList l -> Buffer.add_string b "(L"; List.iter (fun x -> Buffer.add_char b ' '; print_val b x) l; Buffer.add_string b ")"
  | VTuple l -> Buffer.add_string b "(U"; List.iter (fun x -> Buffer.add_char b ' '; print_val b x) l; Buffer.add_string b ")"

let str_of_name (s : string) = List.init (String.length s) (fun i -> n_of_int (Char.code s.[i]))

let () =
  let b = Buffer.create 4096 in
  try
    while true do
      let line = input_line stdin in
      (match tokens line with
       | [] -> print_string "\n"
       | entry :: rest ->
         Buffer.clear b;
         (try
            let args = parse_all rest in
            print_val b (dispatch (str_of_name entry) args)
          with
          | Parse t -> Buffer.add_string b ("!parse " ^ t)
          | Stack_overflow -> Buffer.add_string b "!stack_overflow");
         print_string (Buffer.contents b); print_char '\n');
      flush stdout
    done
  with End_of_file -> ()
