#!/bin/sh
# usage: tools/confirm_mutant.sh <seeded dir name, e.g. C17_1>
# Confirms a sub-agent's mutant in a fresh scratch worktree of /repo HEAD: the patch applies, the
# 244 tests pass with it, demo.py fails with it and passes without it. On success copies it to
# /verif/seeded/<name>/ and records what was run in meta.json.
N=$1; SRC=/tmp/seeded/$N; WT=/tmp/wt/confirm_$N
rm -rf $WT; git -C /repo worktree add --detach $WT HEAD -q || exit 2
ok=1
git -C $WT apply --check $SRC/patch.diff 2>/dev/null || { echo "$N: patch does not apply to HEAD"; ok=0; }
if [ $ok = 1 ]; then
  PYTHONPATH=$WT /venv/bin/python $SRC/demo.py >/dev/null 2>&1; d0=$?
  git -C $WT apply $SRC/patch.diff
  t=$(cd $WT && /venv/bin/python -m pytest -q -p no:cacheprovider --timeout=900 2>&1 | tail -1)
  PYTHONPATH=$WT /venv/bin/python $SRC/demo.py >/dev/null 2>&1; d1=$?
  echo "$N: tests: $t | demo clean=$d0 mutated=$d1"
  case "$t" in *"244 passed"*) ;; *) ok=0;; esac
  [ $d0 = 0 ] && [ $d1 != 0 ] || ok=0
fi
git -C /repo worktree remove --force $WT
if [ $ok = 1 ]; then
  mkdir -p /verif/seeded/$N; cp $SRC/patch.diff $SRC/demo.py /verif/seeded/$N/
  HEAD=$(git -C /repo rev-parse --short HEAD) python3 - "$SRC/meta.json" "/verif/seeded/$N/meta.json" "$t" <<'PY'
import json,sys,os
m=json.load(open(sys.argv[1]))
m['confirmed']={'repo_head':os.environ['HEAD'],'ran':['git apply patch.diff in a scratch worktree of /repo HEAD','pytest: '+sys.argv[3],'demo.py exit 0 on clean tree, non-zero with patch']}
json.dump(m,open(sys.argv[2],'w'),indent=1)
PY
  echo "$N: CONFIRMED -> /verif/seeded/$N"
else echo "$N: NOT confirmed"; fi
