(* Engine/Regex.v -- executable semantics of the fragment of CPython's `re`
   that pyTRS uses.  Hand-written; validated against CPython by the engine-level
   correspondence (tools/corr).  No proofs in this file. *)
From Coq Require Import List NArith Arith Bool.
Import ListNotations.

(* A string is a list of Unicode code points. *)
Definition str := list N.

Inductive re :=
| Eps
| Chr (cs : list (N * N))                 (* one char in a union of ranges *)
| Seq (a b : re)
| Alt (a b : re)
| Rep (mn : nat) (mx : option nat) (b : re)   (* greedy {m,n} / * / + / ? *)
| Grp (i : nat) (b : re)                  (* capturing group number i (>=1) *)
| Ahead (b : re)                          (* (?=...) *)
| Behind (w : nat) (b : re)               (* (?<=...) of fixed width w *)
| Bnd (ws : list (N * N))                 (* \b, word set ws *)
| Eos                                     (* $  (non-MULTILINE) *)
| Bos.                                    (* ^  (non-MULTILINE) *)

(* The translator emits range lists sorted by lower bound, so the scan may stop as
   soon as the character is below the next range (this is the definition of
   membership used everywhere; nothing assumes more about it). *)
Fixpoint in_ranges (c : N) (cs : list (N * N)) : bool :=
  match cs with
  | [] => false
  | (lo, hi) :: t =>
      if (c <? lo)%N then false
      else if (c <=? hi)%N then true
      else in_ranges c t
  end.

(* Matcher state: a zipper over the text. [pre] is reversed. *)
Record st := mkst { pre : list N; rest : list N; idx : nat }.

Definition caps := list (option (nat * nat)).
Definition res := (st * caps)%type.

Fixpoint setg (g : caps) (i : nat) (v : nat * nat) : caps :=
  match g, i with
  | [], _ => []
  | _ :: t, O => Some v :: t
  | h :: t, S i' => h :: setg t i' v
  end.

Definition getg (g : caps) (i : nat) : option (nat * nat) :=
  match nth_error g i with Some (Some v) => Some v | _ => None end.

Definition isword (ws : list (N * N)) (o : option N) : bool :=
  match o with Some c => in_ranges c ws | None => false end.

Definition at_bnd (ws : list (N * N)) (s : st) : bool :=
  xorb (isword ws (hd_error (pre s))) (isword ws (hd_error (rest s))).

Definition at_eos (s : st) : bool :=
  match rest s with
  | [] => true
  | [c] => (c =? 10)%N
  | _ => false
  end.

(* step back n characters *)
Fixpoint back (n : nat) (s : st) : option st :=
  match n with
  | O => Some s
  | S n' =>
      match pre s with
      | [] => None
      | c :: p => back n' (mkst p (c :: rest s) (Nat.pred (idx s)))
      end
  end.

Definition more (mx : option nat) (cnt : nat) : bool :=
  match mx with None => true | Some x => cnt <? x end.

Definition notstuck (lastp : option nat) (s : st) : bool :=
  match lastp with None => true | Some p => negb (p =? idx s) end.

Definition rep_fuel (mn : nat) (s : st) : nat := S (S (length (rest s))) + mn.

(* Continuation-passing backtracking matcher.  [k] receives the state and
   captures at the end of a path through [r]; the first path (in priority
   order) on which [k] answers [Some] wins. *)
Fixpoint m (r : re) (s : st) (g : caps) (k : res -> option res) {struct r}
  : option res :=
  match r with
  | Eps => k (s, g)
  | Chr cs =>
      match rest s with
      | c :: t =>
          if in_ranges c cs then k (mkst (c :: pre s) t (S (idx s)), g) else None
      | [] => None
      end
  | Seq a b => m a s g (fun x => m b (fst x) (snd x) k)
  | Alt a b =>
      match m a s g k with
      | Some x => Some x
      | None => m b s g k
      end
  | Rep mn mx b =>
      (fix loop (fuel cnt : nat) (lastp : option nat) (s : st) (g : caps)
         {struct fuel} : option res :=
         match fuel with
         | O => None
         | S fuel' =>
             if cnt <? mn then
               m b s g (fun x => loop fuel' (S cnt) lastp (fst x) (snd x))
             else if more mx cnt && notstuck lastp s then
               match m b s g
                       (fun x => loop fuel' (S cnt) (Some (idx s)) (fst x) (snd x))
               with
               | Some x => Some x
               | None => k (s, g)
               end
             else k (s, g)
         end) (rep_fuel mn s) 0 None s g
  | Grp i b => m b s g (fun x => k (fst x, setg (snd x) i (idx s, idx (fst x))))
  | Ahead b =>
      match m b s g Some with
      | Some x => k (s, snd x)
      | None => None
      end
  | Behind w b =>
      match back w s with
      | None => None
      | Some s0 =>
          match m b s0 g Some with
          | Some x => k (s, snd x)
          | None => None
          end
      end
  | Bnd ws => if at_bnd ws s then k (s, g) else None
  | Eos => if at_eos s then k (s, g) else None
  | Bos => match idx s with O => k (s, g) | _ => None end
  end.

(* ------------------------------------------------------------------ *)
(* API layer                                                            *)

(* A match result: span of group 0 and the spans of groups 1..n
   (index 0 of [mcaps] is unused padding so that group i is [nth i]). *)
Record mo := mkmo { mstart : nat; mend : nat; mcaps : caps }.

Definition init_caps (ngroups : nat) : caps := repeat None (S ngroups).

(* try to match [r] anchored at state [s]; [must_advance] forbids an empty
   match (CPython >= 3.7 rule after an empty match at this position). *)
Definition match_at (r : re) (ng : nat) (must_advance : bool) (s : st)
  : option mo :=
  match m r s (init_caps ng)
          (fun x => if must_advance && (idx (fst x) =? idx s) then None
                    else Some x) with
  | Some x => Some (mkmo (idx s) (idx (fst x)) (snd x))
  | None => None
  end.

Definition fwd (s : st) : option st :=
  match rest s with
  | c :: t => Some (mkst (c :: pre s) t (S (idx s)))
  | [] => None
  end.

(* scan forward from state [s] for the first position where [r] matches *)
Fixpoint scan (fuel : nat) (r : re) (ng : nat) (must_advance : bool) (s : st)
  : option mo :=
  match match_at r ng must_advance s with
  | Some x => Some x
  | None =>
      match fuel with
      | O => None
      | S fuel' =>
          match fwd s with
          | Some s' => scan fuel' r ng false s'
          | None => None
          end
      end
  end.

Definition clip (pos endpos : nat) (t : str) : nat * nat :=
  let e := Nat.min endpos (length t) in
  (Nat.min pos e, e).

(* state at index [p] of text [t] truncated at [e] *)
Definition st_at (t : str) (p e : nat) : st :=
  let t' := firstn e t in
  mkst (rev (firstn p t')) (skipn p t') p.

(* re.Pattern.search(text, pos, endpos) *)
Definition search_pe (r : re) (ng : nat) (t : str) (pos endpos : nat) : option mo :=
  if endpos <? pos then None else
  let '(p, e) := clip pos endpos t in
  scan (e - p) r ng false (st_at t p e).

Definition search (r : re) (ng : nat) (t : str) : option mo :=
  search_pe r ng t 0 (length t).

(* re.Pattern.match / fullmatch *)
Definition match_pe (r : re) (ng : nat) (t : str) (pos endpos : nat) : option mo :=
  if endpos <? pos then None else
  let '(p, e) := clip pos endpos t in
  match_at r ng false (st_at t p e).

Definition fullmatch (r : re) (ng : nat) (t : str) : option mo :=
  match m r (st_at t 0 (length t)) (init_caps ng)
          (fun x => match rest (fst x) with [] => Some x | _ => None end) with
  | Some x => Some (mkmo 0 (idx (fst x)) (snd x))
  | None => None
  end.

(* re.Pattern.finditer(text, pos, endpos) *)
Fixpoint finditer_loop (fuel : nat) (r : re) (ng : nat) (t : str) (e : nat)
         (p : nat) (must_advance : bool) : list mo :=
  match fuel with
  | O => []
  | S fuel' =>
      match scan (e - p) r ng must_advance (st_at t p e) with
      | None => []
      | Some x =>
          x :: finditer_loop fuel' r ng t e (mend x) (mend x =? mstart x)
      end
  end.

Definition finditer_pe (r : re) (ng : nat) (t : str) (pos endpos : nat) : list mo :=
  if endpos <? pos then [] else
  let '(p, e) := clip pos endpos t in
  finditer_loop (S (S (2 * (e - p)))) r ng t e p false.

Definition finditer (r : re) (ng : nat) (t : str) : list mo :=
  finditer_pe r ng t 0 (length t).

Definition slice (t : str) (a b : nat) : str := firstn (b - a) (skipn a t).

Definition group0 (t : str) (x : mo) : str := slice t (mstart x) (mend x).

Definition group (t : str) (x : mo) (i : nat) : option str :=
  match getg (mcaps x) i with
  | Some (a, b) => Some (slice t a b)
  | None => None
  end.

Definition gstart (x : mo) (i : nat) : option nat :=
  match getg (mcaps x) i with Some (a, _) => Some a | None => None end.

(* re.sub with a replacement function *)
Fixpoint sub_build (t : str) (p : nat) (ms : list mo) (f : mo -> str) : str :=
  match ms with
  | [] => skipn p t
  | x :: ms' => slice t p (mstart x) ++ f x ++ sub_build t (mend x) ms' f
  end.

Definition sub_fn (r : re) (ng : nat) (f : mo -> str) (t : str) : str :=
  sub_build t 0 (finditer r ng t) f.

Definition sub (r : re) (ng : nat) (repl : str) (t : str) : str :=
  sub_fn r ng (fun _ => repl) t.

(* re.split (patterns without capture groups; empty matches split too,
   as in CPython >= 3.7) *)
Fixpoint split_build (t : str) (p : nat) (ms : list mo) : list str :=
  match ms with
  | [] => [skipn p t]
  | x :: ms' => slice t p (mstart x) :: split_build t (mend x) ms'
  end.

Definition split (r : re) (ng : nat) (t : str) : list str :=
  split_build t 0 (finditer r ng t).
