(* Engine/RegexLang.v -- the classical language of a pattern as an upper bound of what the executable matcher
   can consume: whatever a path of [ms] (hence the match object of search / finditer, and every captured group)
   covers is a word of [lang r], where look-arounds, anchors and word boundaries consume nothing.  Shapes of
   matched texts are then read off the regenerated pattern by plain inversion on [lang]. *)
From Coq Require Import List NArith Arith Bool Lia.
From PyTRS Require Import Engine.Regex Engine.RegexSpec Engine.RegexStatic.
Import ListNotations.

Fixpoint lang (r : re) (w : list N) : Prop :=
  match r with
  | Eps => w = []
  | Chr cs => exists c, w = [c] /\ in_ranges c cs = true
  | Seq a b => exists w1 w2, w = w1 ++ w2 /\ lang a w1 /\ lang b w2
  | Alt a b => lang a w \/ lang b w
  | Rep mn mx b => exists ws, w = concat ws /\ Forall (lang b) ws /\ mn <= length ws /\
                              match mx with Some x => length ws <= Nat.max x mn | None => True end
  | Grp _ b => lang b w
  | Ahead _ | Behind _ _ | Bnd _ | Eos | Bos => w = []
  end.

Theorem ms_lang : forall r s g p, In p (ms r s g) -> exists mid, ext s mid (fst p) /\ lang r mid.
Proof.
  induction r as [|cs|a IHa b IHb|a IHa b IHb|mn mx b IHb|i b IHb|b IHb|w b IHb|ws| |]; intros s g p Hin.
  - destruct Hin as [<-|[]]. exists []. split; [apply ext_nil | reflexivity].
  - destruct (ext_chr _ _ _ _ Hin) as (c & Hc & E & _). exists [c]. split; [exact E|]. exists c. split; [reflexivity | exact Hc].
  - apply in_ms_seq in Hin. destruct Hin as (q & Hq & Hp).
    destruct (IHa _ _ _ Hq) as (m1 & E1 & F1). destruct (IHb _ _ _ Hp) as (m2 & E2 & F2).
    exists (m1 ++ m2). split; [exact (ext_trans _ _ _ _ _ E1 E2)|]. exists m1, m2. auto.
  - apply in_ms_alt in Hin. destruct Hin as [H|H].
    + destruct (IHa _ _ _ H) as (m & E & F). exists m. split; [exact E | left; exact F].
    + destruct (IHb _ _ _ H) as (m & E & F). exists m. split; [exact E | right; exact F].
  - apply in_ms_rep in Hin. destruct Hin as (n & Hc & [Hn Hx]).
    enough (K : exists ws, ext s (concat ws) (fst p) /\ Forall (lang b) ws /\ length ws = n).
    { destruct K as (ws & E & F & L). exists (concat ws). split; [exact E|]. exists ws. rewrite L. auto. }
    clear Hn Hx. induction Hc as [s g|n s g q p Hq Hc IH]; [exists []; split; [apply ext_nil | split; [constructor | reflexivity]]|].
    destruct (IHb _ _ _ Hq) as (m1 & E1 & F1). destruct IH as (ws & E2 & F2 & L).
    exists (m1 :: ws). cbn [concat length]. split; [exact (ext_trans _ _ _ _ _ E1 E2)|]. split; [constructor; assumption | congruence].
  - apply in_ms_grp in Hin. destruct Hin as (q & Hq & ->). exact (IHb _ _ _ Hq).
  - cbn [ms] in Hin. destruct (ms b s g); [destruct Hin|]. destruct Hin as [<-|[]]. exists []. split; [apply ext_nil | reflexivity].
  - cbn [ms] in Hin. destruct (back w s); [|destruct Hin]. destruct (ms b s0 g); [destruct Hin|]. destruct Hin as [<-|[]].
    exists []. split; [apply ext_nil | reflexivity].
  - cbn [ms] in Hin. destruct (at_bnd ws s); [|destruct Hin]. destruct Hin as [<-|[]]. exists []. split; [apply ext_nil | reflexivity].
  - cbn [ms] in Hin. destruct (at_eos s); [|destruct Hin]. destruct Hin as [<-|[]]. exists []. split; [apply ext_nil | reflexivity].
  - cbn [ms] in Hin. destruct (idx s); [|destruct Hin]. destruct Hin as [<-|[]]. exists []. split; [apply ext_nil | reflexivity].
Qed.

Lemma ext_unique s m1 m2 s' : ext s m1 s' -> ext s m2 s' -> m1 = m2.
Proof. intros (_ & R1 & _) (_ & R2 & _). rewrite R1 in R2. exact (app_inv_tail _ _ _ R2). Qed.

Lemma consumed_lang body mid : consumed_by body mid -> lang body mid.
Proof.
  intros (s1 & g1 & q & Hin & E). destruct (ms_lang _ _ _ _ Hin) as (m & E' & L). rewrite (ext_unique _ _ _ _ E E'). exact L.
Qed.

(* ---- the whole match of search / finditer ---- *)
Lemma match_at_full r ng ma s x : match_at r ng ma s = Some x ->
  exists p, In p (ms r s (init_caps ng)) /\ mcaps x = snd p /\ mstart x = idx s /\ mend x = idx (fst p).
Proof.
  unfold match_at. destruct (m r s (init_caps ng) _) as [y|] eqn:E; [|discriminate]. intros H. injection H as <-.
  destruct (m_path _ _ _ _ _ E) as (p & Hin & Hk). exists p. split; [exact Hin|].
  destruct (ma && (idx (fst p) =? idx s)); [discriminate|]. injection Hk as <-. auto.
Qed.

Lemma scan_full r ng : forall fuel ma s x, wf_st s -> scan fuel r ng ma s = Some x ->
  exists s' p, wf_st s' /\ text_of s' = text_of s /\ In p (ms r s' (init_caps ng)) /\ mcaps x = snd p /\ mstart x = idx s' /\ mend x = idx (fst p).
Proof.
  induction fuel as [|f IH]; intros ma s x Hwf H; cbn [scan] in H.
  - destruct (match_at r ng ma s) as [y|] eqn:E; [|discriminate]. injection H as <-.
    destruct (match_at_full _ _ _ _ _ E) as (p & Hin & Hc & H1 & H2). exists s, p. auto 7.
  - destruct (match_at r ng ma s) as [y|] eqn:E.
    + injection H as <-. destruct (match_at_full _ _ _ _ _ E) as (p & Hin & Hc & H1 & H2). exists s, p. auto 7.
    + destruct (fwd s) as [s1|] eqn:Ef; [|discriminate]. destruct (fwd_wf_text _ _ Ef Hwf) as [W T].
      destruct (IH _ _ _ W H) as (s' & p & W' & T' & Hin & Hc & H1 & H2). exists s', p. repeat split; try assumption. congruence.
Qed.

Lemma scan_lang r ng fuel ma s x : wf_st s -> scan fuel r ng ma s = Some x -> lang r (slice (text_of s) (mstart x) (mend x)).
Proof.
  intros W H. destruct (scan_full r ng fuel ma s x W H) as (s' & p & W' & T' & Hin & _ & H1 & H2).
  destruct (ms_lang _ _ _ _ Hin) as (mid & E & L). rewrite <- T', H1, H2, (ext_slice _ _ _ W' E). exact L.
Qed.

Theorem search_lang r ng t x : search r ng t = Some x -> lang r (group0 t x).
Proof.
  unfold search, search_pe. replace (length t <? 0) with false by reflexivity. unfold clip. rewrite Nat.min_id, Nat.min_0_l. intros H.
  destruct (st_at_wf_text t 0 (Nat.le_0_l _)) as [W T]. unfold group0. rewrite <- T at 1. exact (scan_lang r ng _ _ _ x W H).
Qed.

Theorem finditer_lang r ng t x : In x (finditer r ng t) -> lang r (group0 t x).
Proof.
  unfold finditer, finditer_pe. replace (length t <? 0) with false by reflexivity. unfold clip. rewrite Nat.min_id, Nat.min_0_l.
  intros H. destruct (finditer_loop_in r ng t _ _ _ x (Nat.le_0_l _) H) as (fuel' & p' & ma' & Hp & Hs).
  destruct (st_at_wf_text t p' Hp) as [W T]. unfold group0. rewrite <- T at 1. exact (scan_lang r ng _ _ _ x W Hs).
Qed.

(* every captured group of a finditer / search match holds a word of (one of) its bodies *)
Theorem finditer_group_lang r ng t x j v : In x (finditer r ng t) -> group t x j = Some v -> exists body, In body (gbodies r j) /\ lang body v.
Proof.
  intros H Hg. unfold group in Hg. destruct (getg (mcaps x) j) as [[a b]|] eqn:E; [|discriminate]. injection Hg as <-.
  destruct (proj2 (finditer_group r ng t x H) j a b E) as (bd & Hin & Hc). exists bd. split; [exact Hin | exact (consumed_lang _ _ Hc)].
Qed.

Theorem search_group_lang r ng t x j v : search r ng t = Some x -> group t x j = Some v -> exists body, In body (gbodies r j) /\ lang body v.
Proof.
  intros H Hg. unfold group in Hg. destruct (getg (mcaps x) j) as [[a b]|] eqn:E; [|discriminate]. injection Hg as <-.
  destruct (proj2 (search_pe_group r ng t 0 (length t) x j H) a b E) as (bd & Hin & Hc). exists bd. split; [exact Hin | exact (consumed_lang _ _ Hc)].
Qed.

(* a group that is set on every path (search) *)
Theorem search_group_set r ng t x j : search r ng t = Some x -> always_set r j = true -> j <= ng -> exists v, group t x j = Some v.
Proof.
  intros H Ha Hj. pose proof (proj1 (search_pe_group r ng t 0 (length t) x j H) Ha Hj) as K.
  unfold group. destruct (getg (mcaps x) j) as [[a b]|]; [eexists; reflexivity | contradiction].
Qed.

Theorem finditer_group_set r ng t x j : In x (finditer r ng t) -> always_any r [j] = true -> j <= ng -> exists v, group t x j = Some v.
Proof.
  intros H Ha Hj. destruct (proj1 (finditer_group r ng t x H) [j] Ha) as (j' & [<-|[]] & K); [intros j' [<-|[]]; exact Hj|].
  unfold group. destruct (getg (mcaps x) j) as [[a b]|]; [eexists; reflexivity | contradiction].
Qed.
