(* Engine/RegexSpec.v -- the all-paths semantics of the matcher and generic facts about it,
   proved once for every pattern of the fragment.
   [ms r s g] lists, in priority order, every complete path of the backtracking matcher through
   [r] from state [s] with captures [g]; [m r s g k] is the first of them that the continuation
   accepts (m_spec).  Everything else (texts are preserved, positions only move forward, spans
   are in range, the first-match position of scan) is derived from [ms]. *)
From Coq Require Import List NArith Arith Bool Lia.
From PyTRS Require Import Engine.Regex.
Import ListNotations.

Fixpoint first_some {A B} (k : A -> option B) (l : list A) : option B :=
  match l with
  | [] => None
  | x :: t => match k x with Some y => Some y | None => first_some k t end
  end.

Lemma first_some_app {A B} (k : A -> option B) l1 l2 :
  first_some k (l1 ++ l2) = match first_some k l1 with Some y => Some y | None => first_some k l2 end.
Proof. induction l1 as [|x t IH]; cbn; [reflexivity|]. destruct (k x); [reflexivity | exact IH]. Qed.

Lemma first_some_flat_map {A B C} (k : B -> option C) (f : A -> list B) l :
  first_some k (flat_map f l) = first_some (fun x => first_some k (f x)) l.
Proof.
  induction l as [|x t IH]; cbn; [reflexivity|]. rewrite first_some_app, IH. reflexivity.
Qed.

Lemma first_some_map {A B C} (k : B -> option C) (f : A -> B) l :
  first_some k (map f l) = first_some (fun x => k (f x)) l.
Proof. induction l as [|x t IH]; cbn; [reflexivity|]. rewrite IH. reflexivity. Qed.

Lemma first_some_ext {A B} (k1 k2 : A -> option B) l :
  (forall x, k1 x = k2 x) -> first_some k1 l = first_some k2 l.
Proof. intros H. induction l as [|x t IH]; cbn; [reflexivity|]. rewrite H, IH. reflexivity. Qed.

Lemma first_some_Some {A} (l : list A) : first_some Some l = hd_error l.
Proof. destruct l; reflexivity. Qed.

Lemma opt_or_eq {B} (a b c d : option B) :
  a = b -> c = d ->
  match a with Some x => Some x | None => c end = match b with Some y => Some y | None => d end.
Proof. intros -> ->. reflexivity. Qed.

(* ---------------- all paths ---------------- *)
Fixpoint ms (r : re) (s : st) (g : caps) {struct r} : list res :=
  match r with
  | Eps => [(s, g)]
  | Chr cs =>
      match rest s with
      | c :: t => if in_ranges c cs then [(mkst (c :: pre s) t (S (idx s)), g)] else []
      | [] => []
      end
  | Seq a b => flat_map (fun x => ms b (fst x) (snd x)) (ms a s g)
  | Alt a b => ms a s g ++ ms b s g
  | Rep mn mx b =>
      (fix loop (fuel cnt : nat) (lastp : option nat) (s : st) (g : caps) {struct fuel} : list res :=
         match fuel with
         | O => []
         | S fuel' =>
             if cnt <? mn then
               flat_map (fun x => loop fuel' (S cnt) lastp (fst x) (snd x)) (ms b s g)
             else if more mx cnt && notstuck lastp s then
               flat_map (fun x => loop fuel' (S cnt) (Some (idx s)) (fst x) (snd x)) (ms b s g) ++ [(s, g)]
             else [(s, g)]
         end) (rep_fuel mn s) 0 None s g
  | Grp i b => map (fun x => (fst x, setg (snd x) i (idx s, idx (fst x)))) (ms b s g)
  | Ahead b => match ms b s g with x :: _ => [(s, snd x)] | [] => [] end
  | Behind w b =>
      match back w s with
      | None => []
      | Some s0 => match ms b s0 g with x :: _ => [(s, snd x)] | [] => [] end
      end
  | Bnd ws => if at_bnd ws s then [(s, g)] else []
  | Eos => if at_eos s then [(s, g)] else []
  | Bos => match idx s with O => [(s, g)] | _ => [] end
  end.

(* the matcher returns the first path (in priority order) that the continuation accepts *)
Theorem m_spec : forall r s g k, m r s g k = first_some k (ms r s g).
Proof.
  induction r as [|cs|a IHa b IHb|a IHa b IHb|mn mx b IHb|i b IHb|b IHb|w b IHb|ws| |]; intros s g k; cbn [m ms].
  - cbn. destruct (k (s, g)); reflexivity.
  - destruct (rest s) as [|c t]; [reflexivity|]. destruct (in_ranges c cs); cbn; [destruct (k _); reflexivity | reflexivity].
  - rewrite first_some_flat_map, IHa. apply first_some_ext. intros x. apply IHb.
  - rewrite first_some_app, IHa, IHb. reflexivity.
  - generalize (rep_fuel mn s) as fuel. generalize 0 as cnt. generalize (@None nat) as lastp.
    intros lastp cnt fuel. revert cnt lastp s g.
    induction fuel as [|fuel IHf]; intros cnt lastp s g; [reflexivity|].
    destruct (cnt <? mn).
    + rewrite first_some_flat_map, IHb. apply first_some_ext. intros x. apply IHf.
    + destruct (more mx cnt && notstuck lastp s).
      * rewrite first_some_app, first_some_flat_map, IHb.
        cbn [first_some].
        match goal with
        | |- match first_some ?K1 ?L with _ => _ end = match first_some ?K2 _ with _ => _ end =>
            rewrite (first_some_ext K1 K2 L) by (intros x; apply IHf)
        end.
        apply opt_or_eq; [reflexivity | destruct (k (s, g)); reflexivity].
      * cbn. destruct (k (s, g)); reflexivity.
  - rewrite first_some_map, IHb. reflexivity.
  - rewrite IHb, first_some_Some. destruct (ms b s g) as [|x t]; cbn; [reflexivity|]. destruct (k (s, snd x)); reflexivity.
  - destruct (back w s) as [s0|]; [|reflexivity]. rewrite IHb, first_some_Some.
    destruct (ms b s0 g) as [|x t]; cbn; [reflexivity|]. destruct (k (s, snd x)); reflexivity.
  - destruct (at_bnd ws s); cbn; [destruct (k (s, g)); reflexivity | reflexivity].
  - destruct (at_eos s); cbn; [destruct (k (s, g)); reflexivity | reflexivity].
  - destruct (idx s); cbn; [destruct (k (s, g)); reflexivity | reflexivity].
Qed.

(* ---------------- paths keep the text and only move forward ---------------- *)
Definition text_of (s : st) : list N := rev (pre s) ++ rest s.
Definition wf_st (s : st) : Prop := idx s = length (pre s).

(* s' is reached from s by consuming characters *)
Definition extends (s s' : st) : Prop :=
  exists mid, pre s' = rev mid ++ pre s /\ rest s = mid ++ rest s' /\ idx s' = idx s + length mid.

Lemma extends_refl s : extends s s.
Proof. exists []. cbn. repeat split; lia. Qed.

Lemma extends_trans a b c : extends a b -> extends b c -> extends a c.
Proof.
  intros (m1 & P1 & R1 & I1) (m2 & P2 & R2 & I2). exists (m1 ++ m2).
  rewrite P2, P1, R1, R2, I2, I1, rev_app_distr, app_length, <- !app_assoc. repeat split; lia.
Qed.

Lemma extends_text s s' : extends s s' -> text_of s' = text_of s.
Proof.
  intros (mid & P & R & _). unfold text_of. rewrite P, R, rev_app_distr, rev_involutive, <- app_assoc. reflexivity.
Qed.

Lemma extends_wf s s' : extends s s' -> wf_st s -> wf_st s'.
Proof. intros (mid & P & _ & I) H. unfold wf_st in *. rewrite P, I, H, app_length, rev_length. lia. Qed.

Lemma extends_idx s s' : extends s s' -> idx s <= idx s'.
Proof. intros (mid & _ & _ & I). lia. Qed.

Theorem ms_extends : forall r s g x, In x (ms r s g) -> extends s (fst x).
Proof.
  induction r as [|cs|a IHa b IHb|a IHa b IHb|mn mx b IHb|i b IHb|b IHb|w b IHb|ws| |]; intros s g x Hin; cbn [ms] in Hin.
  - destruct Hin as [<-|[]]. apply extends_refl.
  - destruct (rest s) as [|c t] eqn:E; [destruct Hin|]. destruct (in_ranges c cs); [|destruct Hin].
    destruct Hin as [<-|[]]. exists [c]. cbn. rewrite E. repeat split; lia.
  - apply in_flat_map in Hin. destruct Hin as (y & Hy & Hx).
    eapply extends_trans; [apply (IHa _ _ _ Hy) | apply (IHb _ _ _ Hx)].
  - apply in_app_or in Hin. destruct Hin as [H|H]; [apply (IHa _ _ _ H) | apply (IHb _ _ _ H)].
  - revert Hin. generalize (rep_fuel mn s) as fuel. generalize 0 as cnt. generalize (@None nat) as lastp.
    intros lastp cnt fuel. revert cnt lastp s g.
    induction fuel as [|fuel IHf]; intros cnt lastp s g Hin; [destruct Hin|].
    destruct (cnt <? mn).
    + apply in_flat_map in Hin. destruct Hin as (y & Hy & Hx).
      eapply extends_trans; [apply (IHb _ _ _ Hy) | apply (IHf _ _ _ _ Hx)].
    + destruct (more mx cnt && notstuck lastp s).
      * apply in_app_or in Hin. destruct Hin as [Hin|[<-|[]]]; [|apply extends_refl].
        apply in_flat_map in Hin. destruct Hin as (y & Hy & Hx).
        eapply extends_trans; [apply (IHb _ _ _ Hy) | apply (IHf _ _ _ _ Hx)].
      * destruct Hin as [<-|[]]. apply extends_refl.
  - apply in_map_iff in Hin. destruct Hin as (y & <- & Hy). cbn [fst]. apply (IHb _ _ _ Hy).
  - destruct (ms b s g); [destruct Hin|]. destruct Hin as [<-|[]]. apply extends_refl.
  - destruct (back w s); [|destruct Hin]. destruct (ms b s0 g); [destruct Hin|]. destruct Hin as [<-|[]]. apply extends_refl.
  - destruct (at_bnd ws s); [|destruct Hin]. destruct Hin as [<-|[]]. apply extends_refl.
  - destruct (at_eos s); [|destruct Hin]. destruct Hin as [<-|[]]. apply extends_refl.
  - destruct (idx s); [|destruct Hin]. destruct Hin as [<-|[]]. apply extends_refl.
Qed.

(* whatever the matcher returns is one of the paths *)
Lemma first_some_In {A B} (k : A -> option B) l y : first_some k l = Some y -> exists x, In x l /\ k x = Some y.
Proof.
  induction l as [|x t IH]; cbn; [discriminate|]. destruct (k x) eqn:E.
  - intros H. injection H as <-. exists x. split; [left; reflexivity | exact E].
  - intros H. destruct (IH H) as (x' & Hin & Hk). exists x'. split; [right; exact Hin | exact Hk].
Qed.

Theorem m_path r s g k y : m r s g k = Some y -> exists x, In x (ms r s g) /\ k x = Some y.
Proof. rewrite m_spec. apply first_some_In. Qed.

(* ---------------- the API layer ---------------- *)
(* a successful match_at ends at or after its start, inside the text *)
Theorem match_at_span r ng ma s x :
  wf_st s -> match_at r ng ma s = Some x ->
  mstart x = idx s /\ mstart x <= mend x /\ mend x <= idx s + length (rest s).
Proof.
  intros Hwf. unfold match_at.
  destruct (m r s (init_caps ng) _) as [y|] eqn:E; [|discriminate]. intros H. injection H as <-. cbn [mstart mend].
  destruct (m_path _ _ _ _ _ E) as (p & Hin & Hk).
  destruct (ma && (idx (fst p) =? idx s)); [discriminate|]. injection Hk as <-.
  destruct (ms_extends _ _ _ _ Hin) as (mid & _ & R & I). rewrite R, app_length. repeat split; lia.
Qed.

(* scan: the match it returns starts at or after the scan position *)
Theorem scan_start r ng : forall fuel ma s x, wf_st s -> scan fuel r ng ma s = Some x -> idx s <= mstart x /\ mstart x <= mend x.
Proof.
  induction fuel as [|f IH]; intros ma s x Hwf H; cbn [scan] in H.
  - destruct (match_at r ng ma s) as [y|] eqn:E; [|discriminate]. injection H as <-.
    destruct (match_at_span _ _ _ _ _ Hwf E) as (H1 & H2 & _). lia.
  - destruct (match_at r ng ma s) as [y|] eqn:E.
    + injection H as <-. destruct (match_at_span _ _ _ _ _ Hwf E) as (H1 & H2 & _). lia.
    + unfold fwd in H. destruct (rest s) as [|c t] eqn:Er; [discriminate|].
      assert (Hwf' : wf_st (mkst (c :: pre s) t (S (idx s)))) by (unfold wf_st in *; cbn; lia).
      destruct (IH _ _ _ Hwf' H) as (H1 & H2). cbn [idx] in H1. lia.
Qed.
