(* Engine/RegexSpec.v -- the all-paths semantics of the matcher and generic facts about it,
   proved once for every pattern of the fragment.
   [ms r s g] lists, in priority order, every complete path of the backtracking matcher through
   [r] from state [s] with captures [g]; [m r s g k] is the first of them that the continuation
   accepts (m_spec).  Everything else (texts are preserved, positions only move forward, spans
   are in range, the first-match position of scan) is derived from [ms]. *)
From Coq Require Import List NArith Arith Bool Lia.
From PyTRS Require Import Engine.Regex.
Import ListNotations.

Fixpoint first_some {A B} (k : A -> option B) (l : list A) : option B :=
  match l with
  | [] => None
  | x :: t => match k x with Some y => Some y | None => first_some k t end
  end.

Lemma first_some_app {A B} (k : A -> option B) l1 l2 :
  first_some k (l1 ++ l2) = match first_some k l1 with Some y => Some y | None => first_some k l2 end.
Proof. induction l1 as [|x t IH]; cbn; [reflexivity|]. destruct (k x); [reflexivity | exact IH]. Qed.

Lemma first_some_flat_map {A B C} (k : B -> option C) (f : A -> list B) l :
  first_some k (flat_map f l) = first_some (fun x => first_some k (f x)) l.
Proof.
  induction l as [|x t IH]; cbn; [reflexivity|]. rewrite first_some_app, IH. reflexivity.
Qed.

Lemma first_some_map {A B C} (k : B -> option C) (f : A -> B) l :
  first_some k (map f l) = first_some (fun x => k (f x)) l.
Proof. induction l as [|x t IH]; cbn; [reflexivity|]. rewrite IH. reflexivity. Qed.

Lemma first_some_ext {A B} (k1 k2 : A -> option B) l :
  (forall x, k1 x = k2 x) -> first_some k1 l = first_some k2 l.
Proof. intros H. induction l as [|x t IH]; cbn; [reflexivity|]. rewrite H, IH. reflexivity. Qed.

Lemma first_some_Some {A} (l : list A) : first_some Some l = hd_error l.
Proof. destruct l; reflexivity. Qed.

Lemma opt_or_eq {B} (a b c d : option B) :
  a = b -> c = d ->
  match a with Some x => Some x | None => c end = match b with Some y => Some y | None => d end.
Proof. intros -> ->. reflexivity. Qed.

(* ---------------- all paths ---------------- *)
Fixpoint ms (r : re) (s : st) (g : caps) {struct r} : list res :=
  match r with
  | Eps => [(s, g)]
  | Chr cs =>
      match rest s with
      | c :: t => if in_ranges c cs then [(mkst (c :: pre s) t (S (idx s)), g)] else []
      | [] => []
      end
  | Seq a b => flat_map (fun x => ms b (fst x) (snd x)) (ms a s g)
  | Alt a b => ms a s g ++ ms b s g
  | Rep mn mx b =>
      (fix loop (fuel cnt : nat) (lastp : option nat) (s : st) (g : caps) {struct fuel} : list res :=
         match fuel with
         | O => []
         | S fuel' =>
             if cnt <? mn then
               flat_map (fun x => loop fuel' (S cnt) lastp (fst x) (snd x)) (ms b s g)
             else if more mx cnt && notstuck lastp s then
               flat_map (fun x => loop fuel' (S cnt) (Some (idx s)) (fst x) (snd x)) (ms b s g) ++ [(s, g)]
             else [(s, g)]
         end) (rep_fuel mn s) 0 None s g
  | Grp i b => map (fun x => (fst x, setg (snd x) i (idx s, idx (fst x)))) (ms b s g)
  | Ahead b => match ms b s g with x :: _ => [(s, snd x)] | [] => [] end
  | Behind w b =>
      match back w s with
      | None => []
      | Some s0 => match ms b s0 g with x :: _ => [(s, snd x)] | [] => [] end
      end
  | Bnd ws => if at_bnd ws s then [(s, g)] else []
  | Eos => if at_eos s then [(s, g)] else []
  | Bos => match idx s with O => [(s, g)] | _ => [] end
  end.

(* the matcher returns the first path (in priority order) that the continuation accepts *)
Theorem m_spec : forall r s g k, m r s g k = first_some k (ms r s g).
Proof.
  induction r as [|cs|a IHa b IHb|a IHa b IHb|mn mx b IHb|i b IHb|b IHb|w b IHb|ws| |]; intros s g k; cbn [m ms].
  - cbn. destruct (k (s, g)); reflexivity.
  - destruct (rest s) as [|c t]; [reflexivity|]. destruct (in_ranges c cs); cbn; [destruct (k _); reflexivity | reflexivity].
  - rewrite first_some_flat_map, IHa. apply first_some_ext. intros x. apply IHb.
  - rewrite first_some_app, IHa, IHb. reflexivity.
  - generalize (rep_fuel mn s) as fuel. generalize 0 as cnt. generalize (@None nat) as lastp.
    intros lastp cnt fuel. revert cnt lastp s g.
    induction fuel as [|fuel IHf]; intros cnt lastp s g; [reflexivity|].
    destruct (cnt <? mn).
    + rewrite first_some_flat_map, IHb. apply first_some_ext. intros x. apply IHf.
    + destruct (more mx cnt && notstuck lastp s).
      * rewrite first_some_app, first_some_flat_map, IHb.
        cbn [first_some].
        match goal with
        | |- match first_some ?K1 ?L with _ => _ end = match first_some ?K2 _ with _ => _ end =>
            rewrite (first_some_ext K1 K2 L) by (intros x; apply IHf)
        end.
        apply opt_or_eq; [reflexivity | destruct (k (s, g)); reflexivity].
      * cbn. destruct (k (s, g)); reflexivity.
  - rewrite first_some_map, IHb. reflexivity.
  - rewrite IHb, first_some_Some. destruct (ms b s g) as [|x t]; cbn; [reflexivity|]. destruct (k (s, snd x)); reflexivity.
  - destruct (back w s) as [s0|]; [|reflexivity]. rewrite IHb, first_some_Some.
    destruct (ms b s0 g) as [|x t]; cbn; [reflexivity|]. destruct (k (s, snd x)); reflexivity.
  - destruct (at_bnd ws s); cbn; [destruct (k (s, g)); reflexivity | reflexivity].
  - destruct (at_eos s); cbn; [destruct (k (s, g)); reflexivity | reflexivity].
  - destruct (idx s); cbn; [destruct (k (s, g)); reflexivity | reflexivity].
Qed.

(* ---------------- paths keep the text and only move forward ---------------- *)
Definition text_of (s : st) : list N := rev (pre s) ++ rest s.
Definition wf_st (s : st) : Prop := idx s = length (pre s).

(* s' is reached from s by consuming characters *)
Definition extends (s s' : st) : Prop :=
  exists mid, pre s' = rev mid ++ pre s /\ rest s = mid ++ rest s' /\ idx s' = idx s + length mid.

Lemma extends_refl s : extends s s.
Proof. exists []. cbn. repeat split; lia. Qed.

Lemma extends_trans a b c : extends a b -> extends b c -> extends a c.
Proof.
  intros (m1 & P1 & R1 & I1) (m2 & P2 & R2 & I2). exists (m1 ++ m2).
  rewrite P2, P1, R1, R2, I2, I1, rev_app_distr, app_length, <- !app_assoc. repeat split; lia.
Qed.

Lemma extends_text s s' : extends s s' -> text_of s' = text_of s.
Proof.
  intros (mid & P & R & _). unfold text_of. rewrite P, R, rev_app_distr, rev_involutive, <- app_assoc. reflexivity.
Qed.

Lemma extends_wf s s' : extends s s' -> wf_st s -> wf_st s'.
Proof. intros (mid & P & _ & I) H. unfold wf_st in *. rewrite P, I, H, app_length, rev_length. lia. Qed.

Lemma extends_idx s s' : extends s s' -> idx s <= idx s'.
Proof. intros (mid & _ & _ & I). lia. Qed.

Theorem ms_extends : forall r s g x, In x (ms r s g) -> extends s (fst x).
Proof.
  induction r as [|cs|a IHa b IHb|a IHa b IHb|mn mx b IHb|i b IHb|b IHb|w b IHb|ws| |]; intros s g x Hin; cbn [ms] in Hin.
  - destruct Hin as [<-|[]]. apply extends_refl.
  - destruct (rest s) as [|c t] eqn:E; [destruct Hin|]. destruct (in_ranges c cs); [|destruct Hin].
    destruct Hin as [<-|[]]. exists [c]. cbn. rewrite E. repeat split; lia.
  - apply in_flat_map in Hin. destruct Hin as (y & Hy & Hx).
    eapply extends_trans; [apply (IHa _ _ _ Hy) | apply (IHb _ _ _ Hx)].
  - apply in_app_or in Hin. destruct Hin as [H|H]; [apply (IHa _ _ _ H) | apply (IHb _ _ _ H)].
  - revert Hin. generalize (rep_fuel mn s) as fuel. generalize 0 as cnt. generalize (@None nat) as lastp.
    intros lastp cnt fuel. revert cnt lastp s g.
    induction fuel as [|fuel IHf]; intros cnt lastp s g Hin; [destruct Hin|].
    destruct (cnt <? mn).
    + apply in_flat_map in Hin. destruct Hin as (y & Hy & Hx).
      eapply extends_trans; [apply (IHb _ _ _ Hy) | apply (IHf _ _ _ _ Hx)].
    + destruct (more mx cnt && notstuck lastp s).
      * apply in_app_or in Hin. destruct Hin as [Hin|[<-|[]]]; [|apply extends_refl].
        apply in_flat_map in Hin. destruct Hin as (y & Hy & Hx).
        eapply extends_trans; [apply (IHb _ _ _ Hy) | apply (IHf _ _ _ _ Hx)].
      * destruct Hin as [<-|[]]. apply extends_refl.
  - apply in_map_iff in Hin. destruct Hin as (y & <- & Hy). cbn [fst]. apply (IHb _ _ _ Hy).
  - destruct (ms b s g); [destruct Hin|]. destruct Hin as [<-|[]]. apply extends_refl.
  - destruct (back w s); [|destruct Hin]. destruct (ms b s0 g); [destruct Hin|]. destruct Hin as [<-|[]]. apply extends_refl.
  - destruct (at_bnd ws s); [|destruct Hin]. destruct Hin as [<-|[]]. apply extends_refl.
  - destruct (at_eos s); [|destruct Hin]. destruct Hin as [<-|[]]. apply extends_refl.
  - destruct (idx s); [|destruct Hin]. destruct Hin as [<-|[]]. apply extends_refl.
Qed.

(* whatever the matcher returns is one of the paths *)
Lemma first_some_In {A B} (k : A -> option B) l y : first_some k l = Some y -> exists x, In x l /\ k x = Some y.
Proof.
  induction l as [|x t IH]; cbn; [discriminate|]. destruct (k x) eqn:E.
  - intros H. injection H as <-. exists x. split; [left; reflexivity | exact E].
  - intros H. destruct (IH H) as (x' & Hin & Hk). exists x'. split; [right; exact Hin | exact Hk].
Qed.

Theorem m_path r s g k y : m r s g k = Some y -> exists x, In x (ms r s g) /\ k x = Some y.
Proof. rewrite m_spec. apply first_some_In. Qed.

(* ---------------- the API layer ---------------- *)
(* a successful match_at ends at or after its start, inside the text *)
Theorem match_at_span r ng ma s x :
  wf_st s -> match_at r ng ma s = Some x ->
  mstart x = idx s /\ mstart x <= mend x /\ mend x <= idx s + length (rest s).
Proof.
  intros Hwf. unfold match_at.
  destruct (m r s (init_caps ng) _) as [y|] eqn:E; [|discriminate]. intros H. injection H as <-. cbn [mstart mend].
  destruct (m_path _ _ _ _ _ E) as (p & Hin & Hk).
  destruct (ma && (idx (fst p) =? idx s)); [discriminate|]. injection Hk as <-.
  destruct (ms_extends _ _ _ _ Hin) as (mid & _ & R & I). rewrite R, app_length. repeat split; lia.
Qed.

(* scan: the match it returns starts at or after the scan position *)
Theorem scan_start r ng : forall fuel ma s x, wf_st s -> scan fuel r ng ma s = Some x -> idx s <= mstart x /\ mstart x <= mend x.
Proof.
  induction fuel as [|f IH]; intros ma s x Hwf H; cbn [scan] in H.
  - destruct (match_at r ng ma s) as [y|] eqn:E; [|discriminate]. injection H as <-.
    destruct (match_at_span _ _ _ _ _ Hwf E) as (H1 & H2 & _). lia.
  - destruct (match_at r ng ma s) as [y|] eqn:E.
    + injection H as <-. destruct (match_at_span _ _ _ _ _ Hwf E) as (H1 & H2 & _). lia.
    + unfold fwd in H. destruct (rest s) as [|c t] eqn:Er; [discriminate|].
      assert (Hwf' : wf_st (mkst (c :: pre s) t (S (idx s)))) by (unfold wf_st in *; cbn; lia).
      destruct (IH _ _ _ Hwf' H) as (H1 & H2). cbn [idx] in H1. lia.
Qed.

(* ================================================================== *)
(* Membership inversion: what a path through each constructor looks like *)

Lemma in_ms_seq a b s g p :
  In p (ms (Seq a b) s g) <-> exists q, In q (ms a s g) /\ In p (ms b (fst q) (snd q)).
Proof. cbn [ms]. apply in_flat_map. Qed.

Lemma in_ms_alt a b s g p : In p (ms (Alt a b) s g) <-> In p (ms a s g) \/ In p (ms b s g).
Proof. cbn [ms]. apply in_app_iff. Qed.

Lemma in_ms_grp i b s g p :
  In p (ms (Grp i b) s g) <-> exists q, In q (ms b s g) /\ p = (fst q, setg (snd q) i (idx s, idx (fst q))).
Proof.
  cbn [ms]. rewrite in_map_iff. split; intros (q & H1 & H2); exists q.
  - split; [exact H2 | symmetry; exact H1].
  - split; [symmetry; exact H2 | exact H1].
Qed.

Lemma in_ms_chr cs s g p :
  In p (ms (Chr cs) s g) <->
  exists c t, rest s = c :: t /\ in_ranges c cs = true /\ p = (mkst (c :: pre s) t (S (idx s)), g).
Proof.
  cbn [ms]. split.
  - destruct (rest s) as [|c t]; [intros []|]. destruct (in_ranges c cs) eqn:E; [|intros []].
    intros [<-|[]]. exists c, t. repeat split; assumption.
  - intros (c & t & -> & -> & ->). left. reflexivity.
Qed.

(* n successive passes through b *)
Inductive chain (b : re) : nat -> st -> caps -> res -> Prop :=
| chain0 s g : chain b 0 s g (s, g)
| chainS n s g q p : In q (ms b s g) -> chain b n (fst q) (snd q) p -> chain b (S n) s g p.

Definition rep_bound (mn : nat) (mx : option nat) (n : nat) : Prop :=
  mn <= n /\ match mx with Some x => n <= Nat.max x mn | None => True end.

Theorem in_ms_rep mn mx b s g p :
  In p (ms (Rep mn mx b) s g) -> exists n, chain b n s g p /\ rep_bound mn mx n.
Proof.
  cbn [ms]. unfold rep_bound. intros Hin.
  enough (E : exists n, chain b n s g p /\ mn <= 0 + n /\ match mx with Some x => 0 + n <= Nat.max x mn | None => True end) by exact E.
  assert (H0 : match mx with Some x => 0 <= Nat.max x mn | None => True end) by (destruct mx; [lia | exact I]).
  revert H0 Hin. generalize (rep_fuel mn s) as fuel.
  generalize 0 as cnt. generalize (@None nat) as lastp. intros lastp cnt fuel. revert cnt lastp s g.
  induction fuel as [|fuel IHf]; intros cnt lastp s g Hinv Hin; [destruct Hin|].
  destruct (cnt <? mn) eqn:Ec.
  - apply Nat.ltb_lt in Ec. apply in_flat_map in Hin. destruct Hin as (q & Hq & Hp).
    destruct (IHf (S cnt) lastp (fst q) (snd q)) as (n & Hc & H1 & H2); [destruct mx; [lia | exact I] | exact Hp |].
    exists (S n). split; [eapply chainS; eassumption|]. split; [lia|]. destruct mx; [lia | exact I].
  - apply Nat.ltb_ge in Ec.
    assert (Hstop : p = (s, g) -> exists n, chain b n s g p /\ mn <= cnt + n /\ match mx with Some x => cnt + n <= Nat.max x mn | None => True end).
    { intros ->. exists 0. split; [constructor|]. split; [lia|]. destruct mx; [lia | exact I]. }
    destruct (more mx cnt && notstuck lastp s) eqn:Em.
    + apply in_app_or in Hin. destruct Hin as [Hin|[<-|[]]]; [|apply Hstop; reflexivity].
      apply andb_true_iff in Em. destruct Em as [Em _].
      apply in_flat_map in Hin. destruct Hin as (q & Hq & Hp).
      destruct (IHf (S cnt) (Some (idx s)) (fst q) (snd q)) as (n & Hc & H1 & H2); [|exact Hp|].
      { destruct mx as [x|]; [|exact I]. cbn in Em. apply Nat.ltb_lt in Em. lia. }
      exists (S n). split; [eapply chainS; eassumption|]. split; [lia|]. destruct mx; [lia | exact I].
    + destruct Hin as [<-|[]]. apply Hstop. reflexivity.
Qed.

(* a property of single passes that is reflexive and transitive holds along chains *)
Lemma chain_lift (P : st -> caps -> res -> Prop) b :
  (forall s g, P s g (s, g)) ->
  (forall s g q p, In q (ms b s g) -> P (fst q) (snd q) p -> (forall s g x, In x (ms b s g) -> P s g x) -> P s g p) ->
  (forall s g x, In x (ms b s g) -> P s g x) ->
  forall n s g p, chain b n s g p -> P s g p.
Proof.
  intros Hr Ht Hb n s g p H. induction H as [s g|n s g q p Hq Hc IH]; [apply Hr|].
  eapply Ht; eassumption.
Qed.

(* ---------------- captures: only the groups of r are written ---------------- *)
Fixpoint groups_of (r : re) : list nat :=
  match r with
  | Grp i b => i :: groups_of b
  | Seq a b | Alt a b => groups_of a ++ groups_of b
  | Rep _ _ b | Ahead b | Behind _ b => groups_of b
  | _ => []
  end.

Lemma setg_length g i v : length (setg g i v) = length g.
Proof. revert i. induction g as [|h t IH]; intros [|i]; cbn; [reflexivity..|]. rewrite IH. reflexivity. Qed.

Lemma nth_setg_same g i v : i < length g -> nth_error (setg g i v) i = Some (Some v).
Proof. revert i. induction g as [|h t IH]; intros [|i] H; cbn in *; [lia | lia | reflexivity | apply IH; lia]. Qed.

Lemma nth_setg_other g i j v : i <> j -> nth_error (setg g i v) j = nth_error g j.
Proof.
  revert i j. induction g as [|h t IH]; intros [|i] [|j] H; cbn; try reflexivity; [lia|]. apply IH. lia.
Qed.

Lemma getg_setg_same g i v : i < length g -> getg (setg g i v) i = Some v.
Proof. intros H. unfold getg. rewrite nth_setg_same by exact H. reflexivity. Qed.

Lemma getg_setg_other g i j v : i <> j -> getg (setg g i v) j = getg g j.
Proof. intros H. unfold getg. rewrite nth_setg_other by exact H. reflexivity. Qed.

Definition frame (r : re) (g : caps) (p : res) : Prop :=
  length (snd p) = length g /\ forall j, ~ In j (groups_of r) -> nth_error (snd p) j = nth_error g j.

Theorem ms_frame : forall r s g p, In p (ms r s g) -> frame r g p.
Proof.
  induction r as [|cs|a IHa b IHb|a IHa b IHb|mn mx b IHb|i b IHb|b IHb|w b IHb|ws| |]; intros s g p Hin.
  - destruct Hin as [<-|[]]. split; reflexivity.
  - apply in_ms_chr in Hin. destruct Hin as (c & t & _ & _ & ->). split; reflexivity.
  - apply in_ms_seq in Hin. destruct Hin as (q & Hq & Hp).
    destruct (IHa _ _ _ Hq) as [L1 F1]. destruct (IHb _ _ _ Hp) as [L2 F2]. split; [congruence|].
    intros j Hj. cbn [groups_of] in Hj. rewrite F2, F1; [reflexivity | |]; intros C; apply Hj, in_or_app; auto.
  - apply in_ms_alt in Hin. cbn [groups_of].
    destruct Hin as [H|H]; [destruct (IHa _ _ _ H) as [L F] | destruct (IHb _ _ _ H) as [L F]];
      (split; [exact L|]; intros j Hj; apply F; intros C; apply Hj, in_or_app; auto).
  - apply in_ms_rep in Hin. destruct Hin as (n & Hc & _). unfold frame. cbn [groups_of].
    induction Hc as [s g|n s g q p Hq Hc IH]; [split; reflexivity|].
    destruct (IHb _ _ _ Hq) as [L1 F1]. destruct IH as [L2 F2]. split; [congruence|].
    intros j Hj. rewrite F2, F1; [reflexivity | exact Hj | exact Hj].
  - apply in_ms_grp in Hin. destruct Hin as (q & Hq & ->). destruct (IHb _ _ _ Hq) as [L F]. unfold frame. cbn [snd fst groups_of].
    split; [rewrite setg_length; exact L|]. intros j Hj. rewrite nth_setg_other; [apply F; intros C; apply Hj; right; exact C|].
    intros ->. apply Hj. left. reflexivity.
  - cbn [ms] in Hin. destruct (ms b s g) as [|x t] eqn:E; [destruct Hin|]. destruct Hin as [<-|[]].
    apply (IHb s g x). rewrite E. left. reflexivity.
  - cbn [ms] in Hin. destruct (back w s) as [s0|]; [|destruct Hin].
    destruct (ms b s0 g) as [|x t] eqn:E; [destruct Hin|]. destruct Hin as [<-|[]].
    apply (IHb s0 g x). rewrite E. left. reflexivity.
  - cbn [ms] in Hin. destruct (at_bnd ws s); [|destruct Hin]. destruct Hin as [<-|[]]. split; reflexivity.
  - cbn [ms] in Hin. destruct (at_eos s); [|destruct Hin]. destruct Hin as [<-|[]]. split; reflexivity.
  - cbn [ms] in Hin. destruct (idx s); [|destruct Hin]. destruct Hin as [<-|[]]. split; reflexivity.
Qed.

(* ---------------- spans are slices of the text ---------------- *)
Lemma slice_extends s s' :
  wf_st s -> extends s s' ->
  exists mid, rest s = mid ++ rest s' /\ slice (text_of s) (idx s) (idx s') = mid /\ idx s' = idx s + length mid.
Proof.
  intros Hwf (mid & P & R & I). exists mid. split; [exact R|]. split; [|exact I].
  unfold slice, text_of. rewrite R, I. unfold wf_st in Hwf. rewrite Hwf.
  replace (length (pre s) + length mid - length (pre s)) with (length mid) by lia.
  rewrite <- (rev_length (pre s)), skipn_app, skipn_all, Nat.sub_diag. cbn [skipn app].
  rewrite firstn_app, firstn_all, Nat.sub_diag. cbn [firstn]. apply app_nil_r.
Qed.

(* ================================================================== *)
(* Character-class abstraction: the matcher sees a text only through the membership of its
   characters in the sets that occur in the pattern (and through "is it a newline" for $).
   Two texts that agree on those give the same paths, the same spans and the same captures. *)
Fixpoint csets (r : re) : list (list (N * N)) :=
  match r with
  | Chr cs => [cs]
  | Bnd ws => [ws]
  | Seq a b | Alt a b => csets a ++ csets b
  | Rep _ _ b | Grp _ b | Ahead b | Behind _ b => csets b
  | _ => []
  end.

Definition ceq (CS : list (list (N * N))) (c1 c2 : N) : Prop :=
  (forall cs, In cs CS -> in_ranges c1 cs = in_ranges c2 cs) /\ (c1 =? 10)%N = (c2 =? 10)%N.

Definition seqv CS (s1 s2 : st) : Prop :=
  Forall2 (ceq CS) (pre s1) (pre s2) /\ Forall2 (ceq CS) (rest s1) (rest s2) /\ idx s1 = idx s2.

Definition reqv CS (x y : res) : Prop := seqv CS (fst x) (fst y) /\ snd x = snd y.

Lemma Forall2_flat_map {A B C D} (R : A -> B -> Prop) (Q : C -> D -> Prop) f h l1 l2 :
  Forall2 R l1 l2 -> (forall x y, R x y -> Forall2 Q (f x) (h y)) -> Forall2 Q (flat_map f l1) (flat_map h l2).
Proof.
  intros H Hf. induction H as [|x y l1 l2 Hxy _ IH]; cbn; [constructor|]. apply Forall2_app; [apply Hf; exact Hxy | exact IH].
Qed.

Lemma Forall2_map2 {A B C D} (R : A -> B -> Prop) (Q : C -> D -> Prop) f h l1 l2 :
  Forall2 R l1 l2 -> (forall x y, R x y -> Q (f x) (h y)) -> Forall2 Q (map f l1) (map h l2).
Proof. intros H Hf. induction H; cbn; constructor; auto. Qed.

Lemma F2_length {A B} (R : A -> B -> Prop) l1 l2 : Forall2 R l1 l2 -> length l1 = length l2.
Proof. intros H. induction H; cbn; congruence. Qed.

Lemma seqv_refl_res CS s1 s2 g : seqv CS s1 s2 -> Forall2 (reqv CS) [(s1, g)] [(s2, g)].
Proof. intros H. constructor; [split; [exact H | reflexivity] | constructor]. Qed.

Lemma isword_hd CS ws l1 l2 : In ws CS -> Forall2 (ceq CS) l1 l2 -> isword ws (hd_error l1) = isword ws (hd_error l2).
Proof. intros Hin H. destruct H as [|c1 c2 t1 t2 [Hc _] _]; cbn; [reflexivity | apply Hc; exact Hin]. Qed.

Lemma back_equiv CS : forall w s1 s2, seqv CS s1 s2 ->
  match back w s1, back w s2 with
  | Some a, Some b => seqv CS a b
  | None, None => True
  | _, _ => False
  end.
Proof.
  induction w as [|w IH]; intros s1 s2 H; cbn [back]; [exact H|].
  destruct H as (Hp & Hr & Hi). destruct Hp as [|c1 c2 p1 p2 Hc Hp]; [exact I|].
  apply IH. unfold seqv. cbn [pre rest idx]. repeat split; [exact Hp | constructor; assumption | rewrite Hi; reflexivity].
Qed.

Theorem ms_equiv : forall r CS s1 s2 g, incl (csets r) CS -> seqv CS s1 s2 -> Forall2 (reqv CS) (ms r s1 g) (ms r s2 g).
Proof.
  induction r as [|cs|a IHa b IHb|a IHa b IHb|mn mx b IHb|i b IHb|b IHb|w b IHb|ws| |]; intros CS s1 s2 g Hinc Hs; cbn [ms].
  - apply seqv_refl_res. exact Hs.
  - destruct Hs as (Hp & Hr & Hi). destruct Hr as [|c1 c2 t1 t2 Hc Hr]; [constructor|].
    destruct Hc as [Hc Hn]. rewrite (Hc cs) by (apply Hinc; left; reflexivity).
    destruct (in_ranges c2 cs); [|constructor]. apply seqv_refl_res. repeat split; cbn [pre rest idx]; [constructor; [split; assumption | exact Hp] | exact Hr | f_equal; exact Hi].
  - cbn [csets] in Hinc. eapply Forall2_flat_map; [apply IHa; [intros x Hx; apply Hinc, in_or_app; auto | exact Hs]|].
    intros x y [Hxy ->]. apply IHb; [intros z Hz; apply Hinc, in_or_app; auto | exact Hxy].
  - cbn [csets] in Hinc. apply Forall2_app; [apply IHa | apply IHb]; try exact Hs; intros z Hz; apply Hinc, in_or_app; auto.
  - cbn [csets] in Hinc.
    assert (Hf : rep_fuel mn s1 = rep_fuel mn s2).
    { unfold rep_fuel. destruct Hs as (_ & Hr & _). rewrite (F2_length _ _ _ Hr). reflexivity. }
    rewrite Hf. clear Hf. generalize (rep_fuel mn s2) as fuel. generalize 0 as cnt. generalize (@None nat) as lastp.
    intros lastp cnt fuel. revert cnt lastp s1 s2 g Hs.
    induction fuel as [|fuel IHf]; intros cnt lastp s1 s2 g Hs; [constructor|].
    assert (Hi : idx s1 = idx s2) by (destruct Hs as (_ & _ & Hi); exact Hi).
    destruct (cnt <? mn).
    + eapply Forall2_flat_map; [apply IHb; [exact Hinc | exact Hs]|]. intros x y [Hxy ->]. apply IHf. exact Hxy.
    + replace (notstuck lastp s1) with (notstuck lastp s2) by (unfold notstuck; rewrite Hi; reflexivity).
      destruct (more mx cnt && notstuck lastp s2); [|apply seqv_refl_res; exact Hs].
      apply Forall2_app; [|apply seqv_refl_res; exact Hs].
      eapply Forall2_flat_map; [apply IHb; [exact Hinc | exact Hs]|]. intros x y [Hxy ->]. rewrite Hi. apply IHf. exact Hxy.
  - cbn [csets] in Hinc. eapply Forall2_map2; [apply IHb; [exact Hinc | exact Hs]|].
    intros x y [Hxy E]. split; cbn [fst snd]; [exact Hxy|]. rewrite E.
    destruct Hs as (_ & _ & ->). destruct Hxy as (_ & _ & ->). reflexivity.
  - cbn [csets] in Hinc. pose proof (IHb CS s1 s2 g Hinc Hs) as H.
    destruct H as [|x y l1 l2 [_ E] _]; [constructor|]. rewrite E. apply seqv_refl_res. exact Hs.
  - cbn [csets] in Hinc. pose proof (back_equiv CS w s1 s2 Hs) as Hb.
    destruct (back w s1) as [a1|], (back w s2) as [a2|]; try contradiction; [|constructor].
    pose proof (IHb CS a1 a2 g Hinc Hb) as H.
    destruct H as [|x y l1 l2 [_ E] _]; [constructor|]. rewrite E. apply seqv_refl_res. exact Hs.
  - assert (E : at_bnd ws s1 = at_bnd ws s2).
    { unfold at_bnd. destruct Hs as (Hp & Hr & _).
      rewrite (isword_hd CS ws _ _ (Hinc _ (or_introl eq_refl)) Hp), (isword_hd CS ws _ _ (Hinc _ (or_introl eq_refl)) Hr). reflexivity. }
    rewrite E. destruct (at_bnd ws s2); [apply seqv_refl_res; exact Hs | constructor].
  - assert (E : at_eos s1 = at_eos s2).
    { unfold at_eos. destruct Hs as (_ & Hr & _). destruct Hr as [|c1 c2 t1 t2 [_ Hn] Hr]; [reflexivity|].
      destruct Hr; [exact Hn | reflexivity]. }
    rewrite E. destruct (at_eos s2); [apply seqv_refl_res; exact Hs | constructor].
  - assert (Hi : idx s1 = idx s2) by (destruct Hs as (_ & _ & Hi); exact Hi). rewrite Hi. destruct (idx s2); [apply seqv_refl_res; exact Hs | constructor].
Qed.

(* fullmatch sees only the classes *)
Lemma st_at_full t : st_at t 0 (length t) = mkst [] t 0.
Proof. unfold st_at. rewrite firstn_all. reflexivity. Qed.

Theorem fullmatch_equiv r ng t1 t2 :
  Forall2 (ceq (csets r)) t1 t2 -> fullmatch r ng t1 = fullmatch r ng t2.
Proof.
  intros H. unfold fullmatch. rewrite !m_spec, !st_at_full.
  assert (Hs : seqv (csets r) (mkst [] t1 0) (mkst [] t2 0)) by (repeat split; [constructor | exact H]).
  pose proof (ms_equiv r (csets r) _ _ (init_caps ng) (incl_refl _) Hs) as HF.
  induction HF as [|x y l1 l2 [Hxy E] _ IH]; cbn [first_some]; [reflexivity|].
  destruct Hxy as (_ & Hr & Hi).
  destruct Hr as [|c1 c2 r1 r2 _ _].
  - rewrite <- H0, <- H1 || idtac. destruct x as [sx gx], y as [sy gy]; cbn [fst snd] in *. subst gy.
    destruct (rest sx) eqn:E1, (rest sy) eqn:E2; try discriminate; cbn; rewrite ?Hi; try reflexivity; exact IH.
  - destruct x as [sx gx], y as [sy gy]; cbn [fst snd] in *.
    destruct (rest sx) eqn:E1, (rest sy) eqn:E2; try discriminate; exact IH.
Qed.

(* ---------------- named extension: s' is s after consuming exactly [mid] ---------------- *)
Definition ext (s : st) (mid : list N) (s' : st) : Prop :=
  pre s' = rev mid ++ pre s /\ rest s = mid ++ rest s' /\ idx s' = idx s + length mid.

Lemma ext_extends s mid s' : ext s mid s' -> extends s s'.
Proof. intros H. exists mid. exact H. Qed.

Lemma ext_nil s : ext s [] s.
Proof. unfold ext. cbn. repeat split; lia. Qed.

Lemma ext_trans a m1 b m2 c : ext a m1 b -> ext b m2 c -> ext a (m1 ++ m2) c.
Proof.
  intros (P1 & R1 & I1) (P2 & R2 & I2). unfold ext.
  rewrite P2, P1, R1, R2, I2, I1, rev_app_distr, app_length, <- !app_assoc. repeat split; lia.
Qed.

Lemma ext_slice s mid s' : wf_st s -> ext s mid s' -> slice (text_of s) (idx s) (idx s') = mid.
Proof.
  intros Hwf (P & R & I). unfold slice, text_of. rewrite R, I. unfold wf_st in Hwf. rewrite Hwf.
  replace (length (pre s) + length mid - length (pre s)) with (length mid) by lia.
  rewrite <- (rev_length (pre s)), skipn_app, skipn_all, Nat.sub_diag. cbn [skipn app].
  rewrite firstn_app, firstn_all, Nat.sub_diag. cbn [firstn]. apply app_nil_r.
Qed.

Lemma ext_chr cs s g p : In p (ms (Chr cs) s g) -> exists c, in_ranges c cs = true /\ ext s [c] (fst p) /\ snd p = g.
Proof.
  intros H. apply in_ms_chr in H. destruct H as (c & t & R & Hc & ->). exists c. split; [exact Hc|]. split; [|reflexivity].
  unfold ext. cbn. rewrite R. repeat split; lia.
Qed.

(* n passes through a single-character class consume n characters of the class and leave the captures alone *)
Lemma chain_chr cs : forall n s g p, chain (Chr cs) n s g p ->
  exists w, length w = n /\ Forall (fun c => in_ranges c cs = true) w /\ ext s w (fst p) /\ snd p = g.
Proof.
  intros n s g p H. induction H as [s g|n s g q p Hq Hc IH].
  - exists []. repeat split; [constructor | apply ext_nil].
  - destruct (ext_chr _ _ _ _ Hq) as (c & Hc1 & He & Hg). destruct IH as (w & Hl & Hf & He2 & Hg2).
    exists (c :: w). split; [cbn; congruence|]. split; [constructor; assumption|]. split; [exact (ext_trans _ _ _ _ _ He He2) | congruence].
Qed.

(* ================================================================== *)
(* Completeness: building paths (the converse of the inversion lemmas) *)

Lemma first_some_exists {A B} (k : A -> option B) l x : In x l -> k x <> None -> first_some k l <> None.
Proof.
  induction l as [|y t IH]; cbn; [intros []|]. intros [->|Hin] Hk.
  - destruct (k x); [discriminate | contradiction].
  - destruct (k y); [discriminate | apply IH; assumption].
Qed.

Definition lastp_ok (lastp : option nat) (s : st) : Prop := match lastp with Some i => i < idx s | None => True end.

Theorem in_ms_rep_intro mn mx b s g p n :
  (forall s g q, In q (ms b s g) -> idx s < idx (fst q)) ->
  chain b n s g p -> mn <= n -> match mx with Some x => n <= x | None => True end -> n < rep_fuel mn s ->
  In p (ms (Rep mn mx b) s g).
Proof.
  intros Hstrict Hc Hmn Hmx Hfuel. cbn [ms].
  assert (Hl : lastp_ok (@None nat) s) by exact I.
  revert Hl Hfuel. replace n with (0 + n) in Hmn, Hmx by reflexivity.
  revert Hmn Hmx. generalize (rep_fuel mn s) as fuel. generalize (@None nat) as lastp. generalize 0 as cnt.
  induction Hc as [s g|n s g q p Hq Hc IH]; intros cnt lastp fuel Hmn Hmx Hl Hfuel.
  - destruct fuel as [|f]; [lia|]. replace (cnt <? mn) with false by (symmetry; apply Nat.ltb_ge; lia).
    destruct (more mx cnt && notstuck lastp s); [apply in_or_app; right|]; left; reflexivity.
  - destruct fuel as [|f]; [lia|]. pose proof (Hstrict _ _ _ Hq) as Hlt.
    destruct (cnt <? mn) eqn:Ec.
    + apply in_flat_map. exists q. split; [exact Hq|].
      apply IH; try lia; try (destruct mx; [lia | exact I]); try (unfold lastp_ok in *; destruct lastp; [lia | exact I]).
    + replace (more mx cnt) with true by (destruct mx as [x|]; cbn; [symmetry; apply Nat.ltb_lt; lia | reflexivity]).
      assert (Hns : notstuck lastp s = true).
      { destruct lastp as [i|]; [|reflexivity]. unfold lastp_ok in Hl. cbn. apply negb_true_iff, Nat.eqb_neq. lia. }
      rewrite Hns. cbn [andb]. apply in_or_app. left. apply in_flat_map. exists q. split; [exact Hq|].
      apply IH; try lia; try (destruct mx; [lia | exact I]). unfold lastp_ok. exact Hlt.
Qed.

Lemma chr_strict cs s g q : In q (ms (Chr cs) s g) -> idx s < idx (fst q).
Proof. intros H. destruct (ext_chr _ _ _ _ H) as (c & _ & (_ & _ & I) & _). rewrite I. cbn. lia. Qed.

(* the state reached from s by consuming w *)
Definition adv (s : st) (w : list N) : st := mkst (rev w ++ pre s) (skipn (length w) (rest s)) (idx s + length w).

Lemma ext_adv s w r : rest s = w ++ r -> ext s w (adv s w).
Proof.
  intros H. unfold ext, adv. cbn. rewrite H, skipn_app, skipn_all, Nat.sub_diag. cbn. repeat split; reflexivity.
Qed.

Lemma adv_rest s w r : rest s = w ++ r -> rest (adv s w) = r.
Proof. intros H. unfold adv. cbn. rewrite H, skipn_app, skipn_all, Nat.sub_diag. reflexivity. Qed.

Lemma skipn_add {A} (l : list A) : forall a b, skipn a (skipn b l) = skipn (b + a) l.
Proof.
  intros a b. revert l. induction b as [|b IH]; intros l; [reflexivity|]. destruct l as [|x l]; cbn; [destruct a; reflexivity | apply IH].
Qed.

Lemma adv_app s w1 w2 : adv (adv s w1) w2 = adv s (w1 ++ w2).
Proof.
  unfold adv. cbn. rewrite rev_app_distr, app_length, <- app_assoc, skipn_add, Nat.add_assoc. reflexivity.
Qed.

Lemma in_ms_chr_adv cs s g c r : rest s = c :: r -> in_ranges c cs = true -> In (adv s [c], g) (ms (Chr cs) s g).
Proof.
  intros H Hc. apply in_ms_chr. exists c, r. split; [exact H|]. split; [exact Hc|].
  unfold adv. cbn. rewrite H. cbn. f_equal. f_equal. lia.
Qed.

Lemma chain_chr_intro cs : forall w s g r,
  rest s = w ++ r -> Forall (fun c => in_ranges c cs = true) w -> chain (Chr cs) (length w) s g (adv s w, g).
Proof.
  induction w as [|c w IH]; intros s g r Hr Hf.
  - cbn. replace (adv s []) with s; [constructor|]. destruct s. unfold adv. cbn. f_equal. lia.
  - inversion Hf as [|? ? Hc Hf']; subst. cbn [length]. eapply chainS; [apply (in_ms_chr_adv cs s g c (w ++ r)); [exact Hr | exact Hc]|].
    cbn [fst snd]. replace (adv s (c :: w)) with (adv (adv s [c]) w) by (rewrite adv_app; reflexivity).
    apply (IH _ _ r); [|exact Hf']. apply (adv_rest s [c]). exact Hr.
Qed.
