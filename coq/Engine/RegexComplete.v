(* Engine/RegexComplete.v -- the converse of Engine/RegexLang.v for patterns without look-arounds, anchors and
   word boundaries: every word of [lang r] that lies ahead is consumed by some path of the executable matcher,
   wherever it stands.  Hence a text cut out by such a pattern is found again when searched on its own
   (SecUnpacker on the text of a multisec_regex match always finds a section). *)
From Coq Require Import List NArith Arith Bool Lia.
From PyTRS Require Import Engine.Regex Engine.RegexSpec Engine.RegexStatic Engine.RegexLift Engine.RegexLang.
Import ListNotations.

Fixpoint ctxfree (r : re) : bool :=
  match r with
  | Eps | Chr _ => true
  | Seq a b | Alt a b => ctxfree a && ctxfree b
  | Rep _ _ b | Grp _ b => ctxfree b
  | _ => false
  end.

(* successive passes through b, each consuming the next word of the list *)
Inductive chainw (b : re) : list (list N) -> st -> caps -> res -> Prop :=
| cw0 s g : chainw b [] s g (s, g)
| cwS w ws s g q p : In q (ms b s g) -> ext s w (fst q) -> chainw b ws (fst q) (snd q) p -> chainw b (w :: ws) s g p.

Lemma ext_idx s w s' : ext s w s' -> idx s' = idx s + length w.
Proof. intros (_ & _ & I). exact I. Qed.

Lemma rloop_intro b mn mx : forall ws s g p, chainw b ws s g p ->
  forall cnt lastp fuel,
  Forall (fun w => w <> []) (skipn (mn - cnt) ws) -> mn <= cnt + length ws ->
  match mx with Some x => cnt + length ws <= Nat.max x mn | None => True end ->
  lastp_ok lastp s -> length ws < fuel ->
  In p (rloop (ms b) mn mx fuel cnt lastp s g).
Proof.
  intros ws s g p Hc. induction Hc as [s g|w ws s g q p Hq He Hc IH]; intros cnt lastp fuel Hne Hmn Hmx Hl Hf.
  - destruct fuel as [|f]; [cbn in Hf; lia|]. cbn [rloop length] in *. replace (cnt <? mn) with false by (symmetry; apply Nat.ltb_ge; lia).
    destruct (more mx cnt && notstuck lastp s); [apply in_or_app; right|]; left; reflexivity.
  - destruct fuel as [|f]; [cbn in Hf; lia|]. cbn [length] in *. cbn [rloop]. pose proof (ext_idx _ _ _ He) as Hi.
    destruct (cnt <? mn) eqn:Ec.
    + apply Nat.ltb_lt in Ec. apply in_flat_map. exists q. split; [exact Hq|]. apply IH.
      * replace (mn - cnt) with (S (mn - S cnt)) in Hne by lia. exact Hne.
      * lia.
      * destruct mx; [lia | exact I].
      * unfold lastp_ok in *. destruct lastp; [lia | exact I].
      * lia.
    + apply Nat.ltb_ge in Ec. replace (mn - cnt) with 0 in Hne by lia. cbn [skipn] in Hne. inversion Hne as [|? ? Hw Hws]; subst.
      assert (Hlen : 0 < length w) by (destruct w; [contradiction | cbn; lia]).
      replace (more mx cnt) with true by (destruct mx as [x|]; cbn; [symmetry; apply Nat.ltb_lt; lia | reflexivity]).
      assert (Hns : notstuck lastp s = true).
      { destruct lastp as [i|]; [|reflexivity]. unfold lastp_ok in Hl. cbn. apply negb_true_iff, Nat.eqb_neq. lia. }
      rewrite Hns. cbn [andb]. apply in_or_app. left. apply in_flat_map. exists q. split; [exact Hq|]. apply IH.
      * replace (mn - S cnt) with 0 by lia. exact Hws.
      * lia.
      * destruct mx; [lia | exact I].
      * unfold lastp_ok. lia.
      * lia.
Qed.

Definition nonempty (w : list N) : bool := match w with [] => false | _ => true end.

Lemma concat_filter_nonempty : forall ws, concat (filter nonempty ws) = concat ws.
Proof. induction ws as [|w ws IH]; [reflexivity|]. destruct w as [|c w]; cbn [filter nonempty concat]; [exact IH | rewrite IH; reflexivity]. Qed.

Lemma concat_repeat_nil {A} n : concat (repeat (@nil A) n) = [].
Proof. induction n as [|n IH]; [reflexivity | exact IH]. Qed.

Lemma filter_length_lt {A} (f : A -> bool) : forall l, length (filter f l) < length l -> exists x, In x l /\ f x = false.
Proof.
  induction l as [|a l IH]; cbn [filter length]; [lia|]. destruct (f a) eqn:E.
  - cbn [length]. intros H. destruct (IH ltac:(lia)) as (x & Hx & Hf). exists x. split; [right; exact Hx | exact Hf].
  - intros _. exists a. split; [left; reflexivity | exact E].
Qed.

Lemma filter_length_le {A} (f : A -> bool) : forall l, length (filter f l) <= length l.
Proof. induction l as [|a l IH]; cbn [filter length]; [lia|]. destruct (f a); cbn [length]; lia. Qed.

Lemma in_skipn' {A} : forall n (l : list A) x, In x (skipn n l) -> In x l.
Proof. induction n as [|n IH]; intros l x H; [exact H|]. destruct l as [|a l]; [destruct H|]. right. exact (IH _ _ H). Qed.

Theorem lang_ms : forall r, ctxfree r = true -> forall w s g tl, lang r w -> rest s = w ++ tl ->
  exists p, In p (ms r s g) /\ ext s w (fst p).
Proof.
  induction r as [|cs|a IHa b IHb|a IHa b IHb|mn mx b IHb|i b IHb|b IHb|w0 b IHb|ws0| |]; intros Hcf w s g tl HL HR; try discriminate; cbn [lang ctxfree] in *.
  - subst w. exists (s, g). split; [left; reflexivity | apply ext_nil].
  - destruct HL as (c & -> & Hc). exists (adv s [c], g). split; [exact (in_ms_chr_adv cs s g c tl HR Hc) | exact (ext_adv s [c] tl HR)].
  - apply andb_true_iff in Hcf. destruct Hcf as [Ha Hb]. destruct HL as (w1 & w2 & -> & L1 & L2). rewrite <- app_assoc in HR.
    destruct (IHa Ha w1 s g (w2 ++ tl) L1 HR) as (q & Hq & Eq).
    assert (R2 : rest (fst q) = w2 ++ tl). { destruct Eq as (_ & R & _). rewrite HR in R. exact (app_inv_head _ _ _ (eq_sym R)). }
    destruct (IHb Hb w2 (fst q) (snd q) tl L2 R2) as (p & Hp & Ep). exists p. split; [apply in_ms_seq; exists q; auto | exact (ext_trans _ _ _ _ _ Eq Ep)].
  - apply andb_true_iff in Hcf. destruct Hcf as [Ha Hb]. destruct HL as [L|L].
    + destruct (IHa Ha w s g tl L HR) as (p & Hp & Ep). exists p. split; [apply in_ms_alt; left; exact Hp | exact Ep].
    + destruct (IHb Hb w s g tl L HR) as (p & Hp & Ep). exists p. split; [apply in_ms_alt; right; exact Hp | exact Ep].
  - destruct HL as (ws & -> & F & Hmn & Hmx).
    set (ne := filter nonempty ws). set (pad := mn - length ne). set (sq := repeat [] pad ++ ne).
    assert (Fne : Forall (lang b) ne) by (apply Forall_forall; intros x Hx; apply filter_In in Hx; exact (proj1 (Forall_forall _ _) F x (proj1 Hx))).
    assert (Fsq : Forall (lang b) sq).
    { apply Forall_app. split; [|exact Fne]. apply Forall_forall. intros x Hx. destruct pad as [|pd] eqn:Ep; [destruct Hx|]. apply repeat_spec in Hx. subst x.
      destruct (filter_length_lt nonempty ws ltac:(fold ne; unfold pad in Ep; lia)) as (y & Hy & Hf). destruct y; [|discriminate].
      exact (proj1 (Forall_forall _ _) F [] Hy). }
    assert (Csq : concat sq = concat ws) by (unfold sq; rewrite concat_app, concat_repeat_nil; apply concat_filter_nonempty).
    assert (Lsq : length sq = pad + length ne) by (unfold sq; rewrite app_length, repeat_length; reflexivity).
    (* the chain along sq *)
    assert (CH : forall l s g tl, Forall (lang b) l -> rest s = concat l ++ tl -> exists p, chainw b l s g p /\ ext s (concat l) (fst p)).
    { clear -IHb Hcf. induction l as [|x l IH]; intros s g tl Fl R.
      - exists (s, g). split; [constructor | apply ext_nil].
      - inversion Fl as [|? ? Hx Hl]; subst. cbn [concat] in R |- *. rewrite <- app_assoc in R.
        destruct (IHb Hcf x s g (concat l ++ tl) Hx R) as (q & Hq & Eq).
        assert (R2 : rest (fst q) = concat l ++ tl). { destruct Eq as (_ & R' & _). rewrite R in R'. exact (app_inv_head _ _ _ (eq_sym R')). }
        destruct (IH (fst q) (snd q) tl Hl R2) as (p & Hp & Ep). exists p. split; [econstructor; eassumption | exact (ext_trans _ _ _ _ _ Eq Ep)]. }
    rewrite <- Csq in HR |- *. destruct (CH sq s g tl Fsq HR) as (p & Hp & Ep). exists p. split; [|exact Ep].
    rewrite ms_rep_rloop. apply (rloop_intro b mn mx sq s g p Hp).
    + (* words beyond the mandatory passes are non-empty *)
      apply Forall_forall. intros x Hx. replace (mn - 0) with mn in Hx by lia. unfold sq in Hx.
      assert (Hin : In x ne).
      { destruct (Nat.le_gt_cases mn (length ne)) as [Hle|Hgt].
        - replace pad with 0 in Hx by (unfold pad; lia). cbn [repeat app] in Hx. exact (in_skipn' _ _ _ Hx).
        - rewrite skipn_app, repeat_length in Hx. apply in_app_or in Hx. destruct Hx as [Hx|Hx].
          + rewrite skipn_all2 in Hx by (rewrite repeat_length; unfold pad; lia). destruct Hx.
          + exact (in_skipn' _ _ _ Hx). }
      apply filter_In in Hin. destruct x; [destruct Hin; discriminate | discriminate].
    + rewrite Lsq. unfold pad. lia.
    + destruct mx as [x|]; [|exact I]. rewrite Lsq. pose proof (filter_length_le nonempty ws). fold ne in H. unfold pad. lia.
    + exact I.
    + rewrite Lsq. unfold rep_fuel. rewrite HR, app_length.
      assert (length ne <= length (concat sq)).
      { rewrite Csq, <- (concat_filter_nonempty ws). fold ne. clear. assert (G : forall l, Forall (fun w : list N => nonempty w = true) l -> length l <= length (concat l)).
        { induction l as [|x l IH]; intros Fl; [cbn; lia|]. inversion Fl as [|? ? Hx Hl]; subst. cbn [concat length]. rewrite app_length. specialize (IH Hl).
          destruct x; [discriminate | cbn [length]; lia]. }
        apply G. apply Forall_forall. intros x Hx. apply filter_In in Hx. exact (proj2 Hx). }
      unfold pad. lia.
  - destruct (IHb Hcf w s g tl HL HR) as (q & Hq & Eq). eexists. split; [apply in_ms_grp; exists q; split; [exact Hq | reflexivity] | exact Eq].
Qed.

(* a word of a context-free pattern is found again when the text that starts with it is searched *)
Theorem lang_search r ng w tl : ctxfree r = true -> lang r w -> search r ng (w ++ tl) <> None.
Proof.
  intros Hc HL. destruct (lang_ms r Hc w (mkst [] (w ++ tl) 0) (init_caps ng) tl HL eq_refl) as (p & Hp & _).
  apply (search_hit r ng [] (w ++ tl) p). rewrite adv_nil. exact Hp.
Qed.
