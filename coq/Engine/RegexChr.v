(* Engine/RegexChr.v -- the API layer (scan / finditer / split / sub) characterised for the two
   simplest pattern shapes, for EVERY text:
     split on a single character class  =  the obvious functional split (split_chr);
     sub of  cls*  by ''  on a text without characters of cls  =  the text (sub_star_clean). *)
From Coq Require Import List NArith Arith Bool Lia.
From PyTRS Require Import Engine.Regex Engine.RegexSpec.
Import ListNotations.

Lemma succ_neqb n : (S n =? n) = false.
Proof. apply Nat.eqb_neq. lia. Qed.

Lemma match_at_chr cs ng ma s :
  match_at (Chr cs) ng ma s =
  match rest s with
  | c :: _ => if in_ranges c cs then Some (mkmo (idx s) (S (idx s)) (init_caps ng)) else None
  | [] => None
  end.
Proof.
  unfold match_at. cbn [m]. destruct (rest s) as [|c t]; [reflexivity|]. destruct (in_ranges c cs); [|reflexivity].
  cbn [fst snd idx]. rewrite succ_neqb, andb_false_r. reflexivity.
Qed.

Fixpoint find_first (cs : list (N * N)) (l : list N) : option nat :=
  match l with
  | [] => None
  | c :: t => if in_ranges c cs then Some 0 else option_map S (find_first cs t)
  end.

Lemma scan_chr cs ng : forall l p i fuel ma, length l <= fuel ->
  scan fuel (Chr cs) ng ma (mkst p l i) =
  match find_first cs l with Some j => Some (mkmo (i + j) (S (i + j)) (init_caps ng)) | None => None end.
Proof.
  induction l as [|c t IH]; intros p i fuel ma Hf.
  - destruct fuel; cbn [scan]; rewrite match_at_chr; reflexivity.
  - cbn [length] in Hf. destruct fuel as [|f]; [lia|]. cbn [scan find_first]. rewrite match_at_chr. cbn [rest idx].
    destruct (in_ranges c cs); [rewrite Nat.add_0_r; reflexivity|].
    unfold fwd. cbn [rest pre idx]. rewrite IH by lia. destruct (find_first cs t) as [j|]; cbn [option_map]; [|reflexivity].
    rewrite <- plus_n_Sm. reflexivity.
Qed.

(* positions of the class characters, counted from [off] *)
Fixpoint positions (cs : list (N * N)) (l : list N) (off : nat) : list nat :=
  match l with
  | [] => []
  | c :: r => if in_ranges c cs then off :: positions cs r (S off) else positions cs r (S off)
  end.

Lemma positions_none cs : forall l off, find_first cs l = None -> positions cs l off = [].
Proof.
  induction l as [|c r IH]; intros off H; [reflexivity|]. cbn in *. destruct (in_ranges c cs); [discriminate|].
  apply IH. destruct (find_first cs r); [discriminate | reflexivity].
Qed.

Lemma positions_some cs : forall l off j, find_first cs l = Some j ->
  positions cs l off = (off + j) :: positions cs (skipn (S j) l) (S (off + j)).
Proof.
  induction l as [|c r IH]; intros off j H; [discriminate|]. cbn [find_first] in H. cbn [positions].
  destruct (in_ranges c cs).
  - injection H as <-. rewrite Nat.add_0_r. reflexivity.
  - destruct (find_first cs r) as [j'|] eqn:E; [|discriminate]. injection H as <-.
    rewrite (IH (S off) j' eq_refl). rewrite <- !plus_n_Sm. reflexivity.
Qed.

Lemma find_first_lt cs : forall l j, find_first cs l = Some j -> j < length l.
Proof.
  induction l as [|c r IH]; intros j H; [discriminate|]. cbn in *. destruct (in_ranges c cs); [injection H as <-; lia|].
  destruct (find_first cs r) as [j'|]; [|discriminate]. injection H as <-. specialize (IH j' eq_refl). lia.
Qed.

Lemma st_at_len t p : st_at t p (length t) = mkst (rev (firstn p t)) (skipn p t) p.
Proof. unfold st_at. rewrite firstn_all. reflexivity. Qed.

Definition mk1 (ng : nat) (j : nat) : mo := mkmo j (S j) (init_caps ng).

Lemma finditer_loop_chr cs ng t : forall fuel p, p <= length t -> length t - p < fuel ->
  finditer_loop fuel (Chr cs) ng t (length t) p false = map (mk1 ng) (positions cs (skipn p t) p).
Proof.
  induction fuel as [|f IH]; intros p Hp Hf; [lia|]. cbn [finditer_loop]. rewrite st_at_len, scan_chr by (rewrite skipn_length; lia).
  destruct (find_first cs (skipn p t)) as [j|] eqn:E.
  - rewrite (positions_some cs _ p j E). cbn [map mend mstart mk1]. rewrite succ_neqb.
    pose proof (find_first_lt _ _ _ E) as Hj. rewrite skipn_length in Hj.
    rewrite IH by lia. rewrite skipn_add. replace (p + S j) with (S (p + j)) by lia. reflexivity.
  - rewrite (positions_none cs _ p E). reflexivity.
Qed.

Lemma finditer_chr cs ng t : finditer (Chr cs) ng t = map (mk1 ng) (positions cs t 0).
Proof.
  unfold finditer, finditer_pe. replace (length t <? 0) with false by reflexivity. unfold clip. rewrite Nat.min_id, Nat.min_0_l.
  rewrite Nat.sub_0_r, finditer_loop_chr by lia. reflexivity.
Qed.

(* the obvious split *)
Fixpoint split_spec (cs : list (N * N)) (cur : list N) (l : list N) : list str :=
  match l with
  | [] => [rev cur]
  | c :: r => if in_ranges c cs then rev cur :: split_spec cs [] r else split_spec cs (c :: cur) r
  end.

Lemma slice_mid {A} (a b l : list A) : firstn (length (a ++ b) - length a) (skipn (length a) (a ++ b ++ l)) = b.
Proof.
  rewrite skipn_app, skipn_all, Nat.sub_diag. cbn [skipn app]. rewrite app_length.
  replace (length a + length b - length a) with (length b) by lia. rewrite firstn_app, firstn_all, Nat.sub_diag. cbn. apply app_nil_r.
Qed.

Lemma split_build_spec cs ng t : forall l a b, t = a ++ b ++ l ->
  split_build t (length a) (map (mk1 ng) (positions cs l (length a + length b))) = split_spec cs (rev b) l.
Proof.
  induction l as [|c r IH]; intros a b Ht.
  - cbn. rewrite Ht, app_nil_r, skipn_app, skipn_all, Nat.sub_diag, rev_involutive. reflexivity.
  - cbn [positions split_spec]. destruct (in_ranges c cs).
    + cbn [map split_build mk1 mstart mend]. rewrite rev_involutive. f_equal.
      * unfold slice. rewrite Ht. rewrite <- app_length. apply slice_mid.
      * specialize (IH (a ++ b ++ [c]) []). cbn [length rev] in IH. rewrite !app_length in IH. cbn [length] in IH.
        replace (length a + (length b + 1) + 0) with (S (length a + length b)) in IH by lia.
        replace (length a + (length b + 1)) with (S (length a + length b)) in IH by lia.
        apply IH. rewrite Ht, <- !app_assoc. reflexivity.
    + specialize (IH a (b ++ [c])). rewrite app_length in IH. cbn [length] in IH.
      replace (length a + (length b + 1)) with (S (length a + length b)) in IH by lia.
      rewrite rev_app_distr in IH. cbn [rev app] in IH. apply IH. rewrite Ht, <- !app_assoc. reflexivity.
Qed.

Theorem split_chr cs ng t : split (Chr cs) ng t = split_spec cs [] t.
Proof. unfold split. rewrite finditer_chr. exact (split_build_spec cs ng t t [] [] eq_refl). Qed.

(* joining clean tokens with a separator of the class and splitting again gives the tokens back *)
Definition clean (cs : list (N * N)) (w : list N) : Prop := Forall (fun c => in_ranges c cs = false) w.

Lemma split_spec_clean cs : forall w cur r, clean cs w -> split_spec cs cur (w ++ r) = split_spec cs (rev w ++ cur) r.
Proof.
  induction w as [|c w IH]; intros cur r H; [reflexivity|]. inversion H as [|? ? Hc Hw]; subst. cbn [app split_spec]. rewrite Hc.
  rewrite IH by exact Hw. cbn [rev]. rewrite <- app_assoc. reflexivity.
Qed.

Fixpoint join1 (sep : N) (l : list str) : str :=
  match l with
  | [] => []
  | [x] => x
  | x :: t => x ++ sep :: join1 sep t
  end.

Theorem split_join cs sep : in_ranges sep cs = true -> forall toks, toks <> [] -> Forall (clean cs) toks ->
  split_spec cs [] (join1 sep toks) = toks.
Proof.
  intros Hs. induction toks as [|w [|w2 t] IH]; intros Hne Hc; [contradiction| |].
  - inversion Hc; subst. cbn [join1]. transitivity (split_spec cs [] (w ++ [])); [rewrite app_nil_r; reflexivity|].
    rewrite split_spec_clean by assumption. cbn. rewrite app_nil_r, rev_involutive. reflexivity.
  - inversion Hc as [|? ? Hw Ht]; subst. change (join1 sep (w :: w2 :: t)) with (w ++ sep :: join1 sep (w2 :: t)).
    rewrite split_spec_clean by exact Hw. cbn [split_spec]. rewrite Hs, app_nil_r, rev_involutive. f_equal. apply IH; [discriminate | exact Ht].
Qed.

(* ================================================================== *)
(* cls* replaced by '' on a text that has no character of cls *)
Definition star (cs : list (N * N)) : re := Rep 0 None (Chr cs).

Lemma m_chr_none cs s g k :
  match rest s with c :: _ => in_ranges c cs = false | [] => True end -> m (Chr cs) s g k = None.
Proof. intros H. cbn [m]. destruct (rest s) as [|c t]; [reflexivity|]. rewrite H. reflexivity. Qed.

Lemma match_at_star_clean cs ng ma s :
  match rest s with c :: _ => in_ranges c cs = false | [] => True end ->
  match_at (star cs) ng ma s = if ma then None else Some (mkmo (idx s) (idx s) (init_caps ng)).
Proof.
  intros H. unfold match_at, star. cbn [m]. unfold rep_fuel. cbn [Nat.add Nat.ltb Nat.leb more notstuck andb].
  destruct (rest s) as [|c t]; [|rewrite H]; cbn [fst snd]; rewrite Nat.eqb_refl, andb_true_r; destruct ma; reflexivity.
Qed.

Definition mk0 (ng : nat) (j : nat) : mo := mkmo j j (init_caps ng).

Lemma clean_head cs l : clean cs l -> match l with c :: _ => in_ranges c cs = false | [] => True end.
Proof. intros H. destruct H; [exact I | assumption]. Qed.

Lemma scan_star_clean cs ng l p i fuel ma : clean cs l -> length l <= fuel ->
  scan fuel (star cs) ng ma (mkst p l i) =
  if ma then match l with [] => None | _ :: _ => Some (mk0 ng (S i)) end else Some (mk0 ng i).
Proof.
  intros Hc Hf. destruct fuel as [|f]; cbn [scan]; rewrite match_at_star_clean by (apply clean_head; exact Hc); destruct ma; try reflexivity.
  - destruct l; [reflexivity | cbn in Hf; lia].
  - unfold fwd. cbn [rest pre idx]. destruct l as [|c t]; [reflexivity|]. inversion Hc; subst.
    destruct f; cbn [scan]; rewrite match_at_star_clean by (apply clean_head; assumption); reflexivity.
Qed.

Lemma clean_skipn cs (t : list N) p : clean cs t -> clean cs (skipn p t).
Proof. intros H. revert t H. induction p as [|p IH]; intros t H; [exact H|]. destruct H; [constructor | apply IH; assumption]. Qed.

Lemma finditer_loop_star cs ng t : clean cs t -> forall fuel p (ma : bool), p <= length t ->
  (length t - p) + (if ma then 0 else 1) < fuel ->
  finditer_loop fuel (star cs) ng t (length t) p ma =
  map (mk0 ng) (if ma then seq (S p) (length t - p) else seq p (S (length t - p))).
Proof.
  intros Hc. induction fuel as [|f IH]; intros p ma Hp Hf; [lia|]. cbn [finditer_loop].
  rewrite st_at_len, scan_star_clean by (try apply clean_skipn; try rewrite skipn_length; auto; lia).
  destruct ma.
  - destruct (skipn p t) as [|c r] eqn:E.
    + assert (length t - p = 0) by (rewrite <- (skipn_length p t), E; reflexivity). replace (length t - p) with 0 by lia. reflexivity.
    + assert (Hl : length t - p = S (length r)) by (rewrite <- (skipn_length p t), E; reflexivity).
      cbn [mk0 mend mstart]. rewrite Nat.eqb_refl. rewrite IH by lia.
      rewrite Hl. cbn [seq map]. replace (length t - S p) with (length r) by lia. reflexivity.
  - cbn [mk0 mend mstart]. rewrite Nat.eqb_refl. rewrite IH by lia. reflexivity.
Qed.

Lemma slice_skipn {A} (t : list A) q p : q <= p -> firstn (p - q) (skipn q t) ++ skipn p t = skipn q t.
Proof. intros H. replace (skipn p t) with (skipn (p - q) (skipn q t)) by (rewrite skipn_add; f_equal; lia). apply firstn_skipn. Qed.

Lemma sub_build_empties ng t : forall k p q, (q = p \/ S q = p) -> p + k = S (length t) -> 1 <= k ->
  sub_build t q (map (mk0 ng) (seq p k)) (fun _ => []) = skipn q t.
Proof.
  induction k as [|k IH]; intros p q Hq Hk H1; [lia|]. cbn [seq map sub_build mk0 mstart mend app]. unfold slice.
  destruct k as [|k'].
  - cbn [seq map sub_build]. assert (p = length t) by lia. subst p. rewrite skipn_all, app_nil_r.
    apply firstn_all2. rewrite skipn_length. lia.
  - rewrite (IH (S p) p) by lia. apply slice_skipn. lia.
Qed.

Theorem sub_star_clean cs ng t : clean cs t -> sub (star cs) ng [] t = t.
Proof.
  intros Hc. unfold sub, sub_fn, finditer, finditer_pe. replace (length t <? 0) with false by reflexivity.
  unfold clip. rewrite Nat.min_id, Nat.min_0_l, Nat.sub_0_r.
  rewrite (finditer_loop_star cs ng t Hc) by lia. rewrite Nat.sub_0_r.
  rewrite (sub_build_empties ng t (S (length t)) 0 0) by lia. reflexivity.
Qed.
