(* Engine/RegexLift.v -- a match found on a short representative text exists in EVERY text that
   contains the same characters in the same word-boundary situation:
     lift      : a path through r on a state s1 has a twin on any state s2 that agrees with s1 on
                 the characters the path consumes and on the word-class of the two neighbours;
     scan_hit  : if the pattern matches at some position, search finds a match (the first one);
   together: "whenever this wording occurs, the pattern fires" for texts of any length.
   Patterns: everything except ^ $ and look-around (\b is allowed). *)
From Coq Require Import List NArith Arith Bool Lia.
From PyTRS Require Import Engine.Regex Engine.RegexSpec.
Import ListNotations.

Fixpoint liftable (r : re) : bool :=
  match r with
  | Eps | Chr _ | Bnd _ => true
  | Seq a b | Alt a b => liftable a && liftable b
  | Rep _ _ b | Grp _ b => liftable b
  | Ahead _ | Behind _ _ | Eos | Bos => false
  end.

Fixpoint bsets (r : re) : list (list (N * N)) :=
  match r with
  | Bnd ws => [ws]
  | Seq a b | Alt a b => bsets a ++ bsets b
  | Rep _ _ b | Grp _ b => bsets b
  | _ => []
  end.

Definition agree (B : list (list (N * N))) (o1 o2 : option N) : Prop :=
  forall ws, In ws B -> isword ws o1 = isword ws o2.

(* s1 and s2 have the same characters ahead (X), then t1 resp. t2; positions differ by d *)
Definition related (B : list (list (N * N))) (d : nat) (t1 t2 : list N) (s1 s2 : st) : Prop :=
  exists X, rest s1 = X ++ t1 /\ rest s2 = X ++ t2 /\ idx s2 = idx s1 + d /\ agree B (hd_error (pre s1)) (hd_error (pre s2)).

Lemma split_prefix {A} : forall (mid R X t : list A), mid ++ R = X ++ t -> length t <= length R ->
  exists X1, X = mid ++ X1 /\ R = X1 ++ t.
Proof.
  induction mid as [|c m IH]; intros R X t E Hl; cbn in E.
  - exists X. split; [reflexivity | exact E].
  - destruct X as [|c' X'].
    + exfalso. cbn in E. rewrite <- E in Hl. cbn in Hl. rewrite app_length in Hl. lia.
    + cbn in E. injection E as <- E. destruct (IH R X' t E Hl) as (X1 & -> & ->). exists X1. split; reflexivity.
Qed.

Lemma hd_rev_app {A} (mid : list A) (p1 p2 : list A) : mid <> [] -> hd_error (rev mid ++ p1) = hd_error (rev mid ++ p2).
Proof.
  intros H. destruct (rev mid) as [|x l] eqn:E; [|reflexivity].
  exfalso. apply H. rewrite <- (rev_involutive mid), E. reflexivity.
Qed.

Lemma related_step B d t1 t2 s1 s2 mid s1' s2' :
  related B d t1 t2 s1 s2 -> ext s1 mid s1' -> length t1 <= length (rest s1') -> ext s2 mid s2' ->
  related B d t1 t2 s1' s2'.
Proof.
  intros (X & R1 & R2 & I & A) (P1 & E1 & I1) Hl (P2 & E2 & I2).
  rewrite R1 in E1. symmetry in E1. destruct (split_prefix mid (rest s1') X t1 E1 Hl) as (X1 & -> & R1').
  exists X1. split; [exact R1'|]. split.
  - rewrite R2, <- app_assoc in E2. exact (app_inv_head _ _ _ (eq_sym E2)).
  - split; [lia|]. rewrite P1, P2. destruct mid as [|c m]; [exact A|].
    intros ws Hws. rewrite (hd_rev_app (c :: m) (pre s1) (pre s2)) by discriminate. reflexivity.
Qed.

Lemma at_bnd_related B d t1 t2 s1 s2 ws :
  In ws B -> agree B (hd_error t1) (hd_error t2) -> related B d t1 t2 s1 s2 -> at_bnd ws s1 = at_bnd ws s2.
Proof.
  intros Hws Ht (X & R1 & R2 & _ & A). unfold at_bnd. rewrite (A ws Hws), R1, R2.
  destruct X as [|c X']; [cbn; rewrite (Ht ws Hws); reflexivity | reflexivity].
Qed.

(* the Rep loop, named *)
Definition rloop (F : st -> caps -> list res) (mn : nat) (mx : option nat) :=
  fix loop (fuel cnt : nat) (lastp : option nat) (s : st) (g : caps) {struct fuel} : list res :=
    match fuel with
    | O => []
    | S fuel' =>
        if cnt <? mn then flat_map (fun x => loop fuel' (S cnt) lastp (fst x) (snd x)) (F s g)
        else if more mx cnt && notstuck lastp s then
          flat_map (fun x => loop fuel' (S cnt) (Some (idx s)) (fst x) (snd x)) (F s g) ++ [(s, g)]
        else [(s, g)]
    end.

Lemma ms_rep_rloop mn mx b s g : ms (Rep mn mx b) s g = rloop (ms b) mn mx (rep_fuel mn s) 0 None s g.
Proof. reflexivity. Qed.

Lemma rloop_extends F mn mx : (forall s g x, In x (F s g) -> extends s (fst x)) ->
  forall fuel cnt lastp s g p, In p (rloop F mn mx fuel cnt lastp s g) -> extends s (fst p).
Proof.
  intros HF. induction fuel as [|f IH]; intros cnt lastp s g p H; [destruct H|]. cbn [rloop] in H.
  destruct (cnt <? mn).
  - apply in_flat_map in H. destruct H as (q & Hq & Hp). eapply extends_trans; [exact (HF _ _ _ Hq) | exact (IH _ _ _ _ _ Hp)].
  - destruct (more mx cnt && notstuck lastp s).
    + apply in_app_or in H. destruct H as [H|[<-|[]]]; [|apply extends_refl].
      apply in_flat_map in H. destruct H as (q & Hq & Hp). eapply extends_trans; [exact (HF _ _ _ Hq) | exact (IH _ _ _ _ _ Hp)].
    + destruct H as [<-|[]]. apply extends_refl.
Qed.

Lemma extends_rest_len s s' : extends s s' -> length (rest s') <= length (rest s).
Proof. intros (mid & _ & R & _). rewrite R, app_length. lia. Qed.

Definition lifts (F : st -> caps -> list res) B d t1 t2 : Prop :=
  forall s1 g1 p1, In p1 (F s1 g1) -> length t1 <= length (rest (fst p1)) ->
  forall s2 g2, related B d t1 t2 s1 s2 ->
  exists p2 mid, In p2 (F s2 g2) /\ ext s1 mid (fst p1) /\ ext s2 mid (fst p2).

Lemma rloop_lift F mn mx B d t1 t2 :
  (forall s g x, In x (F s g) -> extends s (fst x)) -> lifts F B d t1 t2 ->
  forall fuel1 fuel2 cnt lastp s1 g1 p1, fuel1 <= fuel2 ->
  In p1 (rloop F mn mx fuel1 cnt lastp s1 g1) -> length t1 <= length (rest (fst p1)) ->
  forall s2 g2, related B d t1 t2 s1 s2 ->
  exists p2 mid, In p2 (rloop F mn mx fuel2 cnt (option_map (fun i => i + d) lastp) s2 g2) /\ ext s1 mid (fst p1) /\ ext s2 mid (fst p2).
Proof.
  intros HF HL. induction fuel1 as [|f1 IH]; intros fuel2 cnt lastp s1 g1 p1 Hf H Hlen s2 g2 Hrel; [destruct H|].
  destruct fuel2 as [|f2]; [lia|]. cbn [rloop] in H |- *.
  assert (Hns : notstuck (option_map (fun i => i + d) lastp) s2 = notstuck lastp s1).
  { destruct Hrel as (_ & _ & _ & I & _). destruct lastp as [i|]; [|reflexivity]. cbn. rewrite I.
    destruct (i =? idx s1) eqn:E; [apply Nat.eqb_eq in E; subst; rewrite Nat.eqb_refl; reflexivity|].
    apply Nat.eqb_neq in E. replace (i + d =? idx s1 + d) with false by (symmetry; apply Nat.eqb_neq; lia). reflexivity. }
  assert (Hstop : p1 = (s1, g1) -> exists p2 mid, (p2 = (s2, g2)) /\ ext s1 mid (fst p1) /\ ext s2 mid (fst p2)).
  { intros ->. exists (s2, g2), []. split; [reflexivity|]. split; apply ext_nil. }
  assert (Hiter : forall lp, (exists q, In q (F s1 g1) /\ In p1 (rloop F mn mx f1 (S cnt) lp (fst q) (snd q))) ->
            exists p2 mid, In p2 (flat_map (fun x => rloop F mn mx f2 (S cnt) (option_map (fun i => i + d) lp) (fst x) (snd x)) (F s2 g2))
                           /\ ext s1 mid (fst p1) /\ ext s2 mid (fst p2)).
  { intros lp (q1 & Hq1 & Hp1).
    assert (Hl1 : length t1 <= length (rest (fst q1))).
    { pose proof (extends_rest_len _ _ (rloop_extends F mn mx HF _ _ _ _ _ _ Hp1)). lia. }
    destruct (HL s1 g1 q1 Hq1 Hl1 s2 g2 Hrel) as (q2 & m1 & Hq2 & E1 & E2).
    pose proof (related_step _ _ _ _ _ _ _ _ _ Hrel E1 Hl1 E2) as Hrel'.
    destruct (IH f2 (S cnt) lp (fst q1) (snd q1) p1 ltac:(lia) Hp1 Hlen (fst q2) (snd q2) Hrel') as (p2 & m2 & Hp2 & E3 & E4).
    exists p2, (m1 ++ m2). split; [apply in_flat_map; exists q2; split; assumption|].
    split; eapply ext_trans; eassumption. }
  destruct (cnt <? mn).
  - apply in_flat_map in H. exact (Hiter lastp H).
  - rewrite Hns. destruct (more mx cnt && notstuck lastp s1).
    + apply in_app_or in H. destruct H as [H|[<-|[]]].
      * apply in_flat_map in H. destruct (Hiter (Some (idx s1)) H) as (p2 & mid & Hp2 & E).
        exists p2, mid. split; [|exact E]. apply in_or_app. left.
        cbn [option_map] in Hp2. destruct Hrel as (_ & _ & _ & I & _). rewrite I. exact Hp2.
      * destruct (Hstop eq_refl) as (p2 & mid & -> & E). exists (s2, g2), mid. split; [apply in_or_app; right; left; reflexivity | exact E].
    + destruct H as [<-|[]]. destruct (Hstop eq_refl) as (p2 & mid & -> & E). exists (s2, g2), mid. split; [left; reflexivity | exact E].
Qed.

Theorem lift : forall r, liftable r = true -> forall B d t1 t2,
  incl (bsets r) B -> agree B (hd_error t1) (hd_error t2) -> length t1 <= length t2 -> lifts (ms r) B d t1 t2.
Proof.
  induction r as [|cs|a IHa b IHb|a IHa b IHb|mn mx b IHb|i b IHb|b IHb|w b IHb|ws| |];
    intros Hl B d t1 t2 HB Ht Hlt s1 g1 p1 Hin Hlen s2 g2 Hrel; cbn [liftable] in Hl; try discriminate.
  - destruct Hin as [<-|[]]. exists (s2, g2), []. split; [left; reflexivity|]. split; apply ext_nil.
  - destruct (ext_chr _ _ _ _ Hin) as (c & Hc & E1 & _).
    destruct Hrel as (X & R1 & R2 & I & A). destruct E1 as (P1 & E1 & I1). cbn [app] in E1.
    destruct X as [|c' X'].
    + exfalso. cbn in R1. rewrite R1 in E1. rewrite E1 in Hlen. cbn in Hlen. lia.
    + rewrite R1 in E1. cbn in E1. injection E1 as -> E1.
      exists (adv s2 [c], g2), [c]. split; [apply (in_ms_chr_adv cs s2 g2 c (X' ++ t2)); [exact R2 | exact Hc]|].
      split; [repeat split; [exact P1 | rewrite R1; cbn; rewrite E1; reflexivity | exact I1] | apply (ext_adv s2 [c] (X' ++ t2)); exact R2].
  - apply andb_true_iff in Hl. destruct Hl as [La Lb]. cbn [bsets] in HB.
    apply in_ms_seq in Hin. destruct Hin as (q1 & Hq1 & Hp1).
    assert (Hl1 : length t1 <= length (rest (fst q1))) by (pose proof (extends_rest_len _ _ (ms_extends _ _ _ _ Hp1)); lia).
    destruct (IHa La B d t1 t2 ltac:(intros z Hz; apply HB, in_or_app; auto) Ht Hlt s1 g1 q1 Hq1 Hl1 s2 g2 Hrel) as (q2 & m1 & Hq2 & E1 & E2).
    pose proof (related_step _ _ _ _ _ _ _ _ _ Hrel E1 Hl1 E2) as Hrel'.
    destruct (IHb Lb B d t1 t2 ltac:(intros z Hz; apply HB, in_or_app; auto) Ht Hlt (fst q1) (snd q1) p1 Hp1 Hlen (fst q2) (snd q2) Hrel') as (p2 & m2 & Hp2 & E3 & E4).
    exists p2, (m1 ++ m2). split; [apply in_ms_seq; exists q2; split; assumption|]. split; eapply ext_trans; eassumption.
  - apply andb_true_iff in Hl. destruct Hl as [La Lb]. cbn [bsets] in HB. apply in_ms_alt in Hin. destruct Hin as [Hin|Hin].
    + destruct (IHa La B d t1 t2 ltac:(intros z Hz; apply HB, in_or_app; auto) Ht Hlt s1 g1 p1 Hin Hlen s2 g2 Hrel) as (p2 & mid & Hp2 & E).
      exists p2, mid. split; [apply in_ms_alt; left; exact Hp2 | exact E].
    + destruct (IHb Lb B d t1 t2 ltac:(intros z Hz; apply HB, in_or_app; auto) Ht Hlt s1 g1 p1 Hin Hlen s2 g2 Hrel) as (p2 & mid & Hp2 & E).
      exists p2, mid. split; [apply in_ms_alt; right; exact Hp2 | exact E].
  - cbn [bsets] in HB. rewrite ms_rep_rloop in Hin.
    assert (Hfuel : rep_fuel mn s1 <= rep_fuel mn s2).
    { unfold rep_fuel. destruct Hrel as (X & R1 & R2 & _). rewrite R1, R2, !app_length. lia. }
    destruct (rloop_lift (ms b) mn mx B d t1 t2 (fun s g x => ms_extends b s g x) (IHb Hl B d t1 t2 HB Ht Hlt)
                         _ _ 0 None s1 g1 p1 Hfuel Hin Hlen s2 g2 Hrel) as (p2 & mid & Hp2 & E).
    exists p2, mid. split; [rewrite ms_rep_rloop; exact Hp2 | exact E].
  - cbn [bsets] in HB. apply in_ms_grp in Hin. destruct Hin as (q1 & Hq1 & ->). cbn [fst] in Hlen.
    destruct (IHb Hl B d t1 t2 HB Ht Hlt s1 g1 q1 Hq1 Hlen s2 g2 Hrel) as (q2 & mid & Hq2 & E).
    exists (fst q2, setg (snd q2) i (idx s2, idx (fst q2))), mid. split; [apply in_ms_grp; exists q2; split; [exact Hq2 | reflexivity] | exact E].
  - cbn [ms] in Hin. destruct (at_bnd ws s1) eqn:Eb; [|destruct Hin]. destruct Hin as [<-|[]].
    exists (s2, g2), []. split; [|split; apply ext_nil]. cbn [ms].
    rewrite <- (at_bnd_related B d t1 t2 s1 s2 ws (HB _ (or_introl eq_refl)) Ht Hrel), Eb. left. reflexivity.
Qed.

(* ================================================================== *)
(* search finds a match whenever the pattern matches somewhere *)
Lemma adv_nil s : adv s [] = s.
Proof. destruct s. unfold adv. cbn. f_equal. lia. Qed.

Lemma match_at_hit r ng s p : In p (ms r s (init_caps ng)) -> match_at r ng false s <> None.
Proof.
  intros H. unfold match_at. rewrite m_spec. cbn [andb].
  pose proof (first_some_exists (fun x : res => Some x) _ p H ltac:(discriminate)) as K.
  destruct (first_some _ (ms r s (init_caps ng))); [discriminate | contradiction].
Qed.

Lemma scan_hit r ng : forall u s ma fuel r', length u <= fuel -> rest s = u ++ r' ->
  match_at r ng false (adv s u) <> None -> (u = [] -> ma = false) -> scan fuel r ng ma s <> None.
Proof.
  induction u as [|c u IH]; intros s ma fuel r' Hf Hr Hm Hma.
  - rewrite adv_nil in Hm. rewrite (Hma eq_refl). destruct fuel; cbn [scan]; destruct (match_at r ng false s); congruence.
  - cbn [length] in Hf. destruct fuel as [|f]; [lia|]. cbn [scan]. destruct (match_at r ng ma s); [discriminate|].
    unfold fwd. rewrite Hr. cbn [app].
    change (mkst (c :: pre s) (u ++ r') (S (idx s))) with (mkst (c :: pre s) (u ++ r') (S (idx s))).
    assert (E : mkst (c :: pre s) (u ++ r') (S (idx s)) = adv s [c]).
    { unfold adv. cbn. rewrite Hr. cbn. f_equal. lia. }
    rewrite E. apply (IH (adv s [c]) false f r'); [lia | apply (adv_rest s [c]); exact Hr | rewrite adv_app; exact Hm | reflexivity].
Qed.

Theorem search_hit r ng u rest' p :
  In p (ms r (adv (mkst [] (u ++ rest') 0) u) (init_caps ng)) -> search r ng (u ++ rest') <> None.
Proof.
  intros H. unfold search, search_pe. replace (length (u ++ rest') <? 0) with false by reflexivity.
  unfold clip. rewrite Nat.min_id, Nat.min_0_l, Nat.sub_0_r, st_at_full.
  apply (scan_hit r ng u _ false _ rest'); [rewrite app_length; lia | reflexivity | exact (match_at_hit r ng _ p H) | reflexivity].
Qed.

(* the representative computation and its lifting *)
Definition optl (o : option N) : list N := match o with Some c => [c] | None => [] end.

Definition fires (r : re) (ng : nat) (lrep rrep : option N) (w : list N) : bool :=
  existsb (fun p : res => length (optl rrep) <=? length (rest (fst p)))
          (ms r (mkst (optl lrep) (w ++ optl rrep) 0) (init_caps ng)).

Theorem fires_everywhere r ng lrep rrep w :
  liftable r = true -> fires r ng lrep rrep w = true ->
  forall u v, agree (bsets r) lrep (hd_error (rev u)) -> agree (bsets r) rrep (hd_error v) -> length (optl rrep) <= length v ->
  search r ng (u ++ w ++ v) <> None.
Proof.
  intros Hl Hf u v Al Ar Hlen. unfold fires in Hf. apply existsb_exists in Hf. destruct Hf as (p1 & Hin & Hp). apply Nat.leb_le in Hp.
  set (s1 := mkst (optl lrep) (w ++ optl rrep) 0) in *. set (s2 := adv (mkst [] (u ++ w ++ v) 0) u).
  assert (Hrel : related (bsets r) (length u) (optl rrep) v s1 s2).
  { exists w. split; [reflexivity|]. split; [apply (adv_rest _ u); reflexivity|]. split; [reflexivity|].
    unfold s1, s2, adv. cbn [pre]. rewrite app_nil_r. destruct lrep; exact Al. }
  assert (At : agree (bsets r) (hd_error (optl rrep)) (hd_error v)) by (destruct rrep; exact Ar).
  destruct (lift r Hl (bsets r) (length u) (optl rrep) v (incl_refl _) At Hlen s1 (init_caps ng) p1 Hin Hp s2 (init_caps ng) Hrel) as (p2 & mid & Hp2 & _).
  exact (search_hit r ng u (w ++ v) p2 Hp2).
Qed.
