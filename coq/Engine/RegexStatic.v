(* Engine/RegexStatic.v -- facts about a match that can be read off the pattern:
     ms_chars    : the characters a path consumes belong to the character sets of the pattern;
     group_chars : whatever a path captures in group j consists of characters of the sets that
                   occur inside group j (so "the township number group holds digits only" is a
                   computation on the regenerated pattern, valid for every text). *)
From Coq Require Import List NArith Arith Bool Lia.
From PyTRS Require Import Engine.Regex Engine.RegexSpec.
Import ListNotations.

Definition inS (S : list (list (N * N))) (c : N) : Prop := exists cs, In cs S /\ in_ranges c cs = true.

Lemma inS_incl S S' c : incl S S' -> inS S c -> inS S' c.
Proof. intros H (cs & Hin & Hc). exists cs. split; [apply H; exact Hin | exact Hc]. Qed.

Lemma Forall_inS_incl S S' l : incl S S' -> Forall (inS S) l -> Forall (inS S') l.
Proof. intros H. apply Forall_impl. intros c. apply inS_incl. exact H. Qed.

Theorem ms_chars : forall r s g p, In p (ms r s g) -> exists mid, ext s mid (fst p) /\ Forall (inS (csets r)) mid.
Proof.
  induction r as [|cs|a IHa b IHb|a IHa b IHb|mn mx b IHb|i b IHb|b IHb|w b IHb|ws| |]; intros s g p Hin.
  - destruct Hin as [<-|[]]. exists []. split; [apply ext_nil | constructor].
  - destruct (ext_chr _ _ _ _ Hin) as (c & Hc & E & _). exists [c]. split; [exact E|]. constructor; [|constructor].
    exists cs. split; [left; reflexivity | exact Hc].
  - apply in_ms_seq in Hin. destruct Hin as (q & Hq & Hp).
    destruct (IHa _ _ _ Hq) as (m1 & E1 & F1). destruct (IHb _ _ _ Hp) as (m2 & E2 & F2).
    exists (m1 ++ m2). split; [exact (ext_trans _ _ _ _ _ E1 E2)|]. cbn [csets]. apply Forall_app. split.
    + eapply Forall_inS_incl; [|exact F1]. apply incl_appl, incl_refl.
    + eapply Forall_inS_incl; [|exact F2]. apply incl_appr, incl_refl.
  - apply in_ms_alt in Hin. cbn [csets]. destruct Hin as [H|H].
    + destruct (IHa _ _ _ H) as (m & E & F). exists m. split; [exact E|]. eapply Forall_inS_incl; [|exact F]. apply incl_appl, incl_refl.
    + destruct (IHb _ _ _ H) as (m & E & F). exists m. split; [exact E|]. eapply Forall_inS_incl; [|exact F]. apply incl_appr, incl_refl.
  - apply in_ms_rep in Hin. destruct Hin as (n & Hc & _). cbn [csets].
    induction Hc as [s g|n s g q p Hq Hc IH]; [exists []; split; [apply ext_nil | constructor]|].
    destruct (IHb _ _ _ Hq) as (m1 & E1 & F1). destruct IH as (m2 & E2 & F2).
    exists (m1 ++ m2). split; [exact (ext_trans _ _ _ _ _ E1 E2) | apply Forall_app; split; assumption].
  - apply in_ms_grp in Hin. destruct Hin as (q & Hq & ->). exact (IHb _ _ _ Hq).
  - cbn [ms] in Hin. destruct (ms b s g); [destruct Hin|]. destruct Hin as [<-|[]]. exists []. split; [apply ext_nil | constructor].
  - cbn [ms] in Hin. destruct (back w s); [|destruct Hin]. destruct (ms b s0 g); [destruct Hin|]. destruct Hin as [<-|[]].
    exists []. split; [apply ext_nil | constructor].
  - cbn [ms] in Hin. destruct (at_bnd ws s); [|destruct Hin]. destruct Hin as [<-|[]]. exists []. split; [apply ext_nil | constructor].
  - cbn [ms] in Hin. destruct (at_eos s); [|destruct Hin]. destruct Hin as [<-|[]]. exists []. split; [apply ext_nil | constructor].
  - cbn [ms] in Hin. destruct (idx s); [|destruct Hin]. destruct Hin as [<-|[]]. exists []. split; [apply ext_nil | constructor].
Qed.

(* the character sets occurring inside group j *)
Fixpoint gsets (r : re) (j : nat) : list (list (N * N)) :=
  match r with
  | Grp i b => (if i =? j then csets b else []) ++ gsets b j
  | Seq a b | Alt a b => gsets a j ++ gsets b j
  | Rep _ _ b | Ahead b | Behind _ b => gsets b j
  | _ => []
  end.

Definition gfact (S : list (list (N * N))) (x : str) (g g' : caps) (j : nat) : Prop :=
  getg g' j = getg g j \/ exists a b, getg g' j = Some (a, b) /\ Forall (inS S) (slice x a b).

Lemma gfact_refl S x g j : gfact S x g g j.
Proof. left. reflexivity. Qed.

Lemma gfact_trans S1 S2 S x g g' g'' j : incl S1 S -> incl S2 S -> gfact S1 x g g' j -> gfact S2 x g' g'' j -> gfact S x g g'' j.
Proof.
  intros H1 H2 [E1|(a & b & E1 & F1)] [E2|(a' & b' & E2 & F2)].
  - left. congruence.
  - right. exists a', b'. split; [exact E2 | exact (Forall_inS_incl _ _ _ H2 F2)].
  - right. exists a, b. split; [congruence | exact (Forall_inS_incl _ _ _ H1 F1)].
  - right. exists a', b'. split; [exact E2 | exact (Forall_inS_incl _ _ _ H2 F2)].
Qed.

Lemma setg_oob : forall g i v, length g <= i -> setg g i v = g.
Proof.
  induction g as [|h t IH]; intros [|i] v H; cbn in *; try reflexivity; [lia|]. rewrite IH by lia. reflexivity.
Qed.

Lemma back_wf_text : forall w s s0, back w s = Some s0 -> wf_st s -> wf_st s0 /\ text_of s0 = text_of s.
Proof.
  induction w as [|w IH]; intros s s0 H Hwf; cbn [back] in H; [injection H as <-; auto|].
  destruct (pre s) as [|c p] eqn:Ep; [discriminate|].
  destruct (IH _ _ H) as [W T].
  - unfold wf_st in *. cbn. rewrite Ep in Hwf. cbn in Hwf. lia.
  - split; [exact W|]. rewrite T. unfold text_of. cbn. rewrite Ep. cbn. rewrite <- app_assoc. reflexivity.
Qed.

Theorem group_chars : forall r s g p, wf_st s -> In p (ms r s g) -> forall j, gfact (gsets r j) (text_of s) g (snd p) j.
Proof.
  induction r as [|cs|a IHa b IHb|a IHa b IHb|mn mx b IHb|i b IHb|b IHb|w b IHb|ws| |]; intros s g p Hwf Hin j.
  - destruct Hin as [<-|[]]. apply gfact_refl.
  - apply in_ms_chr in Hin. destruct Hin as (c & t & _ & _ & ->). apply gfact_refl.
  - apply in_ms_seq in Hin. destruct Hin as (q & Hq & Hp). cbn [gsets].
    pose proof (ms_extends _ _ _ _ Hq) as Ex.
    eapply gfact_trans; [apply incl_appl, incl_refl | apply incl_appr, incl_refl | exact (IHa _ _ _ Hwf Hq j) |].
    rewrite <- (extends_text _ _ Ex). exact (IHb _ _ _ (extends_wf _ _ Ex Hwf) Hp j).
  - apply in_ms_alt in Hin. cbn [gsets]. destruct Hin as [H|H].
    + eapply gfact_trans; [apply incl_appl, incl_refl | apply incl_refl | exact (IHa _ _ _ Hwf H j) | apply gfact_refl].
    + eapply gfact_trans; [apply incl_refl | apply incl_appr, incl_refl | apply gfact_refl | exact (IHb _ _ _ Hwf H j)].
  - apply in_ms_rep in Hin. destruct Hin as (n & Hc & _). cbn [gsets].
    induction Hc as [s g|n s g q p Hq Hc IH]; [apply gfact_refl|].
    pose proof (ms_extends _ _ _ _ Hq) as Ex.
    eapply gfact_trans; [apply incl_refl | apply incl_refl | exact (IHb _ _ _ Hwf Hq j) |].
    rewrite <- (extends_text _ _ Ex). exact (IH (extends_wf _ _ Ex Hwf)).
  - apply in_ms_grp in Hin. destruct Hin as (q & Hq & ->). cbn [snd fst gsets].
    pose proof (IHb _ _ _ Hwf Hq j) as Hj.
    destruct (Nat.eq_dec i j) as [->|Ne].
    + rewrite Nat.eqb_refl. destruct (Nat.lt_ge_cases j (length (snd q))) as [Hlt|Hge].
      * right. exists (idx s), (idx (fst q)). split; [apply getg_setg_same; exact Hlt|].
        destruct (ms_chars _ _ _ _ Hq) as (mid & E & F). rewrite (ext_slice _ _ _ Hwf E).
        eapply Forall_inS_incl; [|exact F]. apply incl_appl, incl_refl.
      * rewrite setg_oob by exact Hge. eapply gfact_trans; [apply incl_appr, incl_refl | apply incl_refl | exact Hj | apply gfact_refl].
    + replace (i =? j) with false by (symmetry; apply Nat.eqb_neq; exact Ne). cbn [app].
      destruct Hj as [E|(a & b0 & E & F)]; [left | right; exists a, b0; split; [|exact F]]; rewrite getg_setg_other by exact Ne; exact E.
  - cbn [ms] in Hin. destruct (ms b s g) as [|x t] eqn:E; [destruct Hin|]. destruct Hin as [<-|[]]. cbn [snd gsets].
    apply (IHb s g x Hwf). rewrite E. left. reflexivity.
  - cbn [ms] in Hin. destruct (back w s) as [s0|] eqn:Eb; [|destruct Hin].
    destruct (ms b s0 g) as [|x t] eqn:E; [destruct Hin|]. destruct Hin as [<-|[]]. cbn [snd gsets].
    destruct (back_wf_text _ _ _ Eb Hwf) as [W T]. rewrite <- T. apply (IHb s0 g x W). rewrite E. left. reflexivity.
  - cbn [ms] in Hin. destruct (at_bnd ws s); [|destruct Hin]. destruct Hin as [<-|[]]. apply gfact_refl.
  - cbn [ms] in Hin. destruct (at_eos s); [|destruct Hin]. destruct Hin as [<-|[]]. apply gfact_refl.
  - cbn [ms] in Hin. destruct (idx s); [|destruct Hin]. destruct Hin as [<-|[]]. apply gfact_refl.
Qed.

(* ---------------- the same, for the match objects the API hands out ---------------- *)
Lemma getg_init ng j : getg (init_caps ng) j = None.
Proof.
  unfold getg, init_caps. destruct (nth_error (repeat None (S ng)) j) as [o|] eqn:E; [|reflexivity].
  apply nth_error_In, repeat_spec in E. subst o. reflexivity.
Qed.

Lemma match_at_caps r ng ma s x : match_at r ng ma s = Some x -> exists p, In p (ms r s (init_caps ng)) /\ mcaps x = snd p.
Proof.
  unfold match_at. destruct (m r s (init_caps ng) _) as [y|] eqn:E; [|discriminate]. intros H. injection H as <-.
  destruct (m_path _ _ _ _ _ E) as (p & Hin & Hk). exists p. split; [exact Hin|].
  destruct (ma && (idx (fst p) =? idx s)); [discriminate|]. injection Hk as <-. reflexivity.
Qed.

Lemma fwd_wf_text s s' : fwd s = Some s' -> wf_st s -> wf_st s' /\ text_of s' = text_of s.
Proof.
  unfold fwd. destruct (rest s) as [|c t] eqn:E; [discriminate|]. intros H Hwf. injection H as <-. split.
  - unfold wf_st in *. cbn. lia.
  - unfold text_of. cbn. rewrite E, <- app_assoc. reflexivity.
Qed.

Lemma scan_caps r ng : forall fuel ma s x, wf_st s -> scan fuel r ng ma s = Some x ->
  exists s' p, wf_st s' /\ text_of s' = text_of s /\ In p (ms r s' (init_caps ng)) /\ mcaps x = snd p.
Proof.
  induction fuel as [|f IH]; intros ma s x Hwf H; cbn [scan] in H.
  - destruct (match_at r ng ma s) as [y|] eqn:E; [|discriminate]. injection H as <-.
    destruct (match_at_caps _ _ _ _ _ E) as (p & Hin & Hc). exists s, p. auto.
  - destruct (match_at r ng ma s) as [y|] eqn:E.
    + injection H as <-. destruct (match_at_caps _ _ _ _ _ E) as (p & Hin & Hc). exists s, p. auto.
    + destruct (fwd s) as [s1|] eqn:Ef; [|discriminate]. destruct (fwd_wf_text _ _ Ef Hwf) as [W T].
      destruct (IH _ _ _ W H) as (s' & p & W' & T' & Hin & Hc). exists s', p. repeat split; try assumption. congruence.
Qed.

Lemma st_at_wf_text t p : p <= length t -> wf_st (st_at t p (length t)) /\ text_of (st_at t p (length t)) = t.
Proof.
  intros Hp. unfold st_at. rewrite firstn_all. split.
  - unfold wf_st. cbn. rewrite rev_length, firstn_length. lia.
  - unfold text_of. cbn. rewrite rev_involutive. apply firstn_skipn.
Qed.

Lemma scan_group_chars r ng fuel ma t p x j v : p <= length t ->
  scan fuel r ng ma (st_at t p (length t)) = Some x -> group t x j = Some v -> Forall (inS (gsets r j)) v.
Proof.
  intros Hp H Hg. destruct (st_at_wf_text t p Hp) as [W T].
  destruct (scan_caps r ng fuel ma _ x W H) as (s' & q & W' & T' & Hin & Hc).
  pose proof (group_chars r s' (init_caps ng) q W' Hin j) as [E|(a & b & E & F)].
  - exfalso. unfold group in Hg. rewrite Hc, E, getg_init in Hg. discriminate.
  - unfold group in Hg. rewrite Hc, E in Hg. injection Hg as <-. rewrite T', T in F. exact F.
Qed.

Lemma finditer_loop_in r ng t : forall fuel p ma x, p <= length t -> In x (finditer_loop fuel r ng t (length t) p ma) ->
  exists fuel' p' ma', p' <= length t /\ scan fuel' r ng ma' (st_at t p' (length t)) = Some x.
Proof.
  induction fuel as [|f IH]; intros p ma x Hp H; [destruct H|]. cbn [finditer_loop] in H.
  destruct (scan (length t - p) r ng ma (st_at t p (length t))) as [y|] eqn:E; [|destruct H].
  destruct H as [<-|H]; [exists (length t - p), p, ma; auto|].
  destruct (st_at_wf_text t p Hp) as [W T].
  assert (Hend : mend y <= length t).
  { destruct (scan_caps r ng _ _ _ _ W E) as (s' & q & W' & T' & Hin & _).
    clear H. revert E. generalize (length t - p) as fuel. intros fuel E.
    (* the end of a match lies inside the text *)
    assert (G : forall fuel ma s y, wf_st s -> scan fuel r ng ma s = Some y -> mend y <= length (text_of s)).
    { clear. induction fuel as [|f IH]; intros ma s y Hwf H; cbn [scan] in H.
      - destruct (match_at r ng ma s) as [z|] eqn:E; [|discriminate]. injection H as <-.
        destruct (match_at_span _ _ _ _ _ Hwf E) as (_ & _ & K). unfold text_of. rewrite app_length, rev_length. unfold wf_st in Hwf. lia.
      - destruct (match_at r ng ma s) as [z|] eqn:E.
        + injection H as <-. destruct (match_at_span _ _ _ _ _ Hwf E) as (_ & _ & K). unfold text_of. rewrite app_length, rev_length. unfold wf_st in Hwf. lia.
        + destruct (fwd s) as [s1|] eqn:Ef; [|discriminate]. destruct (fwd_wf_text _ _ Ef Hwf) as [W T]. rewrite <- T. exact (IH _ _ _ W H). }
    pose proof (G _ _ _ _ W E) as K. rewrite T in K. exact K. }
  exact (IH _ _ _ Hend H).
Qed.

Theorem finditer_group_chars r ng t x j v :
  In x (finditer r ng t) -> group t x j = Some v -> Forall (inS (gsets r j)) v.
Proof.
  unfold finditer, finditer_pe. replace (length t <? 0) with false by reflexivity. unfold clip. rewrite Nat.min_id, Nat.min_0_l.
  intros H Hg. destruct (finditer_loop_in r ng t _ _ _ x (Nat.le_0_l _) H) as (fuel' & p' & ma' & Hp & Hs).
  exact (scan_group_chars r ng fuel' ma' t p' x j v Hp Hs Hg).
Qed.

(* ================================================================== *)
(* groups that every path sets, and how long their content is at least *)
Fixpoint always_set (r : re) (j : nat) : bool :=
  match r with
  | Grp i b => (i =? j) || always_set b j
  | Seq a b => always_set a j || always_set b j
  | Alt a b => always_set a j && always_set b j
  | Rep mn _ b => (1 <=? mn) && always_set b j
  | Ahead b | Behind _ b => always_set b j
  | _ => false
  end.

Lemma ms_keeps : forall r s g p j, In p (ms r s g) -> getg g j <> None -> getg (snd p) j <> None.
Proof.
  induction r as [|cs|a IHa b IHb|a IHa b IHb|mn mx b IHb|i b IHb|b IHb|w b IHb|ws| |]; intros s g p j Hin Hg.
  - destruct Hin as [<-|[]]. exact Hg.
  - apply in_ms_chr in Hin. destruct Hin as (c & t & _ & _ & ->). exact Hg.
  - apply in_ms_seq in Hin. destruct Hin as (q & Hq & Hp). exact (IHb _ _ _ _ Hp (IHa _ _ _ _ Hq Hg)).
  - apply in_ms_alt in Hin. destruct Hin as [H|H]; [exact (IHa _ _ _ _ H Hg) | exact (IHb _ _ _ _ H Hg)].
  - apply in_ms_rep in Hin. destruct Hin as (n & Hc & _). induction Hc as [s g|n s g q p Hq Hc IH]; [exact Hg|]. exact (IH (IHb _ _ _ _ Hq Hg)).
  - apply in_ms_grp in Hin. destruct Hin as (q & Hq & ->). cbn [snd]. pose proof (IHb _ _ _ _ Hq Hg) as K.
    destruct (Nat.eq_dec i j) as [->|Ne]; [|rewrite getg_setg_other by exact Ne; exact K].
    destruct (Nat.lt_ge_cases j (length (snd q))) as [Hlt|Hge]; [rewrite getg_setg_same by exact Hlt; discriminate | rewrite setg_oob by exact Hge; exact K].
  - cbn [ms] in Hin. destruct (ms b s g) as [|x t] eqn:E; [destruct Hin|]. destruct Hin as [<-|[]]. apply (IHb s g x j); [rewrite E; left; reflexivity | exact Hg].
  - cbn [ms] in Hin. destruct (back w s) as [s0|]; [|destruct Hin]. destruct (ms b s0 g) as [|x t] eqn:E; [destruct Hin|]. destruct Hin as [<-|[]].
    apply (IHb s0 g x j); [rewrite E; left; reflexivity | exact Hg].
  - cbn [ms] in Hin. destruct (at_bnd ws s); [|destruct Hin]. destruct Hin as [<-|[]]. exact Hg.
  - cbn [ms] in Hin. destruct (at_eos s); [|destruct Hin]. destruct Hin as [<-|[]]. exact Hg.
  - cbn [ms] in Hin. destruct (idx s); [|destruct Hin]. destruct Hin as [<-|[]]. exact Hg.
Qed.

Theorem always_set_sound : forall r s g p j, always_set r j = true -> j < length g -> In p (ms r s g) -> getg (snd p) j <> None.
Proof.
  induction r as [|cs|a IHa b IHb|a IHa b IHb|mn mx b IHb|i b IHb|b IHb|w b IHb|ws| |]; intros s g p j Ha Hj Hin; cbn [always_set] in Ha; try discriminate.
  - apply in_ms_seq in Hin. destruct Hin as (q & Hq & Hp). apply orb_true_iff in Ha. destruct Ha as [Ha|Ha].
    + exact (ms_keeps _ _ _ _ _ Hp (IHa _ _ _ _ Ha Hj Hq)).
    + apply (IHb (fst q) (snd q) p j Ha); [|exact Hp]. destruct (ms_frame _ _ _ _ Hq) as [L _]. rewrite L. exact Hj.
  - apply andb_true_iff in Ha. destruct Ha as [A B]. apply in_ms_alt in Hin. destruct Hin as [H|H]; [exact (IHa _ _ _ _ A Hj H) | exact (IHb _ _ _ _ B Hj H)].
  - apply andb_true_iff in Ha. destruct Ha as [A B]. apply Nat.leb_le in A. apply in_ms_rep in Hin. destruct Hin as (n & Hc & [Hn _]).
    destruct Hc as [s g|n s g q p Hq Hc]; [lia|].
    assert (K : getg (snd q) j <> None) by exact (IHb _ _ _ _ B Hj Hq).
    clear -Hc K. induction Hc as [s g|n s g q' p Hq' Hc IH]; [exact K|]. exact (IH (ms_keeps _ _ _ _ _ Hq' K)).
  - apply in_ms_grp in Hin. destruct Hin as (q & Hq & ->). cbn [snd]. destruct (ms_frame _ _ _ _ Hq) as [L _].
    destruct (Nat.eq_dec i j) as [->|Ne]; [rewrite getg_setg_same by (rewrite L; exact Hj); discriminate|].
    rewrite getg_setg_other by exact Ne. apply orb_true_iff in Ha. destruct Ha as [Ha|Ha]; [apply Nat.eqb_eq in Ha; contradiction | exact (IHb _ _ _ _ Ha Hj Hq)].
  - cbn [ms] in Hin. destruct (ms b s g) as [|x t] eqn:E; [destruct Hin|]. destruct Hin as [<-|[]]. apply (IHb s g x j Ha Hj). rewrite E. left. reflexivity.
  - cbn [ms] in Hin. destruct (back w s) as [s0|]; [|destruct Hin]. destruct (ms b s0 g) as [|x t] eqn:E; [destruct Hin|]. destruct Hin as [<-|[]].
    apply (IHb s0 g x j Ha Hj). rewrite E. left. reflexivity.
Qed.

(* every path through r consumes at least minw r characters *)
Fixpoint minw (r : re) : nat :=
  match r with
  | Chr _ => 1
  | Seq a b => minw a + minw b
  | Alt a b => Nat.min (minw a) (minw b)
  | Rep mn _ b => mn * minw b
  | Grp _ b => minw b
  | _ => 0
  end.

Theorem ms_minw : forall r s g p mid, In p (ms r s g) -> ext s mid (fst p) -> minw r <= length mid.
Proof.
  assert (U : forall s m1 m2 s', ext s m1 s' -> ext s m2 s' -> m1 = m2).
  { intros s m1 m2 s' (_ & R1 & _) (_ & R2 & _). rewrite R1 in R2. exact (app_inv_tail _ _ _ R2). }
  induction r as [|cs|a IHa b IHb|a IHa b IHb|mn mx b IHb|i b IHb|b IHb|w b IHb|ws| |]; intros s g p mid Hin He; cbn [minw]; try lia.
  - destruct (ext_chr _ _ _ _ Hin) as (c & _ & E & _). rewrite (U _ _ _ _ He E). cbn. lia.
  - apply in_ms_seq in Hin. destruct Hin as (q & Hq & Hp).
    destruct (ms_extends _ _ _ _ Hq) as (m1 & E1). destruct (ms_extends _ _ _ _ Hp) as (m2 & E2).
    rewrite (U _ _ _ _ He (ext_trans _ _ _ _ _ E1 E2)), app_length. pose proof (IHa _ _ _ _ Hq E1). pose proof (IHb _ _ _ _ Hp E2). lia.
  - apply in_ms_alt in Hin. destruct Hin as [H|H]; [pose proof (IHa _ _ _ _ H He) | pose proof (IHb _ _ _ _ H He)]; lia.
  - apply in_ms_rep in Hin. destruct Hin as (n & Hc & [Hn _]).
    enough (K : n * minw b <= length mid) by nia.
    clear Hn. revert mid He. induction Hc as [s g|n s g q p Hq Hc IH]; intros mid He; [cbn; lia|].
    destruct (ms_extends _ _ _ _ Hq) as (m1 & E1).
    assert (E2 : exists m2, ext (fst q) m2 (fst p)).
    { clear -Hc. induction Hc as [s g|n s g q' p Hq' Hc IH]; [exists []; apply ext_nil|]. destruct (ms_extends _ _ _ _ Hq') as (m1 & E1). destruct IH as (m2 & E2).
      exists (m1 ++ m2). exact (ext_trans _ _ _ _ _ E1 E2). }
    destruct E2 as (m2 & E2). rewrite (U _ _ _ _ He (ext_trans _ _ _ _ _ E1 E2)), app_length.
    pose proof (IHb _ _ _ _ Hq E1). pose proof (IH m2 E2). cbn. lia.
  - apply in_ms_grp in Hin. destruct Hin as (q & Hq & ->). exact (IHb _ _ _ _ Hq He).
Qed.

(* an upper bound on what a path can consume (None: unbounded) *)
Fixpoint maxw (r : re) : option nat :=
  match r with
  | Chr _ => Some 1
  | Seq a b => match maxw a, maxw b with Some x, Some y => Some (x + y) | _, _ => None end
  | Alt a b => match maxw a, maxw b with Some x, Some y => Some (Nat.max x y) | _, _ => None end
  | Rep mn (Some x) b => match maxw b with Some y => Some (Nat.max x mn * y) | None => None end
  | Rep _ None _ => None
  | Grp _ b => maxw b
  | _ => Some 0
  end.

Theorem ms_maxw : forall r s g p mid k, In p (ms r s g) -> ext s mid (fst p) -> maxw r = Some k -> length mid <= k.
Proof.
  assert (U : forall s m1 m2 s', ext s m1 s' -> ext s m2 s' -> m1 = m2).
  { intros s m1 m2 s' (_ & R1 & _) (_ & R2 & _). rewrite R1 in R2. exact (app_inv_tail _ _ _ R2). }
  assert (Z0 : forall (s : st) (g : caps) (p : res) mid, p = (s, g) -> ext s mid (fst p) -> length mid = 0).
  { intros s g p mid -> E. rewrite (U _ _ _ _ E (ext_nil s)). reflexivity. }
  induction r as [|cs|a IHa b IHb|a IHa b IHb|mn mx b IHb|i b IHb|b IHb|w b IHb|ws| |]; intros s g p mid k Hin He Hk; cbn [maxw] in Hk.
  - destruct Hin as [<-|[]]. rewrite (Z0 _ _ _ _ eq_refl He). lia.
  - injection Hk as <-. destruct (ext_chr _ _ _ _ Hin) as (c & _ & E & _). rewrite (U _ _ _ _ He E). cbn. lia.
  - destruct (maxw a) as [x|]; [|discriminate]. destruct (maxw b) as [y|]; [|discriminate]. injection Hk as <-.
    apply in_ms_seq in Hin. destruct Hin as (q & Hq & Hp).
    destruct (ms_extends _ _ _ _ Hq) as (m1 & E1). destruct (ms_extends _ _ _ _ Hp) as (m2 & E2).
    rewrite (U _ _ _ _ He (ext_trans _ _ _ _ _ E1 E2)), app_length. pose proof (IHa _ _ _ _ _ Hq E1 eq_refl). pose proof (IHb _ _ _ _ _ Hp E2 eq_refl). lia.
  - destruct (maxw a) as [x|]; [|discriminate]. destruct (maxw b) as [y|]; [|discriminate]. injection Hk as <-.
    apply in_ms_alt in Hin. destruct Hin as [H|H]; [pose proof (IHa _ _ _ _ _ H He eq_refl) | pose proof (IHb _ _ _ _ _ H He eq_refl)]; lia.
  - destruct mx as [x|]; [|discriminate]. destruct (maxw b) as [y|]; [|discriminate]. injection Hk as <-.
    apply in_ms_rep in Hin. destruct Hin as (n & Hc & [_ Hn]).
    enough (K : length mid <= n * y) by nia.
    clear Hn. revert mid He. induction Hc as [s g|n s g q p Hq Hc IH]; intros mid He; [rewrite (Z0 _ _ _ _ eq_refl He); lia|].
    destruct (ms_extends _ _ _ _ Hq) as (m1 & E1).
    assert (E2 : exists m2, ext (fst q) m2 (fst p)).
    { clear -Hc. induction Hc as [s g|n s g q' p Hq' Hc IH]; [exists []; apply ext_nil|]. destruct (ms_extends _ _ _ _ Hq') as (m1 & E1). destruct IH as (m2 & E2).
      exists (m1 ++ m2). exact (ext_trans _ _ _ _ _ E1 E2). }
    destruct E2 as (m2 & E2). rewrite (U _ _ _ _ He (ext_trans _ _ _ _ _ E1 E2)), app_length.
    pose proof (IHb _ _ _ _ _ Hq E1 eq_refl). pose proof (IH m2 E2). cbn. lia.
  - apply in_ms_grp in Hin. destruct Hin as (q & Hq & ->). exact (IHb _ _ _ _ _ Hq He Hk).
  - injection Hk as <-. cbn [ms] in Hin. destruct (ms b s g); [destruct Hin|]. destruct Hin as [<-|[]]. rewrite (Z0 _ _ _ _ eq_refl He). lia.
  - injection Hk as <-. cbn [ms] in Hin. destruct (back w s); [|destruct Hin]. destruct (ms b s0 g); [destruct Hin|]. destruct Hin as [<-|[]]. rewrite (Z0 _ _ _ _ eq_refl He). lia.
  - injection Hk as <-. cbn [ms] in Hin. destruct (at_bnd ws s); [|destruct Hin]. destruct Hin as [<-|[]]. rewrite (Z0 _ _ _ _ eq_refl He). lia.
  - injection Hk as <-. cbn [ms] in Hin. destruct (at_eos s); [|destruct Hin]. destruct Hin as [<-|[]]. rewrite (Z0 _ _ _ _ eq_refl He). lia.
  - injection Hk as <-. cbn [ms] in Hin. destruct (idx s); [|destruct Hin]. destruct Hin as [<-|[]]. rewrite (Z0 _ _ _ _ eq_refl He). lia.
Qed.

(* ---- whatever is captured in group j was consumed by a path through (one of) the bodies of group j ---- *)
Fixpoint gbodies (r : re) (j : nat) : list re :=
  match r with
  | Grp i b => (if i =? j then [b] else []) ++ gbodies b j
  | Seq a b | Alt a b => gbodies a j ++ gbodies b j
  | Rep _ _ b | Ahead b | Behind _ b => gbodies b j
  | _ => []
  end.

Definition consumed_by (body : re) (mid : list N) : Prop := exists s1 g1 q, In q (ms body s1 g1) /\ ext s1 mid (fst q).

Definition bfact (B : list re) (x : str) (g g' : caps) (j : nat) : Prop :=
  getg g' j = getg g j \/ exists a b body, getg g' j = Some (a, b) /\ In body B /\ consumed_by body (slice x a b) /\ a <= b <= length x.

Lemma bfact_refl B x g j : bfact B x g g j.
Proof. left. reflexivity. Qed.

Lemma bfact_trans B1 B2 B x g g' g'' j : incl B1 B -> incl B2 B -> bfact B1 x g g' j -> bfact B2 x g' g'' j -> bfact B x g g'' j.
Proof.
  intros H1 H2 [E1|(a & b & bd & E1 & I1 & C1 & L1)] [E2|(a' & b' & bd' & E2 & I2 & C2 & L2)].
  - left. congruence.
  - right. exists a', b', bd'. auto.
  - right. exists a, b, bd. split; [congruence | auto].
  - right. exists a', b', bd'. auto.
Qed.

Theorem group_body : forall r s g p, wf_st s -> In p (ms r s g) -> forall j, bfact (gbodies r j) (text_of s) g (snd p) j.
Proof.
  induction r as [|cs|a IHa b IHb|a IHa b IHb|mn mx b IHb|i b IHb|b IHb|w b IHb|ws| |]; intros s g p Hwf Hin j.
  - destruct Hin as [<-|[]]. apply bfact_refl.
  - apply in_ms_chr in Hin. destruct Hin as (c & t & _ & _ & ->). apply bfact_refl.
  - apply in_ms_seq in Hin. destruct Hin as (q & Hq & Hp). cbn [gbodies].
    pose proof (ms_extends _ _ _ _ Hq) as Ex.
    eapply bfact_trans; [apply incl_appl, incl_refl | apply incl_appr, incl_refl | exact (IHa _ _ _ Hwf Hq j) |].
    rewrite <- (extends_text _ _ Ex). exact (IHb _ _ _ (extends_wf _ _ Ex Hwf) Hp j).
  - apply in_ms_alt in Hin. cbn [gbodies]. destruct Hin as [H|H].
    + eapply bfact_trans; [apply incl_appl, incl_refl | apply incl_refl | exact (IHa _ _ _ Hwf H j) | apply bfact_refl].
    + eapply bfact_trans; [apply incl_refl | apply incl_appr, incl_refl | apply bfact_refl | exact (IHb _ _ _ Hwf H j)].
  - apply in_ms_rep in Hin. destruct Hin as (n & Hc & _). cbn [gbodies].
    induction Hc as [s g|n s g q p Hq Hc IH]; [apply bfact_refl|].
    pose proof (ms_extends _ _ _ _ Hq) as Ex.
    eapply bfact_trans; [apply incl_refl | apply incl_refl | exact (IHb _ _ _ Hwf Hq j) |].
    rewrite <- (extends_text _ _ Ex). exact (IH (extends_wf _ _ Ex Hwf)).
  - apply in_ms_grp in Hin. destruct Hin as (q & Hq & ->). cbn [snd fst gbodies].
    pose proof (IHb _ _ _ Hwf Hq j) as Hj.
    destruct (Nat.eq_dec i j) as [->|Ne].
    + rewrite Nat.eqb_refl. destruct (Nat.lt_ge_cases j (length (snd q))) as [Hlt|Hge].
      * right. exists (idx s), (idx (fst q)), b. split; [apply getg_setg_same; exact Hlt|]. split; [left; reflexivity|].
        destruct (ms_extends _ _ _ _ Hq) as (mid & E). rewrite (ext_slice _ _ _ Hwf E). split; [exists s, g, q; split; assumption|].
        pose proof (extends_wf _ _ (ext_extends _ _ _ E) Hwf) as Wq. rewrite <- (extends_text _ _ (ext_extends _ _ _ E)).
        pose proof (extends_idx _ _ (ext_extends _ _ _ E)) as Hi.
        unfold wf_st in Wq. rewrite Wq in *. unfold text_of. rewrite app_length, rev_length. lia.
      * rewrite setg_oob by exact Hge. eapply bfact_trans; [apply incl_appr, incl_refl | apply incl_refl | exact Hj | apply bfact_refl].
    + replace (i =? j) with false by (symmetry; apply Nat.eqb_neq; exact Ne). cbn [app].
      destruct Hj as [E|(a & b0 & bd & E & I & C & L)]; [left | right; exists a, b0, bd; split; [|auto]]; rewrite getg_setg_other by exact Ne; exact E.
  - cbn [ms] in Hin. destruct (ms b s g) as [|x t] eqn:E; [destruct Hin|]. destruct Hin as [<-|[]]. cbn [snd gbodies].
    apply (IHb s g x Hwf). rewrite E. left. reflexivity.
  - cbn [ms] in Hin. destruct (back w s) as [s0|] eqn:Eb; [|destruct Hin].
    destruct (ms b s0 g) as [|x t] eqn:E; [destruct Hin|]. destruct Hin as [<-|[]]. cbn [snd gbodies].
    destruct (back_wf_text _ _ _ Eb Hwf) as [W T]. rewrite <- T. apply (IHb s0 g x W). rewrite E. left. reflexivity.
  - cbn [ms] in Hin. destruct (at_bnd ws s); [|destruct Hin]. destruct Hin as [<-|[]]. apply bfact_refl.
  - cbn [ms] in Hin. destruct (at_eos s); [|destruct Hin]. destruct Hin as [<-|[]]. apply bfact_refl.
  - cbn [ms] in Hin. destruct (idx s); [|destruct Hin]. destruct Hin as [<-|[]]. apply bfact_refl.
Qed.

(* for a match object: if group j is set its content was consumed by one of group j's bodies -- hence
   (ms_chars, ms_minw) its characters and its minimal length can be read off the pattern *)
Lemma consumed_maxw body mid k : consumed_by body mid -> maxw body = Some k -> length mid <= k.
Proof. intros (s1 & g1 & q & Hq & E) Hk. exact (ms_maxw _ _ _ _ _ _ Hq E Hk). Qed.

Lemma consumed_facts body mid : consumed_by body mid -> Forall (inS (csets body)) mid /\ minw body <= length mid.
Proof.
  intros (s1 & g1 & q & Hq & E). split; [|exact (ms_minw _ _ _ _ _ Hq E)].
  destruct (ms_chars _ _ _ _ Hq) as (m' & E' & F). destruct E as (_ & R1 & _). destruct E' as (_ & R2 & _).
  rewrite R1 in R2. apply app_inv_tail in R2. subst m'. exact F.
Qed.

(* search with a position window: the state is over the text truncated at e *)
Lemma st_at_wf t p e : p <= Nat.min e (length t) -> wf_st (st_at t p e) /\ text_of (st_at t p e) = firstn e t.
Proof.
  intros Hp. unfold st_at. split.
  - unfold wf_st. cbn. rewrite rev_length, firstn_length, firstn_length. lia.
  - unfold text_of. cbn. rewrite rev_involutive. apply firstn_skipn.
Qed.

Theorem search_pe_group r ng t pos endpos x j :
  search_pe r ng t pos endpos = Some x ->
  (always_set r j = true -> j <= ng -> getg (mcaps x) j <> None) /\
  (forall a b, getg (mcaps x) j = Some (a, b) -> exists body, In body (gbodies r j) /\ consumed_by body (slice t a b)).
Proof.
  unfold search_pe. destruct (endpos <? pos); [discriminate|]. unfold clip.
  set (e := Nat.min endpos (length t)). set (p := Nat.min pos e). intros H.
  destruct (st_at_wf t p e ltac:(unfold p, e; lia)) as [W T].
  destruct (scan_caps r ng _ _ _ x W H) as (s' & q & W' & T' & Hin & Hc). rewrite Hc. split.
  - intros Ha Hj. apply (always_set_sound r s' (init_caps ng) q j Ha); [unfold init_caps; rewrite repeat_length; lia | exact Hin].
  - intros a b E. destruct (group_body r s' (init_caps ng) q W' Hin j) as [K|(a' & b' & bd & K & I & C & L)].
    + rewrite E, getg_init in K. discriminate.
    + rewrite E in K. injection K as <- <-. exists bd. split; [exact I|]. rewrite T', T in C, L.
      replace (slice t a b) with (slice (firstn e t) a b); [exact C|]. unfold slice. rewrite firstn_length in L.
      rewrite <- (firstn_skipn e t) at 2. rewrite skipn_app, firstn_app.
      replace (a - length (firstn e t)) with 0 by (rewrite firstn_length; lia).
      replace (b - a - length (skipn a (firstn e t))) with 0 by (rewrite skipn_length, firstn_length; lia).
      cbn [skipn firstn]. rewrite app_nil_r. reflexivity.
Qed.

(* every path sets at least one group of the list (e.g. "range number, or the range-2 edge case") *)
Fixpoint always_any (r : re) (js : list nat) : bool :=
  match r with
  | Grp i b => existsb (Nat.eqb i) js || always_any b js
  | Seq a b => always_any a js || always_any b js
  | Alt a b => always_any a js && always_any b js
  | Rep mn _ b => (1 <=? mn) && always_any b js
  | Ahead b | Behind _ b => always_any b js
  | _ => false
  end.

Definition some_set (g : caps) (js : list nat) : Prop := exists j, In j js /\ getg g j <> None.

Lemma some_set_keeps r s g p js : In p (ms r s g) -> some_set g js -> some_set (snd p) js.
Proof. intros Hin (j & Hj & Hg). exists j. split; [exact Hj | exact (ms_keeps _ _ _ _ _ Hin Hg)]. Qed.

Theorem always_any_sound : forall r s g p js, always_any r js = true -> (forall j, In j js -> j < length g) -> In p (ms r s g) -> some_set (snd p) js.
Proof.
  induction r as [|cs|a IHa b IHb|a IHa b IHb|mn mx b IHb|i b IHb|b IHb|w b IHb|ws| |]; intros s g p js Ha Hj Hin; cbn [always_any] in Ha; try discriminate.
  - apply in_ms_seq in Hin. destruct Hin as (q & Hq & Hp). apply orb_true_iff in Ha. destruct Ha as [Ha|Ha].
    + exact (some_set_keeps _ _ _ _ _ Hp (IHa _ _ _ _ Ha Hj Hq)).
    + apply (IHb (fst q) (snd q) p js Ha); [|exact Hp]. destruct (ms_frame _ _ _ _ Hq) as [L _]. rewrite L. exact Hj.
  - apply andb_true_iff in Ha. destruct Ha as [A B]. apply in_ms_alt in Hin. destruct Hin as [H|H]; [exact (IHa _ _ _ _ A Hj H) | exact (IHb _ _ _ _ B Hj H)].
  - apply andb_true_iff in Ha. destruct Ha as [A B]. apply Nat.leb_le in A. apply in_ms_rep in Hin. destruct Hin as (n & Hc & [Hn _]).
    destruct Hc as [s g|n s g q p Hq Hc]; [lia|].
    assert (K : some_set (snd q) js) by exact (IHb _ _ _ _ B Hj Hq).
    clear -Hc K. induction Hc as [s g|n s g q' p Hq' Hc IH]; [exact K|]. exact (IH (some_set_keeps _ _ _ _ _ Hq' K)).
  - apply in_ms_grp in Hin. destruct Hin as (q & Hq & ->). cbn [snd]. destruct (ms_frame _ _ _ _ Hq) as [L _].
    apply orb_true_iff in Ha. destruct Ha as [Ha|Ha].
    + apply existsb_exists in Ha. destruct Ha as (j & Hin & E). apply Nat.eqb_eq in E. subst j.
      exists i. split; [exact Hin|]. rewrite getg_setg_same by (rewrite L; exact (Hj i Hin)). discriminate.
    + destruct (IHb _ _ _ _ Ha Hj Hq) as (j & Hin & Hg). exists j. split; [exact Hin|].
      destruct (Nat.eq_dec i j) as [->|Ne]; [rewrite getg_setg_same by (rewrite L; exact (Hj j Hin)); discriminate | rewrite getg_setg_other by exact Ne; exact Hg].
  - cbn [ms] in Hin. destruct (ms b s g) as [|x t] eqn:E; [destruct Hin|]. destruct Hin as [<-|[]]. apply (IHb s g x js Ha Hj). rewrite E. left. reflexivity.
  - cbn [ms] in Hin. destruct (back w s) as [s0|]; [|destruct Hin]. destruct (ms b s0 g) as [|x t] eqn:E; [destruct Hin|]. destruct Hin as [<-|[]].
    apply (IHb s0 g x js Ha Hj). rewrite E. left. reflexivity.
Qed.

(* the same facts for the match objects of finditer over the whole text *)
Theorem finditer_group r ng t x :
  In x (finditer r ng t) ->
  (forall js, always_any r js = true -> (forall j, In j js -> j <= ng) -> some_set (mcaps x) js) /\
  (forall j a b, getg (mcaps x) j = Some (a, b) -> exists body, In body (gbodies r j) /\ consumed_by body (slice t a b)).
Proof.
  unfold finditer, finditer_pe. replace (length t <? 0) with false by reflexivity. unfold clip. rewrite Nat.min_id, Nat.min_0_l.
  intros H. destruct (finditer_loop_in r ng t _ _ _ x (Nat.le_0_l _) H) as (fuel' & p' & ma' & Hp & Hs).
  destruct (st_at_wf_text t p' Hp) as [W T].
  destruct (scan_caps r ng fuel' ma' _ x W Hs) as (s' & q & W' & T' & Hin & Hc). rewrite Hc. split.
  - intros js Ha Hj. apply (always_any_sound r s' (init_caps ng) q js Ha); [|exact Hin].
    intros j Hjn. unfold init_caps. rewrite repeat_length. specialize (Hj j Hjn). lia.
  - intros j a b E. destruct (group_body r s' (init_caps ng) q W' Hin j) as [K|(a' & b' & bd & K & I & C & L)].
    + rewrite E, getg_init in K. discriminate.
    + rewrite E in K. injection K as <- <-. exists bd. split; [exact I|]. rewrite T', T in C. exact C.
Qed.
