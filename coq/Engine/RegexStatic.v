(* Engine/RegexStatic.v -- facts about a match that can be read off the pattern:
     ms_chars    : the characters a path consumes belong to the character sets of the pattern;
     group_chars : whatever a path captures in group j consists of characters of the sets that
                   occur inside group j (so "the township number group holds digits only" is a
                   computation on the regenerated pattern, valid for every text). *)
From Coq Require Import List NArith Arith Bool Lia.
From PyTRS Require Import Engine.Regex Engine.RegexSpec.
Import ListNotations.

Definition inS (S : list (list (N * N))) (c : N) : Prop := exists cs, In cs S /\ in_ranges c cs = true.

Lemma inS_incl S S' c : incl S S' -> inS S c -> inS S' c.
Proof. intros H (cs & Hin & Hc). exists cs. split; [apply H; exact Hin | exact Hc]. Qed.

Lemma Forall_inS_incl S S' l : incl S S' -> Forall (inS S) l -> Forall (inS S') l.
Proof. intros H. apply Forall_impl. intros c. apply inS_incl. exact H. Qed.

Theorem ms_chars : forall r s g p, In p (ms r s g) -> exists mid, ext s mid (fst p) /\ Forall (inS (csets r)) mid.
Proof.
  induction r as [|cs|a IHa b IHb|a IHa b IHb|mn mx b IHb|i b IHb|b IHb|w b IHb|ws| |]; intros s g p Hin.
  - destruct Hin as [<-|[]]. exists []. split; [apply ext_nil | constructor].
  - destruct (ext_chr _ _ _ _ Hin) as (c & Hc & E & _). exists [c]. split; [exact E|]. constructor; [|constructor].
    exists cs. split; [left; reflexivity | exact Hc].
  - apply in_ms_seq in Hin. destruct Hin as (q & Hq & Hp).
    destruct (IHa _ _ _ Hq) as (m1 & E1 & F1). destruct (IHb _ _ _ Hp) as (m2 & E2 & F2).
    exists (m1 ++ m2). split; [exact (ext_trans _ _ _ _ _ E1 E2)|]. cbn [csets]. apply Forall_app. split.
    + eapply Forall_inS_incl; [|exact F1]. apply incl_appl, incl_refl.
    + eapply Forall_inS_incl; [|exact F2]. apply incl_appr, incl_refl.
  - apply in_ms_alt in Hin. cbn [csets]. destruct Hin as [H|H].
    + destruct (IHa _ _ _ H) as (m & E & F). exists m. split; [exact E|]. eapply Forall_inS_incl; [|exact F]. apply incl_appl, incl_refl.
    + destruct (IHb _ _ _ H) as (m & E & F). exists m. split; [exact E|]. eapply Forall_inS_incl; [|exact F]. apply incl_appr, incl_refl.
  - apply in_ms_rep in Hin. destruct Hin as (n & Hc & _). cbn [csets].
    induction Hc as [s g|n s g q p Hq Hc IH]; [exists []; split; [apply ext_nil | constructor]|].
    destruct (IHb _ _ _ Hq) as (m1 & E1 & F1). destruct IH as (m2 & E2 & F2).
    exists (m1 ++ m2). split; [exact (ext_trans _ _ _ _ _ E1 E2) | apply Forall_app; split; assumption].
  - apply in_ms_grp in Hin. destruct Hin as (q & Hq & ->). exact (IHb _ _ _ Hq).
  - cbn [ms] in Hin. destruct (ms b s g); [destruct Hin|]. destruct Hin as [<-|[]]. exists []. split; [apply ext_nil | constructor].
  - cbn [ms] in Hin. destruct (back w s); [|destruct Hin]. destruct (ms b s0 g); [destruct Hin|]. destruct Hin as [<-|[]].
    exists []. split; [apply ext_nil | constructor].
  - cbn [ms] in Hin. destruct (at_bnd ws s); [|destruct Hin]. destruct Hin as [<-|[]]. exists []. split; [apply ext_nil | constructor].
  - cbn [ms] in Hin. destruct (at_eos s); [|destruct Hin]. destruct Hin as [<-|[]]. exists []. split; [apply ext_nil | constructor].
  - cbn [ms] in Hin. destruct (idx s); [|destruct Hin]. destruct Hin as [<-|[]]. exists []. split; [apply ext_nil | constructor].
Qed.

(* the character sets occurring inside group j *)
Fixpoint gsets (r : re) (j : nat) : list (list (N * N)) :=
  match r with
  | Grp i b => (if i =? j then csets b else []) ++ gsets b j
  | Seq a b | Alt a b => gsets a j ++ gsets b j
  | Rep _ _ b | Ahead b | Behind _ b => gsets b j
  | _ => []
  end.

Definition gfact (S : list (list (N * N))) (x : str) (g g' : caps) (j : nat) : Prop :=
  getg g' j = getg g j \/ exists a b, getg g' j = Some (a, b) /\ Forall (inS S) (slice x a b).

Lemma gfact_refl S x g j : gfact S x g g j.
Proof. left. reflexivity. Qed.

Lemma gfact_trans S1 S2 S x g g' g'' j : incl S1 S -> incl S2 S -> gfact S1 x g g' j -> gfact S2 x g' g'' j -> gfact S x g g'' j.
Proof.
  intros H1 H2 [E1|(a & b & E1 & F1)] [E2|(a' & b' & E2 & F2)].
  - left. congruence.
  - right. exists a', b'. split; [exact E2 | exact (Forall_inS_incl _ _ _ H2 F2)].
  - right. exists a, b. split; [congruence | exact (Forall_inS_incl _ _ _ H1 F1)].
  - right. exists a', b'. split; [exact E2 | exact (Forall_inS_incl _ _ _ H2 F2)].
Qed.

Lemma setg_oob : forall g i v, length g <= i -> setg g i v = g.
Proof.
  induction g as [|h t IH]; intros [|i] v H; cbn in *; try reflexivity; [lia|]. rewrite IH by lia. reflexivity.
Qed.

Lemma back_wf_text : forall w s s0, back w s = Some s0 -> wf_st s -> wf_st s0 /\ text_of s0 = text_of s.
Proof.
  induction w as [|w IH]; intros s s0 H Hwf; cbn [back] in H; [injection H as <-; auto|].
  destruct (pre s) as [|c p] eqn:Ep; [discriminate|].
  destruct (IH _ _ H) as [W T].
  - unfold wf_st in *. cbn. rewrite Ep in Hwf. cbn in Hwf. lia.
  - split; [exact W|]. rewrite T. unfold text_of. cbn. rewrite Ep. cbn. rewrite <- app_assoc. reflexivity.
Qed.

Theorem group_chars : forall r s g p, wf_st s -> In p (ms r s g) -> forall j, gfact (gsets r j) (text_of s) g (snd p) j.
Proof.
  induction r as [|cs|a IHa b IHb|a IHa b IHb|mn mx b IHb|i b IHb|b IHb|w b IHb|ws| |]; intros s g p Hwf Hin j.
  - destruct Hin as [<-|[]]. apply gfact_refl.
  - apply in_ms_chr in Hin. destruct Hin as (c & t & _ & _ & ->). apply gfact_refl.
  - apply in_ms_seq in Hin. destruct Hin as (q & Hq & Hp). cbn [gsets].
    pose proof (ms_extends _ _ _ _ Hq) as Ex.
    eapply gfact_trans; [apply incl_appl, incl_refl | apply incl_appr, incl_refl | exact (IHa _ _ _ Hwf Hq j) |].
    rewrite <- (extends_text _ _ Ex). exact (IHb _ _ _ (extends_wf _ _ Ex Hwf) Hp j).
  - apply in_ms_alt in Hin. cbn [gsets]. destruct Hin as [H|H].
    + eapply gfact_trans; [apply incl_appl, incl_refl | apply incl_refl | exact (IHa _ _ _ Hwf H j) | apply gfact_refl].
    + eapply gfact_trans; [apply incl_refl | apply incl_appr, incl_refl | apply gfact_refl | exact (IHb _ _ _ Hwf H j)].
  - apply in_ms_rep in Hin. destruct Hin as (n & Hc & _). cbn [gsets].
    induction Hc as [s g|n s g q p Hq Hc IH]; [apply gfact_refl|].
    pose proof (ms_extends _ _ _ _ Hq) as Ex.
    eapply gfact_trans; [apply incl_refl | apply incl_refl | exact (IHb _ _ _ Hwf Hq j) |].
    rewrite <- (extends_text _ _ Ex). exact (IH (extends_wf _ _ Ex Hwf)).
  - apply in_ms_grp in Hin. destruct Hin as (q & Hq & ->). cbn [snd fst gsets].
    pose proof (IHb _ _ _ Hwf Hq j) as Hj.
    destruct (Nat.eq_dec i j) as [->|Ne].
    + rewrite Nat.eqb_refl. destruct (Nat.lt_ge_cases j (length (snd q))) as [Hlt|Hge].
      * right. exists (idx s), (idx (fst q)). split; [apply getg_setg_same; exact Hlt|].
        destruct (ms_chars _ _ _ _ Hq) as (mid & E & F). rewrite (ext_slice _ _ _ Hwf E).
        eapply Forall_inS_incl; [|exact F]. apply incl_appl, incl_refl.
      * rewrite setg_oob by exact Hge. eapply gfact_trans; [apply incl_appr, incl_refl | apply incl_refl | exact Hj | apply gfact_refl].
    + replace (i =? j) with false by (symmetry; apply Nat.eqb_neq; exact Ne). cbn [app].
      destruct Hj as [E|(a & b0 & E & F)]; [left | right; exists a, b0; split; [|exact F]]; rewrite getg_setg_other by exact Ne; exact E.
  - cbn [ms] in Hin. destruct (ms b s g) as [|x t] eqn:E; [destruct Hin|]. destruct Hin as [<-|[]]. cbn [snd gsets].
    apply (IHb s g x Hwf). rewrite E. left. reflexivity.
  - cbn [ms] in Hin. destruct (back w s) as [s0|] eqn:Eb; [|destruct Hin].
    destruct (ms b s0 g) as [|x t] eqn:E; [destruct Hin|]. destruct Hin as [<-|[]]. cbn [snd gsets].
    destruct (back_wf_text _ _ _ Eb Hwf) as [W T]. rewrite <- T. apply (IHb s0 g x W). rewrite E. left. reflexivity.
  - cbn [ms] in Hin. destruct (at_bnd ws s); [|destruct Hin]. destruct Hin as [<-|[]]. apply gfact_refl.
  - cbn [ms] in Hin. destruct (at_eos s); [|destruct Hin]. destruct Hin as [<-|[]]. apply gfact_refl.
  - cbn [ms] in Hin. destruct (idx s); [|destruct Hin]. destruct Hin as [<-|[]]. apply gfact_refl.
Qed.

(* ---------------- the same, for the match objects the API hands out ---------------- *)
Lemma getg_init ng j : getg (init_caps ng) j = None.
Proof.
  unfold getg, init_caps. destruct (nth_error (repeat None (S ng)) j) as [o|] eqn:E; [|reflexivity].
  apply nth_error_In, repeat_spec in E. subst o. reflexivity.
Qed.

Lemma match_at_caps r ng ma s x : match_at r ng ma s = Some x -> exists p, In p (ms r s (init_caps ng)) /\ mcaps x = snd p.
Proof.
  unfold match_at. destruct (m r s (init_caps ng) _) as [y|] eqn:E; [|discriminate]. intros H. injection H as <-.
  destruct (m_path _ _ _ _ _ E) as (p & Hin & Hk). exists p. split; [exact Hin|].
  destruct (ma && (idx (fst p) =? idx s)); [discriminate|]. injection Hk as <-. reflexivity.
Qed.

Lemma fwd_wf_text s s' : fwd s = Some s' -> wf_st s -> wf_st s' /\ text_of s' = text_of s.
Proof.
  unfold fwd. destruct (rest s) as [|c t] eqn:E; [discriminate|]. intros H Hwf. injection H as <-. split.
  - unfold wf_st in *. cbn. lia.
  - unfold text_of. cbn. rewrite E, <- app_assoc. reflexivity.
Qed.

Lemma scan_caps r ng : forall fuel ma s x, wf_st s -> scan fuel r ng ma s = Some x ->
  exists s' p, wf_st s' /\ text_of s' = text_of s /\ In p (ms r s' (init_caps ng)) /\ mcaps x = snd p.
Proof.
  induction fuel as [|f IH]; intros ma s x Hwf H; cbn [scan] in H.
  - destruct (match_at r ng ma s) as [y|] eqn:E; [|discriminate]. injection H as <-.
    destruct (match_at_caps _ _ _ _ _ E) as (p & Hin & Hc). exists s, p. auto.
  - destruct (match_at r ng ma s) as [y|] eqn:E.
    + injection H as <-. destruct (match_at_caps _ _ _ _ _ E) as (p & Hin & Hc). exists s, p. auto.
    + destruct (fwd s) as [s1|] eqn:Ef; [|discriminate]. destruct (fwd_wf_text _ _ Ef Hwf) as [W T].
      destruct (IH _ _ _ W H) as (s' & p & W' & T' & Hin & Hc). exists s', p. repeat split; try assumption. congruence.
Qed.

Lemma st_at_wf_text t p : p <= length t -> wf_st (st_at t p (length t)) /\ text_of (st_at t p (length t)) = t.
Proof.
  intros Hp. unfold st_at. rewrite firstn_all. split.
  - unfold wf_st. cbn. rewrite rev_length, firstn_length. lia.
  - unfold text_of. cbn. rewrite rev_involutive. apply firstn_skipn.
Qed.

Lemma scan_group_chars r ng fuel ma t p x j v : p <= length t ->
  scan fuel r ng ma (st_at t p (length t)) = Some x -> group t x j = Some v -> Forall (inS (gsets r j)) v.
Proof.
  intros Hp H Hg. destruct (st_at_wf_text t p Hp) as [W T].
  destruct (scan_caps r ng fuel ma _ x W H) as (s' & q & W' & T' & Hin & Hc).
  pose proof (group_chars r s' (init_caps ng) q W' Hin j) as [E|(a & b & E & F)].
  - exfalso. unfold group in Hg. rewrite Hc, E, getg_init in Hg. discriminate.
  - unfold group in Hg. rewrite Hc, E in Hg. injection Hg as <-. rewrite T', T in F. exact F.
Qed.

Lemma finditer_loop_in r ng t : forall fuel p ma x, p <= length t -> In x (finditer_loop fuel r ng t (length t) p ma) ->
  exists fuel' p' ma', p' <= length t /\ scan fuel' r ng ma' (st_at t p' (length t)) = Some x.
Proof.
  induction fuel as [|f IH]; intros p ma x Hp H; [destruct H|]. cbn [finditer_loop] in H.
  destruct (scan (length t - p) r ng ma (st_at t p (length t))) as [y|] eqn:E; [|destruct H].
  destruct H as [<-|H]; [exists (length t - p), p, ma; auto|].
  destruct (st_at_wf_text t p Hp) as [W T].
  assert (Hend : mend y <= length t).
  { destruct (scan_caps r ng _ _ _ _ W E) as (s' & q & W' & T' & Hin & _).
    clear H. revert E. generalize (length t - p) as fuel. intros fuel E.
    (* the end of a match lies inside the text *)
    assert (G : forall fuel ma s y, wf_st s -> scan fuel r ng ma s = Some y -> mend y <= length (text_of s)).
    { clear. induction fuel as [|f IH]; intros ma s y Hwf H; cbn [scan] in H.
      - destruct (match_at r ng ma s) as [z|] eqn:E; [|discriminate]. injection H as <-.
        destruct (match_at_span _ _ _ _ _ Hwf E) as (_ & _ & K). unfold text_of. rewrite app_length, rev_length. unfold wf_st in Hwf. lia.
      - destruct (match_at r ng ma s) as [z|] eqn:E.
        + injection H as <-. destruct (match_at_span _ _ _ _ _ Hwf E) as (_ & _ & K). unfold text_of. rewrite app_length, rev_length. unfold wf_st in Hwf. lia.
        + destruct (fwd s) as [s1|] eqn:Ef; [|discriminate]. destruct (fwd_wf_text _ _ Ef Hwf) as [W T]. rewrite <- T. exact (IH _ _ _ W H). }
    pose proof (G _ _ _ _ W E) as K. rewrite T in K. exact K. }
  exact (IH _ _ _ Hend H).
Qed.

Theorem finditer_group_chars r ng t x j v :
  In x (finditer r ng t) -> group t x j = Some v -> Forall (inS (gsets r j)) v.
Proof.
  unfold finditer, finditer_pe. replace (length t <? 0) with false by reflexivity. unfold clip. rewrite Nat.min_id, Nat.min_0_l.
  intros H Hg. destruct (finditer_loop_in r ng t _ _ _ x (Nat.le_0_l _) H) as (fuel' & p' & ma' & Hp & Hs).
  exact (scan_group_chars r ng fuel' ma' t p' x j v Hp Hs Hg).
Qed.
