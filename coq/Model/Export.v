(* Model/Export.v -- mirror of Tract.to_dict/to_list/get_headers (tract.py), of
   TractList.tracts_to_dict/list/csv + scrub_row (containers.py), of TractWriter.write /
   _scrub_row (tractwriter.py) and flatten (utils).  The csv module is outside the model:
   a row is the list of cell values handed to csv.writer.writerow.  No proofs here. *)
From Coq Require Import List NArith ZArith Arith Bool.
From Coq Require String.
From PyTRS Require Import Engine.Regex PyRt.Str Gen.Tables Model.Trs.
Import ListNotations.
Import String.StringSyntax.
Local Open Scope string_scope.

(* attribute values, as deep as the documented attributes go *)
Inductive scalar := SStr (t : str) | SInt (z : Z) | SBool (b : bool) | SNone.
Inductive aval :=
| VScalar (x : scalar)
| VSeq (l : list scalar)                 (* list / tuple of scalars *)
| VSeq2 (l : list (list scalar))         (* list of tuples, e.g. flag lines *)
| VMap (l : list (scalar * scalar)).     (* dict *)

Definition sc_str (x : scalar) : str :=
  match x with
  | SStr t => t | SInt z => str_of_Z z | SBool true => s "True" | SBool false => s "False" | SNone => s "None"
  end.

(* a cell as handed to csv.writer: a scalar (written as str(), None as empty) *)
Definition tract := list (str * aval).

Definition getattr (t : tract) (att : str) : aval :=
  match assoc_str att t with
  | Some v => v
  | None => VScalar (SStr (att ++ s ": n/a"))
  end.

Definition to_list (t : tract) (atts : list str) : list aval := map (getattr t) atts.
Definition to_dict (t : tract) (atts : list str) : list (str * aval) := map (fun a => (a, getattr t a)) atts.
Definition tracts_to_list (l : list tract) (atts : list str) : list (list aval) := map (fun t => to_list t atts) l.
Definition tracts_to_dict (l : list tract) (atts : list str) : list (list (str * aval)) := map (fun t => to_dict t atts) l.

(* flatten(list_or_tuple): repeat "unpack one level" while any element is a list/tuple;
   for the two-level values of the model at most one pass does anything *)
Definition flatten (v : aval) : list scalar :=
  match v with
  | VSeq l => l
  | VSeq2 l => concat l
  | VScalar x => [x]
  | VMap l => map fst l
  end.

(* scrub_row / _scrub_row on one element (after the fix both writers agree) *)
Definition scrub_cell (v : aval) : scalar :=
  match v with
  | VScalar x => x
  | VMap l => SStr (join (s ",") (map (fun kv => sc_str (fst kv) ++ s ":" ++ sc_str (snd kv)) l))
  | _ => SStr (join (s ", ") (map sc_str (flatten v)))
  end.

Definition scrub_row (row : list aval) : list scalar := map scrub_cell row.

(* Tract.get_headers(attributes, nice_headers, plus_cols) *)
Inductive nice := NiceOff | NiceOn | NiceList (l : list str) | NiceDict (d : list (str * str)).

Definition get_headers (atts : list str) (n : nice) (plus_cols : list str) : list str :=
  (match n with
   | NiceOff => atts
   | NiceOn => map (fun a => match assoc_str a (combine TRACT_ATTRIBUTE_NAMES TRACT_ATTRIBUTE_HEADERS) with
                             | Some h => h | None => a end) atts
   | NiceList l => l
   | NiceDict d => map (fun a => match assoc_str a d with Some h => h | None => a end) atts
   end) ++ plus_cols.

(* tracts_to_csv(attributes, fp, mode, nice_headers): rows handed to the csv writer *)
Definition tracts_to_csv (l : list tract) (atts : list str) (file_exists : bool) (mode_append : bool) (n : nice)
  : list (list scalar) :=
  let headers := negb (file_exists && mode_append) in
  (if headers then [map SStr (get_headers atts n [])] else [])
  ++ map (fun t => scrub_row (to_list t atts)) l.

(* TractWriter(attributes, fp, mode, plus_cols, nice_headers, uid) then .write(tracts, plus_cols) *)
Definition num_to_alpha (num : nat) : str :=
  (if 0 <? (num - 1) / 26 then [N.of_nat ((num - 1) / 26 + 64)] else [])
  ++ [N.of_nat ((num - 1) mod 26 + 65)].

Definition gen_uid (num : Z) (sub total : nat) : str :=
  rjust 4 48%N (str_of_Z num) ++ s "." ++ lower (num_to_alpha sub) ++ s "-" ++ lower (num_to_alpha total).

Fixpoint writer_rows (l : list tract) (atts : list str) (plus : list scalar) (uid : option Z) (k total : nat)
  : list (list scalar) :=
  match l with
  | [] => []
  | t :: r =>
      (scrub_row (to_list t atts) ++ plus
       ++ match uid with Some u => [SStr (gen_uid u k total)] | None => [] end)
      :: writer_rows r atts plus uid (S k) total
  end.

Definition tractwriter (l : list tract) (atts : list str) (file_exists mode_append : bool) (n : nice)
           (header_plus : list str) (write_plus : list scalar) (uid : option Z) : list (list scalar) :=
  let headers := negb (file_exists && mode_append) in
  (if headers then [map SStr (get_headers atts n header_plus ++ match uid with Some _ => [s "UID"] | None => [] end)] else [])
  ++ writer_rows l atts write_plus uid 1 (length l).
