(* Model/Objects.v -- the object layer for C14/C15: Tract and PLSSDesc as state machines over the
   operations parse(commit, keywords), parse_tracts, preprocess(commit), config assignment.
   Mirrors Tract.__init__/parse/preprocess/config (tract.py), TractParser.__init__ (flag copying),
   PLSSDesc.__init__/parse/parse_tracts/preprocess/config (plssdesc.py), TractList.parse_tracts. *)
From Coq Require Import List NArith ZArith Arith Bool.
From Coq Require String.
From PyTRS Require Import Engine.Regex Gen.Patterns PyRt.Str Gen.Tables Model.Trs Model.Unpack Model.TractPre
     Model.Aliquot Model.TractParse Model.PlssPre Model.PlssParse Model.Config Model.PlssDesc.
Import ListNotations.
Import String.StringSyntax.
Local Open Scope string_scope.

Record tract_obj := mk_tobj {
  tj_trs : str; tj_desc : str; tj_index : nat;
  tj_attrs : cfg;                       (* the setting attributes *)
  tj_pp_desc : str; tj_complete : bool;
  tj_lots : list str; tj_qqs : list str; tj_acres : list (str * str); tj_whole : list str;
  tj_flags : flagset }.

Inductive tract_op :=
| TParse (commit : bool) (kws : cfg)
| TPreprocess (commit : bool) (clean_qq : cval)
| TSetConfig (text : str).

Definition set_attrs (t : tract_obj) (a : cfg) : tract_obj :=
  mk_tobj (tj_trs t) (tj_desc t) (tj_index t) a (tj_pp_desc t) (tj_complete t) (tj_lots t) (tj_qqs t) (tj_acres t) (tj_whole t) (tj_flags t).

(* Tract.parse(commit, kws): TractParser copies the tract's four flag lists, appends its own *)
Definition tract_parse (t : tract_obj) (commit : bool) (kws : cfg) : Py (tract_obj * list str) :=
  let te := tr_parse (tj_attrs t) kws in
  do mn <- z_of_cval (te_qq_depth_min te);
  do mx <- oz_of_cval (te_qq_depth_max te);
  do r <- tract_parser (tj_desc t) (truthy (te_clean_qq te)) (truthy (te_suppress_lot_divs te)) mn mx None
                       (truthy (te_break_halves te)) (tj_flags t);
  let t' := if commit then
              mk_tobj (tj_trs t) (tj_desc t) (tj_index t) (tj_attrs t) (tp_text r) true (tp_lots r) (tp_qqs r)
                      (tp_lot_acres r) (tp_aliquots_whole r) (tp_flags r)
            else t in
  Ok (t', tp_lots r ++ tp_qqs r).

Definition tract_preprocess (t : tract_obj) (commit : bool) (cq : cval) : Py (tract_obj * str) :=
  let cq' := or_attr cq (cget A_clean_qq (tj_attrs t)) in
  do pp <- scrub_aliquots (tj_desc t) (truthy cq');
  Ok ((if commit then
         mk_tobj (tj_trs t) (tj_desc t) (tj_index t) (tj_attrs t) pp (tj_complete t) (tj_lots t) (tj_qqs t) (tj_acres t) (tj_whole t) (tj_flags t)
       else t), pp).

Definition tract_step (t : tract_obj) (op : tract_op) : Py tract_obj :=
  match op with
  | TParse commit kws => do r <- tract_parse t commit kws; Ok (fst r)
  | TPreprocess commit cq => do r <- tract_preprocess t commit cq; Ok (fst r)
  | TSetConfig text => do c <- text_to_attributes text; Ok (set_attrs t (tr_set_config c (tj_attrs t)))
  end.

(* Tract(desc, trs, config=text, parse_qq=kw, orig_index=idx) *)
Definition tract_new (desc trs config : str) (parse_qq : cval) (idx : nat) : Py tract_obj :=
  do c <- text_to_attributes config;
  let attrs := tr_init c parse_qq in
  let t0 := mk_tobj (TRS_trs (Some trs)) desc idx attrs desc false [] [] [] [] no_flags in
  if truthy (cget A_parse_qq attrs) then tract_step t0 (TParse true empty_cfg)
  else tract_step t0 (TPreprocess true CNone).

(* ---------------- PLSSDesc ---------------- *)
Record plss_obj := mk_pobj {
  pj_text : str; pj_attrs : cfg; pj_conf : cfg;
  pj_tracts : list tract_obj; pj_flags : flagset; pj_pp_desc : str; pj_layout : option str;
  pj_mc_ns : str; pj_mc_ew : str }.

Inductive plss_op :=
| PParse (commit : bool) (kws : cfg)
| PParseTracts (config : option str) (kws : cfg)
| PPreprocess (commit : bool)
| PSetConfig (text : str).

(* the tracts of a parser result as objects: all configured from the same handed-down config *)
Definition objs_of (p : parser_out) (handed : str) (parse_qq : cval) : Py (list tract_obj) :=
  let handed' := if truthy parse_qq then handed ++ s ",parse_qq" else handed in
  do ct <- text_to_attributes handed';
  let attrs := tr_init ct parse_qq in
  Ok (map (fun t => mk_tobj (to_trs t) (to_desc t) (to_orig_index t) attrs (to_pp_desc t) (to_parse_complete t) (to_lots t)
                            (to_qqs t) (to_lot_acres t) (to_aliquots_whole t) (to_flags t)) (po_tracts p)).

Definition plss_parse (o : plss_obj) (commit : bool) (kws : cfg) : Py (plss_obj * list tract_obj) :=
  let e := pd_parse (pj_conf o) (pj_attrs o) kws in
  do p <- run_parser (pj_text o) e None (pj_mc_ns o) (pj_mc_ew o);
  do handed <- pe_handed_down e;
  do objs <- objs_of p handed (pe_parse_qq e);
  Ok ((if commit then mk_pobj (pj_text o) (pj_attrs o) (pj_conf o) objs (po_flags p) (po_text p) (Some (po_layout p)) (pj_mc_ns o) (pj_mc_ew o)
       else o), objs).

Fixpoint map_py' {A B} (f : A -> Py B) (l : list A) : Py (list B) :=
  match l with [] => Ok [] | x :: t => do y <- f x; do r <- map_py' f t; Ok (y :: r) end.

Definition plss_step (o : plss_obj) (op : plss_op) : Py plss_obj :=
  match op with
  | PParse commit kws => do r <- plss_parse o commit kws; Ok (fst r)
  | PParseTracts config kws =>
      do ts1 <- (match config with
                 | Some text => map_py' (fun t => tract_step t (TSetConfig text)) (pj_tracts o)
                 | None => Ok (pj_tracts o) end);
      do ts2 <- map_py' (fun t => tract_step t (TParse true kws)) ts1;
      Ok (mk_pobj (pj_text o) (pj_attrs o) (pj_conf o) ts2 (pj_flags o) (pj_pp_desc o) (pj_layout o) (pj_mc_ns o) (pj_mc_ew o))
  | PPreprocess commit =>
      do dns <- ostr_of_cval (cget A_default_ns (pj_attrs o));
      do dew <- ostr_of_cval (cget A_default_ew (pj_attrs o));
      do pp <- plss_preprocess (pj_text o) (mk_dflt dns dew (pj_mc_ns o) (pj_mc_ew o)) (truthy (cget A_ocr_scrub (pj_attrs o)));
      Ok (if commit then mk_pobj (pj_text o) (pj_attrs o) (pj_conf o) (pj_tracts o) (pj_flags o) (fst pp) (pj_layout o) (pj_mc_ns o) (pj_mc_ew o) else o)
  | PSetConfig text =>
      do c <- text_to_attributes text;
      Ok (mk_pobj (pj_text o) (pd_set_config c (pj_attrs o)) c (pj_tracts o) (pj_flags o) (pj_pp_desc o) (pj_layout o) (pj_mc_ns o) (pj_mc_ew o))
  end.

(* PLSSDesc(text, config=, parse_qq=, wait_to_parse=) *)
Definition plss_new (text config : str) (parse_qq : cval) (wait : bool) (mc_ns mc_ew : str) : Py plss_obj :=
  do c <- text_to_attributes config;
  let attrs := pd_init c CNone parse_qq (CBool wait) in
  let o0 := mk_pobj text attrs c [] no_flags text None mc_ns mc_ew in
  if truthy (cget A_wait_to_parse attrs) then plss_step o0 (PPreprocess true) else plss_step o0 (PParse true empty_cfg).

Definition plss_run (o : plss_obj) (ops : list plss_op) : Py plss_obj :=
  fold_left (fun acc op => do o' <- acc; plss_step o' op) ops (Ok o).
Definition tract_run (t : tract_obj) (ops : list tract_op) : Py tract_obj :=
  fold_left (fun acc op => do t' <- acc; tract_step t' op) ops (Ok t).
