(* Model/PlssPre.v -- mirror of pytrs/parser/plssdesc/plss_preprocess.py *)
From Coq Require Import List NArith ZArith Arith Bool.
From Coq Require String.
From PyTRS Require Import Engine.Regex Gen.Patterns PyRt.Str Gen.Tables Model.Trs Model.Unpack Model.TractPre.
Import ListNotations.
Import String.StringSyntax.
Local Open Scope string_scope.

(* defaults in force: the values handed to the call (None = not given) and MasterConfig *)
Record dflt := mk_dflt { d_ns : option str; d_ew : option str; d_mc_ns : str; d_mc_ew : str }.

(* find_twprge(text, default_ns, default_ew) without preprocessing *)
Fixpoint map_py {A B} (f : A -> Py B) (l : list A) : Py (list B) :=
  match l with
  | [] => Ok []
  | x :: t => do y <- f x; do r <- map_py f t; Ok (y :: r)
  end.

Definition find_twprge_raw (text : str) (d : dflt) : Py (list str) :=
  map_py (fun x => unpack_twprge twprge_regex_groups text x (d_ns d) (d_ew d) false (d_mc_ns d) (d_mc_ew d))
         (finditer twprge_regex twprge_regex_ng text).

(* sub_scrubber(rgx, txt, default_ns, default_ew): the matches are those of the ORIGINAL text
   (finditer holds on to it); every occurrence of each matched text is replaced *)
Fixpoint sub_scrub_fold (G : twprge_groups) (ocr : bool) (orig : str) (ms : list mo) (txt : str) (d : dflt) : Py str :=
  match ms with
  | [] => Ok txt
  | x :: t =>
      do clean <- unpack_twprge G orig x (d_ns d) (d_ew d) ocr (d_mc_ns d) (d_mc_ew d);
      sub_scrub_fold G ocr orig t (replace (group0 orig x) (clean ++ s " ") txt) d
  end.

Definition plss_sub_scrubber (rg : re * nat * twprge_groups * bool) (txt : str) (d : dflt) : Py str :=
  let '(r, ng, G, ocr) := rg in
  sub_scrub_fold G ocr txt (finditer r ng txt) txt d.

Fixpoint plss_scrub_all (l : list (re * nat * twprge_groups * bool)) (txt : str) (d : dflt) : Py str :=
  match l with
  | [] => Ok txt
  | rg :: t => do txt' <- plss_sub_scrubber rg txt d; plss_scrub_all t txt' d
  end.

(* reduce_whitespace *)
Definition rw_pass (t : str) : str :=
  let t := sub inl_rw_spaces inl_rw_spaces_ng (s " ") t in
  let t := sub inl_rw_tabs inl_rw_tabs_ng (s " ") t in
  let t := sub inl_rw_cr inl_rw_cr_ng [10%N] t in
  let t := sub inl_rw_nl inl_rw_nl_ng [10%N; 10%N] t in
  sub inl_rw_lead inl_rw_lead_ng [] t.

Definition reduce_whitespace (t : str) : Py str :=
  let t := strip t in
  until_stable (stable_fuel t) rw_pass t.

(* processed_twprge_list.remove(twprge) for each original one that is present *)
Fixpoint remove_each (orig processed : list str) : list str :=
  match orig with
  | [] => processed
  | x :: t => remove_each t (if mem_str x processed then remove_first x processed else processed)
  end.

(* plss_preprocess(txt, default_ns, default_ew, ocr_scrub) -> (text, fixed_twprges) *)
Definition plss_preprocess (txt : str) (d : dflt) (ocr : bool) : Py (str * list str) :=
  (* defaults resolved from MasterConfig when None *)
  let d' := mk_dflt (Some (match d_ns d with Some v => v | None => d_mc_ns d end))
                    (Some (match d_ew d with Some v => v | None => d_mc_ew d end)) (d_mc_ns d) (d_mc_ew d) in
  let dnone := mk_dflt None None (d_mc_ns d) (d_mc_ew d) in
  do orig_list <- find_twprge_raw txt dnone;
  let rgs := if ocr then PLSS_OCR_SCRUBBER :: PLSS_SCRUBBER_REGEXES else PLSS_SCRUBBER_REGEXES in
  do t1 <- plss_scrub_all rgs txt d';
  do t2 <- reduce_whitespace t1;
  do processed <- find_twprge_raw t2 dnone;
  Ok (t2, remove_each orig_list processed).

(* find_twprge(text, default_ns, default_ew, preprocess, ocr_scrub) *)
Definition find_twprge (text : str) (d : dflt) (preprocess ocr : bool) : Py (list str) :=
  let preprocess := preprocess || ocr in
  do text' <- (if preprocess then do r <- plss_preprocess text d ocr; Ok (fst r) else Ok text);
  find_twprge_raw text' d.

(* find_sec(text) *)
Fixpoint find_sec_fold (text : str) (ms : list mo) : Py (list str) :=
  match ms with
  | [] => Ok []
  | x :: t => do u <- sec_unpacker (group0 text x); do r <- find_sec_fold text t; Ok (su_list u ++ r)
  end.
Definition find_sec (text : str) : Py (list str) :=
  find_sec_fold text (finditer multisec_regex multisec_regex_ng text).
