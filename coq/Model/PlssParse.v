(* Model/PlssParse.v -- mirror of pytrs/parser/plssdesc/plss_parse.py: deduce_layout,
   TwpRgeFinder, SecFinder, PLSSChunker, cleanup_desc, ChunkParser (all methods),
   rebuild_sec_within, PLSSParser (parse, construct_tracts, check_*, hand_down_flags).
   Hand-written, statement by statement; tied to the code by differential execution. *)
From Coq Require Import List NArith ZArith Arith Bool.
From Coq Require String.
From PyTRS Require Import Engine.Regex Gen.Patterns PyRt.Str Gen.Tables Model.Trs Model.Unpack Model.TractPre
     Model.Aliquot Model.TractParse Model.PlssPre.
Import ListNotations.
Import String.StringSyntax.
Local Open Scope string_scope.

Definition layout_in (l : str) (ls : list str) : bool := mem_str l ls.

(* ---------------- deduce_layout(text) with the default candidates ---------------- *)
Definition deduce_layout (text : str) : str :=
  let text := strip text in
  match search no_num_sec_regex no_num_sec_regex_ng text, search twprge_regex twprge_regex_ng text with
  | Some sm, Some tm =>
      if mstart sm <? mstart tm then
        (if mstart sm <=? 1 then S_DESC_TR else DESC_STR)
      else
        let between := strip (slice text (mend tm) (mstart sm)) in
        if 4 <=? length between then TR_DESC_S else TRS_DESC
  | _, _ => COPY_ALL
  end.

(* ---------------- cleanup_desc ---------------- *)
Fixpoint cull_pass (culls : list str) (text : str) : str :=
  match culls with
  | [] => text
  | c :: t => cull_pass t (if endswith (lower text) c then drop_last (length c) text else text)
  end.

Definition cleanup_pass (text : str) : str :=
  let text := lstrip_chars CLEANUP_LSTRIP text in
  let text := strip_chars CLEANUP_STRIP text in
  cull_pass CULL_LIST text.

Definition cleanup_desc (text : str) : Py str :=
  (* new_txt = ''; while text != new_txt: ... *)
  match text with
  | [] => Ok []
  | _ => until_stable (stable_fuel text) cleanup_pass text
  end.

(* ---------------- TwpRgeFinder ---------------- *)
Record tmatch := mk_tmatch { tm_val : str; tm_start : nat; tm_end : nat }.
Record tfinder := mk_tfinder { tf_matches : list tmatch; tf_flags : list str; tf_flag_lines : list flagline }.

Definition unpack_short (txt : str) (x : mo) (mc_ns mc_ew : str) : Py str :=
  do t <- unpack_twprge twprge_regex_groups txt x None None false mc_ns mc_ew;
  Ok (twprge_natural_to_short t).

Definition last_mo (l : list mo) : option mo := match rev l with x :: _ => Some x | [] => None end.

Fixpoint trf_loop (txt layout : str) (mc_ns mc_ew : str) (ms : list mo) (j : nat) (acc : tfinder) : Py tfinder :=
  match ms with
  | [] => Ok acc
  | x :: rest =>
      if layout_in layout [DESC_STR; TR_DESC_S; COPY_ALL] then
        do v <- unpack_short txt x mc_ns mc_ew;
        trf_loop txt layout mc_ns mc_ew rest j
                 (mk_tfinder (tf_matches acc ++ [mk_tmatch v (mstart x) (mend x)]) (tf_flags acc) (tf_flag_lines acc))
      else
        let i := mstart x in
        let secs := finditer_pe multisec_regex multisec_regex_ng txt j i in
        let j' := match last_mo secs with Some sm => mstart sm | None => j end in
        let legit :=
          match last_mo secs with
          | Some sm =>
              let substring := slice txt (mstart sm) (mend x) in
              match search sec_twprge_in_between sec_twprge_in_between_ng substring with
              | Some _ => false
              | None => true
              end
          | None => true
          end in
        do v <- unpack_short txt x mc_ns mc_ew;
        if legit then
          trf_loop txt layout mc_ns mc_ew rest j'
                   (mk_tfinder (tf_matches acc ++ [mk_tmatch v (mstart x) (mend x)]) (tf_flags acc) (tf_flag_lines acc))
        else
          let flag := s "twprge_ignored<" ++ v ++ s ">" in
          let line := slice txt (i - 20) (mend x) in
          trf_loop txt layout mc_ns mc_ew rest j'
                   (mk_tfinder (tf_matches acc) (tf_flags acc ++ [flag]) (tf_flag_lines acc ++ [(flag, line)]))
  end.

Definition twprge_finder (txt : str) (layout : option str) (mc_ns mc_ew : str) : Py tfinder :=
  let layout := match layout with Some l => l | None => deduce_layout txt end in
  trf_loop txt layout mc_ns mc_ew (finditer twprge_regex twprge_regex_ng txt) 0 (mk_tfinder [] [] []).

(* ---------------- SecFinder ---------------- *)
Inductive reqcolon := RC_bool (b : bool) | RC_cautious | RC_second.

Record smatch := mk_smatch { sm_val : list str; sm_start : nat; sm_end : nat }.
Record sfinder := mk_sfinder { sf_matches : list smatch; sf_flags : list str; sf_flag_lines : list flagline }.

Definition is_multi_sec (t : str) (x : mo) : Py bool := is_multi sec_groups t x.

(* returns the finder state and the sec_nums of the last match iterated (used by the second pass) *)
Fixpoint sf_loop (text layout : str) (need_colon : bool) (ms : list mo) (acc : sfinder) (last_nums : list str)
  : Py (sfinder * list str) :=
  match ms with
  | [] => Ok (acc, last_nums)
  | x :: rest =>
      let sec_txt := group0 text x in
      do u <- sec_unpacker sec_txt;
      let sec_nums := su_list u in
      let prior := rstrip (firstn (mstart x) text) in
      let illegal_word_prior := existsb (endswith prior) SEC_ILLEGAL_PRIOR in
      let legit := negb (layout_in layout [TRS_DESC; S_DESC_TR] && illegal_word_prior) in
      let legit := legit && negb (need_colon && negb (is_some (group text x multisec_regex_g_colon))) in
      if negb legit then
        do flag <- (match sec_nums with
                    | [] => Raise IndexError
                    | [one] => Ok (s "sec_ignored<" ++ one ++ s ">")
                    | _ => Ok (s "multisec_ignored<" ++ join (s ",") sec_nums ++ s ">")
                    end);
        sf_loop text layout need_colon rest
                (mk_sfinder (sf_matches acc) (sf_flags acc ++ [flag]) (sf_flag_lines acc ++ [(flag, sec_txt)])) sec_nums
      else
        do multi <- is_multi_sec text x;
        let '(f1, fl1) :=
          if multi then
            let flag := s "multisec_found<" ++ join (s ",") sec_nums ++ s ">" in
            (sf_flags acc ++ [flag], sf_flag_lines acc ++ [(flag, sec_txt)])
          else (sf_flags acc, sf_flag_lines acc) in
        (* new_match: a second SecUnpacker on the same text; its flags are added *)
        sf_loop text layout need_colon rest
                (mk_sfinder (sf_matches acc ++ [mk_smatch (su_list u) (mstart x) (mend x)])
                            (f1 ++ su_flags u) (fl1 ++ su_flag_lines u)) sec_nums
  end.

Definition sec_finder_pass (text layout : str) (rc : reqcolon) (acc0 : sfinder) : Py (sfinder * list str) :=
  let need_colon := match rc with RC_bool b => b | RC_second => false | RC_cautious => true end in
  let acc0 := match rc with RC_second => mk_sfinder (sf_matches acc0) [] [] | _ => acc0 end in
  let need_colon := if layout_in layout [TRS_DESC; S_DESC_TR] then need_colon else false in
  sf_loop text layout need_colon (finditer multisec_regex multisec_regex_ng text) acc0 [].

Definition sec_finder (text : str) (layout : option str) (rc : reqcolon) : Py sfinder :=
  let layout := match layout with Some l => l | None => deduce_layout text end in
  do r1 <- sec_finder_pass text layout rc (mk_sfinder [] [] []);
  let '(f1, _) := r1 in
  match sf_matches f1 with
  | _ :: _ => Ok f1                      (* matches and not the second pass *)
  | [] =>
      match rc with
      | RC_cautious =>
          if layout_in layout [TRS_DESC; S_DESC_TR] then
            do r2 <- sec_finder_pass text layout RC_second f1;
            let '(f2, nums) := r2 in
            match sf_matches f2 with
            | _ :: _ =>
                let flag := s "pulled_sec_without_colon<" ++ join (s ",") nums ++ s ">" in
                Ok (mk_sfinder (sf_matches f2) (sf_flags f2 ++ [flag]) (sf_flag_lines f2 ++ [(flag, flag)]))
            | [] => Ok f2
            end
          else Ok f1
      | RC_second =>
          (* called directly with SECOND_PASS (not reachable from PLSSDesc) *)
          Ok f1
      | RC_bool _ => Ok f1
      end
  end.

(* ---------------- markers ---------------- *)
Inductive mkind := TEXT_START | TEXT_END | SEC_START | SEC_END | TWPRGE_START | TWPRGE_END.

Fixpoint md_set (k : nat) (v : mkind) (d : list (nat * mkind)) : list (nat * mkind) :=
  match d with
  | [] => [(k, v)]
  | (k', v') :: t => if k =? k' then (k, v) :: t else (k', v') :: md_set k v t
  end.
Fixpoint md_get (k : nat) (d : list (nat * mkind)) : option mkind :=
  match d with
  | [] => None
  | (k', v) :: t => if k =? k' then Some v else md_get k t
  end.
Fixpoint insert_nat (x : nat) (l : list nat) : list nat :=
  match l with
  | [] => [x]
  | y :: t => if x <=? y then x :: y :: t else y :: insert_nat x t
  end.
Definition sort_nat (l : list nat) : list nat := fold_right insert_nat [] l.

(* ---------------- tract components ---------------- *)
Record tcomp := mk_tcomp { tc_desc : str; tc_sec : list str; tc_twprge : str; tc_within : bool }.

(* rebuild_sec_within(tract_components, unused_components, min_length) -- mutates both *)
Fixpoint rsw_loop (unused : list (nat * str)) (desc : str) : Py str :=
  match unused with
  | [] => Ok desc
  | (i, u) :: t =>
      do u' <- cleanup_desc u;
      if MIN_REPORTABLE_UNUSED_LEN <=? length u' then
        rsw_loop t (match i with O => u' ++ s " " ++ desc | _ => desc ++ s " " ++ u' end)
      else rsw_loop t desc
  end.

Definition rebuild_sec_within (tcs : list tcomp) (unused : list (nat * str)) : Py (list tcomp * list (nat * str)) :=
  match tcs with
  | [c] =>
      do desc <- rsw_loop unused (tc_desc c);
      if str_eqb desc (tc_desc c) then Ok ([c], [])
      else Ok ([mk_tcomp desc (tc_sec c) (tc_twprge c) true], [])
  | _ => Ok (tcs, unused)
  end.

(* ---------------- ChunkParser ---------------- *)
Record cp := mk_cp {
  cp_w : list str; cp_wl : list flagline; cp_e : list str; cp_el : list flagline;
  cp_unused : list (nat * str); cp_tc : list tcomp;
  cp_wt_list : list str; cp_ws_list : list (list str);
  cp_wt : option str; cp_ws : option (list str);
  cp_ltu : bool; cp_lsu : bool }.

Definition cp0 : cp := mk_cp [] [] [] [] [] [] [] [] None None false false.

Definition set_flags (c : cp) w wl e el : cp :=
  mk_cp w wl e el (cp_unused c) (cp_tc c) (cp_wt_list c) (cp_ws_list c) (cp_wt c) (cp_ws c) (cp_ltu c) (cp_lsu c).

(* repr() of a list of plain strings: ['14', '15'] *)
Definition py_repr_strs (l : list str) : str :=
  s "[" ++ join (s ", ") (map (fun x => s "'" ++ x ++ s "'") l) ++ s "]".

Definition opt_str_is (o : option str) (t : str) : bool := match o with Some v => str_eqb v t | None => false end.

Definition get_next_twprge (c : cp) : cp :=
  let c1 :=
    if negb (cp_ltu c) && negb (match cp_wt c with None => true | Some v => str_eqb v MC_ERR_TWPRGE end) then
      let wt := match cp_wt c with Some v => v | None => [] end in
      let flag := E_FLAG_TWPRGE_ERR ++ s "<" ++ wt ++ s ">" in
      set_flags c (cp_w c) (cp_wl c) (cp_e c ++ [flag]) (cp_el c ++ [(flag, s "<" ++ wt ++ s ">")])
    else c in
  match cp_wt_list c1 with
  | v :: t => mk_cp (cp_w c1) (cp_wl c1) (cp_e c1) (cp_el c1) (cp_unused c1) (cp_tc c1) t (cp_ws_list c1) (Some v) (cp_ws c1) false (cp_lsu c1)
  | [] => mk_cp (cp_w c1) (cp_wl c1) (cp_e c1) (cp_el c1) (cp_unused c1) (cp_tc c1) [] (cp_ws_list c1) (Some MC_ERR_TWPRGE) (cp_ws c1) false (cp_lsu c1)
  end.

(* `self.working_sec not in [None, MasterConfig._ERR_SEC]`: a list never equals the str 'XX' *)
Definition get_next_sec (c : cp) : cp :=
  let c1 :=
    if negb (cp_lsu c) && (match cp_ws c with None => false | Some _ => true end) then
      let ws := match cp_ws c with Some v => v | None => [] end in
      let wt := match cp_wt c with Some v => v | None => s "None" end in
      let flag := E_FLAG_SECERR ++ s "<" ++ py_repr_strs ws ++ s ">" in
      set_flags c (cp_w c) (cp_wl c) (cp_e c ++ [flag]) (cp_el c ++ [(flag, s "<" ++ py_repr_strs ws ++ s "/" ++ wt ++ s ">")])
    else c in
  match cp_ws_list c1 with
  | v :: t => mk_cp (cp_w c1) (cp_wl c1) (cp_e c1) (cp_el c1) (cp_unused c1) (cp_tc c1) (cp_wt_list c1) t (cp_wt c1) (Some v) (cp_ltu c1) false
  | [] => mk_cp (cp_w c1) (cp_wl c1) (cp_e c1) (cp_el c1) (cp_unused c1) (cp_tc c1) (cp_wt_list c1) [] (cp_wt c1) (Some [MC_ERR_SEC]) (cp_ltu c1) false
  end.

(* _stage_new_tract: sec / twprge may still be None (then construct_tracts would fail) *)
Definition stage_new_tract (c : cp) (desc : str) (sec : option (list str)) (twprge : option str) : Py cp :=
  match sec with
  | Some sc =>
      (* a working_twprge of None is formatted as 'None' by the f-string in construct_tracts *)
      let tw := match twprge with Some v => v | None => s "None" end in
      Ok (mk_cp (cp_w c) (cp_wl c) (cp_e c) (cp_el c) (cp_unused c) (cp_tc c ++ [mk_tcomp desc sc tw false])
                (cp_wt_list c) (cp_ws_list c) (cp_wt c) (cp_ws c) (cp_ltu c) (cp_lsu c))
  | None => Raise TypeError      (* `for sec in None` in construct_tracts *)
  end.

Definition prep_new_tract (c : cp) (desc : str) : Py cp :=
  do desc' <- cleanup_desc desc;
  do c1 <- stage_new_tract c desc' (cp_ws c) (cp_wt c);
  Ok (mk_cp (cp_w c1) (cp_wl c1) (cp_e c1) (cp_el c1) (cp_unused c1) (cp_tc c1) (cp_wt_list c1) (cp_ws_list c1)
            (cp_wt c1) (Some [MC_ERR_SEC]) true true).

Definition mk_eqb (a b : mkind) : bool :=
  match a, b with
  | TEXT_START, TEXT_START | TEXT_END, TEXT_END | SEC_START, SEC_START | SEC_END, SEC_END
  | TWPRGE_START, TWPRGE_START | TWPRGE_END, TWPRGE_END => true
  | _, _ => false
  end.

(* the marker walk of _parse_meaningful *)
Fixpoint walk (txt : str) (s_desc : bool) (md : list (nat * mkind)) (ms : list nat) (c : cp) : Py cp :=
  match ms with
  | [] => Ok c
  | p :: rest =>
      let nextp := match rest with q :: _ => q | [] => p end in
      match md_get p md, md_get nextp md with
      | Some mt, Some nmt =>
          match mt with
          | TWPRGE_START => walk txt s_desc md rest (get_next_twprge c)
          | SEC_START => walk txt s_desc md rest (get_next_sec c)
          | TEXT_END => walk txt s_desc md rest c
          | _ =>
              let block := slice txt p nextp in
              if s_desc && mk_eqb mt SEC_END then
                do c' <- prep_new_tract c block; walk txt s_desc md rest c'
              else if negb s_desc && mk_eqb nmt SEC_START then
                do c' <- prep_new_tract c block; walk txt s_desc md rest c'
              else
                walk txt s_desc md rest
                     (mk_cp (cp_w c) (cp_wl c) (cp_e c) (cp_el c) (cp_unused c ++ [(length (cp_tc c), block)]) (cp_tc c)
                            (cp_wt_list c) (cp_ws_list c) (cp_wt c) (cp_ws c) (cp_ltu c) (cp_lsu c))
          end
      | _, _ => Raise KeyError
      end
  end.

Definition populate_markers (text : str) (secs : list smatch) (twps : list tmatch) : list (nat * mkind) :=
  let d := md_set 0 TEXT_START [] in
  let d := md_set (length text) TEXT_END d in
  let d := fold_left (fun d m => md_set (sm_end m) SEC_END (md_set (sm_start m) SEC_START d)) secs d in
  fold_left (fun d m => md_set (tm_end m) TWPRGE_END (md_set (tm_start m) TWPRGE_START d)) twps d.

(* what parse_chunk needs from its parent *)
Record pctx := mk_pctx { px_mandate : bool; px_require_colon : reqcolon; px_sec_within : bool; px_mc_ns : str; px_mc_ew : str }.

Definition unused_flags (c : cp) : cp :=
  let fw := map (fun t => s "unused_twprge<" ++ t ++ s ">") (cp_wt_list c) in
  let fs := map (fun l => s "unused_sec<" ++ join (s ",") l ++ s ">") (cp_ws_list c) in
  set_flags c (cp_w c) (cp_wl c) (cp_e c ++ fw ++ fs) (cp_el c ++ map (fun f => (f, f)) (fw ++ fs)).

(* parse_chunk for layout [layout] (None = to be deduced); [fallback] = this is the copy_all stand-in *)
Definition parse_chunk_with (chunk : str) (chunk_layout : str) (px : pctx) : Py cp :=
  do tf <- twprge_finder chunk (Some chunk_layout) (px_mc_ns px) (px_mc_ew px);
  do sf <- sec_finder chunk (Some chunk_layout) (px_require_colon px);
  let c := mk_cp (tf_flags tf ++ sf_flags sf) (tf_flag_lines tf ++ sf_flag_lines sf) [] [] [] []
                 (map tm_val (tf_matches tf)) (map sm_val (sf_matches sf)) None None false false in
  let md := populate_markers chunk (sf_matches sf) (tf_matches tf) in
  let ml := sort_nat (map fst md) in
  if str_eqb chunk_layout COPY_ALL then
    (* _parse_copyall *)
    let c1 := get_next_sec c in
    do sec1 <- (match cp_ws c1 with Some (x :: _) => Ok [x] | _ => Raise IndexError end);
    let c2 := get_next_twprge c1 in
    stage_new_tract c2 chunk (Some sec1) (cp_wt c2)
  else
    let s_desc := layout_in chunk_layout [TRS_DESC; S_DESC_TR] in
    let tr_first := layout_in chunk_layout [TRS_DESC; TR_DESC_S] in
    let c1 := if negb s_desc then get_next_sec c else c in
    let c2 := if negb tr_first then get_next_twprge c1 else c1 in
    do c3 <- walk chunk s_desc md ml c2;
    (* retrieve unused working twprge / sec *)
    let c4 :=
      if negb (cp_ltu c3) && negb (opt_str_is (cp_wt c3) MC_ERR_TWPRGE) then
        mk_cp (cp_w c3) (cp_wl c3) (cp_e c3) (cp_el c3) (cp_unused c3) (cp_tc c3)
              ((match cp_wt c3 with Some v => v | None => s "None" end) :: cp_wt_list c3) (cp_ws_list c3) (cp_wt c3) (cp_ws c3) (cp_ltu c3) (cp_lsu c3)
      else c3 in
    let c5 :=
      match cp_ws c4 with
      | Some ws =>
          if negb (cp_lsu c4) && negb (match ws with [x] => str_eqb x MC_ERR_SEC | _ => false end) then
            mk_cp (cp_w c4) (cp_wl c4) (cp_e c4) (cp_el c4) (cp_unused c4) (cp_tc c4) (cp_wt_list c4) (ws :: cp_ws_list c4)
                  (cp_wt c4) (cp_ws c4) (cp_ltu c4) (cp_lsu c4)
          else c4
      | None => c4
      end in
    let c6 := unused_flags c5 in
    if px_sec_within px then
      do r <- rebuild_sec_within (cp_tc c6) (cp_unused c6);
      Ok (mk_cp (cp_w c6) (cp_wl c6) (cp_e c6) (cp_el c6) (snd r) (fst r) (cp_wt_list c6) (cp_ws_list c6) (cp_wt c6) (cp_ws c6) (cp_ltu c6) (cp_lsu c6))
    else Ok c6.

(* note: a working_twprge of None put back into the list would be formatted as 'None' by the f-string *)

Definition parse_chunk (chunk : str) (layout : option str) (px : pctx) : Py cp :=
  let chunk_layout :=
    match layout with
    | Some l => if str_eqb l COPY_ALL then Some l else if px_mandate px then layout else Some (deduce_layout chunk)
    | None => if px_mandate px then None else Some (deduce_layout chunk)
    end in
  (* with a mandated (non copy_all) layout the ChunkParser is handed None: the finders deduce the
     layout themselves and _parse_meaningful runs with layout None *)
  do c <-
     (match chunk_layout with
      | Some l => parse_chunk_with chunk l px
      | None =>
          do tf <- twprge_finder chunk None (px_mc_ns px) (px_mc_ew px);
          do sf <- sec_finder chunk None (px_require_colon px);
          let c := mk_cp (tf_flags tf ++ sf_flags sf) (tf_flag_lines tf ++ sf_flag_lines sf) [] [] [] []
                         (map tm_val (tf_matches tf)) (map sm_val (sf_matches sf)) None None false false in
          let md := populate_markers chunk (sf_matches sf) (tf_matches tf) in
          let ml := sort_nat (map fst md) in
          let c2 := get_next_twprge (get_next_sec c) in
          do c3 <- walk chunk false md ml c2;
          let c4 :=
            if negb (cp_ltu c3) && negb (opt_str_is (cp_wt c3) MC_ERR_TWPRGE) then
              mk_cp (cp_w c3) (cp_wl c3) (cp_e c3) (cp_el c3) (cp_unused c3) (cp_tc c3)
                    ((match cp_wt c3 with Some v => v | None => s "None" end) :: cp_wt_list c3) (cp_ws_list c3) (cp_wt c3) (cp_ws c3) (cp_ltu c3) (cp_lsu c3)
            else c3 in
          let c5 :=
            match cp_ws c4 with
            | Some ws =>
                if negb (cp_lsu c4) && negb (match ws with [x] => str_eqb x MC_ERR_SEC | _ => false end) then
                  mk_cp (cp_w c4) (cp_wl c4) (cp_e c4) (cp_el c4) (cp_unused c4) (cp_tc c4) (cp_wt_list c4) (ws :: cp_ws_list c4)
                        (cp_wt c4) (cp_ws c4) (cp_ltu c4) (cp_lsu c4)
                else c4
            | None => c4
            end in
          let c6 := unused_flags c5 in
          if px_sec_within px then
            do r <- rebuild_sec_within (cp_tc c6) (cp_unused c6);
            Ok (mk_cp (cp_w c6) (cp_wl c6) (cp_e c6) (cp_el c6) (snd r) (fst r) (cp_wt_list c6) (cp_ws_list c6) (cp_wt c6) (cp_ws c6) (cp_ltu c6) (cp_lsu c6))
          else Ok c6
      end);
  match cp_tc c, chunk_layout with
  | [], Some l =>
      if str_eqb l COPY_ALL then Ok c
      else
        (* replacement ChunkParser(self.text, COPY_ALL, parent, hand_off=False): its results replace ours *)
        parse_chunk_with chunk COPY_ALL px
  | [], None => parse_chunk_with chunk COPY_ALL px
  | _, _ => Ok c
  end.

(* ---------------- gen_flags_chunk ---------------- *)
Fixpoint extend_context (fuel : nat) (r : re) (ng : nat) (chunk : str) (right_context : nat) (end_ : nat) : Py nat :=
  match fuel with
  | O => Raise OutOfFuel
  | S f =>
      let max_end := length chunk in
      match search_pe r ng chunk end_ (Nat.min max_end (end_ + right_context)) with
      | None => Ok end_
      | Some x => extend_context f r ng chunk right_context (mend x)
      end
  end.

Fixpoint flag_scan (fuel : nat) (row : re * nat * str * nat * nat) (chunk : str) (start_pos : nat)
         (acc : list str * list flagline) : Py (list str * list flagline) :=
  match fuel with
  | O => Raise OutOfFuel
  | S f =>
      let '(r, ng, flag, lc, rc) := row in
      match search_pe r ng chunk start_pos (length chunk) with
      | None => Ok acc
      | Some x =>
          do fin <- extend_context (S (length chunk)) r ng chunk rc (mend x);
          let i := mstart x - lc in
          let j := Nat.min (fin + rc) (length chunk) in
          let context := strip (replace [10%N] (s " ") (slice chunk i j)) in
          flag_scan f row chunk j (fst acc ++ [flag], snd acc ++ [(flag, s "<" ++ context ++ s ">")])
      end
  end.

Fixpoint gen_flags_rows (rows : list (re * nat * str * nat * nat)) (chunk : str) (acc : list str * list flagline)
  : Py (list str * list flagline) :=
  match rows with
  | [] => Ok acc
  | row :: t => do acc' <- flag_scan (S (S (length chunk))) row chunk 0 acc; gen_flags_rows t chunk acc'
  end.

Definition gen_flags_chunk (chunk : str) : Py (list str * list flagline) := gen_flags_rows FLAG_TABLE chunk ([], []).

(* ---------------- PLSSChunker ---------------- *)
Fixpoint seg_first (text : str) (ms : list tmatch) (first : bool) (blocks : list str) (unused : list (nat * str))
  : Py (list str * list (nat * str)) :=
  match ms with
  | [] => Ok (blocks, unused)
  | m :: rest =>
      let next_start := match rest with n :: _ => tm_start n | [] => length text end in
      let unused' := if first && negb (tm_start m =? 0) then unused ++ [(0, firstn (tm_start m) text)] else unused in
      do b <- cleanup_desc (slice text (tm_start m) next_start);
      seg_first text rest false (blocks ++ [b]) unused'
  end.

Fixpoint seg_last (text : str) (ms : list tmatch) (prev_end : nat) (blocks : list str) (unused : list (nat * str))
  : Py (list str * list (nat * str)) :=
  match ms with
  | [] => Ok (blocks, unused)
  | m :: rest =>
      let unused' := match rest with
                     | [] => if negb (tm_end m =? length text) then unused ++ [(1, skipn (tm_end m) text)] else unused
                     | _ => unused
                     end in
      do b <- cleanup_desc (slice text prev_end (tm_end m));
      seg_last text rest (tm_end m) (blocks ++ [b]) unused'
  end.

Definition plss_chunker (text : str) (layout : str) (mc_ns mc_ew : str) : Py (list str * list (nat * str)) :=
  do tf <- twprge_finder text (Some layout) mc_ns mc_ew;
  match tf_matches tf with
  | [] => Ok ([text], [])
  | ms =>
      if str_eqb layout COPY_ALL then Ok ([text], [])
      else if layout_in layout [TRS_DESC; TR_DESC_S] then seg_first text ms true [] []
      else seg_last text ms 0 [] []
  end.

(* ---------------- PLSSParser ---------------- *)
Record tract_out := mk_tract_out {
  to_trs : str; to_desc : str; to_orig_index : nat; to_pp_desc : str; to_parse_complete : bool;
  to_lots : list str; to_qqs : list str; to_lot_acres : list (str * str); to_aliquots_whole : list str;
  to_flags : flagset }.

(* tract-level settings in force (what Tract.parse hands to TractParser) *)
Record tsettings := mk_tsettings { ts_parse_qq : bool; ts_clean_qq : bool; ts_suppress : bool; ts_mn : Z; ts_mx : option Z; ts_bh : bool }.

(* Tract(desc, trs, config=handed_down, parse_qq, ..., orig_index) *)
Definition make_tract (desc trs : str) (idx : nat) (ts : tsettings) : Py tract_out :=
  let trs' := TRS_trs (Some trs) in
  if ts_parse_qq ts then
    do r <- tract_parser desc (ts_clean_qq ts) (ts_suppress ts) (ts_mn ts) (ts_mx ts) None (ts_bh ts) no_flags;
    Ok (mk_tract_out trs' desc idx (tp_text r) true (tp_lots r) (tp_qqs r) (tp_lot_acres r) (tp_aliquots_whole r) (tp_flags r))
  else
    do pp <- scrub_aliquots desc (ts_clean_qq ts);
    Ok (mk_tract_out trs' desc idx pp false [] [] [] [] no_flags).

Fixpoint construct_secs (desc twprge : str) (secs : list str) (within : bool) (idx : nat) (ts : tsettings)
  : Py (list tract_out * list nat * nat) :=
  match secs with
  | [] => Ok ([], [], idx)
  | sc :: rest =>
      do t <- make_tract desc (twprge ++ sc) idx ts;
      do r <- construct_secs desc twprge rest within (S idx) ts;
      let '(ts', wi, n) := r in
      Ok (t :: ts', (if within then idx :: wi else wi), n)
  end.

Fixpoint construct_tracts (tcs : list tcomp) (clean_up : bool) (idx : nat) (ts : tsettings)
  : Py (list tract_out * list nat) :=
  match tcs with
  | [] => Ok ([], [])
  | c :: rest =>
      do desc <- (if clean_up then cleanup_desc (tc_desc c) else Ok (tc_desc c));
      do r <- construct_secs desc (tc_twprge c) (tc_sec c) (tc_within c) idx ts;
      let '(t1, w1, n) := r in
      do r2 <- construct_tracts rest clean_up n ts;
      Ok (t1 ++ fst r2, w1 ++ snd r2)
  end.

Record parser_out := mk_parser_out {
  po_text : str; po_layout : str; po_tracts : list tract_out; po_flags : flagset }.

Record pstate := mk_pstate {
  ps_w : list str; ps_wl : list flagline; ps_e : list str; ps_el : list flagline;
  ps_tc : list tcomp; ps_unused : list (nat * str) }.

Fixpoint parse_chunks (chunks : list str) (chunk_layout : option str) (px : pctx) (st : pstate) : Py pstate :=
  match chunks with
  | [] => Ok st
  | ch :: rest =>
      do c <- parse_chunk ch chunk_layout px;
      do gf <- gen_flags_chunk ch;
      (* gen_flags_chunk writes to the parent first, then the chunk's own lists are appended *)
      parse_chunks rest chunk_layout px
        (mk_pstate (ps_w st ++ fst gf ++ cp_w c) (ps_wl st ++ snd gf ++ cp_wl c) (ps_e st ++ cp_e c) (ps_el st ++ cp_el c)
                   (ps_tc st ++ cp_tc c) (ps_unused st ++ cp_unused c))
  end.

Definition quick_desc_short (t : tract_out) : str :=
  let qd := to_trs t ++ s ": " ++ to_desc t in
  if 30 <? length qd then firstn 27 qd ++ s "..." else qd.

Definition is_error_trs (trs : str) : bool := is_error3 (trs_to_dict (Some trs)) true true true.

Definition hand_down (f : flagset) (t : tract_out) : tract_out :=
  mk_tract_out (to_trs t) (to_desc t) (to_orig_index t) (to_pp_desc t) (to_parse_complete t) (to_lots t) (to_qqs t)
               (to_lot_acres t) (to_aliquots_whole t)
               (mk_flagset (w_flags (to_flags t) ++ w_flags f) (w_flag_lines (to_flags t) ++ w_flag_lines f)
                           (e_flags (to_flags t) ++ e_flags f) (e_flag_lines (to_flags t) ++ e_flag_lines f)).

(* PLSSParser(text, layout, default_ns, default_ew, ocr_scrub, clean_up, parse_qq, ..., require_colon,
              segment, ..., sec_within, handed_down_config) -- in stages, so that proofs can follow them *)
Definition initial_flags (fixed : list str) : list str * list flagline :=
  match fixed with
  | [] => ([], [])
  | _ => let flag := s "fixed_twprge<" ++ join (s ",") (map twprge_natural_to_short fixed) ++ s ">" in ([flag], [(flag, flag)])
  end.

Definition chunks_of (segment : bool) (ptext layout' mc_ns mc_ew : str) : Py (list str * list (nat * str)) :=
  if segment then plss_chunker ptext layout' mc_ns mc_ew else Ok ([ptext], []).

(* everything after the chunks were parsed: sec_within, construct_tracts, examine_unused,
   check_sec_within_tracts, check_error_tracts, hand_down_flags *)
(* examine_unused, check_sec_within_tracts, check_error_tracts, hand_down_flags *)
Definition assemble (st : pstate) (ptext layout' : str) (tracts : list tract_out) (unused : list (nat * str))
           (wflags : list flagline) : parser_out :=
  let big := filter (fun u => MIN_REPORTABLE_UNUSED_LEN <=? length (snd u)) unused in
  let e1 := ps_e st ++ map (fun u => s "unused_desc<" ++ snd u ++ s ">") big in
  let el1 := ps_el st ++ map (fun u => (s "unused_desc<" ++ snd u ++ s ">", snd u)) big in
  let w2 := ps_w st ++ map fst wflags in
  let wl2 := ps_wl st ++ wflags in
  let err := existsb (fun t => is_error_trs (to_trs t)) tracts in
  let e2 := if err then e1 ++ [E_FLAG_TWPRGE_ERR] else e1 in
  let el2 := if err then el1 ++ [(E_FLAG_TWPRGE_ERR, E_FLAG_TWPRGE_ERR)] else el1 in
  let f := mk_flagset w2 wl2 e2 el2 in
  mk_parser_out ptext layout' (map (hand_down f) tracts) f.

Definition finish_parse (st : pstate) (sec_within clean_up' : bool) (ts : tsettings) (ptext layout' : str) : Py parser_out :=
  do rs <- (if sec_within then rebuild_sec_within (ps_tc st) (ps_unused st) else Ok (ps_tc st, ps_unused st));
  do ct <- construct_tracts (fst rs) clean_up' 0 ts;
  do wflags <- map_py (fun i => match nth_error (fst ct) i with
                                | Some t => Ok (s "sec_within<" ++ to_trs t ++ s ">", quick_desc_short t)
                                | None => Raise IndexError end) (snd ct);
  Ok (assemble st ptext layout' (fst ct) (snd rs) wflags).

Definition parse_text (ptext : str) (fixed : list str) (layout : option str) (d : dflt) (clean_up : option bool)
           (rc : reqcolon) (segment sec_within : bool) (ts : tsettings) : Py parser_out :=
  let mandate := negb segment && (match layout with Some _ => true | None => false end) in
  let layout' := match layout with Some l => l | None => deduce_layout ptext end in
  let clean_up' := match clean_up with Some b => b | None => negb (str_eqb layout' COPY_ALL) end in
  let px := mk_pctx mandate rc sec_within (d_mc_ns d) (d_mc_ew d) in
  let chunk_layout := if str_eqb layout' COPY_ALL then Some COPY_ALL else None in
  do ch <- chunks_of segment ptext layout' (d_mc_ns d) (d_mc_ew d);
  do st <- parse_chunks (fst ch) chunk_layout px
                        (mk_pstate (fst (initial_flags fixed)) (snd (initial_flags fixed)) [] [] [] (snd ch));
  finish_parse st sec_within clean_up' ts ptext layout'.

Definition plss_parser (text : str) (layout : option str) (d : dflt) (ocr : bool) (clean_up : option bool)
           (rc : reqcolon) (segment sec_within : bool) (ts : tsettings) : Py parser_out :=
  do pp <- plss_preprocess text d ocr;
  parse_text (fst pp) (snd pp) layout d clean_up rc segment sec_within ts.
