(* Model/TractPre.v -- mirror of pytrs/parser/tract/tract_preprocess.py *)
From Coq Require Import List NArith ZArith Arith Bool.
From Coq Require String.
From PyTRS Require Import Engine.Regex Gen.Patterns PyRt.Str Gen.Tables Model.Trs.
Import ListNotations.
Import String.StringSyntax.
Local Open Scope string_scope.

(* substitute-until-stable loops: fuel is generous; exhaustion is an error value *)
Definition stable_fuel (t : str) : nat := 8 + 4 * length t.

Fixpoint until_stable (fuel : nat) (f : str -> str) (txt : str) : Py str :=
  match fuel with
  | O => Raise OutOfFuel
  | S fuel' =>
      let txt' := f txt in
      if str_eqb txt' txt then Ok txt else until_stable fuel' f txt'
  end.

(* sub_scrubber(txt, rgx): re.sub until nothing changes *)
Definition sub_scrubber (txt : str) (rg : re * nat * str) : Py str :=
  let '(r, ng, repl) := rg in
  until_stable (stable_fuel txt) (sub r ng repl) txt.

Definition opt_eqb (o : option str) (t : str) : bool :=
  match o with Some v => str_eqb v t | None => false end.

Definition process_half_plus_q_match (t : str) (x : mo) : str :=
  match group t x half_plus_q_regex_g_quarter_aliquot_rightmost with
  | None => group0 t x     (* unreachable: the group is mandatory *)
  | Some cmp =>
      let q :=
        if opt_eqb (group t x half_plus_q_regex_g_ne_found) cmp then NE_FRAC
        else if opt_eqb (group t x half_plus_q_regex_g_nw_found) cmp then NW_FRAC
        else if opt_eqb (group t x half_plus_q_regex_g_se_found) cmp then SE_FRAC
        else if opt_eqb (group t x half_plus_q_regex_g_sw_found) cmp then SW_FRAC
        else [] in
      let g0 := group0 t x in
      (* replace_with[:-len(cmp)]  (len(cmp) = 0 would give '') *)
      (match cmp with [] => [] | _ => drop_last (length cmp) g0 end) ++ q
  end.

Definition half_plus_q_scrubber (txt : str) : Py str :=
  until_stable (stable_fuel txt)
               (fun t => sub_fn half_plus_q_regex half_plus_q_regex_ng (process_half_plus_q_match t) t)
               txt.

Definition remove_aliquot_interveners (txt : str) : Py str :=
  until_stable (stable_fuel txt)
    (fun t =>
       sub_fn aliquot_intervener_remover_regex aliquot_intervener_remover_regex_ng
              (fun x =>
                 match group t x aliquot_intervener_remover_regex_g_aliquot1 with Some v => v | None => [] end
                 ++ match group t x aliquot_intervener_remover_regex_g_aliquot2 with Some v => v | None => [] end)
              t)
    txt.

Fixpoint fold_scrub (l : list (re * nat * str)) (txt : str) : Py str :=
  match l with
  | [] => Ok txt
  | rg :: t => do txt' <- sub_scrubber txt rg; fold_scrub t txt'
  end.

Definition scrub_aliquots (txt : str) (clean_qq : bool) : Py str :=
  do t1 <- fold_scrub TRACT_SCRUBBER_REGEXES txt;
  do t2 <- (if clean_qq then fold_scrub TRACT_CLEAN_QQ_REGEXES t1 else Ok t1);
  do t3 <- half_plus_q_scrubber t2;
  remove_aliquot_interveners t3.
