(* Model/PlssDesc.v -- PLSSDesc(text, layout, config, parse_qq) end to end: Config text ->
   attributes -> parse() lock-down (Model/Config.v) -> PLSSParser (Model/PlssParse.v) -> tracts
   configured from the handed-down config text. *)
From Coq Require Import List NArith ZArith Arith Bool.
From Coq Require String.
From PyTRS Require Import Engine.Regex Gen.Patterns PyRt.Str Gen.Tables Model.Trs Model.Unpack Model.TractPre
     Model.Aliquot Model.TractParse Model.PlssPre Model.PlssParse Model.Config.
Import ListNotations.
Import String.StringSyntax.
Local Open Scope string_scope.

Definition ostr_of_cval (v : cval) : Py (option str) :=
  match v with CNone => Ok None | CStr t => Ok (Some t) | _ => Raise ModelGap end.

Definition rc_of_cval (v : cval) : Py reqcolon :=
  match v with
  | CBool b => Ok (RC_bool b)
  | CStr t => if str_eqb t SEC_COLON_CAUTIOUS then Ok RC_cautious else Raise ModelGap
  | _ => Raise ModelGap
  end.

Definition z_of_cval (v : cval) : Py Z := match v with CInt z => Ok z | _ => Raise ModelGap end.
Definition oz_of_cval (v : cval) : Py (option Z) :=
  match v with CNone => Ok None | CInt z => Ok (Some z) | _ => Raise ModelGap end.

(* what the subordinate Tract objects end up doing, from the handed-down config text *)
Definition tract_settings (handed : str) (parse_qq : cval) : Py tsettings :=
  let handed' := if truthy parse_qq then handed ++ s ",parse_qq" else handed in
  do ct <- text_to_attributes handed';
  let st := tr_init ct parse_qq in
  let te := tr_parse st empty_cfg in
  do mn <- z_of_cval (te_qq_depth_min te);
  do mx <- oz_of_cval (te_qq_depth_max te);
  Ok (mk_tsettings (truthy (cget A_parse_qq st)) (truthy (te_clean_qq te)) (truthy (te_suppress_lot_divs te)) mn mx
                   (truthy (te_break_halves te))).

Definition run_parser (text : str) (e : pd_effective) (clean_up : option bool) (mc_ns mc_ew : str) : Py parser_out :=
  do layout <- ostr_of_cval (pe_layout e);
  do dns <- ostr_of_cval (pe_default_ns e);
  do dew <- ostr_of_cval (pe_default_ew e);
  do rc <- rc_of_cval (pe_require_colon e);
  do handed <- pe_handed_down e;
  do ts <- tract_settings handed (pe_parse_qq e);
  plss_parser text layout (mk_dflt dns dew mc_ns mc_ew) (truthy (pe_ocr_scrub e)) clean_up rc
              (truthy (pe_segment e)) (truthy (pe_sec_within e)) ts.

(* PLSSDesc(text, layout=, config=, parse_qq=) followed (optionally) by later `.config = ...`
   assignments and one parse(commit=False, kws) whose result is reported *)
Definition plssdesc_init_parse (text config : str) (layout parse_qq : cval) (mc_ns mc_ew : str) : Py parser_out :=
  do c0 <- text_to_attributes config;
  let st := pd_init c0 layout parse_qq (CBool false) in
  run_parser text (pd_parse c0 st empty_cfg) None mc_ns mc_ew.

Definition plssdesc_parse_kw (text config : str) (layout parse_qq : cval) (kws : cfg) (clean_up : option bool)
           (mc_ns mc_ew : str) : Py parser_out :=
  do c0 <- text_to_attributes config;
  let st := pd_init c0 layout parse_qq (CBool true) in
  run_parser text (pd_parse c0 st kws) clean_up mc_ns mc_ew.
