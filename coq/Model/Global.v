(* Model/Global.v -- process-wide state for C15: TRS.__CACHE / TRS._USE_CACHE, MasterConfig
   defaults; operations that read or write it.  Mirrors TRS.trs setter, _cache_trs_to_dict,
   _clear_cache (trs.py), MasterConfig (master_config.py) and the places where defaults are
   resolved at call time (construct_trs, plss_preprocess, unpack_twprge). *)
From Coq Require Import List NArith ZArith Arith Bool.
From Coq Require String.
From PyTRS Require Import Engine.Regex Gen.Patterns PyRt.Str Gen.Tables Model.Trs Model.Unpack Model.TractPre
     Model.Aliquot Model.TractParse Model.PlssPre Model.PlssParse Model.Config Model.PlssDesc Model.Objects.
Import ListNotations.
Import String.StringSyntax.
Local Open Scope string_scope.

Definition okey_eqb (a b : option str) : bool :=
  match a, b with
  | None, None => true
  | Some x, Some y => str_eqb x y
  | _, _ => false
  end.

Record gstate := mk_g { g_cache : list (option str * trsdict); g_use : bool; g_ns : str; g_ew : str }.
Definition g0 : gstate := mk_g [] true MC_default_ns MC_default_ew.

Fixpoint cache_get (k : option str) (c : list (option str * trsdict)) : option trsdict :=
  match c with
  | [] => None
  | (k', d) :: t => if okey_eqb k k' then Some d else cache_get k t
  end.

Inductive gop :=
| GTRS (x : option str)                     (* TRS(x): attributes of the new object *)
| GToDict (x : option str)                  (* pytrs.trs_to_dict(x): builds a fresh dict *)
| GConstruct (twp rge sec : tin)            (* TRS.from_twprgesec(twp, rge, sec) with defaults from MasterConfig *)
| GClear | GUse (b : bool) | GMaster (ns ew : str)
| GParse (text config : str)                (* PLSSDesc(text, config=config) *)
| GTract (desc trs config : str)            (* Tract(desc, trs, config=config) *)
| GFindTwprge (text : str)                  (* find_twprge(text, preprocess=True) *)
| GMutate.                                  (* the caller scribbles on a previously returned dict/list *)

Inductive gout :=
| OTrs (d : trsdict) | OStr (r : Py str) | OParse (r : Py parser_out) | OTract (r : Py tract_obj)
| OList (r : Py (list str)) | OUnit.

(* TRS(x).trs setter *)
Definition trs_new (g : gstate) (x : option str) : gstate * trsdict :=
  match cache_get x (g_cache g) with
  | Some d => (g, d)
  | None =>
      let d := trs_to_dict x in
      ((if g_use g then mk_g ((x, d) :: g_cache g) (g_use g) (g_ns g) (g_ew g) else g), d)
  end.

Fixpoint trs_new_all (g : gstate) (xs : list (option str)) : gstate :=
  match xs with [] => g | x :: t => trs_new_all (fst (trs_new g x)) t end.

Definition gstep (g : gstate) (op : gop) : gstate * gout :=
  match op with
  | GTRS x => let r := trs_new g x in (fst r, OTrs (snd r))
  | GToDict x => (g, OTrs (trs_to_dict x))
  | GConstruct twp rge sec =>
      match construct_trs twp rge sec None None false (g_ns g) (g_ew g) with
      | Ok t => let r := trs_new g (Some t) in (fst r, OStr (Ok (d_trs (snd r))))
      | Raise e => (g, OStr (Raise e))
      end
  | GClear => (mk_g [] (g_use g) (g_ns g) (g_ew g), OUnit)
  | GUse b => (mk_g (g_cache g) b (g_ns g) (g_ew g), OUnit)
  | GMaster ns ew => (mk_g (g_cache g) (g_use g) ns ew, OUnit)
  | GParse text config =>
      let r := plssdesc_init_parse text config CNone CNone (g_ns g) (g_ew g) in
      (match r with
       | Ok p => trs_new_all g (map (fun t => Some (to_trs t)) (po_tracts p))
       | Raise _ => g
       end, OParse r)
  | GTract desc trs config =>
      let r := tract_new desc trs config CNone 0 in
      (fst (trs_new g (Some trs)), OTract r)
  | GFindTwprge text => (g, OList (find_twprge text (mk_dflt None None (g_ns g) (g_ew g)) true false))
  | GMutate => (g, OUnit)
  end.

Fixpoint grun (g : gstate) (ops : list gop) : gstate * list gout :=
  match ops with
  | [] => (g, [])
  | op :: t => let r := gstep g op in let r2 := grun (fst r) t in (fst r2, snd r :: snd r2)
  end.

(* what each operation returns as a function of its arguments and the MasterConfig in force only *)
Definition pure_out (ns ew : str) (op : gop) : gout :=
  match op with
  | GTRS x => OTrs (trs_to_dict x)
  | GToDict x => OTrs (trs_to_dict x)
  | GConstruct twp rge sec =>
      match construct_trs twp rge sec None None false ns ew with
      | Ok t => OStr (Ok (d_trs (trs_to_dict (Some t))))
      | Raise e => OStr (Raise e)
      end
  | GParse text config => OParse (plssdesc_init_parse text config CNone CNone ns ew)
  | GTract desc trs config => OTract (tract_new desc trs config CNone 0)
  | GFindTwprge text => OList (find_twprge text (mk_dflt None None ns ew) true false)
  | _ => OUnit
  end.
