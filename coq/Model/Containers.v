(* Model/Containers.v -- mirror of pytrs/parser/containers/containers.py
   (_TRSTractList: custom_sort/_sort_custom, filter*, _new_list_from_self, _group,
   group_by, group_by_nested, unpack_group, _verify_iterable/_verify_individual,
   _from_multiple).  Hand-written; tied to the code by correspondence (tools/props/c17.py,
   c18.py).  No proofs in this file. *)
From Coq Require Import List NArith ZArith Arith Bool.
From Coq Require String.
From PyTRS Require Import Engine.Regex Gen.Patterns PyRt.Str Gen.Tables Model.Trs.
Import ListNotations.
Import String.StringSyntax.
Local Open Scope string_scope.

(* ------------------------------------------------------------------ *)
(* stable sort = list.sort(key=..., reverse=...)                       *)

Section Sorting.
  Context {A : Type}.
  Fixpoint insert_by (le : A -> A -> bool) (x : A) (l : list A) : list A :=
    match l with
    | [] => [x]
    | y :: t => if le x y then x :: y :: t else y :: insert_by le x t
    end.
  Definition isort (le : A -> A -> bool) (l : list A) : list A :=
    fold_right (insert_by le) [] l.
  (* list.sort(key=key, reverse=rev): stable; reverse keeps the original order of
     equal elements *)
  Definition kle (key : A -> Z) (rev : bool) (a b : A) : bool :=
    if rev then (key b <=? key a)%Z else (key a <=? key b)%Z.
  Definition py_sort (key : A -> Z) (rev : bool) (l : list A) : list A :=
    isort (kle key rev) l.
End Sorting.

(* ------------------------------------------------------------------ *)
(* elements of a TractList / TRSList, as far as sorting sees them       *)

Record elt := mk_elt {
  e_id : nat;                 (* Python object identity *)
  e_is_tract : bool;          (* isinstance(x, Tract) *)
  e_uid : Z;                  (* Tract._Tract__uid *)
  e_twp_num : option Z; e_twp_ns : option bool;   (* Some true = 'n', Some false = 's' *)
  e_rge_num : option Z; e_rge_ew : option bool;   (* Some true = 'e', Some false = 'w' *)
  e_sec_num : option Z }.

Fixpoint somes {B} (l : list (option B)) : list B :=
  match l with [] => [] | Some x :: t => x :: somes t | None :: t => somes t end.

(* get_max(var): max of the non-None values, 0 when there is none *)
Definition get_max (f : elt -> option Z) (l : list elt) : Z :=
  match somes (map f l) with
  | [] => 0%Z
  | n :: t => fold_left Z.max t n
  end.

Inductive sortdef := I_NUM | T_NUM | T_NS | T_SN | R_NUM | R_WE | R_EW | S_NUM.

Definition safe_num (o : option Z) (dflt : Z) : Z := match o with Some z => z | None => dflt end.

(* n_to_s(element, reverse) *)
Definition n_to_s (dflt : Z) (reverse : bool) (x : elt) : Z :=
  let num := safe_num (e_twp_num x) dflt in
  let m := match e_twp_ns x with Some true => (-1)%Z | _ => 1%Z end in
  let m := if reverse then (m * -1)%Z else m in
  let m := match e_twp_ns x with
           | None => (m * (if reverse then -1 else 1))%Z
           | _ => m
           end in
  (m * num)%Z.

(* w_to_e(element, reverse) *)
Definition w_to_e (dflt : Z) (reverse : bool) (x : elt) : Z :=
  let num := safe_num (e_rge_num x) dflt in
  let m := match e_rge_ew x with Some false => (-1)%Z | _ => 1%Z end in
  let m := if reverse then (m * -1)%Z else m in
  let m := match e_rge_ew x with
           | None => (m * (if reverse then -1 else 1))%Z
           | _ => m
           end in
  (m * num)%Z.

(* sort_defs[sk], with the defaults computed from the list being sorted *)
Definition sort_key (l : list elt) (d : sortdef) (x : elt) : Z :=
  let dt := (get_max e_twp_num l + 1)%Z in
  let dr := (get_max e_rge_num l + 1)%Z in
  let ds := (get_max e_sec_num l + 1)%Z in
  match d with
  | I_NUM => if e_is_tract x then e_uid x else 0%Z
  | T_NUM => safe_num (e_twp_num x) dt
  | T_NS => n_to_s dt false x
  | T_SN => n_to_s dt true x
  | R_NUM => safe_num (e_rge_num x) dr
  | R_WE => w_to_e dr false x
  | R_EW => w_to_e dr true x
  | S_NUM => safe_num (e_sec_num x) ds
  end.

(* parse_key(k_) *)
Definition sortdef_of (var method : str) : option sortdef :=
  if str_eqb var (s "i") then (if str_eqb method (s "num") then Some I_NUM else None)
  else if str_eqb var (s "t") then
    (if str_eqb method (s "num") then Some T_NUM
     else if str_eqb method (s "ns") then Some T_NS
     else if str_eqb method (s "sn") then Some T_SN else None)
  else if str_eqb var (s "r") then
    (if str_eqb method (s "num") then Some R_NUM
     else if str_eqb method (s "we") then Some R_WE
     else if str_eqb method (s "ew") then Some R_EW else None)
  else if str_eqb var (s "s") then (if str_eqb method (s "num") then Some S_NUM else None)
  else None.

Definition opt_mem (m : option str) (l : list (option str)) : bool :=
  existsb (fun o => match o, m with
                    | Some a, Some b => str_eqb a b
                    | None, None => true
                    | _, _ => false
                    end) l.

Definition parse_key (k : str) : Py (sortdef * bool) :=
  let k := lower k in
  match search inl_sort_pat inl_sort_pat_ng k with
  | None => Raise ValueError
  | Some x =>
      match group k x inl_sort_pat_g_var with
      | None => Raise ModelGap
      | Some var =>
          let method0 := group k x inl_sort_pat_g_method in
          let method := match method0 with Some v => v | None => s "num" end in
          let rev := match group k x inl_sort_pat_g_rev with Some _ => true | None => false end in
          match assoc_str var SORT_LEGAL_METHODS with
          | None => Raise KeyError
          | Some legal =>
              if negb (opt_mem (Some method) legal) then Raise ValueError
              else match sortdef_of var method with
                   | Some d => Ok (d, rev)
                   | None => Raise KeyError
                   end
          end
      end
  end.

(* whether parse_key warns (the match does not cover the whole key part) *)
Definition parse_key_partial (k : str) : bool :=
  let k := lower k in
  match search inl_sort_pat inl_sort_pat_ng k with
  | None => false
  | Some x => negb (length (group0 k x) =? length k)
  end.

Fixpoint parse_keys (ks : list str) : Py (list (sortdef * bool)) :=
  match ks with
  | [] => Ok []
  | k :: t => do a <- parse_key k; do r <- parse_keys t; Ok (a :: r)
  end.

(* the passes of _sort_custom are interleaved with parsing: an illegal later key raises
   after the earlier passes were applied (to the receiver); the model returns the error. *)
Fixpoint sort_passes (l : list elt) (ks : list str) : Py (list elt) :=
  match ks with
  | [] => Ok l
  | k :: t =>
      do a <- parse_key k;
      sort_passes (py_sort (sort_key l (fst a)) (snd a) l) t
  end.

Definition normalize_key (key : str) : list str :=
  let key := lower key in
  let key := sub inl_sort_ws inl_sort_ws_ng [] key in
  let key := sub inl_sort_reverse inl_sort_reverse_ng (s "rev") key in
  split_on (s ",") key.

(* custom_sort(key: str, reverse) *)
Definition custom_sort (key : str) (reverse : bool) (l : list elt) : Py (list elt) :=
  match key with
  | [] => Ok l
  | _ =>
      do l' <- sort_passes l (normalize_key key);
      Ok (if reverse then rev l' else l')
  end.

(* ------------------------------------------------------------------ *)
(* filter / _new_list_from_self                                         *)

Section Filtering.
  Context {A : Type}.

  (* indexes_to_include for .filter(key) *)
  Fixpoint indexes_where (key : A -> bool) (i : nat) (l : list A) : list nat :=
    match l with
    | [] => []
    | x :: t => if key x then i :: indexes_where key (S i) t else indexes_where key (S i) t
    end.

  (* list.pop(i) on the backing list (i in range) *)
  Fixpoint pop_at (i : nat) (l : list A) : list A :=
    match l, i with
    | [], _ => []
    | _ :: t, O => t
    | x :: t, S i' => x :: pop_at i' t
    end.

  (* the loop of _new_list_from_self over indexes taken in reverse order: returns
     (new_list before the final reverse, remaining receiver) *)
  Fixpoint nlfs_loop (rev_idx : list nat) (drop : bool) (self new : list A) : Py (list A * list A) :=
    match rev_idx with
    | [] => Ok (new, self)
    | ind :: t =>
        match nth_error self ind with
        | None => Raise IndexError
        | Some x => nlfs_loop t drop (if drop then pop_at ind self else self) (new ++ [x])
        end
    end.

  Definition new_list_from_self (indexes : list nat) (drop : bool) (self : list A)
    : Py (list A * list A) :=
    do r <- nlfs_loop (rev indexes) drop self [];
    Ok (rev (fst r), snd r).

  Definition filter_model (key : A -> bool) (drop : bool) (self : list A) : Py (list A * list A) :=
    new_list_from_self (indexes_where key 0 self) drop self.
End Filtering.

(* filter_duplicates: elements carry an instance id and an optional derived key *)
Record dup_elt := mk_dup_elt { de_id : nat; de_hash : str; de_key : option str }.
(* [de_hash]: what `element in unique` compares for the element itself: for a Tract the
   identity (rendered id), for a TRS its .trs (TRS.__eq__/__hash__);  [de_key]: to_check,
   None when the element is skipped for this method *)

(* the `unique` set holds elements (compared by de_hash) and derived keys (strings); a
   Tract/TRS object never equals a str, so the two kinds are kept in two lists *)
Fixpoint dup_loop (only_instance : bool) (i : nat) (l : list dup_elt) (seen_h seen_k : list str)
         (idx : list nat) : list nat :=
  match l with
  | [] => idx
  | e :: t =>
      let idx1 := if mem_str (de_hash e) seen_h then idx ++ [i] else idx in
      let seen_h1 := de_hash e :: seen_h in
      if only_instance then dup_loop only_instance (S i) t seen_h1 seen_k idx1
      else match de_key e with
           | None => dup_loop only_instance (S i) t seen_h1 seen_k idx1
           | Some k =>
               if negb (mem_str k seen_k) then dup_loop only_instance (S i) t seen_h1 (k :: seen_k) idx1
               else if negb (existsb (Nat.eqb i) idx1) then dup_loop only_instance (S i) t seen_h1 seen_k (idx1 ++ [i])
               else dup_loop only_instance (S i) t seen_h1 seen_k idx1
           end
  end.

Definition filter_duplicates_model (only_instance drop : bool) (self : list dup_elt)
  : Py (list dup_elt * list dup_elt) :=
  new_list_from_self (dup_loop only_instance 0 self [] [] []) drop self.

(* ------------------------------------------------------------------ *)
(* _group / group_by / unpack_group, generic in the key type            *)

Section Grouping.
  Context {A K : Type}.
  Variable keqb : K -> K -> bool.

  (* dct.setdefault(val, cls()); dct[val].append(t)  -- insertion-ordered dict *)
  Fixpoint dict_append (k : K) (x : A) (d : list (K * list A)) : list (K * list A) :=
    match d with
    | [] => [(k, [x])]
    | (k', g) :: t => if keqb k k' then (k', g ++ [x]) :: t else (k', g) :: dict_append k x t
    end.

  Definition group_fn (kf : A -> K) (l : list A) : list (K * list A) :=
    fold_left (fun d x => dict_append (kf x) x d) l [].

  (* into.setdefault(k, cls()); into[k].extend(tl) *)
  Fixpoint dict_extend (k : K) (g : list A) (d : list (K * list A)) : list (K * list A) :=
    match d with
    | [] => [(k, g)]
    | (k', g') :: t => if keqb k k' then (k', g' ++ g) :: t else (k', g') :: dict_extend k g t
    end.

  Definition merge_into (d into : list (K * list A)) : list (K * list A) :=
    fold_left (fun acc kg => dict_extend (fst kg) (snd kg) acc) d into.

  Definition group_into (kf : A -> K) (l : list A) (into : option (list (K * list A)))
    : list (K * list A) :=
    match into with
    | None => group_fn kf l
    | Some d => merge_into (group_fn kf l) d
    end.

  Definition unpack_group (d : list (K * list A)) : list A := flat_map snd d.
End Grouping.

(* group_by with a list of attributes: keys become tuples *)
Section MultiGroup.
  Context {A K : Type}.
  Variable keqb : K -> K -> bool.
  Fixpoint keys_eqb (a b : list K) : bool :=
    match a, b with
    | [], [] => true
    | x :: a', y :: b' => keqb x y && keys_eqb a' b'
    | _, _ => false
    end.

  (* dct_new[key] = v2  (plain assignment) *)
  Fixpoint dict_assign (k : list K) (g : list A) (d : list (list K * list A)) : list (list K * list A) :=
    match d with
    | [] => [(k, g)]
    | (k', g') :: t => if keys_eqb k k' then (k', g) :: t else (k', g') :: dict_assign k g t
    end.

  (* one regrouping step: for k1, v1 in dct.items(): for k2, v2 in _group(v1, att): new[k1+[k2]] = v2 *)
  Definition regroup (kf : A -> K) (d : list (list K * list A)) : list (list K * list A) :=
    fold_left
      (fun acc kv =>
         fold_left (fun acc2 kv2 => dict_assign (fst kv ++ [fst kv2]) (snd kv2) acc2)
                   (group_fn keqb kf (snd kv)) acc)
      d [].

  Fixpoint group_by_multi (kfs : list (A -> K)) (d : list (list K * list A)) : list (list K * list A) :=
    match kfs with
    | [] => d
    | kf :: t => group_by_multi t (regroup kf d)
    end.

  Definition group_by_attrs (kf1 : A -> K) (kfs : list (A -> K)) (l : list A) : list (list K * list A) :=
    group_by_multi kfs (map (fun kg => ([fst kg], snd kg)) (group_fn keqb kf1 l)).
End MultiGroup.

(* ------------------------------------------------------------------ *)
(* construction paths: _verify_iterable / _verify_individual            *)

Section Verify.
  Context {A B : Type}.
  (* [conv x] = Some y when x is an acceptable individual converted to y, None otherwise *)
  Variable conv : A -> option B.

  Definition verify_individual (x : A) : Py B :=
    match conv x with Some y => Ok y | None => Raise TypeError end.

  Fixpoint verify_iterable (l : list A) : Py (list B) :=
    match l with
    | [] => Ok []
    | x :: t => do y <- verify_individual x; do r <- verify_iterable t; Ok (y :: r)
    end.
End Verify.
