(* Model/Unpack.v -- mirror of pytrs/parser/unpack/unpackers.py *)
From Coq Require Import List NArith ZArith Arith Bool.
From Coq Require String.
From PyTRS Require Import Engine.Regex Gen.Patterns PyRt.Str Gen.Tables Model.Trs.
Import ListNotations.
Import String.StringSyntax.
Local Open Scope string_scope.

Definition flagline := (str * str)%type.

(* ---- general functions on a multi-sec / multi-lot match object ---- *)
Record multi_groups := mk_multi_groups
  { mg_intervener : nat; mg_num_rightmost : nat; mg_num : nat }.

Definition sec_groups : multi_groups :=
  mk_multi_groups multisec_regex_g_intervener multisec_regex_g_secnum_rightmost multisec_regex_g_secnum.
Definition lot_groups : multi_groups :=
  mk_multi_groups multilot_regex_g_intervener multilot_regex_g_lotnum_rightmost multilot_regex_g_lotnum.

Definition is_some {A} (o : option A) : bool := match o with Some _ => true | None => false end.

(* is_multi: ValueError when neither number group is set *)
Definition is_multi (G : multi_groups) (t : str) (x : mo) : Py bool :=
  if is_some (group t x (mg_num_rightmost G)) then Ok true
  else if is_some (group t x (mg_num G)) then Ok false
  else Raise ValueError.

Definition get_rightmost (G : multi_groups) (t : str) (x : mo) : Py (option str) :=
  do b <- is_multi G t x;
  Ok (if b then group t x (mg_num_rightmost G) else group t x (mg_num G)).

Definition thru_rightmost (G : multi_groups) (t : str) (x : mo) : bool :=
  match group t x (mg_intervener G) with
  | None => false
  | Some txt => is_some (search through_regex through_regex_ng (strip txt))
  end.

Definition start_of_rightmost (G : multi_groups) (x : mo) : nat :=
  match gstart x (mg_intervener G) with
  | Some a => a
  | None => mstart x
  end.

(* int() on a regex group that may (in principle) be unset *)
Definition int_of_group (o : option str) : Py Z :=
  match o with
  | None => Raise TypeError
  | Some v => match py_int v with Some z => Ok z | None => Raise ValueError end
  end.

(* range(end-1, start-1, -1) or range(end+1, start+1, 1), as a list *)
Fixpoint zrange_down (n : nat) (from : Z) : list Z :=   (* from, from-1, ..., n items *)
  match n with O => [] | S n' => from :: zrange_down n' (from - 1)%Z end.
Fixpoint zrange_up (n : nat) (from : Z) : list Z :=
  match n with O => [] | S n' => from :: zrange_up n' (from + 1)%Z end.

Definition elided (start_of_list end_of_list : Z) : bool * list Z :=
  if (start_of_list <? end_of_list)%Z then
    (true, zrange_down (Z.to_nat (end_of_list - start_of_list)) (end_of_list - 1)%Z)
  else
    (false, zrange_up (Z.to_nat (start_of_list - end_of_list)) (end_of_list + 1)%Z).

Definition last_or {A} (l : list A) : Py A :=
  match rev l with x :: _ => Ok x | [] => Raise IndexError end.

(* ---- one right-to-left step of the unpack loops ---- *)
(* what the loop learns from one `search(txt, endpos=endpos)`: the rightmost number (as
   text), the endpos of the next iteration (0 ends the loop), whether a "through"
   connective precedes the number; plus, for lots, the acreage and whether the word
   "Lot" directly precedes the number *)
Record rstep := mk_rstep
  { rs_num : option str; rs_endpos : nat; rs_thru : bool;
    rs_acreage : option str; rs_word : bool }.

Definition sec_step (txt : str) (endpos : nat) : option (Py rstep) :=
  match search_pe multisec_regex multisec_regex_ng txt 0 endpos with
  | None => None
  | Some x =>
      Some (do num_s <- get_rightmost sec_groups txt x;
            do multi <- is_multi sec_groups txt x;
            Ok (mk_rstep num_s (if multi then start_of_rightmost sec_groups x else 0)
                         (thru_rightmost sec_groups txt x) None false))
  end.

(* ---- SecUnpacker ---- *)
Record sec_unpacked := mk_sec_unpacked
  { su_list : list str; su_flags : list str; su_flag_lines : list flagline }.

Definition two_digit (z : Z) : str := rjust 2 48%N (str_of_Z z).

Fixpoint unpack_sections_loop (step : nat -> option (Py rstep)) (fuel : nat) (endpos : nat)
         (found_through : bool) (working : list str) (flags : list str) (flines : list flagline)
  : Py sec_unpacked :=
  match fuel with
  | O => Raise OutOfFuel
  | S fuel' =>
      match step endpos with
      | None => Ok (mk_sec_unpacked (rev working) flags flines)
      | Some ps =>
          do st0 <- ps;
          do n <- int_of_group (rs_num st0);
          let new_sec := two_digit n in
          do st <-
             (if found_through then
                do prev <- last_or working;
                do e <- int_of_group (Some prev);
                let '(ok, rng) := elided n e in
                let adds := map two_digit rng in
                if ok then Ok (working ++ adds, flags, flines)
                else
                  let flag := s "nonsequential_sections" in
                  let fl := flag ++ s "<" ++ str_of_Z n ++ s " - " ++ str_of_Z e ++ s ">" in
                  Ok (working ++ adds, flags ++ [flag], flines ++ [(flag, fl)])
              else Ok (working ++ [new_sec], flags, flines));
          let '(w', f', fl') := st in
          unpack_sections_loop step fuel' (rs_endpos st0) (rs_thru st0) w' f' fl'
      end
  end.

(* the working list is kept in append order (last-to-first of the text) and reversed
   at the end, as the code does *)
Definition sec_unpacker (txt : str) : Py sec_unpacked :=
  unpack_sections_loop (sec_step txt) (S (S (length txt))) (length txt) false [] [] [].

(* ---- LotUnpacker ---- *)
Fixpoint dict_set (k v : str) (d : list (str * str)) : list (str * str) :=
  match d with
  | [] => [(k, v)]
  | (k', v') :: t => if str_eqb k k' then (k, v) :: t else (k', v') :: dict_set k v t
  end.

Definition get_rightmost_acreage (txt : str) (x : mo) : option str :=
  let i := start_of_rightmost lot_groups x in
  let j := mend x in
  match search_pe lot_acres_unpacker_regex lot_acres_unpacker_regex_ng txt i j with
  | None => None
  | Some a =>
      match group txt a lot_acres_unpacker_regex_g_acreage with
      | None => None
      | Some v =>
          Some (replace (s ")") [] (replace (s "(") [] (replace (s "]") [] (replace (s "[") [] v))))
      end
  end.

Record lot_unpacked := mk_lot_unpacked
  { lu_list : list str; lu_acres : list (str * str); lu_flags : list str;
    lu_flag_lines : list flagline; lu_aliquots_through : Z }.

Record lot_state := mk_lot_state
  { ls_working : list Z; ls_acres : list (str * str); ls_flags : list str;
    ls_flines : list flagline; ls_word_lot : nat }.

Definition lot_step (txt : str) (endpos : nat) : option (Py rstep) :=
  match search_pe multilot_regex multilot_regex_ng txt 0 endpos with
  | None => None
  | Some x =>
      Some (do num_s <- get_rightmost lot_groups txt x;
            let acreage := get_rightmost_acreage txt x in
            do multi <- is_multi lot_groups txt x;
            Ok (mk_rstep num_s (if multi then start_of_rightmost lot_groups x else 0)
                         (thru_rightmost lot_groups txt x) acreage
                         (is_some (group txt x multilot_regex_g_word_lot_rightmost))))
  end.

Fixpoint unpack_lots_loop (step : nat -> option (Py rstep)) (fuel : nat) (endpos : nat) (found_through : bool)
         (st : lot_state) : Py lot_unpacked :=
  match fuel with
  | O => Raise OutOfFuel
  | S fuel' =>
      match step endpos with
      | None =>
          let l := rev (ls_working st) in
          Ok (mk_lot_unpacked (map (fun z => s "L" ++ str_of_Z z) l) (ls_acres st) (ls_flags st)
                              (ls_flines st)
                              (Z.of_nat (length l) - Z.of_nat (ls_word_lot st))%Z)
      | Some ps =>
          do st0 <- ps;
          do n <- int_of_group (rs_num st0);
          do st1 <-
             (if found_through then
                do prev <- last_or (ls_working st);
                let '(ok, rng) := elided n prev in
                if ok then Ok (mk_lot_state (ls_working st ++ rng) (ls_acres st) (ls_flags st)
                                            (ls_flines st) (ls_word_lot st))
                else
                  let flag := s "nonsequential_lots" in
                  let fl := flag ++ s "<" ++ str_of_Z n ++ s " - " ++ str_of_Z prev ++ s ">" in
                  Ok (mk_lot_state (ls_working st ++ rng) (ls_acres st) (ls_flags st ++ [flag])
                                   (ls_flines st ++ [(flag, fl)]) (ls_word_lot st))
              else Ok (mk_lot_state (ls_working st ++ [n]) (ls_acres st) (ls_flags st)
                                    (ls_flines st) (ls_word_lot st)));
          let st2 :=
            match rs_acreage st0 with
            | None => st1
            | Some a =>
                let name := s "L" ++ str_of_Z n in
                let '(fl, fll) :=
                  match assoc_str name (ls_acres st1) with
                  | Some old =>
                      let flag := s "dup_lot_acreage<" ++ name ++ s "(" ++ old ++ s ")>" in
                      (ls_flags st1 ++ [flag], ls_flines st1 ++ [(flag, flag)])
                  | None => (ls_flags st1, ls_flines st1)
                  end in
                mk_lot_state (ls_working st1) (dict_set name a (ls_acres st1)) fl fll (ls_word_lot st1)
            end in
          let ft := rs_thru st0 in
          let st3 :=
            if rs_word st0 && negb ft then
              mk_lot_state (ls_working st2) (ls_acres st2) (ls_flags st2) (ls_flines st2)
                           (length (ls_working st2))
            else st2 in
          unpack_lots_loop step fuel' (rs_endpos st0) ft st3
      end
  end.

Definition lot_unpacker (txt : str) : Py lot_unpacked :=
  unpack_lots_loop (lot_step txt) (S (S (length txt))) (length txt) false (mk_lot_state [] [] [] [] 0).

(* ---- unpack_twprge ---- *)
Definition str_int_or_keep (t : str) : str :=
  match py_int t with Some z => str_of_Z z | None => t end.

Definition first_char (t : str) : Py str :=
  match t with c :: _ => Ok [c] | [] => Raise IndexError end.

Definition unpack_twprge (G : twprge_groups) (t : str) (x : mo)
           (default_ns default_ew : option str) (ocr : bool) (mc_ns mc_ew : str) : Py str :=
  let dns := match default_ns with Some d => d | None => mc_ns end in
  let dew := match default_ew with Some d => d | None => mc_ew end in
  if negb (mem_str dns MC_LEGAL_NS) then Raise DefaultNSError
  else if negb (mem_str dew MC_LEGAL_EW) then Raise DefaultEWError
  else
    match group t x (tg_twpnum G) with
    | None => Raise TypeError
    | Some twp =>
        let twp := if ocr then ocr_scrub_alpha_to_num twp else twp in
        let twp := str_int_or_keep twp in
        do ns <- match group t x (tg_ns G) with
                 | Some v => first_char v
                 | None => Ok dns
                 end;
        do rge <- match group t x (tg_rgenum G) with
                  | Some v => Ok v
                  | None =>
                      match tg_rge2 G with
                      | O => Raise KeyError
                      | _ => match group t x (tg_rge2 G) with
                             | Some v => Ok v
                             | None => Raise TypeError
                             end
                      end
                  end;
        let rge := if ocr then ocr_scrub_alpha_to_num rge else rge in
        let rge := str_int_or_keep rge in
        do ew <- match group t x (tg_ew G) with
                 | Some v => first_char v
                 | None => Ok dew
                 end;
        Ok (s "T" ++ twp ++ upper ns ++ s "-R" ++ rge ++ upper ew)
    end.

Definition twprge_natural_to_short (t : str) : str :=
  sub inl_nat_to_short inl_nat_to_short_ng [] (lower t).

Definition twprge_short_to_natural (t : str) : str :=
  let u := s "T" ++ upper t in
  sub_fn inl_short_to_nat inl_short_to_nat_ng
         (fun x => match group u x 1 with Some v => v | None => [] end ++ s "-R") u.
