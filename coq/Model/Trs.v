(* Model/Trs.v -- mirror of pytrs/parser/trs/trs.py (construct_trs, trs_to_dict, TRS)
   and of ocr_scrub_alpha_to_num (unpackers.py). *)
From Coq Require Import List NArith ZArith Arith Bool.
From Coq Require String.
From PyTRS Require Import Engine.Regex Gen.Patterns PyRt.Str Gen.Tables.
Import ListNotations.
Import String.StringSyntax.
Local Open Scope string_scope.

(* exceptions the modelled code can raise *)
Inductive exn :=
| TypeError | ValueError | ConfigError | DefaultNSError | DefaultEWError
| IndexError | AttributeError | KeyError | OutOfFuel | ModelGap.

Inductive Py (A : Type) := Ok (a : A) | Raise (e : exn).
Arguments Ok {A} a.
Arguments Raise {A} e.

Definition bind {A B} (x : Py A) (f : A -> Py B) : Py B :=
  match x with Ok a => f a | Raise e => Raise e end.
Notation "'do' x <- a ; b" := (bind a (fun x => b)) (at level 200, x name, a at level 100, b at level 200).

(* a dynamically typed Twp / Rge / Sec argument *)
Inductive tin := TNone | TInt (z : Z) | TStr (t : str).

Definition ocr_scrub_alpha_to_num (t : str) : str :=
  let t := replace (s "S") (s "5") t in
  let t := replace (s "s") (s "5") t in
  let t := replace (s "O") (s "0") t in
  let t := replace (s "I") (s "1") t in
  let t := replace (s "l") (s "1") t in
  replace (s "L") (s "1") t.

(* x.lower().endswith(tuple) *)
Definition endswith_any (t : str) (opts : list str) : bool := existsb (endswith t) opts.

Inductive kind := KNS | KEW | KSEC.

(* scrub(): returns (number part, direction or None) *)
Definition scrub (x : tin) (k : kind) (default_ns default_ew : str) (ocr : bool)
  : tin * option str :=
  match x with
  | TStr t =>
      let '(direction, opts) :=
        match k with
        | KNS => (Some default_ns, MC_LEGAL_NS)
        | KEW => (Some default_ew, MC_LEGAL_EW)
        | KSEC => (None, MC_LEGAL_NS)
        end in
      let '(num, direction) :=
        match direction with
        | Some _ =>
            if endswith_any (lower t) opts then
              (drop_last 1 t,
               match last_opt t with Some c => Some (lower [c]) | None => direction end)
            else (t, direction)
        | None => (t, direction)
        end in
      let num := if ocr then ocr_scrub_alpha_to_num num else num in
      (TStr num, direction)
  | _ => (x, None)
  end.

Definition tin_is_empty (x : tin) : bool :=
  match x with TNone => true | TStr [] => true | _ => false end.

(* one of twp / rge after scrub: apply UNDEF, int(), append direction, validate *)
Definition finish_twprge (x : tin) (dir : str) (undef err : str) (r : re) (ng : nat) : str :=
  let x := if tin_is_empty x then TStr undef else x in
  let x := match x with
           | TStr t => match py_int t with Some z => TInt z | None => x end
           | _ => x
           end in
  let t := match x with
           | TInt z => str_of_Z z ++ lower dir
           | TStr t => t
           | TNone => undef
           end in
  if negb (str_eqb t undef) && match search r ng t with None => true | Some _ => false end
  then err else t.

Definition str_of_tin (x : tin) : str :=
  match x with TInt z => str_of_Z z | TStr t => t | TNone => s "None" end.

Definition finish_sec (x : tin) : str :=
  let t := if tin_is_empty x then MC_UNDEF_SEC else rjust 2 48%N (str_of_tin x) in
  if negb (str_eqb t MC_UNDEF_SEC)
     && match search inl_trs_sec inl_trs_sec_ng t with None => true | Some _ => false end
  then MC_ERR_SEC else t.

Definition construct_trs (twp rge sec : tin) (default_ns default_ew : option str)
           (ocr : bool) (mc_ns mc_ew : str) : Py str :=
  let dns := match default_ns with Some d => d | None => mc_ns end in
  let dew := match default_ew with Some d => d | None => mc_ew end in
  if negb (mem_str (lower dns) MC_LEGAL_NS) then Raise DefaultNSError
  else if negb (mem_str (lower dew) MC_LEGAL_EW) then Raise DefaultEWError
  else
    let '(twp', ns) := scrub twp KNS dns dew ocr in
    let '(rge', ew) := scrub rge KEW dns dew ocr in
    let '(sec', _) := scrub sec KSEC dns dew ocr in
    let ns := match ns with Some d => d | None => dns end in
    let ew := match ew with Some d => d | None => dew end in
    Ok (finish_twprge twp' ns MC_UNDEF_TWP MC_ERR_TWP inl_trs_twp inl_trs_twp_ng
        ++ finish_twprge rge' ew MC_UNDEF_RGE MC_ERR_RGE inl_trs_rge inl_trs_rge_ng
        ++ finish_sec sec').

(* ---- trs_to_dict ---- *)
Record trsdict := mktrsdict {
  d_trs : str;
  d_twp : str; d_twp_num : option Z; d_twp_ns : option str; d_twp_undef : bool;
  d_rge : str; d_rge_num : option Z; d_rge_ew : option str; d_rge_undef : bool;
  d_sec : option str; d_sec_num : option Z; d_sec_undef : bool }.

Definition err_dict : trsdict :=
  mktrsdict MC_ERR_TRS MC_ERR_TWP None None false MC_ERR_RGE None None false
            (Some MC_ERR_SEC) None false.

Definition nonempty (o : option str) : bool :=
  match o with Some (_ :: _) => true | _ => false end.

Definition opt_str_eqb (o : option str) (t : str) : bool :=
  match o with Some x => str_eqb x t | None => false end.

Definition G := trs_unpacker_regex_ng.

Definition trs_to_dict (trs : option str) : trsdict :=
  let t := match trs with None => MC_UNDEF_TRS | Some [] => MC_UNDEF_TRS | Some t => t end in
  match fullmatch trs_unpacker_regex G t with
  | None => err_dict
  | Some x =>
      let g := fun i => group t x i in
      let lw := lower in
      let '(twp, twp_num, twp_ns, twp_undef) :=
        if nonempty (g trs_unpacker_regex_g_twp_num) && nonempty (g trs_unpacker_regex_g_ns) then
          (match g trs_unpacker_regex_g_twp with Some v => lw v | None => MC_ERR_TWP end,
           match g trs_unpacker_regex_g_twp_num with Some v => py_int v | None => None end,
           option_map lw (g trs_unpacker_regex_g_ns), false)
        else if opt_str_eqb (g trs_unpacker_regex_g_twp) MC_UNDEF_TWP then
          (MC_UNDEF_TWP, None, None, true)
        else (MC_ERR_TWP, None, None, false) in
      let '(rge, rge_num, rge_ew, rge_undef) :=
        if nonempty (g trs_unpacker_regex_g_rge_num) && nonempty (g trs_unpacker_regex_g_ew) then
          (match g trs_unpacker_regex_g_rge with Some v => lw v | None => MC_ERR_RGE end,
           match g trs_unpacker_regex_g_rge_num with Some v => py_int v | None => None end,
           option_map lw (g trs_unpacker_regex_g_ew), false)
        else if opt_str_eqb (g trs_unpacker_regex_g_rge) MC_UNDEF_RGE then
          (MC_UNDEF_RGE, None, None, true)
        else (MC_ERR_RGE, None, None, false) in
      let sec0 := g trs_unpacker_regex_g_sec in
      let '(sec, sec_num, sec_undef) :=
        match sec0 with
        | Some v =>
            match py_int v with
            | Some z => (Some v, Some z, false)
            | None =>
                if str_eqb v MC_UNDEF_SEC then (Some v, None, true)
                else (Some MC_ERR_SEC, None, false)
            end
        | None => (Some MC_ERR_SEC, None, false)
        end in
      mktrsdict (twp ++ rge ++ match sec with Some v => v | None => s "None" end)
                twp twp_num twp_ns twp_undef rge rge_num rge_ew rge_undef
                sec sec_num sec_undef
  end.

(* TRS(x).trs *)
Definition TRS_trs (x : option str) : str := d_trs (trs_to_dict x).

Definition twprge_of (d : trsdict) : str := d_twp d ++ d_rge d.

(* is_error / is_undef with all three components checked *)
Definition is_undef3 (d : trsdict) (twp rge sec : bool) : bool :=
  (twp && d_twp_undef d) || (rge && d_rge_undef d) || (sec && d_sec_undef d).
Definition isnone {A} (o : option A) : bool := match o with None => true | _ => false end.
Definition is_error3 (d : trsdict) (twp rge sec : bool) : bool :=
  (twp && isnone (d_twp_num d) && negb (d_twp_undef d))
  || (rge && isnone (d_rge_num d) && negb (d_rge_undef d))
  || (sec && isnone (d_sec_num d) && negb (d_sec_undef d)).

(* pretty_twprge with default arguments *)
Definition pretty_twprge (d : trsdict) : str :=
  let num := fun (o : option Z) => match o with Some z => str_of_Z z | None => s "---X" end in
  let dir := fun (o : option str) => match o with Some v => upper v | None => [] end in
  s "T" ++ num (d_twp_num d) ++ dir (d_twp_ns d) ++ s "-" ++ s "R" ++ num (d_rge_num d) ++ dir (d_rge_ew d).
