(* Model/Config.v -- mirror of pytrs/parser/config/config.py (Config text <-> settings) and
   of the parameter lock-down of PLSSDesc.__init__/config setter/parse (plssdesc.py) and
   Tract.__init__/config setter/parse (tract.py).  Hand-written; tied to the code by
   correspondence (tools/props/c13.py).  No proofs in this file. *)
From Coq Require Import List NArith ZArith Arith Bool.
From Coq Require String.
From PyTRS Require Import Engine.Regex Gen.Patterns PyRt.Str Gen.Tables Model.Trs.
Import ListNotations.
Import String.StringSyntax.
Local Open Scope string_scope.

(* a dynamically typed setting value *)
Inductive cval := CNone | CBool (b : bool) | CInt (z : Z) | CStr (t : str).

Inductive attr :=
| A_default_ns | A_default_ew | A_layout | A_wait_to_parse | A_parse_qq | A_clean_qq
| A_sec_colon_required | A_sec_colon_cautious | A_suppress_lot_divs | A_ocr_scrub | A_segment
| A_qq_depth | A_qq_depth_min | A_qq_depth_max | A_break_halves | A_sec_within.

Definition all_attrs : list attr :=
  [A_default_ns; A_default_ew; A_layout; A_wait_to_parse; A_parse_qq; A_clean_qq;
   A_sec_colon_required; A_sec_colon_cautious; A_suppress_lot_divs; A_ocr_scrub; A_segment;
   A_qq_depth; A_qq_depth_min; A_qq_depth_max; A_break_halves; A_sec_within].

Definition attr_name (a : attr) : str :=
  match a with
  | A_default_ns => s "default_ns" | A_default_ew => s "default_ew" | A_layout => s "layout"
  | A_wait_to_parse => s "wait_to_parse" | A_parse_qq => s "parse_qq" | A_clean_qq => s "clean_qq"
  | A_sec_colon_required => s "sec_colon_required" | A_sec_colon_cautious => s "sec_colon_cautious"
  | A_suppress_lot_divs => s "suppress_lot_divs" | A_ocr_scrub => s "ocr_scrub" | A_segment => s "segment"
  | A_qq_depth => s "qq_depth" | A_qq_depth_min => s "qq_depth_min" | A_qq_depth_max => s "qq_depth_max"
  | A_break_halves => s "break_halves" | A_sec_within => s "sec_within"
  end.

Fixpoint attr_of_str_in (l : list attr) (t : str) : option attr :=
  match l with
  | [] => None
  | a :: r => if str_eqb (attr_name a) t then Some a else attr_of_str_in r t
  end.
(* `attribute in Config._CONFIG_ATTRIBUTES` (the regenerated tuple) *)
Definition attr_of_str (t : str) : option attr :=
  if mem_str t CONFIG_ATTRIBUTES then attr_of_str_in all_attrs t else None.

Definition is_bool_attr (a : attr) : bool := mem_str (attr_name a) BOOL_TYPE_ATTRIBUTES.

Record cfg := mk_cfg {
  c_default_ns : cval; c_default_ew : cval; c_layout : cval; c_wait_to_parse : cval;
  c_parse_qq : cval; c_clean_qq : cval; c_sec_colon_required : cval; c_sec_colon_cautious : cval;
  c_suppress_lot_divs : cval; c_ocr_scrub : cval; c_segment : cval; c_qq_depth : cval;
  c_qq_depth_min : cval; c_qq_depth_max : cval; c_break_halves : cval; c_sec_within : cval }.

Definition empty_cfg : cfg :=
  mk_cfg CNone CNone CNone CNone CNone CNone CNone CNone CNone CNone CNone CNone CNone CNone CNone CNone.

Definition cget (a : attr) (c : cfg) : cval :=
  match a with
  | A_default_ns => c_default_ns c | A_default_ew => c_default_ew c | A_layout => c_layout c
  | A_wait_to_parse => c_wait_to_parse c | A_parse_qq => c_parse_qq c | A_clean_qq => c_clean_qq c
  | A_sec_colon_required => c_sec_colon_required c | A_sec_colon_cautious => c_sec_colon_cautious c
  | A_suppress_lot_divs => c_suppress_lot_divs c | A_ocr_scrub => c_ocr_scrub c | A_segment => c_segment c
  | A_qq_depth => c_qq_depth c | A_qq_depth_min => c_qq_depth_min c | A_qq_depth_max => c_qq_depth_max c
  | A_break_halves => c_break_halves c | A_sec_within => c_sec_within c
  end.

Definition cset (a : attr) (v : cval) (c : cfg) : cfg :=
  let 'mk_cfg a0 a1 a2 a3 a4 a5 a6 a7 a8 a9 a10 a11 a12 a13 a14 a15 := c in
  match a with
  | A_default_ns => mk_cfg v a1 a2 a3 a4 a5 a6 a7 a8 a9 a10 a11 a12 a13 a14 a15
  | A_default_ew => mk_cfg a0 v a2 a3 a4 a5 a6 a7 a8 a9 a10 a11 a12 a13 a14 a15
  | A_layout => mk_cfg a0 a1 v a3 a4 a5 a6 a7 a8 a9 a10 a11 a12 a13 a14 a15
  | A_wait_to_parse => mk_cfg a0 a1 a2 v a4 a5 a6 a7 a8 a9 a10 a11 a12 a13 a14 a15
  | A_parse_qq => mk_cfg a0 a1 a2 a3 v a5 a6 a7 a8 a9 a10 a11 a12 a13 a14 a15
  | A_clean_qq => mk_cfg a0 a1 a2 a3 a4 v a6 a7 a8 a9 a10 a11 a12 a13 a14 a15
  | A_sec_colon_required => mk_cfg a0 a1 a2 a3 a4 a5 v a7 a8 a9 a10 a11 a12 a13 a14 a15
  | A_sec_colon_cautious => mk_cfg a0 a1 a2 a3 a4 a5 a6 v a8 a9 a10 a11 a12 a13 a14 a15
  | A_suppress_lot_divs => mk_cfg a0 a1 a2 a3 a4 a5 a6 a7 v a9 a10 a11 a12 a13 a14 a15
  | A_ocr_scrub => mk_cfg a0 a1 a2 a3 a4 a5 a6 a7 a8 v a10 a11 a12 a13 a14 a15
  | A_segment => mk_cfg a0 a1 a2 a3 a4 a5 a6 a7 a8 a9 v a11 a12 a13 a14 a15
  | A_qq_depth => mk_cfg a0 a1 a2 a3 a4 a5 a6 a7 a8 a9 a10 v a12 a13 a14 a15
  | A_qq_depth_min => mk_cfg a0 a1 a2 a3 a4 a5 a6 a7 a8 a9 a10 a11 v a13 a14 a15
  | A_qq_depth_max => mk_cfg a0 a1 a2 a3 a4 a5 a6 a7 a8 a9 a10 a11 a12 v a14 a15
  | A_break_halves => mk_cfg a0 a1 a2 a3 a4 a5 a6 a7 a8 a9 a10 a11 a12 a13 v a15
  | A_sec_within => mk_cfg a0 a1 a2 a3 a4 a5 a6 a7 a8 a9 a10 a11 a12 a13 a14 v
  end.

Definition is_none (v : cval) : bool := match v with CNone => true | _ => false end.

(* str_to_value(text) *)
Definition str_to_value (t : str) : cval :=
  if str_eqb t (s "None") then CNone
  else if str_eqb t (s "True") then CBool true
  else if str_eqb t (s "False") then CBool false
  else match py_int t with Some z => CInt z | None => CStr t end.

(* str(value) *)
Definition py_str (v : cval) : str :=
  match v with
  | CNone => s "None" | CBool true => s "True" | CBool false => s "False"
  | CInt z => str_of_Z z | CStr t => t
  end.

(* truthiness *)
Definition truthy (v : cval) : bool :=
  match v with
  | CNone => false | CBool b => b | CInt z => negb (z =? 0)%Z
  | CStr [] => false | CStr _ => true
  end.

(* verify_default_ns / _ew on a str value *)
Definition verify_default (legal : list str) (e : exn) (t : str) : Py cval :=
  match lower t with
  | [] => Raise e
  | c :: _ => if mem_str [c] legal then Ok (CStr [c]) else Raise e
  end.

(* _set_str_to_values(attrib_val, default_bool): which attribute is set to which value
   (None: nothing is set) *)
Definition str_to_values_effect (line : str) (default_bool : cval) : Py (option (attr * cval)) :=
  let parts := split inl_cfg_kv2 inl_cfg_kv2_ng line in
  let '(attribute, value) :=
    match parts with
    | [a; v] => (a, Some v)
    | _ => (line, None)
    end in
  match attr_of_str attribute with
  | None => Raise ValueError
  | Some a =>
      do v <-
         (if is_bool_attr a then
            Ok (match value with None => default_bool | Some t => str_to_value t end)
          else match a with
               | A_default_ns =>
                   match value with None => Ok CNone | Some t => verify_default MC_LEGAL_NS DefaultNSError t end
               | A_default_ew =>
                   match value with None => Ok CNone | Some t => verify_default MC_LEGAL_EW DefaultEWError t end
               | _ => Ok (match value with None => CNone | Some t => str_to_value t end)
               end);
      Ok (if is_none v then None else Some (a, v))
  end.

(* one line of _text_to_attributes *)
Definition line_effect (line : str) : Py (option (attr * cval)) :=
  match line with
  | [] => Ok None
  | _ =>
      let head := match split inl_cfg_kv1 inl_cfg_kv1_ng line with h :: _ => h | [] => [] end in
      if mem_str head BOOL_TYPE_ATTRIBUTES then str_to_values_effect line (CBool true)
      else if mem_str line MC_LEGAL_NS then Ok (Some (A_default_ns, CStr line))
      else if mem_str line MC_LEGAL_EW then Ok (Some (A_default_ew, CStr line))
      else if mem_str line IMPLEMENTED_LAYOUTS then Ok (Some (A_layout, CStr line))
      else str_to_values_effect line CNone
  end.

Definition apply_effect (e : option (attr * cval)) (c : cfg) : cfg :=
  match e with Some (a, v) => cset a v c | None => c end.

Definition set_line (line : str) (c : cfg) : Py cfg :=
  do e <- line_effect line; Ok (apply_effect e c).

Fixpoint set_lines (lines : list str) (c : cfg) : Py cfg :=
  match lines with
  | [] => Ok c
  | l :: t => do c' <- set_line l c; set_lines t c'
  end.

Definition config_lines (text : str) : list str :=
  split inl_cfg_sep inl_cfg_sep_ng (sub inl_cfg_ws inl_cfg_ws_ng [] text).

(* Config(config_text) *)
Definition text_to_attributes (text : str) : Py cfg := set_lines (config_lines text) empty_cfg.

(* attrib_and_val_to_str(attribute, value) *)
Definition attrib_and_val_to_str (a : attr) (v : cval) : Py str :=
  match v with
  | CNone => Ok []
  | _ =>
      if is_bool_attr a then
        Ok (if truthy v then attr_name a else attr_name a ++ s "." ++ py_str v)
      else match a with
           | A_default_ns | A_default_ew =>
               match v with
               | CStr (ch :: _) => Ok [ch]
               | CStr [] => Raise IndexError
               | _ => Raise TypeError
               end
           | _ => Ok (attr_name a ++ s "." ++ py_str v)
           end
  end.

Fixpoint decompile_attrs (l : list attr) (c : cfg) : Py (list str) :=
  match l with
  | [] => Ok []
  | a :: t =>
      do w <- attrib_and_val_to_str a (cget a c);
      do r <- decompile_attrs t c;
      Ok (match w with [] => r | _ => w :: r end)
  end.

Definition decompile_to_text (c : cfg) : Py str :=
  do ws <- decompile_attrs all_attrs c; Ok (join (s ",") ws).

(* ------------------------------------------------------------------ *)
(* PLSSDesc: __init__, config setter, parse() lock-down                *)

(* object attributes, same names as the settings *)
Definition pd_defaults : cfg :=
  mk_cfg CNone CNone CNone CNone (CBool false) (CBool false) (CBool false) CNone (CBool false)
         (CBool false) (CBool false) CNone (CInt 2) CNone (CBool false) (CBool false).

Fixpoint apply_config (attrs : list attr) (new : cfg) (st : cfg) : cfg :=
  match attrs with
  | [] => st
  | a :: t => apply_config t new (if is_none (cget a new) then st else cset a (cget a new) st)
  end.

Definition plss_attrs : list attr := filter (fun a => mem_str (attr_name a) PLSSDESC_ATTRIBUTES) all_attrs.
Definition tract_attrs : list attr := filter (fun a => mem_str (attr_name a) TRACT_ATTRIBUTES) all_attrs.

(* PLSSDesc.__init__(raw, layout, config, parse_qq, source, wait_to_parse): attributes and
   stored config before the first parse *)
Definition pd_init (config : cfg) (layout parse_qq wait_to_parse : cval) : cfg :=
  let st := apply_config plss_attrs config pd_defaults in
  let st := if is_none parse_qq then st else cset A_parse_qq parse_qq st in
  let st := if is_none wait_to_parse then st else cset A_wait_to_parse wait_to_parse st in
  if is_none layout then st else cset A_layout layout st.

(* .config = new_config *)
Definition pd_set_config (new : cfg) (st : cfg) : cfg := apply_config plss_attrs new st.

(* keyword arguments of parse(); CNone = not given *)
Definition kw (a : attr) (kws : cfg) : cval := cget a kws.
Definition or_attr (k v : cval) : cval := if is_none k then v else k.
(* `if not default_ns: default_ns = self.default_ns` *)
Definition or_attr_falsy (k v : cval) : cval := if truthy k then k else v.

Inductive colon_mode := ColonOff (v : cval) | ColonRequired (v : cval) | ColonCautious.

Record pd_effective := mk_pd_eff {
  pe_layout : cval; pe_default_ns : cval; pe_default_ew : cval; pe_ocr_scrub : cval;
  pe_sec_within : cval; pe_parse_qq : cval; pe_clean_qq : cval; pe_require_colon : cval;
  pe_segment : cval; pe_qq_depth_min : cval; pe_qq_depth_max : cval; pe_qq_depth : cval;
  pe_break_halves : cval; pe_handed_down : Py str }.

(* the Config handed down to the subordinate Tract objects *)
Definition pd_tract_config (conf : cfg) (sup pqq cqq ocr qd qmn qmx bh : cval) : cfg :=
  let tc := cset A_parse_qq pqq conf in
  let tc := cset A_clean_qq cqq tc in
  let tc := cset A_suppress_lot_divs sup tc in
  let tc := cset A_ocr_scrub ocr tc in
  let tc := cset A_qq_depth qd tc in
  let tc := cset A_qq_depth_min qmn tc in
  let tc := cset A_qq_depth_max qmx tc in
  cset A_break_halves bh tc.

(* PLSSDesc.parse(kws) with stored config [conf] and attributes [st]: what reaches PLSSParser *)
Definition pd_parse (conf st kws : cfg) : pd_effective :=
  let req := or_attr (kw A_sec_colon_required kws) (cget A_sec_colon_required st) in
  let cau := or_attr (kw A_sec_colon_cautious kws) (cget A_sec_colon_cautious st) in
  let require_colon := if truthy cau && negb (truthy req) then CStr SEC_COLON_CAUTIOUS else req in
  let dns := or_attr_falsy (kw A_default_ns kws) (cget A_default_ns st) in
  let dew := or_attr_falsy (kw A_default_ew kws) (cget A_default_ew st) in
  let ocr := or_attr (kw A_ocr_scrub kws) (cget A_ocr_scrub st) in
  let within := or_attr (kw A_sec_within kws) (cget A_sec_within st) in
  let pqq := or_attr (kw A_parse_qq kws) (cget A_parse_qq st) in
  let cqq := or_attr (kw A_clean_qq kws) (cget A_clean_qq st) in
  let seg := or_attr (kw A_segment kws) (cget A_segment st) in
  let layout := or_attr (kw A_layout kws) (cget A_layout st) in
  let seg := match layout with CStr t => if str_eqb t COPY_ALL then CBool false else seg | _ => seg end in
  let bh := or_attr (kw A_break_halves kws) (cget A_break_halves st) in
  let qd := if is_none (kw A_qq_depth kws) && is_none (kw A_qq_depth_min kws) && is_none (kw A_qq_depth_max kws)
            then cget A_qq_depth st else kw A_qq_depth kws in
  let qmn := or_attr (kw A_qq_depth_min kws) (cget A_qq_depth_min st) in
  let qmx := or_attr (kw A_qq_depth_max kws) (cget A_qq_depth_max st) in
  let tc := pd_tract_config conf (cget A_suppress_lot_divs st) pqq cqq ocr qd qmn qmx bh in
  mk_pd_eff layout dns dew ocr within pqq cqq require_colon seg qmn qmx qd bh (decompile_to_text tc).

(* ------------------------------------------------------------------ *)
(* Tract: __init__, config setter, parse() lock-down                   *)

Definition tr_defaults : cfg :=
  mk_cfg CNone CNone CNone CNone (CBool false) (CBool false) CNone CNone (CBool false)
         (CBool false) CNone CNone (CInt 2) CNone (CBool false) CNone.

Definition tr_init (config : cfg) (parse_qq : cval) : cfg :=
  let st := apply_config tract_attrs config tr_defaults in
  if is_none parse_qq then st else cset A_parse_qq parse_qq st.

Definition tr_set_config (new : cfg) (st : cfg) : cfg := apply_config tract_attrs new st.

Record tr_effective := mk_tr_eff {
  te_clean_qq : cval; te_suppress_lot_divs : cval; te_qq_depth_min : cval; te_qq_depth_max : cval;
  te_break_halves : cval }.

(* Tract.parse(kws): what reaches TractParser *)
Definition tr_parse (st kws : cfg) : tr_effective :=
  let cqq := or_attr (kw A_clean_qq kws) (cget A_clean_qq st) in
  let sup := or_attr (kw A_suppress_lot_divs kws) (cget A_suppress_lot_divs st) in
  let bh := or_attr (kw A_break_halves kws) (cget A_break_halves st) in
  let use_min_max := negb (is_none (kw A_qq_depth_min kws)) || negb (is_none (kw A_qq_depth_max kws)) in
  let qmn := or_attr (kw A_qq_depth_min kws) (cget A_qq_depth_min st) in
  let qmx := or_attr (kw A_qq_depth_max kws) (cget A_qq_depth_max st) in
  let '(qmn, qmx) :=
    if negb (is_none (kw A_qq_depth kws)) then (kw A_qq_depth kws, kw A_qq_depth kws)
    else if negb use_min_max && negb (is_none (cget A_qq_depth st)) then (cget A_qq_depth st, cget A_qq_depth st)
    else (qmn, qmx) in
  mk_tr_eff cqq sup qmn qmx bh.
