(* Model/Aliquot.v -- mirror of pytrs/parser/tract/aliquot_parse.py.
   Components are typed; every membership test goes through the strings of the
   regenerated tables (Gen/Tables.v), so a table edit reaches the theorems. *)
From Coq Require Import List NArith ZArith Arith Bool.
From Coq Require String.
From PyTRS Require Import Engine.Regex Gen.Patterns PyRt.Str Gen.Tables.
Import ListNotations.
Import String.StringSyntax.
Local Open Scope string_scope.

Inductive comp := CN | CS | CE | CW | CNE | CNW | CSE | CSW | CALL.

Definition all_comps : list comp := [CN; CS; CE; CW; CNE; CNW; CSE; CSW; CALL].

Definition cstr (c : comp) : str :=
  match c with
  | CN => s "N" | CS => s "S" | CE => s "E" | CW => s "W"
  | CNE => s "NE" | CNW => s "NW" | CSE => s "SE" | CSW => s "SW"
  | CALL => s "ALL"
  end.

Definition comp_of_str (x : str) : option comp :=
  find (fun c => str_eqb (cstr c) x) all_comps.

(* `x in QQ_HALVES` etc. *)
Definition is_half (c : comp) : bool := mem_str (cstr c) QQ_HALVES.
Definition is_quarter (c : comp) : bool := mem_str (cstr c) QQ_QUARTERS.
Definition in_ns (c : comp) : bool := mem_str (cstr c) QQ_NS.
(* `aq2 not in QQ_SAME_AXIS.get(aq1, ())` *)
Definition same_axis (a1 a2 : comp) : bool :=
  match assoc_str (cstr a1) QQ_SAME_AXIS with
  | Some l => mem_str (cstr a2) l
  | None => false
  end.
(* `aq1 in "EW"` (substring test on the literal "EW") *)
Definition in_EW_literal (c : comp) : bool := contains (s "EW") (cstr c).

(* ---- pass_back_halves ---- *)
(* one pair: aq1 a quarter, aq2 a half (text order).  Returns (rebuilt_aq1, rebuilt_aq2). *)
Definition rebuild_pair (aq1 aq2 : comp) : option (comp * comp) :=
  match cstr aq1 with
  | [c1; c2] =>
      if in_ns aq2 then
        match comp_of_str (cstr aq2 ++ [c2]), comp_of_str [c1] with
        | Some r2, Some r1 => Some (r1, r2)
        | _, _ => None
        end
      else
        match comp_of_str (c1 :: cstr aq2), comp_of_str [c2] with
        | Some r2, Some r1 => Some (r1, r2)
        | _, _ => None
        end
  | _ => None
  end.

(* the while-loop over the (reversed) list, in text order; the head is carried
   separately because the loop re-reads the element it has just rewritten *)
Fixpoint pbh_from (aq1 : comp) (t : list comp) : option (list comp) :=
  match t with
  | [] => Some [aq1]
  | aq2 :: t' =>
      if is_half aq2 && is_quarter aq1 then
        match rebuild_pair aq1 aq2 with
        | Some (r1, r2) => option_map (cons r1) (pbh_from r2 t')
        | None => None
        end
      else option_map (cons aq1) (pbh_from aq2 t')
  end.

Definition pbh_walk (l : list comp) : option (list comp) :=
  match l with
  | [] => Some []
  | a :: t => pbh_from a t
  end.

Definition pass_back_halves (l : list comp) : option (list comp) :=
  option_map (@rev comp) (pbh_walk (rev l)).

(* ---- combine_consecutive_halves (list is largest-first) ---- *)
Definition new_quarter (aq1 aq2 : comp) : option comp :=
  if in_EW_literal aq1 then comp_of_str (cstr aq2 ++ cstr aq1)
  else comp_of_str (cstr aq1 ++ cstr aq2).

Fixpoint combine_consecutive_halves (l : list comp) : option (list comp) :=
  match l with
  | aq1 :: ((aq2 :: t) as rest) =>
      if is_half aq1 && is_half aq2 && negb (same_axis aq1 aq2) then
        match new_quarter aq1 aq2 with
        | Some q => option_map (cons q) (combine_consecutive_halves t)
        | None => None
        end
      else option_map (cons aq1) (combine_consecutive_halves rest)
  | _ => Some l
  end.

Fixpoint comps_eqb (a b : list comp) : bool :=
  match a, b with
  | [], [] => true
  | x :: a', y :: b' => str_eqb (cstr x) (cstr y) && comps_eqb a' b'
  | _, _ => false
  end.

(* ---- standardize_aliquot_components: iterate to a fixed point ---- *)
Fixpoint standardize_fuel (fuel : nat) (l : list comp) : option (list comp) :=
  match fuel with
  | O => None                                   (* OutOfFuel *)
  | S f =>
      match pass_back_halves l with
      | None => None
      | Some l1 =>
          match combine_consecutive_halves l1 with
          | None => None
          | Some l2 => if comps_eqb l2 l then Some l2 else standardize_fuel f l2
          end
      end
  end.

Definition std_fuel (l : list comp) : nat :=
  let n := S (length l) in S (n * n * n).

(* Python's loop starts with copy = [] and so always runs at least once; on the empty
   list it does not run at all. *)
Definition standardize_aliquot_components (l : list comp) : option (list comp) :=
  match l with
  | [] => Some []
  | _ => standardize_fuel (std_fuel l) l
  end.

(* ---- rebuild_aliquots ---- *)
(* pieces are lists of components, smallest first (as the strings are concatenated) *)
Definition piece := list comp.

Definition rebuild_two (second_deepest deepest : list piece) : list piece :=
  flat_map (fun shallow => map (fun deep => deep ++ shallow) deepest) second_deepest.

(* nested list is largest-first; fold from the right *)
Fixpoint rebuild_aliquots (nested : list (list piece)) : list piece :=
  match nested with
  | [] => []
  | [x] => x
  | x :: rest => rebuild_two x (rebuild_aliquots rest)
  end.

(* ---- subdivide_aliquot ---- *)
Definition subdiv_def (c : comp) : option (list comp) :=
  match assoc_str (cstr c) QQ_SUBDIVIDE_DEFINITIONS with
  | Some l =>
      (fix go (l : list str) : option (list comp) :=
         match l with
         | [] => Some []
         | x :: t =>
             match comp_of_str x, go t with
             | Some c, Some r => Some (c :: r)
             | _, _ => None
             end
         end) l
  | None => None
  end.

Definition quarters : option (list comp) :=
  (fix go (l : list str) : option (list comp) :=
     match l with
     | [] => Some []
     | x :: t =>
         match comp_of_str x, go t with
         | Some c, Some r => Some (c :: r)
         | _, _ => None
         end
     end) QQ_QUARTERS.

Definition singles (l : list comp) : list piece := map (fun c => [c]) l.

(* depth > 0 *)
Definition subdivide_pos (c : comp) (depth : nat) : option (list piece) :=
  match quarters with
  | None => None
  | Some qs =>
      match depth with
      | O => None
      | S d =>
          (* first iteration: halves and ALL are replaced by their quarters;
             a quarter gets the four quarters appended below it *)
          let first :=
            match assoc_str (cstr c) QQ_SUBDIVIDE_DEFINITIONS with
            | Some _ => option_map (fun l => [singles l]) (subdiv_def c)
            | None => Some [singles [c]; singles qs]
            end in
          match first with
          | None => None
          | Some nested =>
              (* later iterations: divided[-1][0] is never a key again unless the
                 table lists a half inside a definition; mirror the test *)
              (fix go (d : nat) (nested : list (list piece)) : option (list piece) :=
                 match d with
                 | O => Some (rebuild_aliquots nested)
                 | S d' =>
                     match last_opt nested with
                     | Some ((c0 :: _) :: _) =>
                         match assoc_str (cstr c0) QQ_SUBDIVIDE_DEFINITIONS with
                         | Some _ =>
                             match subdiv_def c0 with
                             | Some l => go d' (removelast nested ++ [singles l])
                             | None => None
                             end
                         | None => go d' (nested ++ [singles qs])
                         end
                     | _ => None
                     end
                 end) d nested
          end
      end
  end.

Definition subdivide_aliquot (c : comp) (depth : Z) : option (list piece) :=
  if (depth <=? 0)%Z then Some [[c]]
  else subdivide_pos c (Z.to_nat depth).

(* ---- parse_aliquot on a component list (largest first) ---- *)
(* list[:mx] for any integer mx *)
Definition py_slice_to {A} (l : list A) (mx : Z) : list A :=
  if (mx <? 0)%Z then firstn (length l - Z.to_nat (- mx)) l
  else firstn (Z.to_nat mx) l.

Definition comp_depth (i len : nat) (c : comp) (mn : Z) (break_halves : bool) : Z :=
  let iz := Z.of_nat i in
  let d :=
    if (iz =? mn)%Z then 1%Z
    else if (i =? len) && (Z.of_nat len <? mn)%Z then (mn - iz + 1)%Z
    else if is_half c && ((iz <? mn)%Z || break_halves) then 1%Z
    else 0%Z in
  if is_quarter c then (d - 1)%Z else d.

Fixpoint subdivide_all (i len : nat) (l : list comp) (mn : Z) (bh : bool)
  : option (list (list piece)) :=
  match l with
  | [] => Some []
  | c :: t =>
      match subdivide_aliquot c (comp_depth i len c mn bh), subdivide_all (S i) len t mn bh with
      | Some x, Some r => Some (x :: r)
      | _, _ => None
      end
  end.

Definition parse_comps (comps : list comp) (mn : Z) (mx : option Z) (bh : bool)
  : option (list piece) :=
  match comps with
  | [] => Some []
  | _ =>
      match standardize_aliquot_components comps with
      | None => None
      | Some std =>
          let cl := match mx with
                    | Some x => if (x <? Z.of_nat (length std))%Z then py_slice_to std x else std
                    | None => std
                    end in
          option_map rebuild_aliquots (subdivide_all 1 (length cl) cl mn bh)
      end
  end.

(* `qq_depth` overrides both *)
Definition resolve_depths (mn : Z) (mx qq : option Z) : Z * option Z :=
  match qq with Some d => (d, Some d) | None => (mn, mx) end.

(* ---- rendering of pieces: halves carry the designator "2" ---- *)
Definition atom_str (c : comp) : str :=
  if is_half c then cstr c ++ s "2" else cstr c.
Definition piece_str (p : piece) : str := flat_map atom_str p.

(* ---- text side: components via single_aliquot_unpacker_regex ---- *)
Definition components_of_text (text : str) : list (option str) :=
  map (fun x => group text x single_aliquot_unpacker_regex_g_aliquot_no_frac)
      (finditer single_aliquot_unpacker_regex single_aliquot_unpacker_regex_ng text).

Fixpoint comps_of_strs (l : list (option str)) : option (list comp) :=
  match l with
  | [] => Some []
  | Some x :: t =>
      match comp_of_str x, comps_of_strs t with
      | Some c, Some r => Some (c :: r)
      | _, _ => None
      end
  | None :: _ => None
  end.

(* parse_aliquot(text, qq_depth_min, qq_depth_max, qq_depth, break_halves);
   None = a component outside the nine documented ones / out of fuel (not modelled) *)
Definition parse_aliquot (text : str) (mn : Z) (mx qq : option Z) (bh : bool)
  : option (list str) :=
  let '(mn', mx') := resolve_depths mn mx qq in
  match comps_of_strs (components_of_text text) with
  | None => None
  | Some comps => option_map (map piece_str) (parse_comps (rev comps) mn' mx' bh)
  end.
