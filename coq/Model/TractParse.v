(* Model/TractParse.v -- mirror of pytrs/parser/tract/tract_parse.py (TractParser) *)
From Coq Require Import List NArith ZArith Arith Bool.
From Coq Require String.
From PyTRS Require Import Engine.Regex Gen.Patterns PyRt.Str Gen.Tables Model.Trs Model.Unpack
     Model.TractPre Model.Aliquot.
Import ListNotations.
Import String.StringSyntax.
Local Open Scope string_scope.

Definition remove_fractions (a : str) : str :=
  replace [189%N] (s "2") (replace [188%N] [] a).      (* '¼' -> '' ; '½' -> '2' *)

Record flagset := mk_flagset
  { w_flags : list str; w_flag_lines : list flagline;
    e_flags : list str; e_flag_lines : list flagline }.
Definition no_flags : flagset := mk_flagset [] [] [] [].

Record tract_parsed := mk_tract_parsed
  { tp_text : str;                   (* preprocessed text *)
    tp_lots : list str; tp_qqs : list str; tp_lot_acres : list (str * str);
    tp_aliquots_whole : list str; tp_flags : flagset }.

(* extraction loop: repeatedly search, record, replace the match by ";;" *)
Fixpoint extract_lots (fuel : nat) (txt : str) (acc : list (str * option str))
  : Py (str * list (str * option str)) :=
  match fuel with
  | O => Raise OutOfFuel
  | S fuel' =>
      match search multilot_with_aliquot_regex multilot_with_aliquot_regex_ng txt with
      | None => Ok (txt, rev acc)
      | Some x =>
          match group txt x multilot_with_aliquot_regex_g_lots with
          | None => Raise TypeError
          | Some lot_text =>
              let lead := group txt x multilot_with_aliquot_regex_g_aliquot in
              let txt' := firstn (mstart x) txt ++ s ";;" ++ skipn (mend x) txt in
              extract_lots fuel' txt' ((lot_text, lead) :: acc)
          end
      end
  end.

Fixpoint extract_aliquots (fuel : nat) (txt : str) (acc : list str) : Py (str * list str) :=
  match fuel with
  | O => Raise OutOfFuel
  | S fuel' =>
      match search aliquot_unpacker_regex aliquot_unpacker_regex_ng txt with
      | None => Ok (txt, rev acc)
      | Some x =>
          let blk := group0 txt x in
          let txt' := firstn (mstart x) txt ++ s ";;" ++ skipn (mend x) txt in
          extract_aliquots fuel' txt' (blk :: acc)
      end
  end.

(* apply the leading aliquot to the first [n] lots: new_lots[idx] for idx in range(n) *)
Fixpoint apply_lot_divs (n : nat) (lead : str) (lots : list str) : Py (list str) :=
  match n with
  | O => Ok lots
  | S n' =>
      match lots with
      | [] => Raise IndexError
      | l :: t => do r <- apply_lot_divs n' lead t; Ok ((lead ++ s " of " ++ l) :: r)
      end
  end.

Record lot_acc := mk_lot_acc
  { la_lots : list str; la_acres : list (str * str); la_w : list str; la_wl : list flagline }.

Fixpoint merge_acres (new : list (str * str)) (a : lot_acc) : lot_acc :=
  match new with
  | [] => a
  | (k, v) :: t =>
      let a' :=
        match assoc_str k (la_acres a) with
        | Some old =>
            let flag := s "dup_lot_acreage<" ++ k ++ s "(" ++ old ++ s ")>" in
            mk_lot_acc (la_lots a) (dict_set k v (la_acres a)) (la_w a ++ [flag]) (la_wl a ++ [(flag, flag)])
        | None => mk_lot_acc (la_lots a) (dict_set k v (la_acres a)) (la_w a) (la_wl a)
        end in
      merge_acres t a'
  end.

Fixpoint unpack_lot_blocks (blocks : list (str * option str)) (suppress : bool) (a : lot_acc)
  : Py lot_acc :=
  match blocks with
  | [] => Ok a
  | (blk, lead) :: t =>
      do u <- lot_unpacker blk;
      let a1 := mk_lot_acc (la_lots a) (la_acres a) (la_w a ++ lu_flags u) (la_wl a ++ lu_flag_lines u) in
      do new_lots <-
         (match lead with
          | Some ld =>
              if suppress then Ok (lu_list u)
              else
                (* range(aliquots_through): empty when it is <= 0 *)
                apply_lot_divs (Z.to_nat (lu_aliquots_through u)) (remove_fractions ld) (lu_list u)
          | None => Ok (lu_list u)
          end);
      let a2 := mk_lot_acc (la_lots a1 ++ new_lots) (la_acres a1) (la_w a1) (la_wl a1) in
      unpack_lot_blocks t suppress (merge_acres (lu_acres u) a2)
  end.

(* find_duplicates: every element but the last that occurs again later *)
Fixpoint find_duplicates (l : list str) : list str :=
  match l with
  | [] => []
  | [_] => []
  | x :: t => if mem_str x t then x :: find_duplicates t else find_duplicates t
  end.

Definition gen_flags (lots qqs : list str) (w : list str) (wl : list flagline)
  : list str * list flagline :=
  let dl := find_duplicates lots in
  let dq := find_duplicates qqs in
  let '(w, wl) :=
    match dl with
    | [] => (w, wl)
    | _ => let flag := s "dup_lot<" ++ join (s ",") dl ++ s ">" in (w ++ [flag], wl ++ [(flag, flag)])
    end in
  match dq with
  | [] => (w, wl)
  | _ => let flag := s "dup_qq<" ++ join (s ",") dq ++ s ">" in (w ++ [flag], wl ++ [(flag, flag)])
  end.

Fixpoint parse_blocks (blocks : list str) (mn : Z) (mx qq : option Z) (bh : bool) : Py (list str) :=
  match blocks with
  | [] => Ok []
  | b :: t =>
      match parse_aliquot b mn mx qq bh with
      | None => Raise ModelGap
      | Some q => do r <- parse_blocks t mn mx qq bh; Ok (q ++ r)
      end
  end.

(* TractParser(text, clean_qq, suppress_lot_divs, qq_depth_min, qq_depth_max, qq_depth,
               break_halves, parent) -- [parent] contributes its four flag lists *)
Definition tract_parser (orig_text : str) (clean_qq suppress : bool) (mn : Z) (mx qq : option Z)
           (bh : bool) (parent : flagset) : Py tract_parsed :=
  do text <- scrub_aliquots orig_text clean_qq;
  do le <- extract_lots (S (S (length text))) text [];
  let '(text1, lot_blocks) := le in
  do la <- unpack_lot_blocks lot_blocks suppress
                             (mk_lot_acc [] [] (w_flags parent) (w_flag_lines parent));
  do ae <- extract_aliquots (S (S (length text1))) text1 [];
  let '(text2, aliq_blocks) := ae in
  let whole := map remove_fractions aliq_blocks in
  let chk := strip (sub inl_tp_ws inl_tp_ws_ng (s " ") text2) in
  let aliq_blocks :=
    match search all_regex all_regex_ng chk with
    | Some x => match group chk x all_regex_g_context with
                | None => aliq_blocks ++ [ALIQ_ALL]
                | Some _ => aliq_blocks
                end
    | None => aliq_blocks
    end in
  let '(mn', mx') := match qq with Some d => (d, Some d) | None => (mn, mx) end in
  do qqs <- parse_blocks aliq_blocks mn' mx' qq bh;
  let '(w, wl) := gen_flags (la_lots la) qqs (la_w la) (la_wl la) in
  Ok (mk_tract_parsed text (la_lots la) qqs (la_acres la) whole
                      (mk_flagset w wl (e_flags parent) (e_flag_lines parent))).
