(* PyRt/Str.v -- Gallina definitions of the Python `str` / `int` / list operations that
   pyTRS uses.  Hand-written; validated against the builtins by the runtime-level
   correspondence.  No proofs in this file. *)
From Coq Require Import List NArith ZArith Arith Bool Ascii.
From Coq Require String.
From PyTRS Require Import Engine.Regex Gen.PyTables.
Import ListNotations.

(* ASCII string literal -> code points *)
Definition s (x : String.string) : str := map N_of_ascii (String.list_ascii_of_string x).

Fixpoint str_eqb (a b : str) : bool :=
  match a, b with
  | [], [] => true
  | x :: a', y :: b' => (x =? y)%N && str_eqb a' b'
  | _, _ => false
  end.

Definition mem_str (x : str) (l : list str) : bool := existsb (str_eqb x) l.

Fixpoint mem_N (c : N) (l : list N) : bool :=
  match l with [] => false | x :: t => (x =? c)%N || mem_N c t end.

(* ---- startswith / endswith ---- *)
Fixpoint startswith (t p : str) : bool :=
  match p, t with
  | [], _ => true
  | x :: p', y :: t' => (x =? y)%N && startswith t' p'
  | _ :: _, [] => false
  end.

Definition endswith (t p : str) : bool := startswith (rev t) (rev p).

(* ---- strip family ---- *)
Fixpoint lstrip_by (f : N -> bool) (t : str) : str :=
  match t with
  | c :: t' => if f c then lstrip_by f t' else t
  | [] => []
  end.
Definition rstrip_by (f : N -> bool) (t : str) : str := rev (lstrip_by f (rev t)).
Definition strip_by (f : N -> bool) (t : str) : str := rstrip_by f (lstrip_by f t).

Definition is_space (c : N) : bool := in_ranges c PY_SPACE.
Definition strip (t : str) : str := strip_by is_space t.
Definition lstrip (t : str) : str := lstrip_by is_space t.
Definition rstrip (t : str) : str := rstrip_by is_space t.
Definition strip_chars (cs t : str) : str := strip_by (fun c => mem_N c cs) t.
Definition lstrip_chars (cs t : str) : str := lstrip_by (fun c => mem_N c cs) t.
Definition rstrip_chars (cs t : str) : str := rstrip_by (fun c => mem_N c cs) t.

(* ---- case mapping (per character, from CPython's tables; no final-sigma rule) ---- *)
Fixpoint assoc_N {A} (c : N) (l : list (N * A)) : option A :=
  match l with
  | [] => None
  | (k, v) :: t => if (k =? c)%N then Some v else assoc_N c t
  end.

Definition lower_char (c : N) : str :=
  if (c <? 128)%N then
    if ((65 <=? c) && (c <=? 90))%N then [(c + 32)%N] else [c]
  else match assoc_N c LOWER_TABLE with Some l => l | None => [c] end.

Definition upper_char (c : N) : str :=
  if (c <? 128)%N then
    if ((97 <=? c) && (c <=? 122))%N then [(c - 32)%N] else [c]
  else match assoc_N c UPPER_TABLE with Some l => l | None => [c] end.

Definition lower (t : str) : str := flat_map lower_char t.
Definition upper (t : str) : str := flat_map upper_char t.

(* ---- replace (non-overlapping, left to right; [old] non-empty) ---- *)
Fixpoint replace_fuel (fuel : nat) (old new t : str) : str :=
  match fuel with
  | O => t
  | S fuel' =>
      match t with
      | [] => []
      | c :: t' =>
          if startswith t old then new ++ replace_fuel fuel' old new (skipn (length old) t)
          else c :: replace_fuel fuel' old new t'
      end
  end.

(* Python's str.replace with an empty [old] inserts [new] around every character. *)
Definition replace (old new t : str) : str :=
  match old with
  | [] => new ++ flat_map (fun c => c :: new) t
  | _ => replace_fuel (S (length t)) old new t
  end.

(* ---- find / count of a substring ---- *)
Fixpoint contains_fuel (fuel : nat) (t p : str) : bool :=
  match fuel with
  | O => false
  | S f =>
      if startswith t p then true else
      match t with [] => false | _ :: t' => contains_fuel f t' p end
  end.
Definition contains (t p : str) : bool := contains_fuel (S (length t)) t p.

(* ---- split on a non-empty separator ---- *)
Fixpoint split_fuel (fuel : nat) (sep cur t : str) : list str :=
  match fuel with
  | O => [rev cur ++ t]
  | S f =>
      match t with
      | [] => [rev cur]
      | c :: t' =>
          if startswith t sep then rev cur :: split_fuel f sep [] (skipn (length sep) t)
          else split_fuel f sep (c :: cur) t'
      end
  end.
Definition split_on (sep t : str) : list str := split_fuel (S (length t)) sep [] t.

Fixpoint join (sep : str) (l : list str) : str :=
  match l with
  | [] => []
  | [x] => x
  | x :: t => x ++ sep ++ join sep t
  end.

(* ---- slices ---- *)
Definition slice_from (t : str) (a : nat) : str := skipn a t.
Definition slice_to (t : str) (b : nat) : str := firstn b t.
(* t[:-n] for n > 0 *)
Definition drop_last (n : nat) (t : str) : str := firstn (length t - n) t.
Definition last_opt {A} (l : list A) : option A :=
  match rev l with x :: _ => Some x | [] => None end.

(* ---- str(int) ---- *)
Fixpoint digits_pos_fuel (fuel : nat) (n : N) (acc : str) : str :=
  match fuel with
  | O => acc
  | S f =>
      let acc' := (48 + n mod 10)%N :: acc in
      if (n <? 10)%N then acc' else digits_pos_fuel f (n / 10)%N acc'
  end.
Definition str_of_N (n : N) : str := digits_pos_fuel (S (N.to_nat (N.log2 n))) n [].
Definition str_of_Z (z : Z) : str :=
  match z with
  | Z0 => [48%N]
  | Zpos p => str_of_N (Npos p)
  | Zneg p => 45%N :: str_of_N (Npos p)
  end.
Definition str_of_nat (n : nat) : str := str_of_N (N.of_nat n).

Definition rjust (w : nat) (fill : N) (t : str) : str :=
  repeat fill (w - length t) ++ t.
Definition ljust (w : nat) (fill : N) (t : str) : str :=
  t ++ repeat fill (w - length t).

(* ---- int(str): optional surrounding whitespace, optional sign, decimal digits of
   any script, single underscores between digits ---- *)
Fixpoint digit_val_in (c : N) (l : list (N * N)) : option N :=
  match l with
  | [] => None
  | (lo, hi) :: t =>
      if ((lo <=? c) && (c <=? hi))%N then Some ((c - lo) mod 10)%N else digit_val_in c t
  end.
Definition digit_val (c : N) : option N := digit_val_in c PY_DIGITS.
Definition is_digit (c : N) : bool :=
  match digit_val c with Some _ => true | None => false end.

(* state: acc value, whether the previous char was a digit *)
Fixpoint int_digits (t : str) (acc : N) (prev_digit : bool) : option N :=
  match t with
  | [] => if prev_digit then Some acc else None
  | c :: t' =>
      if (c =? 95)%N then
        if prev_digit then
          match t' with [] => None | _ => int_digits t' acc false end
        else None
      else match digit_val c with
           | Some d => int_digits t' (acc * 10 + d)%N true
           | None => None
           end
  end.

Definition py_int_core (t : str) : option Z :=
  match strip t with
  | 43%N :: r => match int_digits r 0 false with Some n => Some (Z.of_N n) | None => None end
  | 45%N :: r => match int_digits r 0 false with Some n => Some (- Z.of_N n)%Z | None => None end
  | r => match int_digits r 0 false with Some n => Some (Z.of_N n) | None => None end
  end.

(* CPython (>= 3.11) refuses str -> int conversion of more than sys.get_int_max_str_digits() = 4300 digits with ValueError;
   blanks, the sign and underscores do not count *)
Definition MAX_STR_DIGITS : N := 4300.
Definition too_many_digits (t : str) : bool := (MAX_STR_DIGITS <? N.of_nat (length (filter is_digit t)))%N.

Definition py_int (t : str) : option Z := if too_many_digits t then None else py_int_core t.

(* ---- list helpers ---- *)
Fixpoint index_of (x : str) (l : list str) : option nat :=
  match l with
  | [] => None
  | y :: t => if str_eqb x y then Some O else option_map S (index_of x t)
  end.

Fixpoint assoc_str {A} (k : str) (l : list (str * A)) : option A :=
  match l with
  | [] => None
  | (k', v) :: t => if str_eqb k k' then Some v else assoc_str k t
  end.

(* list.remove(x): remove first occurrence *)
Fixpoint remove_first (x : str) (l : list str) : list str :=
  match l with
  | [] => []
  | y :: t => if str_eqb x y then t else y :: remove_first x t
  end.
