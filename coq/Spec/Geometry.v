(* Spec/Geometry.v -- what an aliquot chain *means*: a dyadic rectangle of the unit
   square (the section).  Independent of the implementation; this is the yardstick
   C02 is measured against.  Short on purpose: audit this file to believe C02. *)
From Coq Require Import List Arith Bool.
From PyTRS Require Import Model.Aliquot.
Import ListNotations.

(* A point of the section: binary expansions of its x (west->east) and y (south->north)
   coordinates.  Bit [true] = the eastern / northern half at that scale. *)
Definition point := ((nat -> bool) * (nat -> bool))%type.

(* A dyadic rectangle: the points whose expansions start with these bits. *)
Record rect := mkrect { xb : list bool; yb : list bool }.

Definition prefix (l : list bool) (f : nat -> bool) : Prop :=
  forall i, i < length l -> nth i l false = f i.

Definition in_rect (r : rect) (p : point) : Prop :=
  prefix (xb r) (fst p) /\ prefix (yb r) (snd p).

(* What one component selects inside the current rectangle. *)
Definition xbit (c : comp) : list bool :=
  match c with
  | CE | CNE | CSE => [true]
  | CW | CNW | CSW => [false]
  | _ => []
  end.
Definition ybit (c : comp) : list bool :=
  match c with
  | CN | CNE | CNW => [true]
  | CS | CSE | CSW => [false]
  | _ => []
  end.

(* Region of a chain given largest component first ("the N½ of the NE¼" = [CNE; CN]). *)
Definition region (l : list comp) : rect :=
  mkrect (flat_map xbit l) (flat_map ybit l).

(* A piece is written smallest component first (as in 'N2NESW'). *)
Definition piece_rect (p : piece) : rect := region (rev p).

(* Ignoring halvings beyond depth M on each axis. *)
Definition trunc (M : nat) (r : rect) : rect := mkrect (firstn M (xb r)) (firstn M (yb r)).
Definition trunc_opt (mx : option nat) (r : rect) : rect :=
  match mx with Some M => trunc M r | None => r end.

(* [ps] tiles [R]: every point of R lies in exactly one piece (by position in the list,
   so a repeated piece is a violation), and no piece reaches outside R. *)
Definition tiles (R : rect) (ps : list rect) : Prop :=
  forall p : point,
    in_rect R p <->
    exists! i, i < length ps /\ in_rect (nth i ps (mkrect [] [])) p.

(* Area as a power of 1/2; used for the "areas add up" corollary. *)
Definition log_area (r : rect) : nat := length (xb r) + length (yb r).

Definition is_q (c : comp) : bool :=
  match c with CNE | CNW | CSE | CSW => true | _ => false end.
Definition is_h (c : comp) : bool :=
  match c with CN | CS | CE | CW => true | _ => false end.

(* the chains the property quantifies over *)
Definition valid_chain (l : list comp) : Prop :=
  l = [CALL] \/ (l <> [] /\ Forall (fun c => c <> CALL) l).

(* per-piece depth conditions *)
Definition piece_ok (mn : nat) (mx : option nat) (bh : bool) (p : piece) : Prop :=
  mn <= length p /\
  Forall (fun c => is_q c = true) (skipn (length p - mn) p) /\
  (match mx with Some M => length p <= M | None => True end) /\
  (bh = true -> Forall (fun c => is_h c = false) p).
