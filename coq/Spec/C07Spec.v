(* Spec/C07Spec.v -- what "documented spellings of an aliquot" means, and the canonical text. *)
From Coq Require Import List NArith ZArith Arith Bool.
From Coq Require String.
From PyTRS Require Import Engine.Regex PyRt.Str.
Import ListNotations.
Import String.StringSyntax.
Local Open Scope string_scope.

Inductive dirn := DN | DS | DE | DW.
Inductive acomp := Half (d : dirn) | Quarter (ns ew : dirn).   (* ns in {DN,DS}, ew in {DE,DW} *)

Definition letter (d : dirn) : str := match d with DN => s "N" | DS => s "S" | DE => s "E" | DW => s "W" end.
Definition word (d : dirn) : str := match d with DN => s "North" | DS => s "South" | DE => s "East" | DW => s "West" end.

Definition HALF_SYM : str := [189%N].       (* ½ *)
Definition QUARTER_SYM : str := [188%N].    (* ¼ *)

Definition canon1 (c : acomp) : str :=
  match c with
  | Half d => letter d ++ HALF_SYM
  | Quarter a b => letter a ++ letter b ++ QUARTER_SYM
  end.
Definition canon (chain : list acomp) : str := flat_map canon1 chain.

(* the documented spellings of one component *)
Definition spellings (c : acomp) : list str :=
  match c with
  | Half d =>
      let l := letter d in let w := word d in
      [l ++ HALF_SYM; l ++ s "/2"; l ++ s "2"; l ++ s " 1/2"; l ++ s "1/2"; w ++ s " Half"; lower w ++ s " half";
       w ++ s " One Half"; l ++ s ". 1/2"; w ++ s " 1/2"; l ++ s " " ++ HALF_SYM]
  | Quarter a b =>
      let l := letter a ++ letter b in
      let full := word a ++ lower (word b) in
      let split := word a ++ s " " ++ word b in
      [l ++ QUARTER_SYM; l ++ s "/4"; l ++ s "4"; l ++ s " 1/4"; l ++ s "1/4"; full ++ s " Quarter"; lower full ++ s " quarter";
       split ++ s " One Quarter"; split ++ s " Quarter"; full ++ s " 1/4"; letter a ++ s "." ++ letter b ++ s ". 1/4";
       l ++ s " " ++ QUARTER_SYM]
  end.

(* a shorter list used for the pairwise sweep *)
Definition spellings_core (c : acomp) : list str := firstn 4 (spellings c) ++ firstn 1 (skipn 5 (spellings c)).

Definition all_comps : list acomp :=
  [Half DN; Half DS; Half DE; Half DW; Quarter DN DE; Quarter DN DW; Quarter DS DE; Quarter DS DW].

(* joiners between components; the empty joiner only after a spelling that ends in a fraction *)
Definition joiners : list str := [[]; s " "; s " of "; s " of the "].
Definition ends_in_fraction (t : str) : bool :=
  match rev t with
  | c :: _ => mem_N c [188%N; 189%N; 50%N; 52%N]
  | [] => false
  end.

(* separator contexts around an aliquot *)
Definition contexts : list (str * str) :=
  [([], []); (s ", ", []); ([], s ", "); (s " ", s " "); (s "; ", s "; "); (s "Lot 1, ", s ", Lot 2"); (s "the ", s " of")].

Fixpoint chains (n : nat) : list (list acomp) :=
  match n with
  | O => [[]]
  | S k => flat_map (fun ch => map (fun c => c :: ch) all_comps) (chains k)
  end.
