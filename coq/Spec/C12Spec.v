(* Spec/C12Spec.v -- statements of property C12 (canonical, round-trips, strict). *)
From Coq Require Import List NArith ZArith Arith Bool.
From Coq Require String.
From PyTRS Require Import Engine.Regex PyRt.Str Gen.Tables Model.Trs.
Import ListNotations.
Import String.StringSyntax.
Local Open Scope string_scope.

(* the canonical text of a Twp/Rge/Sec *)
Definition canon_trs (t : N) (ns : N) (r : N) (ew : N) (sc : N) : str :=
  str_of_N t ++ [ns] ++ str_of_N r ++ [ew] ++ rjust 2 48%N (str_of_N sc).

Definition is_ns (c : N) : bool := (c =? 110)%N || (c =? 115)%N.   (* n s *)
Definition is_ew (c : N) : bool := (c =? 101)%N || (c =? 119)%N.   (* e w *)

(* encodings of a number + direction accepted by construct_trs *)
Inductive enc := EInt | EStr | EStrDir | EStrDirUpper | EStrZeros.
Definition encode (e : enc) (n : N) (dir : N) : tin :=
  match e with
  | EInt => TInt (Z.of_N n)
  | EStr => TStr (str_of_N n)
  | EStrDir => TStr (str_of_N n ++ [dir])
  | EStrDirUpper => TStr (str_of_N n ++ upper [dir])
  | EStrZeros => TStr (rjust 3 48%N (str_of_N n))
  end.
Definition enc_has_dir (e : enc) : bool :=
  match e with EStrDir | EStrDirUpper => true | _ => false end.

(* (a section is given as an int or a digit string; '014' is rejected by the code)
   construct_trs yields the canonical string: the direction comes from the encoding
   when it carries one, otherwise from the default argument, otherwise MasterConfig *)
Definition C12_construct_statement : Prop :=
  forall (t r sc : N) (ns ew dns dew mns mew : N) (et er es : enc) (odns odew : bool),
    (t < 1000)%N -> (r < 1000)%N -> (sc < 100)%N ->
    is_ns ns = true -> is_ew ew = true -> is_ns dns = true -> is_ew dew = true ->
    is_ns mns = true -> is_ew mew = true ->
    (es = EInt \/ es = EStr) ->
    let eff_ns := if enc_has_dir et then ns else if odns then dns else mns in
    let eff_ew := if enc_has_dir er then ew else if odew then dew else mew in
    construct_trs (encode et t ns) (encode er r ew) (encode es sc 0%N)
                  (if odns then Some [dns] else None) (if odew then Some [dew] else None)
                  false [mns] [mew]
    = Ok (canon_trs t eff_ns r eff_ew sc).

(* the canonical string decomposes to exactly its components *)
Definition C12_decompose_statement : Prop :=
  forall (t r sc ns ew : N),
    (t < 1000)%N -> (r < 1000)%N -> (sc < 100)%N -> is_ns ns = true -> is_ew ew = true ->
    trs_to_dict (Some (canon_trs t ns r ew sc)) =
    mktrsdict (canon_trs t ns r ew sc)
              (str_of_N t ++ [ns]) (Some (Z.of_N t)) (Some [ns]) false
              (str_of_N r ++ [ew]) (Some (Z.of_N r)) (Some [ew]) false
              (Some (rjust 2 48%N (str_of_N sc))) (Some (Z.of_N sc)) false.

(* wrapping again is idempotent, for every string *)
Definition C12_idem_statement : Prop :=
  forall x : option str, TRS_trs (Some (TRS_trs x)) = TRS_trs x.

(* empty input means undefined *)
Definition C12_undef_statement : Prop :=
  TRS_trs None = MC_UNDEF_TRS /\ TRS_trs (Some []) = MC_UNDEF_TRS /\
  d_twp_undef (trs_to_dict None) = true /\ d_rge_undef (trs_to_dict None) = true /\
  d_sec_undef (trs_to_dict None) = true.

(* strictness: the result is either the error TRS, or the input itself, split into its three
   components, with each component at most case-normalised (digits are never changed, dropped or
   moved), a placeholder component kept as it is, and the error section supplied when none was given
   -- never a different valid-looking Twp/Rge/Sec *)
Definition C12_strict_statement : Prop :=
  forall x : str, x <> [] ->
    TRS_trs (Some x) = MC_ERR_TRS \/
    exists a b c na nb nc, x = a ++ b ++ c /\ TRS_trs (Some x) = na ++ nb ++ nc /\
      (na = lower a \/ (na = a /\ (a = MC_ERR_TWP \/ a = MC_UNDEF_TWP))) /\
      (nb = lower b \/ (nb = b /\ (b = MC_ERR_RGE \/ b = MC_UNDEF_RGE))) /\
      (nc = c \/ (c = [] /\ nc = MC_ERR_SEC)).
