(* Spec/C08Spec.v -- documented spellings of a Twp/Rge *)
From Coq Require Import List NArith ZArith Arith Bool.
From Coq Require String.
From PyTRS Require Import Engine.Regex PyRt.Str.
Import ListNotations.
Import String.StringSyntax.
Local Open Scope string_scope.

Definition dirword (c : N) : str :=
  if (c =? 110)%N then s "North" else if (c =? 115)%N then s "South" else if (c =? 101)%N then s "East" else s "West".
Definition up (c : N) : str := upper [c].

(* ns in {n, s}, ew in {e, w} as lower-case code points *)
Definition canon_twprge (t : nat) (ns : N) (r : nat) (ew : N) : str :=
  s "T" ++ str_of_nat t ++ up ns ++ s "-R" ++ str_of_nat r ++ up ew.

Definition tr_spellings (t : nat) (ns : N) (r : nat) (ew : N) : list str :=
  let T := str_of_nat t in let R := str_of_nat r in
  [ s "T" ++ T ++ up ns ++ s "-R" ++ R ++ up ew;
    s "Township " ++ T ++ s " " ++ dirword ns ++ s ", Range " ++ R ++ s " " ++ dirword ew;
    s "Twp. " ++ T ++ s " " ++ up ns ++ s "., Rge. " ++ R ++ s " " ++ up ew ++ s ".";
    s "t" ++ T ++ [ns] ++ s "-r" ++ R ++ [ew];
    s "T-" ++ T ++ s "-" ++ up ns ++ s ", R-" ++ R ++ s "-" ++ up ew;
    s "T" ++ T ++ up ns ++ s " R" ++ R ++ up ew;
    s "Township " ++ T ++ s " " ++ dirword ns ++ s " Range " ++ R ++ s " " ++ dirword ew ]
  ++ (if r =? 2 then [] else [T ++ up ns ++ s "-" ++ R ++ up ew]).

(* spellings with one or both direction letters left out *)
Definition tr_partial (t : nat) (ns : N) (r : nat) (ew : N) (has_ns has_ew : bool) : list str :=
  let T := str_of_nat t in let R := str_of_nat r in
  let NS := if has_ns then up ns else [] in let EW := if has_ew then up ew else [] in
  [ s "T" ++ T ++ NS ++ s "-R" ++ R ++ EW;
    s "T" ++ T ++ NS ++ s " R" ++ R ++ EW;
    s "Township " ++ T ++ (if has_ns then s " " ++ dirword ns else []) ++ s ", Range " ++ R ++ (if has_ew then s " " ++ dirword ew else []) ].

Definition numbers : list nat := [1; 2; 9; 22; 97; 154; 999].
Definition nss : list N := [110%N; 115%N].
Definition ews : list N := [101%N; 119%N].
