(* Spec/C02Spec.v -- the full statement of property C02 as a Prop. *)
From Coq Require Import List ZArith Arith Bool.
From PyTRS Require Import Model.Aliquot Spec.Geometry.
Import ListNotations.

(* For every chain (largest component first), every minimum depth, every maximum depth
   that is absent or >= max(min,1), and both break_halves settings: parsing succeeds,
   the pieces tile exactly the (truncated) region, and each piece meets the depth rules. *)
Definition C02_statement : Prop :=
  forall (l : list comp) (mn : nat) (mx : option nat) (bh : bool),
    valid_chain l ->
    (match mx with Some M => mn <= M /\ 1 <= M | None => True end) ->
    exists pieces,
      parse_comps l (Z.of_nat mn) (option_map Z.of_nat mx) bh = Some pieces /\
      tiles (trunc_opt mx (region l)) (map piece_rect pieces) /\
      Forall (piece_ok mn mx bh) pieces.

(* `qq_depth = d` is `min = max = d` (resolve_depths), so it is an instance. *)
Definition C02_qq_depth_statement : Prop :=
  forall (l : list comp) (d : nat) (mn0 : Z) (mx0 : option Z) (bh : bool),
    valid_chain l -> 1 <= d ->
    let '(mn, mx) := resolve_depths mn0 mx0 (Some (Z.of_nat d)) in
    exists pieces,
      parse_comps l mn mx bh = Some pieces /\
      tiles (trunc d (region l)) (map piece_rect pieces) /\
      Forall (piece_ok d (Some d) bh) pieces.

(* Consequences stated separately, as the property words them. *)
Definition C02_inside_statement : Prop :=
  forall l mn mx bh pieces,
    valid_chain l ->
    (match mx with Some M => mn <= M /\ 1 <= M | None => True end) ->
    parse_comps l (Z.of_nat mn) (option_map Z.of_nat mx) bh = Some pieces ->
    forall pc, In pc pieces -> forall p, in_rect (piece_rect pc) p -> in_rect (trunc_opt mx (region l)) p.

Definition C02_disjoint_statement : Prop :=
  forall l mn mx bh pieces,
    valid_chain l ->
    (match mx with Some M => mn <= M /\ 1 <= M | None => True end) ->
    parse_comps l (Z.of_nat mn) (option_map Z.of_nat mx) bh = Some pieces ->
    forall i j p, i < length pieces -> j < length pieces ->
      in_rect (piece_rect (nth i pieces [])) p -> in_rect (piece_rect (nth j pieces [])) p -> i = j.

(* The known finding: a maximum depth of 0 returns nothing at all. *)
Definition C02_depth0_refuted_statement : Prop :=
  exists l, valid_chain l /\ parse_comps l 0%Z (Some 0%Z) false = Some [] /\
            ~ tiles (trunc 0 (region l)) (map piece_rect []).
