(* Properties/C10.v -- flags are well-typed, shared with tracts, and raised whenever warranted.
   Model: Model/PlssParse.v, Model/TractParse.v, Model/Unpack.v. *)
From Coq Require Import List NArith ZArith Arith Bool.
From Coq Require String.
From PyTRS Require Import Engine.Regex Gen.Patterns PyRt.Str Gen.Tables Model.Trs Model.Unpack Model.TractParse
     Model.PlssPre Model.PlssParse Model.Config Model.PlssDesc Proofs.C10.Paired Proofs.C09.Tracts.
From PyTRS Require Import Proofs.C10.Triggers.
Import ListNotations.
Import String.StringSyntax.
Local Open Scope string_scope.

(* for EVERY text and EVERY setting: on the description and on every tract, warning flags and
   error flags are paired one-to-one, in order, with their (flag, context) lines *)
Theorem C10_paired : forall text layout d ocr cu rc seg sw ts p,
  plss_parser text layout d ocr cu rc seg sw ts = Ok p ->
  paired4 (po_flags p) /\ Forall (fun t => paired4 (to_flags t)) (po_tracts p).
Proof. exact plss_parser_paired. Qed.
Print Assumptions C10_paired.

(* a Tract parsed on its own (TractParser) keeps the pairing of whatever it inherited *)
Theorem C10_tract_paired : forall text cq sup mn mx qq bh parent r,
  paired4 parent -> tract_parser text cq sup mn mx qq bh parent = Ok r -> paired4 (tp_flags r).
Proof. exact tract_parser_paired. Qed.
Print Assumptions C10_tract_paired.

(* every flag of the description is on every tract (appended after the tract's own) *)
Theorem C10_handed_down : forall st ptext layout' tracts unused wflags t,
  In t (po_tracts (assemble st ptext layout' tracts unused wflags)) ->
  let f := po_flags (assemble st ptext layout' tracts unused wflags) in
  exists t0, In t0 tracts /\
    w_flags (to_flags t) = w_flags (to_flags t0) ++ w_flags f /\
    w_flag_lines (to_flags t) = w_flag_lines (to_flags t0) ++ w_flag_lines f /\
    e_flags (to_flags t) = e_flags (to_flags t0) ++ e_flags f /\
    e_flag_lines (to_flags t) = e_flag_lines (to_flags t0) ++ e_flag_lines f.
Proof. exact assemble_handed_down. Qed.
Print Assumptions C10_handed_down.

(* a tract with an undecipherable Twp/Rge/Sec puts twprge_error among the error flags *)
Theorem C10_error_tract_flagged : forall st ptext layout' tracts unused wflags,
  existsb (fun t => is_error_trs (to_trs t)) tracts = true ->
  In E_FLAG_TWPRGE_ERR (e_flags (po_flags (assemble st ptext layout' tracts unused wflags))).
Proof. exact assemble_error_flagged. Qed.
Print Assumptions C10_error_tract_flagged.

(* exception, limitation, depth, inclusion and wellbore wording ALWAYS raises the corresponding warning:
   for each of the 29 trigger wordings of Triggers.TRIGGERS, every text before and after it (any length;
   a non-word character or the edge of the chunk where the pattern asks for a word boundary), the flag
   is among the warnings gen_flags_chunk produces for the chunk *)
Theorem C10_triggers : forall flag w cl cr, In (flag, w, cl, cr) TRIGGERS ->
  forall u v fl fll, ok_side cl (hd_error (rev u)) -> ok_side cr (hd_error v) ->
  gen_flags_chunk (u ++ w ++ v) = Ok (fl, fll) -> In flag fl.
Proof. exact trigger_flag. Qed.
Print Assumptions C10_triggers.

Definition wflags0 (text config : str) : option (list str * list flagline) :=
  match plssdesc_init_parse text config CNone CNone (s "n") (s "w") with
  | Ok p => Some (w_flags (po_flags p), w_flag_lines (po_flags p))
  | Raise _ => None
  end.

(* the colon-cautious second pass, formerly a tuple in w_flags (fixed: C10-flag-types) *)
Example C10_cautious_second_pass :
  wflags0 (s "T154N-R97W Sec 14 NE/4") (s "sec_colon_cautious")
  = Some ([s "pulled_sec_without_colon<14>"], [(s "pulled_sec_without_colon<14>", s "pulled_sec_without_colon<14>")]).
Proof. vm_compute. reflexivity. Qed.

Example C10_trigger_context :
  wflags0 (s "T154N-R97W Sec 14: NE/4, less and except the wellbore") []
  = Some ([s "well"; s "less_except"], [(s "well", s "<the wellbore>"); (s "less_except", s "<less and except the wellbore>")]).
Proof. vm_compute. reflexivity. Qed.
