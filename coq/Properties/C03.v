(* Properties/C03.v -- parsing is total.  Model: the whole of Model/ (every Python operation that
   can raise is modelled as one that can Raise).
   PARTIAL.  Proved for all texts and settings:
     * every successful parse has at least one staged tract component and exactly one tract per section named by
       the components; illegal default directions are rejected with DefaultNSError / DefaultEWError;
     * the regex-driven steps are total: SecUnpacker, LotUnpacker and unpack_twprge raise nothing but the documented
       default-direction errors (Proofs/C03/Steps.v);
     * TractParser -- preprocessing, lot and aliquot extraction, lot divisions, the aliquot parser -- raises nothing,
       for every text and every valid depth setting (Proofs/C03/Tract.v, on top of C02_core).
     * PLSSParser -- preprocessing, chunking, finders, marker walk, flags, sec_within, construct_tracts -- raises nothing but
       the documented default-direction errors, EXCEPT possibly TypeError in exactly one situation, which the theorem names:
       in one of the chunks the preprocessed text is cut into, a Twp/Rge match starts or ends exactly where a section match
       starts (Proofs/C03/Desc.v; uses the completeness of the matcher for look-around-free patterns, Engine/RegexComplete.v,
       to show that SecUnpacker finds a section in the text of every multisec_regex match).
   NOT proved: that this situation cannot arise in preprocessed text (a fact about what the preprocessing regexes leave
   behind); it is searched for on every run (glued-token soup, `glued_pp` in the evidence) and has never been seen.  That
   OutOfFuel stands for no Python exception is C16's subject.  The tie to the code is the differential execution (exception
   classes compared) and the soup / damaged-text oracle on the real code. *)
From Coq Require Import List NArith ZArith Arith Bool.
From Coq Require String.
From PyTRS Require Import Engine.Regex Gen.Patterns PyRt.Str Gen.Tables Model.Trs Model.Unpack Model.TractParse
     Model.PlssPre Model.PlssParse Model.Config Model.PlssDesc Proofs.C03.Total Proofs.C11.CopyAll.
From PyTRS Require Import Proofs.C03.Steps Proofs.C03.Tract Proofs.C03.Desc Model.TractPre Model.Aliquot.
Import ListNotations.
Import String.StringSyntax.
Local Open Scope string_scope.

Theorem C03_at_least_one_component : forall chunk layout px c,
  parse_chunk chunk layout px = Ok c -> cp_tc c <> [].
Proof. exact parse_chunk_nonempty. Qed.
Print Assumptions C03_at_least_one_component.

Theorem C03_tract_count_partial : forall text layout d ocr cu rc sw ts p,
  plss_parser text layout d ocr cu rc false sw ts = Ok p ->
  exists tcs, tcs <> [] /\ length (po_tracts p) = nsecs tcs.
Proof. exact plss_parser_tracts. Qed.
Print Assumptions C03_tract_count_partial.

Theorem C03_rejects_bad_defaults : forall G t x dns dew ocr mcns mcew,
  (mem_str (match dns with Some v => v | None => mcns end) MC_LEGAL_NS = false ->
   unpack_twprge G t x dns dew ocr mcns mcew = Raise DefaultNSError) /\
  (mem_str (match dns with Some v => v | None => mcns end) MC_LEGAL_NS = true ->
   mem_str (match dew with Some v => v | None => mcew end) MC_LEGAL_EW = false ->
   unpack_twprge G t x dns dew ocr mcns mcew = Raise DefaultEWError).
Proof. intros. split; [apply unpack_twprge_bad_ns | apply unpack_twprge_bad_ew]. Qed.
Print Assumptions C03_rejects_bad_defaults.

Definition ntracts (text config : str) : option nat :=
  match plssdesc_init_parse text config CNone CNone (s "n") (s "w") with
  | Ok p => Some (length (po_tracts p))
  | Raise _ => None
  end.

(* the inputs that used to raise TypeError (fixed: C03-none-section) *)
Example C03_formerly_crashing :
  ntracts (s "T154N-R97W Section: NE/4") [] = Some 1 /\
  ntracts (s "T154N-R97W Sec 14 NE/4") (s "sec_colon_required") = Some 1 /\
  ntracts (s "Section NE/4 T154N-R97W") [] = Some 1 /\
  ntracts [] (s "segment,sec_within,parse_qq") = Some 1.
Proof. vm_compute. repeat split; reflexivity. Qed.

(* ---- totality of the regex-driven steps, for EVERY text (Engine/RegexStatic.v: what is read off the regenerated
   patterns -- the number group is set on every path and holds a non-empty string of decimal digits -- is exactly
   what rules out TypeError / ValueError / IndexError / KeyError at the group accesses) ---- *)
Theorem C03_sec_step_total : forall txt e r, sec_step txt e = Some r -> exists st z, r = Ok st /\ int_of_group (rs_num st) = Ok z.
Proof. exact sec_step_total. Qed.
Print Assumptions C03_sec_step_total.

Theorem C03_lot_step_total : forall txt e r, lot_step txt e = Some r -> exists st z, r = Ok st /\ int_of_group (rs_num st) = Ok z.
Proof. exact lot_step_total. Qed.
Print Assumptions C03_lot_step_total.

(* SecUnpacker never raises (OutOfFuel is the model's loop bound, not a Python exception; see C16_fuel_unobservable) *)
Theorem C03_sec_unpacker_total : forall txt e, sec_unpacker txt = Raise e -> e = OutOfFuel.
Proof. exact sec_unpacker_total. Qed.
Print Assumptions C03_sec_unpacker_total.

Theorem C03_lot_unpacker_total : forall txt e, lot_unpacker txt = Raise e -> e = OutOfFuel.
Proof. exact lot_unpacker_total. Qed.
Print Assumptions C03_lot_unpacker_total.

(* unpacking a Twp/Rge match raises only the documented errors for an invalid default direction *)
Theorem C03_unpack_twprge_total : forall txt x mc_ns mc_ew e,
  In x (finditer twprge_regex twprge_regex_ng txt) -> unpack_short txt x mc_ns mc_ew = Raise e -> e = DefaultNSError \/ e = DefaultEWError.
Proof. exact unpack_short_total. Qed.
Print Assumptions C03_unpack_twprge_total.
(* ---- TractParser is total: for EVERY text and every valid depth setting (min >= 0, max absent or >= max(min,1), or a single
   qq_depth >= 1) nothing is raised -- no TypeError on an unset group, no IndexError in the lot divisions, no KeyError / ValueError in
   the aliquot parser (OutOfFuel is the model's loop bound, not a Python exception; see C16_fuel_unobservable) ---- *)
Theorem C03_tract_parser_total : forall txt clean_qq suppress mn mx qq bh parent e,
  depths_ok mn mx qq -> tract_parser txt clean_qq suppress mn mx qq bh parent = Raise e -> e = OutOfFuel.
Proof. exact tract_parser_total. Qed.
Print Assumptions C03_tract_parser_total.
Example C03_tract_parser_premises : depths_ok 2 None None /\ depths_ok 2 (Some 3%Z) None /\ depths_ok 2 None (Some 1%Z) /\ depths_ok 0 None None.
Proof. exact depths_ok_default. Qed.
(* the groups read by the callbacks of the two substituting scrubbers are set in every match, so the branches of the model that stand
   for `len(None)` / `None + str` are dead *)
Theorem C03_scrubber_groups_set : forall t x,
  (In x (finditer half_plus_q_regex half_plus_q_regex_ng t) -> exists v, group t x half_plus_q_regex_g_quarter_aliquot_rightmost = Some v) /\
  (In x (finditer aliquot_intervener_remover_regex aliquot_intervener_remover_regex_ng t) ->
     (exists v, group t x aliquot_intervener_remover_regex_g_aliquot1 = Some v) /\ (exists v, group t x aliquot_intervener_remover_regex_g_aliquot2 = Some v)).
Proof. exact scrubber_groups_set. Qed.
Print Assumptions C03_scrubber_groups_set.
(* ---- which exceptions the description-level parse can raise, for EVERY text and setting ---- *)
(* unpack_twprge on a match of ANY preprocessing pattern, with that pattern's own group table: the static facts (number groups set on
   every path, direction groups never empty) are computed on each regenerated pattern *)
Theorem C03_unpack_any_scrubber_total : forall rg t x dns dew mcns mcew e,
  In rg (PLSS_OCR_SCRUBBER :: PLSS_SCRUBBER_REGEXES) -> In x (finditer (fst (fst (fst rg))) (snd (fst (fst rg))) t) ->
  unpack_twprge (snd (fst rg)) t x dns dew (snd rg) mcns mcew = Raise e -> e = DefaultNSError \/ e = DefaultEWError.
Proof. exact unpack_any_scrubber_total. Qed.
Print Assumptions C03_unpack_any_scrubber_total.
Theorem C03_preprocess_total : forall txt d ocr e, plss_preprocess txt d ocr = Raise e -> e = OutOfFuel \/ e = DefaultNSError \/ e = DefaultEWError.
Proof. exact plss_preprocess_raises. Qed.
Print Assumptions C03_preprocess_total.
(* SecUnpacker on the text of a multisec_regex match always finds at least one section (no IndexError on sec_nums[0]) *)
Theorem C03_sec_match_has_section : forall text x u,
  In x (finditer multisec_regex multisec_regex_ng text) -> sec_unpacker (group0 text x) = Ok u -> su_list u <> [].
Proof. exact sec_unpacker_match_nonempty. Qed.
Print Assumptions C03_sec_match_has_section.
(* the marker walk can fail in one way only: a SEC_END marker met before any SEC_START marker while no section is in hand *)
Theorem C03_walk_raises : forall txt sd md ms c e, keys_ok md ms -> walk txt sd md ms c = Raise e ->
  e = OutOfFuel \/ (e = TypeError /\ cp_ws c = None /\ (sd = true -> walk_fault md ms)).
Proof. exact walk_raises. Qed.
Print Assumptions C03_walk_raises.
(* ... which, for the markers the two finders produce, means a Twp/Rge match glued to the start of a section match *)
Theorem C03_plss_parser_raises : forall text layout d ocr cu rc seg sw ts e,
  depths_ok (ts_mn ts) (ts_mx ts) None -> plss_parser text layout d ocr cu rc seg sw ts = Raise e ->
  (e = OutOfFuel \/ e = DefaultNSError \/ e = DefaultEWError) \/
  (e = TypeError /\ exists pp, plss_preprocess text d ocr = Ok pp /\
     exists ch chunk, chunks_for (fst pp) layout d seg = Ok ch /\ In chunk (fst ch) /\
       exists tm sm, In tm (finditer twprge_regex twprge_regex_ng chunk) /\ In sm (finditer multisec_regex multisec_regex_ng chunk) /\
                     (mstart tm = mstart sm \/ mend tm = mstart sm)).
Proof. exact plss_parser_raises. Qed.
Print Assumptions C03_plss_parser_raises.
