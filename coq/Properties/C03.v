(* Properties/C03.v -- parsing is total.  Model: the whole of Model/ (every Python operation that
   can raise is modelled as one that can Raise).
   PARTIAL.  Proved for all texts and settings: every successful parse has at least one staged
   tract component and exactly one tract per section named by the components (so the result is
   never empty unless a section list is empty); illegal default directions are rejected with
   DefaultNSError / DefaultEWError.  NOT proved: that no Raise other than these can occur (it needs
   the group-content lemmas of the regex engine for int() and the list-indexing invariants); that
   half is carried by the differential execution (exception classes compared) and the soup /
   damaged-text oracle on the real code. *)
From Coq Require Import List NArith ZArith Arith Bool.
From Coq Require String.
From PyTRS Require Import Engine.Regex Gen.Patterns PyRt.Str Gen.Tables Model.Trs Model.Unpack Model.TractParse
     Model.PlssPre Model.PlssParse Model.Config Model.PlssDesc Proofs.C03.Total Proofs.C11.CopyAll.
From PyTRS Require Import Proofs.C03.Steps.
Import ListNotations.
Import String.StringSyntax.
Local Open Scope string_scope.

Theorem C03_at_least_one_component : forall chunk layout px c,
  parse_chunk chunk layout px = Ok c -> cp_tc c <> [].
Proof. exact parse_chunk_nonempty. Qed.
Print Assumptions C03_at_least_one_component.

Theorem C03_tract_count_partial : forall text layout d ocr cu rc sw ts p,
  plss_parser text layout d ocr cu rc false sw ts = Ok p ->
  exists tcs, tcs <> [] /\ length (po_tracts p) = nsecs tcs.
Proof. exact plss_parser_tracts. Qed.
Print Assumptions C03_tract_count_partial.

Theorem C03_rejects_bad_defaults : forall G t x dns dew ocr mcns mcew,
  (mem_str (match dns with Some v => v | None => mcns end) MC_LEGAL_NS = false ->
   unpack_twprge G t x dns dew ocr mcns mcew = Raise DefaultNSError) /\
  (mem_str (match dns with Some v => v | None => mcns end) MC_LEGAL_NS = true ->
   mem_str (match dew with Some v => v | None => mcew end) MC_LEGAL_EW = false ->
   unpack_twprge G t x dns dew ocr mcns mcew = Raise DefaultEWError).
Proof. intros. split; [apply unpack_twprge_bad_ns | apply unpack_twprge_bad_ew]. Qed.
Print Assumptions C03_rejects_bad_defaults.

Definition ntracts (text config : str) : option nat :=
  match plssdesc_init_parse text config CNone CNone (s "n") (s "w") with
  | Ok p => Some (length (po_tracts p))
  | Raise _ => None
  end.

(* the inputs that used to raise TypeError (fixed: C03-none-section) *)
Example C03_formerly_crashing :
  ntracts (s "T154N-R97W Section: NE/4") [] = Some 1 /\
  ntracts (s "T154N-R97W Sec 14 NE/4") (s "sec_colon_required") = Some 1 /\
  ntracts (s "Section NE/4 T154N-R97W") [] = Some 1 /\
  ntracts [] (s "segment,sec_within,parse_qq") = Some 1.
Proof. vm_compute. repeat split; reflexivity. Qed.

(* ---- totality of the regex-driven steps, for EVERY text (Engine/RegexStatic.v: what is read off the regenerated
   patterns -- the number group is set on every path and holds a non-empty string of decimal digits -- is exactly
   what rules out TypeError / ValueError / IndexError / KeyError at the group accesses) ---- *)
Theorem C03_sec_step_total : forall txt e r, sec_step txt e = Some r -> exists st z, r = Ok st /\ int_of_group (rs_num st) = Ok z.
Proof. exact sec_step_total. Qed.
Print Assumptions C03_sec_step_total.

Theorem C03_lot_step_total : forall txt e r, lot_step txt e = Some r -> exists st z, r = Ok st /\ int_of_group (rs_num st) = Ok z.
Proof. exact lot_step_total. Qed.
Print Assumptions C03_lot_step_total.

(* SecUnpacker never raises (OutOfFuel is the model's loop bound, not a Python exception; see C16_fuel_unobservable) *)
Theorem C03_sec_unpacker_total : forall txt e, sec_unpacker txt = Raise e -> e = OutOfFuel.
Proof. exact sec_unpacker_total. Qed.
Print Assumptions C03_sec_unpacker_total.

Theorem C03_lot_unpacker_total : forall txt e, lot_unpacker txt = Raise e -> e = OutOfFuel.
Proof. exact lot_unpacker_total. Qed.
Print Assumptions C03_lot_unpacker_total.

(* unpacking a Twp/Rge match raises only the documented errors for an invalid default direction *)
Theorem C03_unpack_twprge_total : forall txt x mc_ns mc_ew e,
  In x (finditer twprge_regex twprge_regex_ng txt) -> unpack_short txt x mc_ns mc_ew = Raise e -> e = DefaultNSError \/ e = DefaultEWError.
Proof. exact unpack_short_total. Qed.
Print Assumptions C03_unpack_twprge_total.
