(* Properties/C07.v -- aliquot spelling does not matter; preprocessing is a fixed point.
   Model: Model/TractPre.v (scrub_aliquots: the eight (+four) scrubbers, half_plus_q_scrubber,
   remove_aliquot_interveners), patterns regenerated from rgxlib/aliquots.py.
   PARTIAL.  Each sweep theorem is the COMPLETE enumeration of a finite family stated in the
   theorem (bound visible), decided by vm_compute on the regenerated patterns and lifted with
   forallb_forall; the fixed-point theorems for the loops hold for every text.  Chains longer
   than the swept lengths are not covered by a theorem (window lifting of DESIGN 4.3 is not
   built); they are exercised by the differential execution and the canon oracle on the code. *)
From Coq Require Import List NArith ZArith Arith Bool.
From Coq Require String.
From PyTRS Require Import Engine.Regex Gen.Patterns PyRt.Str Gen.Tables Model.Trs Model.TractPre Spec.C07Spec Proofs.C07.Sweeps.
Import ListNotations.
Import String.StringSyntax.
Local Open Scope string_scope.

(* every documented spelling of every component, in every listed separator context, under both
   clean_qq values, is rewritten to the canonical token and the context is left alone *)
Theorem C07_single_spellings : forall cq c sp ctx,
  In c all_comps -> In sp (spellings c) -> In ctx contexts ->
  scrub_is (fst ctx ++ sp ++ snd ctx) cq (fst ctx ++ canon1 c ++ snd ctx) = true.
Proof. exact single_all. Qed.
Print Assumptions C07_single_spellings.

(* two components with independent spellings (core list) and any joiner collapse to canon *)
Theorem C07_pairs_partial : pair_sweep = true.
Proof. exact pair_sweep_true. Qed.
Print Assumptions C07_pairs_partial.

(* canonical text of every chain of length 1..3 is a fixed point of scrub_aliquots *)
Theorem C07_canon_fixed_partial : fixed_sweep = true.
Proof. exact fixed_sweep_true. Qed.
Print Assumptions C07_canon_fixed_partial.

(* a bare two-letter quarter is left alone without clean_qq, rewritten with it, and rewritten
   directly after a half regardless *)
Theorem C07_bare_quarter : bare_sweep = true.
Proof. exact bare_sweep_true. Qed.
Print Assumptions C07_bare_quarter.

(* for EVERY text: each substitute-until-stable loop returns a fixed point of its pass *)
Theorem C07_loops_fixed : forall f fuel t r, until_stable fuel f t = Ok r -> f r = r.
Proof. exact until_stable_fixed. Qed.
Print Assumptions C07_loops_fixed.

Theorem C07_interveners_idempotent : forall t r,
  remove_aliquot_interveners t = Ok r -> remove_aliquot_interveners r = Ok r.
Proof. exact remove_interveners_fixed. Qed.
Print Assumptions C07_interveners_idempotent.

Example C07_example :
  scrub_aliquots (s "North Half of the NE/4 of SW 1/4") false = Ok (canon [Half DN; Quarter DN DE; Quarter DS DW]).
Proof. vm_compute. reflexivity. Qed.
