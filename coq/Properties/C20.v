(* Properties/C20.v -- optional parse modes are conservative where they are not needed.
   Model: Model/PlssParse.v (SecFinder, rebuild_sec_within, PLSSChunker). *)
From Coq Require Import List NArith ZArith Arith Bool.
From Coq Require String.
From PyTRS Require Import Engine.Regex Gen.Patterns PyRt.Str Gen.Tables Model.Trs Model.Unpack Model.TractParse
     Model.PlssPre Model.PlssParse Model.Config Model.PlssDesc Proofs.C20.Modes.
Import ListNotations.
Import String.StringSyntax.
Local Open Scope string_scope.

(* for EVERY text in which every section match carries a colon, the colon modes change nothing:
   same matches, same flags, same flag lines (any layout, deduced or given) *)
Theorem C20_colon_all : forall text layout,
  all_colon text = true ->
  sec_finder text layout (RC_bool true) = sec_finder text layout (RC_bool false) /\
  sec_finder text layout RC_cautious = sec_finder text layout (RC_bool false).
Proof. exact sec_finder_all_colon. Qed.
Print Assumptions C20_colon_all.

(* ... and where none does, requiring the colon rejects every section (no match survives) *)
Theorem C20_colon_none_required : forall text layout ms acc last r,
  forallb (fun x => negb (has_colon text x)) ms = true ->
  sf_loop text layout true ms acc last = Ok r -> sf_matches (fst r) = sf_matches acc.
Proof. exact sf_loop_no_colon_matches. Qed.
Print Assumptions C20_colon_none_required.

(* ... while sec_colon_cautious, on its second pass, accepts exactly what the default accepts (same matches, same
   finder flags) and adds the pulled_sec_without_colon warning -- for every text without a colon after any section *)
Theorem C20_colon_none_cautious : forall text layout f1 f0,
  no_colon text = true -> layout_in layout [TRS_DESC; S_DESC_TR] = true ->
  sec_finder text (Some layout) RC_cautious = Ok f1 -> sec_finder text (Some layout) (RC_bool false) = Ok f0 ->
  sf_matches f1 = sf_matches f0 /\
  (sf_matches f0 = [] -> f1 = f0) /\
  (sf_matches f0 <> [] -> exists nums, let flag := s "pulled_sec_without_colon<" ++ join (s ",") nums ++ s ">" in
                                      sf_flags f1 = sf_flags f0 ++ [flag] /\ sf_flag_lines f1 = sf_flag_lines f0 ++ [(flag, flag)]).
Proof. exact sec_finder_cautious_no_colon. Qed.
Print Assumptions C20_colon_none_cautious.

(* sec_within with exactly one staged tract: leading (index 0) and trailing unused text, cleaned
   and at least 4 characters long, is joined around the description in order; otherwise nothing changes *)
Theorem C20_sec_within_one : forall c unused r,
  rebuild_sec_within [c] unused = Ok r ->
  snd r = [] /\ exists desc, rsw_spec unused (tc_desc c) = Ok desc /\
    fst r = [mk_tcomp desc (tc_sec c) (tc_twprge c) (if str_eqb desc (tc_desc c) then tc_within c else true)].
Proof. exact rebuild_sec_within_one. Qed.
Print Assumptions C20_sec_within_one.

Theorem C20_sec_within_other : forall tcs unused,
  length tcs <> 1 -> rebuild_sec_within tcs unused = Ok (tcs, unused).
Proof. exact rebuild_sec_within_other. Qed.
Print Assumptions C20_sec_within_other.

Definition run0 (text config : str) : option (list (str * str) * list str) :=
  match plssdesc_init_parse text config CNone CNone (s "n") (s "w") with
  | Ok p => Some (map (fun t => (to_trs t, to_desc t)) (po_tracts p), w_flags (po_flags p))
  | Raise _ => None
  end.

Example C20_sec_within_example :
  run0 (s "That part of the NE/4 of Sec 13, T154N-R97W, lying within the right-of-way") (s "sec_within")
  = Some ([(s "154n97w13", s "That part of the NE/4 lying within the right-of-way")], [s "sec_within<154n97w13>"]).
Proof. vm_compute. reflexivity. Qed.

Example C20_segment_example :
  run0 (s "T154N-R97W Sec 14: NE/4, Sec 15: W/2; T155N-R97W Sec 1: ALL") (s "segment")
  = run0 (s "T154N-R97W Sec 14: NE/4, Sec 15: W/2; T155N-R97W Sec 1: ALL") [].
Proof. vm_compute. reflexivity. Qed.

Example C20_cautious_example :
  run0 (s "T154N-R97W Sec 14 NE/4, Sec 15 W/2") (s "sec_colon_cautious")
  = Some ([(s "154n97w14", s "NE/4"); (s "154n97w15", s "W/2")], [s "pulled_sec_without_colon<15>"]).
Proof. vm_compute. reflexivity. Qed.
