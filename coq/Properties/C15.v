(* Properties/C15.v -- results depend only on text and settings, not on what ran before.
   Model: Model/Global.v (TRS cache, cache switch, MasterConfig; TRS(), trs_to_dict,
   from_twprgesec, PLSSDesc, Tract, find_twprge as operations on that state).
   Handing out an aliased internal object cannot be expressed in a pure model; that half is carried
   by the history correspondence with mutation steps and the fresh-interpreter oracle. *)
From Coq Require Import List NArith ZArith Arith Bool.
From Coq Require String.
From PyTRS Require Import Engine.Regex PyRt.Str Gen.Tables Model.Trs Model.PlssParse Model.PlssDesc Model.Objects Model.Global Proofs.C15.Pure.
Import ListNotations.
Import String.StringSyntax.
Local Open Scope string_scope.

(* in every reachable state each cache entry equals the decomposition recomputed; every
   operation's outcome is the pure function of its arguments and the MasterConfig in force --
   cache on, off, cold or warm *)
Theorem C15_step : forall g op, inv g -> inv (fst (gstep g op)) /\ snd (gstep g op) = pure_out (g_ns g) (g_ew g) op.
Proof. exact gstep_spec. Qed.
Print Assumptions C15_step.

Theorem C15_history : forall ops g, inv g -> inv (fst (grun g ops)) /\ snd (grun g ops) = pure_run (g_ns g, g_ew g) ops.
Proof. exact grun_pure. Qed.
Print Assumptions C15_history.

(* the probe after ANY history equals the same probe in a fresh process under the MasterConfig
   left by the history (restoring MasterConfig restores the behaviour) *)
Theorem C15_probe : forall ops probe,
  let m := fold_left mc_step ops (g_ns g0, g_ew g0) in
  last (snd (grun g0 (ops ++ [probe]))) OUnit = pure_out (fst m) (snd m) probe.
Proof. exact probe_after_history. Qed.
Print Assumptions C15_probe.

Example C15_example :
  last (snd (grun g0 [GTRS (Some (s "154n97w14")); GMaster (s "s") (s "e"); GParse (s "T1-R2 Sec 1: NE") []; GUse false; GClear;
                      GMaster (s "n") (s "w"); GMutate; GTRS (Some (s "154n97w14"))])) OUnit
  = OTrs (trs_to_dict (Some (s "154n97w14"))).
Proof. vm_compute. reflexivity. Qed.
