(* Properties/C17.v -- sorting is a stable multi-key permutation with errors last.
   Model: Model/Containers.v (custom_sort = _sort_custom of containers.py; the key
   pattern and legal_methods table are regenerated from the source). *)
From Coq Require Import List NArith ZArith Arith Bool Permutation Sorted.
From Coq Require String.
From PyTRS Require Import Engine.Regex Gen.Patterns PyRt.Str Gen.Tables Model.Trs Model.Containers
     Proofs.C17.Sort Proofs.C17.Keys.
Import ListNotations.
Import String.StringSyntax.
Local Open Scope string_scope.

(* no element is lost or duplicated, for every key string, every list *)
Theorem C17_perm : forall key reverse l l',
  custom_sort key reverse l = Ok l' -> Permutation l' l.
Proof. exact custom_sort_perm. Qed.
Print Assumptions C17_perm.

(* the comma-separated keys are applied left to right as stable sorts: the result is
   ordered lexicographically with the LAST key most significant, and elements that agree
   on every key keep their input order *)
Theorem C17_lex_stable : forall key l l',
  key <> [] -> custom_sort key false l = Ok l' ->
  exists defs,
    parse_keys (normalize_key key) = Ok defs /\
    let ks := map (fun d => (sort_key l (fst d), snd d)) defs in
    StronglySorted (lexord (rev ks)) l' /\
    forall p : elt -> bool,
      (forall k, In k ks -> forall a b, p a = true -> p b = true -> fst k a = fst k b) ->
      filter p l' = filter p l.
Proof.
  intros key l l' Hne H. unfold custom_sort in H. destruct key as [|c key']; [congruence|].
  destruct (sort_passes l (normalize_key (c :: key'))) as [m|e] eqn:Hp; simpl in H; [|discriminate].
  inversion H; subst; clear H.
  destruct (sort_passes_parse _ _ _ Hp) as [defs Hd]. exists defs. split; [exact Hd|].
  pose proof (sort_passes_as_passes l _ l l' defs (Permutation_refl l) Hd Hp) as E.
  simpl. rewrite E. split; [apply passes_lex | intros p Hp'; apply passes_stable; exact Hp'].
Qed.
Print Assumptions C17_lex_stable.

(* `reverse=True` reverses the final list *)
Theorem C17_reverse_flag : forall key l l',
  key <> [] -> custom_sort key false l = Ok l' -> custom_sort key true l = Ok (rev l').
Proof.
  intros key l l' Hne H. unfold custom_sort in *. destruct key; [congruence|].
  destruct (sort_passes l _); simpl in *; [inversion H; reflexivity | discriminate].
Qed.
Print Assumptions C17_reverse_flag.

(* error / undefined elements come after all valid ones for the key (before them when the
   key is reversed); elements are well-formed as TRS decompositions are (numbers >= 0,
   number missing iff direction missing) *)
Theorem C17_errors_last : forall l d rev i j a b,
  Forall wf_elt l ->
  let l' := py_sort (sort_key l d) rev l in
  nth_error l' i = Some a -> nth_error l' j = Some b ->
  is_err d a = true -> is_err d b = false ->
  if rev then i < j else j < i.
Proof. exact errors_last. Qed.
Print Assumptions C17_errors_last.

(* key grammar: every (variable, method, rev) combination means what is documented, or is
   rejected with ValueError when the direction does not apply *)
Theorem C17_keys : forall v m r, In v vars -> In m methods -> In r revs -> key_ok v m r = true.
Proof. exact keys_all. Qed.
Print Assumptions C17_keys.

(* a key part that contains none of the variable letters is rejected, whatever it is *)
Theorem C17_no_var_rejected : forall k,
  Forall (fun c => in_ranges c sort_var_cs = false) (lower k) -> parse_key k = Raise ValueError.
Proof. exact no_var_rejected. Qed.
Print Assumptions C17_no_var_rejected.

(* REFUTED sub-claim (known finding C17-unanchored-key): a part that merely contains a
   variable letter is accepted *)
Theorem C17_unknown_var_refuted :
  parse_key (s "x.ns") = Ok (S_NUM, false) /\ parse_key (s "foo.ns") = Ok (S_NUM, false).
Proof. exact unknown_var_accepted. Qed.
Print Assumptions C17_unknown_var_refuted.

(* non-vacuity: a concrete mixed list sorted by "t.ns,s.rev" *)
Example C17_example :
  let e := fun i t ns sc => mk_elt i true (Z.of_nat i) t ns (Some 97%Z) (Some false) sc in
  let l := [e 0 (Some 154%Z) (Some true) (Some 14%Z); e 1 None None (Some 1%Z);
            e 2 (Some 155%Z) (Some true) (Some 14%Z); e 3 (Some 3%Z) (Some false) None] in
  Forall wf_elt l /\
  match custom_sort (s "t.ns,s.rev") false l with
  | Ok r => map e_id r = [3; 2; 0; 1]
  | Raise _ => False
  end.
Proof.
  split.
  - repeat constructor; simpl; intros; try discriminate; try (inversion H; subst; discriminate || (compute; discriminate)); auto.
  - vm_compute. reflexivity.
Qed.
