(* Properties/C02.v -- statements of property C02 with their proofs by reference. *)
From Coq Require Import List.
From PyTRS Require Import Engine.Regex Model.Trs Model.Aliquot Model.TractParse Spec.Geometry Spec.C02Spec Proofs.C02.Main Proofs.C02.Extract.

Theorem C02_tiling : C02_statement.
Proof. exact C02_tiling_proof. Qed.
Print Assumptions C02_tiling.

Theorem C02_qq_depth : C02_qq_depth_statement.
Proof. exact C02_qq_depth_proof. Qed.
Print Assumptions C02_qq_depth.

Theorem C02_inside : C02_inside_statement.
Proof. exact C02_inside_proof. Qed.
Print Assumptions C02_inside.

Theorem C02_disjoint : C02_disjoint_statement.
Proof. exact C02_disjoint_proof. Qed.
Print Assumptions C02_disjoint.

Theorem C02_depth0_refuted : C02_depth0_refuted_statement.
Proof. exact C02_depth0_refuted_proof. Qed.
Print Assumptions C02_depth0_refuted.

(* the chains the theorems above quantify over are what the tract parser really produces: every block TractParser cuts out of ANY text
   yields a non-empty list of documented components without ALL -- a valid chain (the only other block it parses is the literal ALL) *)
Theorem C02_extracted_blocks_valid : forall fuel t r, extract_aliquots fuel t nil = Ok r ->
  Forall (fun b => exists comps, comps_of_strs (components_of_text b) = Some comps /\ valid_chain (rev comps)) (snd r).
Proof. exact extracted_blocks_valid. Qed.
Print Assumptions C02_extracted_blocks_valid.
