(* Properties/C02.v -- placeholder until Proofs/C02 lands: the finding only. *)
From Coq Require Import List ZArith.
From PyTRS Require Import Model.Aliquot Spec.Geometry Spec.C02Spec.
Import ListNotations.

Theorem C02_depth0_refuted_compute :
  parse_comps [CNE] 0%Z (Some 0%Z) false = Some [].
Proof. vm_compute. reflexivity. Qed.
Print Assumptions C02_depth0_refuted_compute.
