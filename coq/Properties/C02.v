(* Properties/C02.v -- statements of property C02 with their proofs by reference. *)
From PyTRS Require Import Spec.C02Spec Proofs.C02.Main.

Theorem C02_tiling : C02_statement.
Proof. exact C02_tiling_proof. Qed.
Print Assumptions C02_tiling.

Theorem C02_qq_depth : C02_qq_depth_statement.
Proof. exact C02_qq_depth_proof. Qed.
Print Assumptions C02_qq_depth.

Theorem C02_inside : C02_inside_statement.
Proof. exact C02_inside_proof. Qed.
Print Assumptions C02_inside.

Theorem C02_disjoint : C02_disjoint_statement.
Proof. exact C02_disjoint_proof. Qed.
Print Assumptions C02_disjoint.

Theorem C02_depth0_refuted : C02_depth0_refuted_statement.
Proof. exact C02_depth0_refuted_proof. Qed.
Print Assumptions C02_depth0_refuted.
