(* Properties/C04.v -- no description text is silently dropped.  Model: Model/PlssParse.v.
   PARTIAL (parse stage proved for all texts, all marker lists, all layouts):
   - the marker walk hands every text-bearing inter-marker block either to a tract (after
     cleanup_desc) or to the unused components, verbatim and in order;
   - cleanup_desc returns a contiguous piece of its input (only the edges are trimmed);
   - every unused block of reportable length becomes an unused_desc error flag carrying it verbatim.
   Not a theorem: that the preprocessor's substitutions keep every foreign word (refuted for the
   P.M. gap, known finding C04-pm-gap) -- carried by differential execution and the insertion oracle. *)
From Coq Require Import List NArith ZArith Arith Bool.
From Coq Require String.
From PyTRS Require Import Engine.Regex Gen.Patterns PyRt.Str Gen.Tables Model.Trs Model.Unpack Model.TractParse
     Model.PlssPre Model.PlssParse Model.Config Model.PlssDesc Proofs.C04.Walk.
Import ListNotations.
Import String.StringSyntax.
Local Open Scope string_scope.

Theorem C04_walk_partition : forall txt sd md ms c c',
  walk txt sd md ms c = Ok c' ->
  let tr := walk_trace txt sd md ms in
  map snd (cp_unused c') = map snd (cp_unused c) ++ unstaged tr /\
  exists news, cp_tc c' = cp_tc c ++ news /\
    Forall2 (fun tcn b => cleanup_desc b = Ok (tc_desc tcn)) news (staged tr).
Proof. exact walk_accounts. Qed.
Print Assumptions C04_walk_partition.

Theorem C04_cleanup_only_trims : forall t r, cleanup_desc t = Ok r -> exists l r', t = l ++ r ++ r'.
Proof. exact cleanup_desc_infix. Qed.
Print Assumptions C04_cleanup_only_trims.

Theorem C04_unused_flagged : forall st ptext layout' tracts unused wflags i u,
  In (i, u) unused -> MIN_REPORTABLE_UNUSED_LEN <= length u ->
  In (s "unused_desc<" ++ u ++ s ">", u) (e_flag_lines (po_flags (assemble st ptext layout' tracts unused wflags))).
Proof. exact assemble_flags_unused. Qed.
Print Assumptions C04_unused_flagged.

Definition run0 (text config : str) : option (list (str * str) * list str) :=
  match plssdesc_init_parse text config CNone CNone (s "n") (s "w") with
  | Ok p => Some (map (fun t => (to_trs t, to_desc t)) (po_tracts p), e_flags (po_flags p))
  | Raise _ => None
  end.

Example C04_example :
  run0 (s "XENOLITH T154N-R97W Sec 14: NE/4 BASIN, Sec 15: W/2") []
  = Some ([(s "154n97w14", s "NE/4 BASIN"); (s "154n97w15", s "W/2")], [s "unused_desc<XENOLITH >"]).
Proof. vm_compute. reflexivity. Qed.

(* REFUTED for the gap before a principal-meridian designation (known finding C04-pm-gap) *)
Theorem C04_pm_gap_refuted :
  run0 (s "T154N-R97W, ZZZQ of the 5th P.M. Sec 14: NE/4") [] = Some ([(s "154n97w14", s "NE/4")], []).
Proof. vm_compute. reflexivity. Qed.
Print Assumptions C04_pm_gap_refuted.
