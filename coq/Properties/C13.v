(* Properties/C13.v -- configuration round-trips through text and has a single precedence
   order.  Model: Model/Config.v (config.py; lock-down code of plssdesc.py and tract.py). *)
From Coq Require Import List NArith ZArith Bool.
From PyTRS Require Import Engine.Regex Gen.Patterns PyRt.Str Gen.Tables Model.Trs Model.Config Proofs.C13.Config Proofs.C13.Seam.
Import ListNotations.

(* the round trip: every configuration in the documented domain (every boolean / direction /
   layout value, ints -100..1000) survives decompile_to_text followed by Config(text).
   String level included: the joined text is split back into exactly the tokens written
   (Proofs/C13/Seam.v, on the regenerated separator / whitespace patterns, any length). *)
Definition C13_roundtrip_full : Prop :=
  forall c, in_domain c -> (do t <- decompile_to_text c; text_to_attributes t) = Ok c.
Theorem C13_roundtrip : C13_roundtrip_full.
Proof. exact roundtrip_full. Qed.
Print Assumptions C13_roundtrip.
(* token level, no seam: the tokens written for a configuration, read back one by one,
   rebuild exactly that configuration *)
Theorem C13_tokens_roundtrip : forall c,
  in_domain c -> (do toks <- decompile_attrs all_attrs c; set_lines toks empty_cfg) = Ok c.
Proof. exact tokens_roundtrip. Qed.
Print Assumptions C13_tokens_roundtrip.

(* an unknown setting name is rejected with ValueError, whatever the rest of the line is *)
Theorem C13_unknown : forall line d,
  let parts := split inl_cfg_kv2 inl_cfg_kv2_ng line in
  let attribute := match parts with [a; _] => a | _ => line end in
  mem_str attribute CONFIG_ATTRIBUTES = false ->
  str_to_values_effect line d = Raise ValueError.
Proof. exact unknown_name_rejected. Qed.
Print Assumptions C13_unknown.

(* the model's attribute enumeration is the regenerated _CONFIG_ATTRIBUTES *)
Theorem C13_attr_table : map attr_name all_attrs = CONFIG_ATTRIBUTES.
Proof. exact attr_table. Qed.
Print Assumptions C13_attr_table.

(* precedence in PLSSDesc.parse: keyword if given, else the attribute (set from the config
   or the default) -- for every plain setting, every state, every keyword set *)
Theorem C13_precedence_plssdesc : forall conf st kws a,
  In a pd_plain -> pd_field a (pd_parse conf st kws) = or_attr (cget a kws) (cget a st).
Proof. exact pd_keyword_first. Qed.
Print Assumptions C13_precedence_plssdesc.

Theorem C13_channels : forall conf0 st0 a v,
  In a pd_plain -> is_none v = false ->
  pd_field a (pd_parse conf0 (pd_set_config (cset a v empty_cfg) st0) nokw)
  = pd_field a (pd_parse conf0 st0 (cset a v nokw)).
Proof. exact channel_config_vs_keyword. Qed.
Print Assumptions C13_channels.

Theorem C13_keyword_beats_config : forall conf st0 a v other,
  In a pd_plain -> is_none v = false ->
  pd_field a (pd_parse conf (pd_set_config (cset a other empty_cfg) st0) (cset a v nokw)) = v.
Proof. exact keyword_beats_config. Qed.
Print Assumptions C13_keyword_beats_config.

Theorem C13_config_setter : forall new st b,
  cget b (pd_set_config new st) = if is_none (cget b new) then cget b st else cget b new.
Proof. exact pd_set_config_get. Qed.
Print Assumptions C13_config_setter.

Theorem C13_colon_mode : forall conf st kws,
  let req := or_attr (cget A_sec_colon_required kws) (cget A_sec_colon_required st) in
  let cau := or_attr (cget A_sec_colon_cautious kws) (cget A_sec_colon_cautious st) in
  pe_require_colon (pd_parse conf st kws) =
    if truthy cau && negb (truthy req) then CStr SEC_COLON_CAUTIOUS else req.
Proof. exact pd_require_colon. Qed.
Print Assumptions C13_colon_mode.

(* the tract-level settings in force for the parse are what the tracts are configured with *)
Theorem C13_handed_down : forall conf st kws,
  let e := pd_parse conf st kws in
  let tc := pd_tract_config conf (cget A_suppress_lot_divs st) (pe_parse_qq e) (pe_clean_qq e) (pe_ocr_scrub e)
                            (pe_qq_depth e) (pe_qq_depth_min e) (pe_qq_depth_max e) (pe_break_halves e) in
  pe_handed_down e = decompile_to_text tc /\
  cget A_parse_qq tc = pe_parse_qq e /\ cget A_clean_qq tc = pe_clean_qq e /\
  cget A_ocr_scrub tc = pe_ocr_scrub e /\ cget A_qq_depth tc = pe_qq_depth e /\
  cget A_qq_depth_min tc = pe_qq_depth_min e /\ cget A_qq_depth_max tc = pe_qq_depth_max e /\
  cget A_break_halves tc = pe_break_halves e /\ cget A_suppress_lot_divs tc = cget A_suppress_lot_divs st.
Proof. exact pd_handed_down. Qed.
Print Assumptions C13_handed_down.

(* Tract.parse *)
Theorem C13_precedence_tract : forall st kws,
  te_clean_qq (tr_parse st kws) = or_attr (cget A_clean_qq kws) (cget A_clean_qq st) /\
  te_suppress_lot_divs (tr_parse st kws) = or_attr (cget A_suppress_lot_divs kws) (cget A_suppress_lot_divs st) /\
  te_break_halves (tr_parse st kws) = or_attr (cget A_break_halves kws) (cget A_break_halves st).
Proof. exact tr_keyword_first. Qed.
Print Assumptions C13_precedence_tract.

Theorem C13_tract_depth : forall st kws,
  let k := fun a => cget a kws in let at_ := fun a => cget a st in
  (te_qq_depth_min (tr_parse st kws), te_qq_depth_max (tr_parse st kws)) =
    if negb (is_none (k A_qq_depth)) then (k A_qq_depth, k A_qq_depth)
    else if is_none (k A_qq_depth_min) && is_none (k A_qq_depth_max) && negb (is_none (at_ A_qq_depth))
         then (at_ A_qq_depth, at_ A_qq_depth)
    else (or_attr (k A_qq_depth_min) (at_ A_qq_depth_min), or_attr (k A_qq_depth_max) (at_ A_qq_depth_max)).
Proof. exact tr_depth. Qed.
Print Assumptions C13_tract_depth.

(* non-vacuity: a concrete configuration in the domain, round-tripped by computation *)
Example C13_example :
  let c := cset A_default_ns (CStr [115%N]) (cset A_clean_qq (CBool false) (cset A_qq_depth_min (CInt 3)
           (cset A_layout (CStr TRS_DESC) empty_cfg))) in
  (do t <- decompile_to_text c; text_to_attributes t) = Ok c.
Proof. vm_compute. reflexivity. Qed.
