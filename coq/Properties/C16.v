(* Properties/C16.v -- parsing time.  Wall-clock time of CPython's _sre engine is not a quantity
   this model can be put into checked correspondence with; C16 is decided by the timing harness
   (tools/pump, level "other").  What is proved here is the part pyTRS's own control code owns:
   the shrinking substitute-until-stable loops terminate within length+1 passes for every text
   (they can never spin), and fuel is unobservable. *)
From Coq Require Import List NArith ZArith Arith Bool.
From PyTRS Require Import Engine.Regex PyRt.Str Model.Trs Model.TractPre Model.PlssParse Proofs.C04.Walk Proofs.C16.Loops.
Import ListNotations.

Theorem C16_cleanup_terminates : forall t, exists r, cleanup_desc t = Ok r.
Proof. exact cleanup_desc_terminates. Qed.
Print Assumptions C16_cleanup_terminates.

Theorem C16_shrinking_loops_converge : forall (f : str -> str),
  (forall t, infix (f t) t) -> forall fuel t, length t < fuel -> exists r, until_stable fuel f t = Ok r.
Proof. exact until_stable_shrinking. Qed.
Print Assumptions C16_shrinking_loops_converge.

Theorem C16_fuel_unobservable : forall (f : str -> str) fuel t r,
  until_stable fuel f t = Ok r -> until_stable (S fuel) f t = Ok r.
Proof. exact until_stable_mono. Qed.
Print Assumptions C16_fuel_unobservable.
