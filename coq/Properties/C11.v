(* Properties/C11.v -- copy_all, forced or as fallback, keeps the whole text in exactly one tract.
   Model: Model/PlssParse.v (PLSSParser, PLSSChunker, ChunkParser), Model/PlssDesc.v, Model/Config.v. *)
From Coq Require Import List NArith ZArith Arith Bool.
From Coq Require String.
From PyTRS Require Import Engine.Regex Gen.Patterns PyRt.Str Gen.Tables Model.Trs Model.Unpack Model.TractParse
     Model.PlssPre Model.PlssParse Model.Config Model.PlssDesc Proofs.C11.CopyAll Proofs.C13.Config.
From PyTRS Require Import Proofs.C11.ErrFlag.
Import ListNotations.
Import String.StringSyntax.
Local Open Scope string_scope.

(* forced copy_all at the parser: for EVERY text, default, ocr setting, colon mode, segment and
   sec_within setting and tract settings -- exactly one tract, whose description is the whole
   preprocessed text (no clean-up) *)
Theorem C11_forced : forall text d ocr rc segment sec_within ts p,
  plss_parser text (Some COPY_ALL) d ocr None rc segment sec_within ts = Ok p ->
  po_layout p = COPY_ALL /\ exists t, po_tracts p = [t] /\ to_desc t = po_text p.
Proof. exact forced_copy_all. Qed.
Print Assumptions C11_forced.

(* the three channels all reach the parser: keyword at init, config, parse(layout=) -- by the
   lock-down of PLSSDesc.parse the effective layout is the keyword if given, else the attribute *)
Theorem C11_channels : forall conf st kws,
  pe_layout (pd_parse conf st kws) = or_attr (cget A_layout kws) (cget A_layout st).
Proof. intros. apply (pd_keyword_first conf st kws A_layout). simpl. auto 10. Qed.
Print Assumptions C11_channels.

Theorem C11_forced_plssdesc : forall text e mc_ns mc_ew p,
  pe_layout e = CStr COPY_ALL ->
  run_parser text e None mc_ns mc_ew = Ok p ->
  po_layout p = COPY_ALL /\ exists t, po_tracts p = [t] /\ to_desc t = po_text p.
Proof.
  intros text e mc_ns mc_ew p Hl. unfold run_parser. rewrite Hl. cbn [ostr_of_cval bind].
  destruct (ostr_of_cval (pe_default_ns e)); cbn [bind]; [|discriminate].
  destruct (ostr_of_cval (pe_default_ew e)); cbn [bind]; [|discriminate].
  destruct (rc_of_cval (pe_require_colon e)); cbn [bind]; [|discriminate].
  destruct (pe_handed_down e); cbn [bind]; [|discriminate].
  destruct (tract_settings _ _); cbn [bind]; [|discriminate].
  apply forced_copy_all.
Qed.
Print Assumptions C11_forced_plssdesc.

(* fallback: every chunk yields at least one tract component -- when the marker walk stages
   nothing, the copy_all stand-in stages the whole chunk (exactly once) *)
(* DEDUCED fallback: whenever no Twp/Rge, or no section word, can be found in the (stripped)
   preprocessed text, the deduced layout is copy_all and the result is exactly one tract whose
   description is the entire preprocessed text -- any text, defaults, colon mode, segment, sec_within *)
Theorem C11_deduced : forall text d ocr rc segment sec_within ts p ptext fixed,
  plss_preprocess text d ocr = Ok (ptext, fixed) ->
  (search twprge_regex twprge_regex_ng (strip ptext) = None \/ search no_num_sec_regex no_num_sec_regex_ng (strip ptext) = None) ->
  plss_parser text None d ocr None rc segment sec_within ts = Ok p ->
  po_layout p = COPY_ALL /\ exists t, po_tracts p = [t] /\ to_desc t = po_text p.
Proof.
  intros text d ocr rc segment sec_within ts p ptext fixed Epp [H|H] Hp;
    (eapply deduced_copy_all; [exact Epp | | exact Hp]); [apply deduce_copy_all_no_twprge | apply deduce_copy_all_no_sec]; exact H.
Qed.
Print Assumptions C11_deduced.

(* ... and such a fallback is ALWAYS accompanied by an error flag unless both a Twp/Rge and a section were
   identified: if no Twp/Rge can be matched, or no section, the description carries twprge_error *)
Theorem C11_fallback_error_flag : forall text d ocr rc segment sec_within ts p ptext fixed,
  plss_preprocess text d ocr = Ok (ptext, fixed) -> deduce_layout ptext = COPY_ALL ->
  (finditer twprge_regex twprge_regex_ng ptext = [] \/ finditer multisec_regex multisec_regex_ng ptext = []) ->
  plss_parser text None d ocr None rc segment sec_within ts = Ok p ->
  In E_FLAG_TWPRGE_ERR (e_flags (po_flags p)).
Proof. exact fallback_error_flag. Qed.
Print Assumptions C11_fallback_error_flag.

Theorem C11_fallback_component : forall chunk layout px c,
  parse_chunk chunk layout px = Ok c -> cp_tc c <> [].
Proof. exact parse_chunk_nonempty. Qed.
Print Assumptions C11_fallback_component.

Theorem C11_copy_all_chunk : forall chunk px c,
  parse_chunk chunk (Some COPY_ALL) px = Ok c ->
  exists x tw, cp_tc c = [mk_tcomp chunk [x] tw false] /\ cp_unused c = [].
Proof. exact parse_chunk_copy_all. Qed.
Print Assumptions C11_copy_all_chunk.

Definition run0 (text config : str) : option (str * list (str * str) * list str) :=
  match plssdesc_init_parse text config CNone CNone (s "n") (s "w") with
  | Ok p => Some (po_layout p, map (fun t => (to_trs t, to_desc t)) (po_tracts p), e_flags (po_flags p))
  | Raise _ => None
  end.

(* the formerly doubled fallback now yields one tract (fixed: C11-double-fallback) *)
Example C11_fallback_once :
  run0 (s "NE/4 of Section, T154N-R97W") [] = Some (DESC_STR, [(s "154n97wXX", s "NE/4 of Section, T154N-R97W")], [s "twprge_error"]).
Proof. vm_compute. reflexivity. Qed.

(* REFUTED sub-claim (known finding C11-fallback-cleaned): the chunk-level fallback tract is cleaned up *)
Theorem C11_fallback_cleaned_refuted :
  run0 (s "T154S R20W Sects. 36 & 4 in") (s "sec_colon_required")
  = Some (TRS_DESC, [(s "154s20w36", s "T154S-R20W Sects. 36 & 4")], []).
Proof. vm_compute. reflexivity. Qed.
Print Assumptions C11_fallback_cleaned_refuted.
