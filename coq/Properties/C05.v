(* Properties/C05.v -- elided lists of sections and lots expand to exactly the numbers they denote.
   Model: Model/Unpack.v (SecUnpacker.unpack_sections, LotUnpacker.unpack_lots).  Level A: the
   theorems hold for ANY regex step, given the right-to-left stream of (number, "through" to its
   left) that the step function yields; that the regenerated multisec/multilot patterns yield the
   expected stream on rendered lists is the seam, checked by examples here and by the
   correspondence + oracle on the real code. *)
From Coq Require Import List NArith ZArith Arith Bool Lia.
From Coq Require String.
From PyTRS Require Import Engine.Regex Gen.Patterns PyRt.Str Gen.Tables Model.Trs Model.Unpack Proofs.C05.Unpack.
Import ListNotations.
Import String.StringSyntax.
Local Open Scope string_scope.

(* sections: l is the list in reading order, each number with "a through-connective to its left" *)
Theorem C05_sections : forall step endpos fuel (l : list (bool * Z)),
  reads step endpos (flip l) ->
  Forall (fun p => small (snd p)) l ->
  length l < fuel ->
  exists flags flines,
    unpack_sections_loop step fuel endpos false [] [] [] =
      Ok (mk_sec_unpacked (map two_digit (expand_ro l)) flags flines) /\
    flags = map (fun _ => sec_flag) (nonseq_flags false [] (flip l)) /\
    flines = map sec_flag_line (nonseq_flags false [] (flip l)).
Proof.
  intros step endpos fuel l Hr Hs Hf.
  assert (Hs' : Forall (fun p => small (fst p)) (flip l)).
  { unfold flip. rewrite Forall_forall in *. intros [z b] Hin. apply in_rev in Hin.
    apply in_map_iff in Hin. destruct Hin as [[b' z'] [E Hin]]. inversion E; subst. apply (Hs _ Hin). }
  assert (Hl : length (flip l) < fuel) by (unfold flip; rewrite rev_length, map_length; exact Hf).
  pose proof (sections_loop_is_run_rl step (flip l) fuel endpos false [] [] [] Hr Hs' (Forall_nil _)
               (fun H => ltac:(discriminate)) Hl) as E.
  cbn [map app] in E. do 2 eexists. split; [|split; reflexivity].
  rewrite E. f_equal. rewrite <- map_rev. rewrite run_rl_correct, spec_rl_reading_order. reflexivity.
Qed.
Print Assumptions C05_sections.

(* a non-sequential warning is raised exactly for the ranges whose start is not below their end *)
Theorem C05_descending_flagged : forall n m,
  nonseq_flags false [] (flip [(false, n); (true, m)]) = if (n <? m)%Z then [] else [(n, m)].
Proof. intros. cbn. destruct (n <? m)%Z; reflexivity. Qed.
Print Assumptions C05_descending_flagged.

(* what the expansion is: ranges inclusive in their stated direction, concatenated, duplicates kept *)
Theorem C05_range_inclusive : forall a b,
  expand_ro [(false, a); (true, b)] = upto a b ++ [b].
Proof. reflexivity. Qed.
Print Assumptions C05_range_inclusive.

(* lots: same list logic (acreages and the lot-division counter aside) *)
Theorem C05_lots : forall step endpos fuel (l : list (bool * Z)),
  reads step endpos (flip l) -> length l < fuel ->
  exists acres flags flines at_,
    unpack_lots_loop step fuel endpos false (mk_lot_state [] [] [] [] 0) =
      Ok (mk_lot_unpacked (map lot_name (expand_ro l)) acres flags flines at_).
Proof.
  intros step endpos fuel l Hr Hf.
  assert (Hl : length (flip l) < fuel) by (unfold flip; rewrite rev_length, map_length; exact Hf).
  destruct (lots_loop_is_run_rl step (flip l) fuel endpos false (mk_lot_state [] [] [] [] 0) Hr
             (fun H => ltac:(discriminate)) Hl) as (a & f & fl & at_ & E).
  exists a, f, fl, at_. rewrite E. cbn [ls_working]. rewrite run_rl_correct, spec_rl_reading_order. reflexivity.
Qed.
Print Assumptions C05_lots.

(* the seam on concrete renderings, computed on the regenerated patterns (non-vacuity of the
   hypotheses; ascending, descending, repeated keyword, mixed connectives) *)
Example C05_seam_sections :
  let t := s "Sections 1 - 3, 5 and Sec 9 thru 7" in
  stream_of (sec_step t) (S (S (length t))) (length t)
  = Some (flip [(false, 1%Z); (true, 3%Z); (false, 5%Z); (false, 9%Z); (true, 7%Z)]).
Proof. vm_compute. reflexivity. Qed.

Example C05_sections_end_to_end :
  match sec_unpacker (s "Sections 1 - 3, 5 and Sec 9 thru 7") with
  | Ok u => su_list u = map s ["01"; "02"; "03"; "05"; "09"; "08"; "07"] /\ su_flags u = [sec_flag]
  | Raise _ => False
  end.
Proof. vm_compute. split; reflexivity. Qed.

Example C05_seam_lots :
  let t := s "Lots 1 through 3, Lot 7 & 12" in
  stream_of (lot_step t) (S (S (length t))) (length t)
  = Some (flip [(false, 1%Z); (true, 3%Z); (false, 7%Z); (false, 12%Z)]).
Proof. vm_compute. reflexivity. Qed.
