(* Properties/C14.v -- re-parsing is idempotent and commit=False has no side effects.
   Model: Model/Objects.v (Tract / PLSSDesc as state machines over parse(commit, kws),
   parse_tracts, preprocess(commit), config assignment), built on the full parser model.
   Aliasing (a parser mutating a list it shares with its parent) cannot be expressed in a pure
   model; that half is carried by the deep-snapshot oracle and the history correspondence. *)
From Coq Require Import List NArith ZArith Arith Bool.
From Coq Require String.
From PyTRS Require Import Engine.Regex Gen.Patterns PyRt.Str Gen.Tables Model.Trs Model.Unpack Model.TractParse
     Model.PlssPre Model.PlssParse Model.Config Model.PlssDesc Model.Objects Proofs.C14.Objects.
Import ListNotations.
Import String.StringSyntax.
Local Open Scope string_scope.

(* commit=False: the object is returned unchanged, for every object state and keyword set *)
Theorem C14_nocommit : forall t kws r o pkws pr cq r2,
  (tract_parse t false kws = Ok r -> fst r = t) /\
  (tract_preprocess t false cq = Ok r2 -> fst r2 = t) /\
  (plss_parse o false pkws = Ok pr -> fst pr = o).
Proof. intros. split; [apply tract_nocommit | split; [apply tract_preprocess_nocommit | apply plss_nocommit]]. Qed.
Print Assumptions C14_nocommit.

(* a committed PLSSDesc parse replaces the previous results, and repeating it reproduces exactly
   the same object: the parse reads only text, settings and MasterConfig *)
Theorem C14_plssdesc_idempotent : forall o kws r,
  plss_parse o true kws = Ok r -> plss_parse (fst r) true kws = Ok r.
Proof. exact plss_parse_idempotent. Qed.
Print Assumptions C14_plssdesc_idempotent.

Theorem C14_plssdesc_ignores_previous_results : forall o tracts flags pp lay kws commit,
  let o' := mk_pobj (pj_text o) (pj_attrs o) (pj_conf o) tracts flags pp lay (pj_mc_ns o) (pj_mc_ew o) in
  match plss_parse o commit kws, plss_parse o' commit kws with
  | Ok r1, Ok r2 => snd r1 = snd r2
  | Raise e1, Raise e2 => e1 = e2
  | _, _ => False
  end.
Proof. exact plss_parse_ignores_results. Qed.
Print Assumptions C14_plssdesc_ignores_previous_results.

(* a Tract parse: text, lots, aliquots, acreages do not depend on the flags the tract already
   holds; the returned flags are exactly the held ones followed by the generated ones.  Hence
   re-parsing reproduces lots/qqs/lot_acres/aliquots_whole/pp_desc exactly (C14 for those), while
   the generated warnings are appended again (the refuted half, known finding) *)
Theorem C14_tract_results_independent_of_flags : forall text cq sup mn mx qq bh parent,
  match tract_parser text cq sup mn mx qq bh parent, tract_parser text cq sup mn mx qq bh no_flags with
  | Ok r, Ok r0 =>
      tp_text r = tp_text r0 /\ tp_lots r = tp_lots r0 /\ tp_qqs r = tp_qqs r0 /\ tp_lot_acres r = tp_lot_acres r0 /\
      tp_aliquots_whole r = tp_aliquots_whole r0 /\
      w_flags (tp_flags r) = w_flags parent ++ w_flags (tp_flags r0) /\
      w_flag_lines (tp_flags r) = w_flag_lines parent ++ w_flag_lines (tp_flags r0) /\
      e_flags (tp_flags r) = e_flags parent /\ e_flag_lines (tp_flags r) = e_flag_lines parent
  | Raise e, Raise e0 => e = e0
  | _, _ => False
  end.
Proof. exact tract_parser_parent. Qed.
Print Assumptions C14_tract_results_independent_of_flags.

Definition wflags_after (n : nat) : option (list str) :=
  match tract_new (s "Lot 1, Lot 1") (s "154n97w14") [] (CBool true) 0 with
  | Ok t => match tract_run t (repeat (TParse true empty_cfg) n) with Ok t' => Some (w_flags (tj_flags t')) | Raise _ => None end
  | Raise _ => None
  end.

(* REFUTED for Tract.parse / parse_tracts (known finding C14-tract-reparse-doubles) *)
Theorem C14_tract_doubling_refuted :
  wflags_after 0 = Some [s "dup_lot<L1>"] /\ wflags_after 1 = Some [s "dup_lot<L1>"; s "dup_lot<L1>"].
Proof. vm_compute. split; reflexivity. Qed.
Print Assumptions C14_tract_doubling_refuted.
