(* Properties/C08.v -- Twp/Rge spellings are equivalent; missing directions come from defaults only.
   Model: Model/PlssPre.v (plss_preprocess, sub_scrubber, find_twprge), Model/Unpack.v (unpack_twprge),
   patterns regenerated from rgxlib/twprge.py.
   PARTIAL.  The sweeps are complete enumerations of the finite family named in each theorem
   (townships {7,154} x ranges {2,97} x directions x every documented spelling x defaults from the
   argument or MasterConfig), decided by vm_compute on the regenerated patterns; the class
   abstraction that would lift them to all 1-3 digit numbers (DESIGN 4.3) is not built, so other
   numbers and contexts are carried by differential execution and the oracle on the real code. *)
From Coq Require Import List NArith ZArith Arith Bool.
From Coq Require String.
From PyTRS Require Import Engine.Regex Gen.Patterns PyRt.Str Gen.Tables Model.Trs Model.Unpack Model.PlssPre
     Spec.C08Spec Proofs.C08.Sweeps.
Import ListNotations.
Import String.StringSyntax.
Local Open Scope string_scope.

(* every documented spelling is rewritten to T<t><NS>-R<r><EW>, is then the only Twp/Rge found,
   and nothing is reported as fixed -- whatever defaults are in force *)
Theorem C08_spellings_partial : full_sweep = true.
Proof. exact full_sweep_true. Qed.
Print Assumptions C08_spellings_partial.

(* a missing N/S and/or E/W is filled from the default in force (argument, else MasterConfig)
   and the completed Twp/Rge is reported as fixed *)
Theorem C08_missing_direction_partial : partial_sweep = true.
Proof. exact partial_sweep_true. Qed.
Print Assumptions C08_missing_direction_partial.

(* for EVERY match: an explicit direction is never overridden by any legal default *)
Theorem C08_explicit_never_overridden : forall G t x d1 d2 e1 e2 ocr m1 m2 m3 m4 v w,
  group t x (tg_ns G) = Some v -> group t x (tg_ew G) = Some w ->
  mem_str (match d1 with Some a => a | None => m1 end) MC_LEGAL_NS = true ->
  mem_str (match e1 with Some a => a | None => m2 end) MC_LEGAL_EW = true ->
  mem_str (match d2 with Some a => a | None => m3 end) MC_LEGAL_NS = true ->
  mem_str (match e2 with Some a => a | None => m4 end) MC_LEGAL_EW = true ->
  unpack_twprge G t x d1 e1 ocr m1 m2 = unpack_twprge G t x d2 e2 ocr m3 m4.
Proof. exact explicit_not_overridden. Qed.
Print Assumptions C08_explicit_never_overridden.

Theorem C08_ocr_examples : ocr_sweep = true.
Proof. exact ocr_sweep_true. Qed.
Print Assumptions C08_ocr_examples.
