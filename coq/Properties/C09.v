(* Properties/C09.v -- every tract is well-formed and traceable to its source.
   Model: Model/PlssParse.v (construct_tracts, hand_down_flags), Model/Trs.v.
   Proved for all texts/settings: orig_index is the position in creation order; every tract's
   trs is the normalised form TRS(twprge+sec).trs.  The attributes of a Tract are, in the code
   as in the model, the fields of trs_to_dict of that string; that normalisation is idempotent
   (attributes = decomposition of the final string) is C12's statement, proved there for the
   finite component domain and checked here by an independent oracle on the real tracts. *)
From Coq Require Import List NArith ZArith Arith Bool.
From Coq Require String.
From PyTRS Require Import Engine.Regex Gen.Patterns PyRt.Str Gen.Tables Model.Trs Model.Unpack Model.TractParse
     Model.PlssPre Model.PlssParse Model.Config Model.PlssDesc Proofs.C09.Tracts Proofs.C12.Match Proofs.C12.Full Proofs.C09.Clean.
Import ListNotations.
Import String.StringSyntax.
Local Open Scope string_scope.

Theorem C09_orig_index_and_trs : forall text layout d ocr cu rc seg sw ts p,
  plss_parser text layout d ocr cu rc seg sw ts = Ok p ->
  map to_orig_index (po_tracts p) = seq 0 (length (po_tracts p)) /\
  Forall (fun t => exists raw, to_trs t = TRS_trs (Some raw)) (po_tracts p).
Proof. exact plss_parser_indices. Qed.
Print Assumptions C09_orig_index_and_trs.

(* the attributes the code derives for a tract (trs_to_dict of the raw twprge+sec string) are exactly
   the decomposition of the tract's final .trs string -- for every text and every setting *)
Theorem C09_attributes_decompose : forall text layout d ocr cu rc seg sw ts p,
  plss_parser text layout d ocr cu rc seg sw ts = Ok p ->
  Forall (fun t => exists raw, to_trs t = TRS_trs (Some raw) /\ trs_to_dict (Some (to_trs t)) = trs_to_dict (Some raw)) (po_tracts p).
Proof.
  intros text layout d ocr cu rc seg sw ts p H. destruct (plss_parser_indices _ _ _ _ _ _ _ _ _ _ H) as [_ F].
  eapply Forall_impl; [|exact F]. intros t [raw E]. exists raw. split; [exact E|]. rewrite E. apply (trs_to_dict_idem (Some raw)).
Qed.
Print Assumptions C09_attributes_decompose.

(* every tract's .trs is either the error TRS or its raw string split into components that are at most
   case-normalised (C12_strict applied to the tracts) *)
Theorem C09_trs_strict : forall text layout d ocr cu rc seg sw ts p,
  plss_parser text layout d ocr cu rc seg sw ts = Ok p ->
  Forall (fun t => exists raw, to_trs t = TRS_trs (Some raw) /\ (raw = [] \/ trs_res raw (to_trs t))) (po_tracts p).
Proof.
  intros text layout d ocr cu rc seg sw ts p H. destruct (plss_parser_indices _ _ _ _ _ _ _ _ _ _ H) as [_ F].
  eapply Forall_impl; [|exact F]. intros t [raw E]. exists raw. split; [exact E|].
  destruct raw as [|c0 r]; [left; reflexivity | right]. rewrite E. apply TRS_trs_spec. discriminate.
Qed.
Print Assumptions C09_trs_strict.

(* WELL-FORMED: for every text and every setting, every tract's .trs is either the error TRS or
   <1-3 digits><n|s> / error-twp, <1-3 digits><e|w> / error-rge, <2 digits> / error-sec -- never the
   UNDEFINED placeholder.  (The raw twprge+sec string never contains '_': the groups of the regenerated
   twprge_regex hold no '_' -- computed from the pattern by Engine/RegexStatic.group_chars -- and
   sections are two-digit renderings of integers; the invariant is carried through the whole parser.) *)
Theorem C09_well_formed : forall text layout d ocr cu rc seg sw ts p,
  plss_parser text layout d ocr cu rc seg sw ts = Ok p -> Forall (fun t => std_trs (to_trs t)) (po_tracts p).
Proof. exact plss_parser_std. Qed.
Print Assumptions C09_well_formed.

(* the normalised TRS of anything that is not in the standard form is the error TRS, and the
   undefined TRS arises only from empty input -- which construct_tracts never supplies
   (twprge ++ sec with a non-empty section) *)
Theorem C09_never_undefined_from_nonmatch : forall raw,
  fullmatch trs_unpacker_regex G raw = None -> raw <> [] -> TRS_trs (Some raw) = MC_ERR_TRS.
Proof.
  intros raw H Hne. unfold TRS_trs, trs_to_dict. destruct raw as [|c r]; [congruence|]. rewrite H. reflexivity.
Qed.
Print Assumptions C09_never_undefined_from_nonmatch.

Definition tracts0 (text : str) : option (list (str * nat)) :=
  match plssdesc_init_parse text [] CNone CNone (s "n") (s "w") with
  | Ok p => Some (map (fun t => (to_trs t, to_orig_index t)) (po_tracts p))
  | Raise _ => None
  end.

(* three-digit "section": the string is not a standard TRS, so the tract carries the error TRS
   (fixed: C09-sec3digits) *)
Example C09_three_digit_section :
  tracts0 (s "T154N-R97W Sections 1 - 2: NE/4, Sec 100: W/2")
  = Some [(s "154n97w01", 0); (s "154n97w02", 1); (s "XXXzXXXzXX", 2)].
Proof. vm_compute. reflexivity. Qed.
