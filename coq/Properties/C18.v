(* Properties/C18.v -- filter/group operations partition the list; containers never drop
   silently.  Model: Model/Containers.v. *)
From Coq Require Import List NArith ZArith Arith Bool Permutation.
From PyTRS Require Import Engine.Regex PyRt.Str Model.Trs Model.Containers Proofs.C18.Lists.
Import ListNotations.

(* filter(key, drop): the index bookkeeping of _new_list_from_self (collect increasing
   indexes, pop in reverse) returns exactly the matching elements in order and, with drop,
   leaves exactly the others in order *)
Theorem C18_filter : forall (A : Type) (key : A -> bool) (drop : bool) (l : list A),
  filter_model key drop l = Ok (filter key l, if drop then filter (fun x => negb (key x)) l else l).
Proof. intros. apply filter_model_spec. Qed.
Print Assumptions C18_filter.

(* filter_duplicates: an element is returned iff an earlier element is the same instance
   (or equal TRS) or, for the keyed methods, has the same derived key *)
Theorem C18_filter_duplicates : forall only_instance drop l,
  filter_duplicates_model only_instance drop l =
    Ok (sel (dup_mask only_instance [] l) l,
        if drop then unsel (dup_mask only_instance [] l) l else l).
Proof. exact filter_duplicates_spec. Qed.
Print Assumptions C18_filter_duplicates.

Theorem C18_filter_partition : forall (A : Type) (mask : list bool) (l : list A),
  length mask = length l -> Permutation (sel mask l ++ unsel mask l) l.
Proof. intros. apply sel_unsel_perm. assumption. Qed.
Print Assumptions C18_filter_partition.

(* group_by: the group of key k is exactly the elements whose attribute value is k, in
   their original order; keys are pairwise distinct; unpacking gives back every element *)
Theorem C18_group : forall (A K : Type) (keqb : K -> K -> bool),
  (forall a b, keqb a b = true <-> a = b) ->
  forall (kf : A -> K) (l : list A),
    (forall k, lookup keqb k (group_fn keqb kf l) =
               match filter (fun x => keqb k (kf x)) l with [] => None | g => Some g end) /\
    NoDup (keys_of (group_fn keqb kf l)) /\
    Permutation (unpack_group (group_fn keqb kf l)) l.
Proof.
  intros A K keqb H kf l. split; [|split].
  - intros k. apply group_fn_lookup. exact H.
  - apply group_fn_keys_nodup. exact H.
  - apply unpack_group_perm.
Qed.
Print Assumptions C18_group.

(* construction: every supplied element is there, converted, in order -- or TypeError *)
Theorem C18_construct : forall (A B : Type) (conv : A -> option B) (l : list A),
  verify_iterable conv l = match all_some conv l with Some r => Ok r | None => Raise TypeError end.
Proof. intros. apply verify_iterable_spec. Qed.
Print Assumptions C18_construct.

Example C18_example :
  filter_model (fun n => Nat.even n) true [1; 2; 3; 4; 6; 7] = Ok ([2; 4; 6], [1; 3; 7]).
Proof. vm_compute. reflexivity. Qed.
