(* Properties/C19.v -- bulk export is faithful, ordered and total over documented attributes.
   Model: Model/Export.v.  Python's csv module is outside the model: a "row" is the list of
   cells handed to csv.writer.writerow; the correspondence re-reads real files with csv.reader. *)
From Coq Require Import List NArith ZArith Bool.
From Coq Require String.
From PyTRS Require Import Engine.Regex PyRt.Str Gen.Tables Model.Trs Model.Export Proofs.C19.Export.
Import ListNotations.
Import String.StringSyntax.
Local Open Scope string_scope.

Theorem C19_records : forall l atts,
  (length (tracts_to_list l atts) = length l /\
   forall i t, nth_error l i = Some t -> nth_error (tracts_to_list l atts) i = Some (map (getattr t) atts)) /\
  (length (tracts_to_dict l atts) = length l /\
   forall i t, nth_error l i = Some t -> nth_error (tracts_to_dict l atts) i = Some (map (fun a => (a, getattr t a)) atts)).
Proof. intros. split; [apply records_list | apply records_dict]. Qed.
Print Assumptions C19_records.

Theorem C19_unknown_attribute : forall t att,
  assoc_str att t = None -> getattr t att = VScalar (SStr (att ++ s ": n/a")).
Proof. exact unknown_attr. Qed.
Print Assumptions C19_unknown_attribute.

(* every cell is the scalar itself or the list / dict contents joined; never an error, for
   every value shape (scalar, list of scalars incl. ints, list of tuples, dict) *)
Theorem C19_total : forall v, scrub_cell v = spec_cell v.
Proof. exact scrub_cell_spec. Qed.
Print Assumptions C19_total.

Theorem C19_csv_rows : forall l atts ex ap n,
  tracts_to_csv l atts ex ap n =
    (if ex && ap then [] else [map SStr (get_headers atts n [])])
    ++ map (fun t => map (fun a => spec_cell (getattr t a)) atts) l.
Proof. exact csv_rows. Qed.
Print Assumptions C19_csv_rows.

Theorem C19_row_counts : forall l atts ex ap n hp wp uid,
  length (tracts_to_csv l atts ex ap n) = (if ex && ap then 0 else 1) + length l /\
  length (tractwriter l atts ex ap n hp wp uid) = (if ex && ap then 0 else 1) + length l.
Proof. intros. split; [apply csv_row_count | apply writer_row_count]. Qed.
Print Assumptions C19_row_counts.

Theorem C19_writer_rows : forall l atts plus uid k total,
  writer_rows l atts plus uid k total =
    map (fun it => map (fun a => spec_cell (getattr (snd it) a)) atts ++ plus
                   ++ match uid with Some u => [SStr (gen_uid u (fst it) total)] | None => [] end)
        (combine (seq k (length l)) l).
Proof. exact writer_rows_spec. Qed.
Print Assumptions C19_writer_rows.

Theorem C19_nice_headers_total :
  length TRACT_ATTRIBUTE_NAMES = length TRACT_ATTRIBUTE_HEADERS /\
  forallb (fun a => match assoc_str a (combine TRACT_ATTRIBUTE_NAMES TRACT_ATTRIBUTE_HEADERS) with Some _ => true | None => false end)
          TRACT_ATTRIBUTE_NAMES = true.
Proof. exact nice_headers_total. Qed.
Print Assumptions C19_nice_headers_total.

Example C19_example :
  scrub_cell (VSeq [SInt 1; SInt 2]) = SStr (s "1, 2") /\
  scrub_cell (VSeq2 [[SStr (s "a"); SStr (s "b")]; [SStr (s "c"); SStr (s "d")]]) = SStr (s "a, b, c, d").
Proof. vm_compute. split; reflexivity. Qed.
