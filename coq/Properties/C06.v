(* Properties/C06.v -- tract parsing is compositional (list level).  Model: Model/TractParse.v.
   PARTIAL: the theorems below are the list-level half (for all lists): duplicate warnings are
   raised exactly when a lot / aliquot occurs twice, lot divisions go to exactly the first
   aliquots_through lots, nothing else is added.  That each element of a separated
   description is matched independently by the regenerated patterns (the extraction loops) is
   the seam carried by the differential execution and the metamorphic oracle on the real code.
   Known findings (refuted on the model): a line break does not separate an aliquot from what
   follows; ALL is not recognised when another element follows it. *)
From Coq Require Import List NArith ZArith Arith Bool.
From Coq Require String.
From PyTRS Require Import Engine.Regex Gen.Patterns PyRt.Str Gen.Tables Model.Trs Model.Unpack
     Model.TractPre Model.Aliquot Model.TractParse Proofs.C06.Tract.
Import ListNotations.
Import String.StringSyntax.
Local Open Scope string_scope.

Theorem C06_duplicates_detected : forall l, find_duplicates l = [] <-> NoDup l.
Proof. exact find_duplicates_nodup. Qed.
Print Assumptions C06_duplicates_detected.

Theorem C06_duplicates_sound : forall l x, In x (find_duplicates l) -> exists a b c, l = a ++ x :: b ++ x :: c.
Proof. exact find_duplicates_sound. Qed.
Print Assumptions C06_duplicates_sound.

Theorem C06_dup_flags_exact_partial : forall lots qqs w wl,
  (NoDup lots /\ NoDup qqs) <-> gen_flags lots qqs w wl = (w, wl).
Proof. exact gen_flags_iff. Qed.
Print Assumptions C06_dup_flags_exact_partial.

Theorem C06_lot_divisions : forall n lead lots,
  (n <= length lots ->
   apply_lot_divs n lead lots = Ok (map (fun l => lead ++ s " of " ++ l) (firstn n lots) ++ skipn n lots)) /\
  (length lots < n -> apply_lot_divs n lead lots = Raise IndexError).
Proof. intros. split; [apply apply_lot_divs_spec | apply apply_lot_divs_short]. Qed.
Print Assumptions C06_lot_divisions.

Definition lots_of (t : str) : option (list str * list str) :=
  match tract_parser t false false 2 None None false no_flags with
  | Ok r => Some (tp_lots r, tp_qqs r)
  | Raise _ => None
  end.

(* compositional on a concrete mixed description (comma / semicolon separators) *)
Example C06_example :
  lots_of (s "Lots 1 - 3, NE/4, N/2 of Lot 5; S/2SW/4")
  = Some (map s ["L1"; "L2"; "L3"; "N2 of L5"], map s ["NENE"; "NWNE"; "SENE"; "SWNE"; "SESW"; "SWSW"]).
Proof. vm_compute. reflexivity. Qed.

(* REFUTED for line breaks (known finding C06-newline) *)
Theorem C06_newline_refuted :
  lots_of (s "NE/4" ++ [10%N] ++ s "Lot 1") = Some ([s "NE of L1"], []) /\
  lots_of (s "NE/4" ++ [10%N] ++ s "NW/4") = Some ([], [s "NENW"]).
Proof. vm_compute. split; reflexivity. Qed.
Print Assumptions C06_newline_refuted.

(* REFUTED for ALL followed by another element (known finding C06-all-context) *)
Theorem C06_all_context_refuted :
  lots_of (s "ALL, Lot 1") = Some ([s "L1"], []).
Proof. vm_compute. reflexivity. Qed.
Print Assumptions C06_all_context_refuted.
