(* Properties/C12.v -- C12 theorems (statements in Spec/C12Spec.v; proofs in Proofs/C12). *)
From Coq Require Import List NArith ZArith Bool.
From PyTRS Require Import Engine.Regex PyRt.Str Gen.Tables Model.Trs Spec.C12Spec Proofs.C12.Finite Proofs.C12.Full.
Import ListNotations.
From Coq Require String.
Import String.StringSyntax.
Local Open Scope string_scope.

(* every township < 1000, either letter, every encoding, every default: canonical *)
Theorem C12_twp_component :
  forall t ns dflt e, (t < 1000)%N -> is_ns ns = true -> is_ns dflt = true -> twp_ok t ns dflt e = true.
Proof. exact twp_component. Qed.
Print Assumptions C12_twp_component.

Theorem C12_rge_component :
  forall r ew dflt e, (r < 1000)%N -> is_ew ew = true -> is_ew dflt = true -> rge_ok r ew dflt e = true.
Proof. exact rge_component. Qed.
Print Assumptions C12_rge_component.

Theorem C12_sec_component :
  forall sc e, (sc < 100)%N -> (e = EInt \/ e = EStr) -> sec_ok sc e = true.
Proof. exact sec_component. Qed.
Print Assumptions C12_sec_component.

Theorem C12_undef : C12_undef_statement.
Proof. unfold C12_undef_statement. vm_compute. repeat split; reflexivity. Qed.
Print Assumptions C12_undef.

(* building from components (ints, digit strings, strings with a direction letter, either case, leading zeros;
   direction from the encoding, else the default argument, else MasterConfig) gives the canonical string *)
Theorem C12_construct : C12_construct_statement.
Proof. exact TRS_construct. Qed.
Print Assumptions C12_construct.

(* ... whose attributes decompose back to exactly those components *)
Theorem C12_decompose : C12_decompose_statement.
Proof. exact TRS_decompose. Qed.
Print Assumptions C12_decompose.

(* wrapping again is idempotent, for EVERY string (and None) *)
Theorem C12_idem : C12_idem_statement.
Proof. exact TRS_trs_idem. Qed.
Print Assumptions C12_idem.

(* the attributes of a TRS are the decomposition of its final string: re-reading .trs gives the same
   dictionary (twp, twp_num, twp_ns, rge, ..., sec, sec_num and the undefined marks), for EVERY argument *)
Theorem C12_attributes_decompose : forall x : option str, trs_to_dict (Some (d_trs (trs_to_dict x))) = trs_to_dict x.
Proof. exact trs_to_dict_idem. Qed.
Print Assumptions C12_attributes_decompose.

(* strictness, for EVERY non-empty string *)
Theorem C12_strict : C12_strict_statement.
Proof. exact TRS_strict. Qed.
Print Assumptions C12_strict.

(* non-vacuity: a concrete string on each side of the strictness disjunction, and a round trip *)
Example C12_strict_examples :
  TRS_trs (Some (s "154N97W14")) = s "154n97w14" /\ TRS_trs (Some (s "1154n97w14")) = MC_ERR_TRS /\
  TRS_trs (Some (s "154n97w")) = s "154n97wXX" /\ TRS_trs (Some (s "___z97w01")) = s "___z97w01".
Proof. vm_compute. repeat split; reflexivity. Qed.
