(* Properties/C12.v -- C12 theorems proved so far (see Spec/C12Spec.v for the full
   statements; C12_construct / C12_decompose / C12_idem / C12_strict in their full form
   are proved in Proofs/C12 as they land). *)
From Coq Require Import List NArith ZArith Bool.
From PyTRS Require Import Engine.Regex PyRt.Str Gen.Tables Model.Trs Spec.C12Spec Proofs.C12.Finite.
Import ListNotations.

(* every township < 1000, either letter, every encoding, every default: canonical *)
Theorem C12_twp_component :
  forall t ns dflt e, (t < 1000)%N -> is_ns ns = true -> is_ns dflt = true -> twp_ok t ns dflt e = true.
Proof. exact twp_component. Qed.
Print Assumptions C12_twp_component.

Theorem C12_rge_component :
  forall r ew dflt e, (r < 1000)%N -> is_ew ew = true -> is_ew dflt = true -> rge_ok r ew dflt e = true.
Proof. exact rge_component. Qed.
Print Assumptions C12_rge_component.

Theorem C12_sec_component :
  forall sc e, (sc < 100)%N -> (e = EInt \/ e = EStr) -> sec_ok sc e = true.
Proof. exact sec_component. Qed.
Print Assumptions C12_sec_component.

Theorem C12_undef : C12_undef_statement.
Proof. unfold C12_undef_statement. vm_compute. repeat split; reflexivity. Qed.
Print Assumptions C12_undef.
