(* Properties/C01.v -- documented layouts parse back to exactly their tracts.
   Unbounded theorem: the marker walk of the Twp/Rge-Sec-desc layout (any number of groups and
   sections); the four documented examples end to end.  What the finders report for a rendered
   description is the regex seam (expected_tracts oracle). *)
From Coq Require Import List NArith ZArith Bool.
From Coq Require String.
From PyTRS Require Import Engine.Regex Gen.Patterns PyRt.Str Gen.Tables Model.Trs Model.PlssPre Model.PlssParse Model.Config Model.PlssDesc Proofs.C01.Walk.
Import ListNotations.
Import String.StringSyntax.
Local Open Scope string_scope.

Definition tracts_of (text : str) : option (str * list (str * str)) :=
  match plssdesc_init_parse text [] CNone CNone (s "n") (s "w") with
  | Ok p => Some (po_layout p, map (fun t => (to_trs t, to_desc t)) (po_tracts p))
  | Raise _ => None
  end.

(* the four documented layout examples (config/layouts.py), computed on the regenerated patterns *)
Theorem C01_documented_examples :
  tracts_of (s "T154N-R97W" ++ [10%N] ++ s "Section 14: NE/4") = Some (TRS_DESC, [(s "154n97w14", s "NE/4")]) /\
  tracts_of (s "NE/4 of Section 14, T154N-R97W") = Some (DESC_STR, [(s "154n97w14", s "NE/4")]) /\
  tracts_of (s "Section 14: NE/4, T154N-R97W") = Some (S_DESC_TR, [(s "154n97w14", s "NE/4")]) /\
  tracts_of (s "T154N-R97W" ++ [10%N] ++ s "NE/4 of Section 14") = Some (TR_DESC_S, [(s "154n97w14", s "NE/4")]).
Proof. vm_compute. repeat split; reflexivity. Qed.
Print Assumptions C01_documented_examples.

(* Twp/Rge-Sec-desc, ANY number of Twp/Rge groups and ANY number of sections per group: if the markers of the
   chunk are  [leading text], then groups  T S block S block ...,  then the end of the text,  then the walk stages exactly one component per section, in
   reading order, each with its own section value, the Twp/Rge of ITS group and the cleaned text that follows
   it up to the next marker -- and both working lists are used up *)
Theorem C01_walk_trs_desc : forall txt md lead gs L tvals svals c c',
  (forall p k, In (p, k) (trs_desc_marks lead gs L) -> md_get p md = Some k) ->
  length tvals = length gs -> length svals = total_secs gs -> cp_wt_list c = tvals -> cp_ws_list c = svals ->
  walk txt true md (map fst (trs_desc_marks lead gs L)) c = Ok c' ->
  exists news, cp_tc c' = cp_tc c ++ news /\ Forall2 matches_triple news (grp_triples txt gs tvals svals L) /\
               cp_wt_list c' = [] /\ cp_ws_list c' = [].
Proof. exact trs_desc_walk_md. Qed.
Print Assumptions C01_walk_trs_desc.

(* Sec-desc-Twp/Rge: groups  S block S block ... T ; the chunk parser pops the first Twp/Rge before the walk and every
   T marker pops the next: each section is paired with the Twp/Rge that FOLLOWS its group *)
Theorem C01_walk_s_desc_tr : forall txt md lead gs L t0 tvals svals c c',
  (forall p k, In (p, k) (s_desc_tr_marks lead gs L) -> md_get p md = Some k) ->
  length svals = total_secs gs -> cp_wt_list c = t0 :: tvals -> cp_ws_list c = svals ->
  walk txt true md (map fst (s_desc_tr_marks lead gs L)) (get_next_twprge c) = Ok c' ->
  exists news, cp_tc c' = cp_tc c ++ news /\ Forall2 matches_triple news (grp_triples_str txt gs t0 tvals svals) /\ cp_ws_list c' = [].
Proof. exact s_desc_tr_walk. Qed.
Print Assumptions C01_walk_s_desc_tr.

(* Twp/Rge-desc-Sec: groups  T block S block S ... ; a block becomes the description of the section that FOLLOWS it *)
Theorem C01_walk_tr_desc_s : forall txt md lead gs L tvals svals c c',
  (forall p k, In (p, k) (tr_desc_s_marks lead gs L) -> md_get p md = Some k) -> (lead = true -> gs <> []) ->
  cp_wt_list c = tvals -> cp_ws_list c = svals ->
  walk txt false md (map fst (tr_desc_s_marks lead gs L)) (get_next_sec c) = Ok c' ->
  exists news, cp_tc c' = cp_tc c ++ news /\ Forall2 matches_triple news (grp_triples_trd txt gs tvals (next_sec svals) (tl svals)).
Proof. exact tr_desc_s_walk. Qed.
Print Assumptions C01_walk_tr_desc_s.

(* desc-Sec-Twp/Rge: groups  block S block S ... T ; each block belongs to the section after it and to the Twp/Rge
   that closes its group *)
Theorem C01_walk_desc_str : forall txt md gs tail tvals svals c c',
  (tail = [] \/ exists L, tail = [(L, TEXT_END)]) ->
  (forall p k, In (p, k) (dstr_marks 0 TEXT_START gs tail) -> md_get p md = Some k) ->
  cp_wt_list c = tvals -> cp_ws_list c = svals ->
  walk txt false md (map fst (dstr_marks 0 TEXT_START gs tail)) (get_next_twprge (get_next_sec c)) = Ok c' ->
  exists news, cp_tc c' = cp_tc c ++ news /\
    Forall2 matches_triple news (dstr_triples txt gs 0 (next_tw tvals) (tl tvals) (next_sec svals) (tl svals)).
Proof. exact desc_str_walk. Qed.
Print Assumptions C01_walk_desc_str.

(* non-vacuity: the markers the real finders produce for a two-group description have exactly that shape *)
Definition ex_text : str := s "T154N-R97W Sec 14: NE/4, Sec 15: W/2" ++ [10%N] ++ s "T155N-R97W Sec 1: ALL".
Example C01_walk_premises :
  match twprge_finder ex_text (Some TRS_DESC) (s "n") (s "w"), sec_finder ex_text (Some TRS_DESC) (RC_bool false) with
  | Ok tf, Ok sf =>
      let md := populate_markers ex_text (sf_matches sf) (tf_matches tf) in
      let gs := [mk_grp 0 10 [mk_secm 11 18; mk_secm 25 32]; mk_grp 37 47 [mk_secm 48 54]] in
      sort_nat (map fst md) = map fst (trs_desc_marks false gs 58) /\
      forallb (fun pk => match md_get (fst pk) md with Some k => mk_eqb k (snd pk) | None => false end) (trs_desc_marks false gs 58) = true /\
      map tm_val (tf_matches tf) = [s "154n97w"; s "155n97w"] /\ map sm_val (sf_matches sf) = [[s "14"]; [s "15"]; [s "01"]]
  | _, _ => False
  end.
Proof. vm_compute. repeat split; reflexivity. Qed.
