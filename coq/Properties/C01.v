(* Properties/C01.v -- placeholder statements are replaced as the proofs land (see below). *)
From Coq Require Import List NArith ZArith Bool.
From Coq Require String.
From PyTRS Require Import Engine.Regex Gen.Patterns PyRt.Str Gen.Tables Model.Trs Model.PlssPre Model.PlssParse Model.Config Model.PlssDesc.
Import ListNotations.
Import String.StringSyntax.
Local Open Scope string_scope.

Definition tracts_of (text : str) : option (str * list (str * str)) :=
  match plssdesc_init_parse text [] CNone CNone (s "n") (s "w") with
  | Ok p => Some (po_layout p, map (fun t => (to_trs t, to_desc t)) (po_tracts p))
  | Raise _ => None
  end.

(* the four documented layout examples (config/layouts.py), computed on the regenerated patterns *)
Theorem C01_documented_examples :
  tracts_of (s "T154N-R97W" ++ [10%N] ++ s "Section 14: NE/4") = Some (TRS_DESC, [(s "154n97w14", s "NE/4")]) /\
  tracts_of (s "NE/4 of Section 14, T154N-R97W") = Some (DESC_STR, [(s "154n97w14", s "NE/4")]) /\
  tracts_of (s "Section 14: NE/4, T154N-R97W") = Some (S_DESC_TR, [(s "154n97w14", s "NE/4")]) /\
  tracts_of (s "T154N-R97W" ++ [10%N] ++ s "NE/4 of Section 14") = Some (TR_DESC_S, [(s "154n97w14", s "NE/4")]).
Proof. vm_compute. repeat split; reflexivity. Qed.
Print Assumptions C01_documented_examples.
