(* Extract/DispExport.v -- wire entry points of Model/Export.v *)
From Coq Require Import List NArith ZArith Bool.
From Coq Require String.
From PyTRS Require Import Engine.Regex PyRt.Str Extract.Val Extract.DispBase Extract.DispTrs Extract.DispContainers Model.Trs Model.Export.
Import ListNotations.
Import String.StringSyntax.
Local Open Scope string_scope.

Definition scalar_of_pv (v : pv) : option scalar :=
  match v with
  | VStr t => Some (SStr t) | VInt z => Some (SInt z) | VBool b => Some (SBool b) | VNone => Some SNone
  | _ => None
  end.
Definition pv_of_scalar (x : scalar) : pv :=
  match x with SStr t => VStr t | SInt z => VInt z | SBool b => VBool b | SNone => VNone end.

Definition scalars_of (l : list pv) : option (list scalar) := map_opt scalar_of_pv l.

Definition aval_of_pv (v : pv) : option aval :=
  match v with
  | VTuple [VStr tag; x] =>
      if str_eqb tag (s "S") then option_map VScalar (scalar_of_pv x)
      else if str_eqb tag (s "L") then match x with VList l => option_map VSeq (scalars_of l) | _ => None end
      else if str_eqb tag (s "L2") then
        match x with
        | VList l => option_map VSeq2 (map_opt (fun y => match y with VList r => scalars_of r | VTuple r => scalars_of r | _ => None end) l)
        | _ => None
        end
      else if str_eqb tag (s "M") then
        match x with
        | VList l => option_map VMap (map_opt (fun y => match y with
                                                        | VTuple [k; w] => match scalar_of_pv k, scalar_of_pv w with
                                                                           | Some a, Some b => Some (a, b) | _, _ => None end
                                                        | _ => None end) l)
        | _ => None
        end
      else None
  | _ => None
  end.

Definition pv_of_aval (v : aval) : pv :=
  match v with
  | VScalar x => VTuple [VStr (s "S"); pv_of_scalar x]
  | VSeq l => VTuple [VStr (s "L"); VList (map pv_of_scalar l)]
  | VSeq2 l => VTuple [VStr (s "L2"); VList (map (fun r => VList (map pv_of_scalar r)) l)]
  | VMap l => VTuple [VStr (s "M"); VList (map (fun kv => VTuple [pv_of_scalar (fst kv); pv_of_scalar (snd kv)]) l)]
  end.

Definition tract_of_pv (v : pv) : option tract :=
  match v with
  | VList l => map_opt (fun y => match y with
                                 | VTuple [VStr k; w] => option_map (fun a => (k, a)) (aval_of_pv w)
                                 | _ => None end) l
  | _ => None
  end.

Definition tracts_of_pv (v : pv) : option (list tract) :=
  match v with VList l => map_opt tract_of_pv l | _ => None end.

Definition nice_of_pv (v : pv) : option nice :=
  match v with
  | VNone => Some NiceOff
  | VBool false => Some NiceOff
  | VBool true => Some NiceOn
  | VList l => option_map NiceList (map_opt (fun y => match y with VStr t => Some t | _ => None end) l)
  | VTuple l => option_map NiceDict (map_opt (fun y => match y with VTuple [VStr k; VStr h] => Some (k, h) | _ => None end) l)
  | _ => None
  end.

Definition vrows (r : list (list scalar)) : pv := VList (map (fun row => VList (map pv_of_scalar row)) r).

Definition dispatch_export (entry : str) (args : list pv) : option pv :=
  if str_eqb entry (s "to_list") then
    match args with
    | [t; atts] => match tract_of_pv t, strs_of_pv atts with
                   | Some t', Some a => Some (VList (map pv_of_aval (to_list t' a)))
                   | _, _ => Some bad end
    | _ => Some bad
    end
  else if str_eqb entry (s "tracts_to_csv") then
    match args with
    | [ts; atts; VBool ex; VBool ap; n] =>
        match tracts_of_pv ts, strs_of_pv atts, nice_of_pv n with
        | Some l, Some a, Some n' => Some (vrows (tracts_to_csv l a ex ap n'))
        | _, _, _ => Some bad
        end
    | _ => Some bad
    end
  else if str_eqb entry (s "tractwriter") then
    match args with
    | [ts; atts; VBool ex; VBool ap; n; hp; VList wp; uid] =>
        match tracts_of_pv ts, strs_of_pv atts, nice_of_pv n, strs_of_pv hp, scalars_of wp, voptZ uid with
        | Some l, Some a, Some n', Some hp', Some wp', Some u => Some (vrows (tractwriter l a ex ap n' hp' wp' u))
        | _, _, _, _, _, _ => Some bad
        end
    | _ => Some bad
    end
  else None.
