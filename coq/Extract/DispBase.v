(* Extract/DispBase.v -- entry points callable from the harness.  The OCaml driver is
   generic: it parses a line into [pv]s, calls [dispatch], prints the result. *)
From Coq Require Import List NArith ZArith Bool.
From Coq Require String.
From PyTRS Require Import Engine.Regex Gen.Patterns PyRt.Str Extract.Val.
Import ListNotations.
Import String.StringSyntax.
Local Open Scope string_scope.

Fixpoint lookup_pat (name : str) (l : list (str * (re * nat))) : option (re * nat) :=
  match l with
  | [] => None
  | (n, p) :: t => if str_eqb n name then Some p else lookup_pat name t
  end.

Definition vspan (o : option (nat * nat)) : pv :=
  match o with Some (a, b) => VTuple [vnat a; vnat b] | None => VNone end.

Definition vmo (x : mo) : pv :=
  VTuple [vnat (mstart x); vnat (mend x); VList (map vspan (tl (mcaps x)))].

Definition bad : pv := VExn (s "BadCall").

Definition dispatch_engine (entry : str) (args : list pv) : option pv :=
  match args with
  | [VStr pn; VStr t; VInt pos; VInt endpos] =>
      match lookup_pat pn all_patterns with
      | None => Some bad
      | Some (r, ng) =>
          let p := Z.to_nat pos in let e := Z.to_nat endpos in
          if str_eqb entry (s "re_search") then Some (vopt vmo (search_pe r ng t p e))
          else if str_eqb entry (s "re_match") then Some (vopt vmo (match_pe r ng t p e))
          else if str_eqb entry (s "re_finditer") then Some (VList (map vmo (finditer_pe r ng t p e)))
          else None
      end
  | [VStr pn; VStr t] =>
      match lookup_pat pn all_patterns with
      | None => Some bad
      | Some (r, ng) =>
          if str_eqb entry (s "re_fullmatch") then Some (vopt vmo (fullmatch r ng t))
          else if str_eqb entry (s "re_split") then Some (VList (map VStr (split r ng t)))
          else None
      end
  | [VStr pn; VStr repl; VStr t] =>
      match lookup_pat pn all_patterns with
      | None => Some bad
      | Some (r, ng) =>
          if str_eqb entry (s "re_sub") then Some (VStr (sub r ng repl t))
          else None
      end
  | _ => None
  end.


Definition vnone_model : pv := VExn (s "ModelNone").
Definition voptZ (v : pv) : option (option Z) :=
  match v with VNone => Some None | VInt z => Some (Some z) | _ => None end.

Fixpoint first_some_of (fs : list (str -> list pv -> option pv)) (entry : str) (args : list pv) : pv :=
  match fs with
  | [] => bad
  | f :: t => match f entry args with Some v => v | None => first_some_of t entry args end
  end.

