(* driver for the objects group (histories) *)
From Coq Require Import List.
From PyTRS Require Import Engine.Regex Extract.Val Extract.DispBase Extract.DispPlss Extract.DispObjects Extract.DispGlobal.
Import ListNotations.
Definition dispatch (entry : str) (args : list pv) : pv :=
  first_some_of [dispatch_global; dispatch_objects; dispatch_plss; dispatch_engine] entry args.
