(* Extract/DispObjects.v -- wire entry points of Model/Objects.v (operation histories) *)
From Coq Require Import List NArith ZArith Bool.
From Coq Require String.
From PyTRS Require Import Engine.Regex PyRt.Str Gen.Tables Extract.Val Extract.DispBase Extract.DispTrs Extract.DispContainers
     Extract.DispTract Extract.DispConfig Extract.DispPlss Model.Trs Model.TractParse Model.PlssParse Model.Config Model.PlssDesc Model.Objects.
Import ListNotations.
Import String.StringSyntax.
Local Open Scope string_scope.

Definition vtobj (t : tract_obj) : pv :=
  VList [VStr (tj_trs t); VStr (tj_desc t); vnat (tj_index t); VStr (tj_pp_desc t); VBool (tj_complete t);
         vstrs (tj_lots t); vstrs (tj_qqs t); vdict (tj_acres t); vstrs (tj_whole t); vflagset (tj_flags t);
         pv_of_cfg (tj_attrs t)].

Definition vpobj (o : plss_obj) : pv :=
  VList [VStr (pj_pp_desc o); vos (pj_layout o); VList (map vtobj (pj_tracts o)); vflagset (pj_flags o); pv_of_cfg (pj_attrs o)].

Definition tract_op_of_pv (v : pv) : option tract_op :=
  match v with
  | VTuple [VStr k; VBool commit; kws] =>
      if str_eqb k (s "parse") then option_map (TParse commit) (cfg_of_pv kws)
      else if str_eqb k (s "preprocess") then option_map (TPreprocess commit) (cval_of_pv kws)
      else None
  | VTuple [VStr k; VStr text] => if str_eqb k (s "config") then Some (TSetConfig text) else None
  | _ => None
  end.

Definition plss_op_of_pv (v : pv) : option plss_op :=
  match v with
  | VTuple [VStr k; VBool commit; kws] =>
      if str_eqb k (s "parse") then option_map (PParse commit) (cfg_of_pv kws) else None
  | VTuple [VStr k; VBool commit] => if str_eqb k (s "preprocess") then Some (PPreprocess commit) else None
  | VTuple [VStr k; c; kws] =>
      if str_eqb k (s "parse_tracts") then
        match ostr_of_pv c, cfg_of_pv kws with Some c', Some k' => Some (PParseTracts c' k') | _, _ => None end
      else None
  | VTuple [VStr k; VStr text] => if str_eqb k (s "config") then Some (PSetConfig text) else None
  | _ => None
  end.

Definition dispatch_objects (entry : str) (args : list pv) : option pv :=
  if str_eqb entry (s "tract_history") then
    match args with
    | [VStr desc; VStr trs; VStr config; pq; VList ops] =>
        match cval_of_pv pq, map_opt tract_op_of_pv ops with
        | Some p, Some os => Some (vpy vtobj (do t <- tract_new desc trs config p 0; tract_run t os))
        | _, _ => Some bad
        end
    | _ => Some bad
    end
  else if str_eqb entry (s "plss_history") then
    match args with
    | [VStr text; VStr config; pq; VBool wait; VList ops; VStr mcns; VStr mcew] =>
        match cval_of_pv pq, map_opt plss_op_of_pv ops with
        | Some p, Some os => Some (vpy vpobj (do o <- plss_new text config p wait mcns mcew; plss_run o os))
        | _, _ => Some bad
        end
    | _ => Some bad
    end
  else None.
