(* Extract/DispTrs.v -- wire entry points of Model/Trs.v *)
From Coq Require Import List NArith ZArith Bool.
From Coq Require String.
From PyTRS Require Import Engine.Regex PyRt.Str Extract.Val Extract.DispBase Model.Trs.
Import ListNotations.
Import String.StringSyntax.
Local Open Scope string_scope.

Definition exn_name (e : exn) : str :=
  match e with
  | TypeError => s "TypeError" | ValueError => s "ValueError" | ConfigError => s "ConfigError"
  | DefaultNSError => s "DefaultNSError" | DefaultEWError => s "DefaultEWError"
  | IndexError => s "IndexError" | AttributeError => s "AttributeError"
  | KeyError => s "KeyError" | OutOfFuel => s "OutOfFuel" | ModelGap => s "ModelGap"
  end.

Definition vpy {A} (f : A -> pv) (x : Py A) : pv :=
  match x with Ok a => f a | Raise e => VExn (exn_name e) end.

Definition tin_of_pv (v : pv) : option tin :=
  match v with
  | VNone => Some TNone
  | VInt z => Some (TInt z)
  | VStr t => Some (TStr t)
  | _ => None
  end.

Definition ostr_of_pv (v : pv) : option (option str) :=
  match v with VNone => Some None | VStr t => Some (Some t) | _ => None end.

Definition voz (o : option Z) : pv := match o with Some z => VInt z | None => VNone end.
Definition vos (o : option str) : pv := match o with Some t => VStr t | None => VNone end.

Definition vtrsdict (d : trsdict) : pv :=
  VList [VStr (d_trs d); VStr (d_twp d); voz (d_twp_num d); vos (d_twp_ns d); VBool (d_twp_undef d);
         VStr (d_rge d); voz (d_rge_num d); vos (d_rge_ew d); VBool (d_rge_undef d);
         vos (d_sec d); voz (d_sec_num d); VBool (d_sec_undef d)].

Definition dispatch_trs (entry : str) (args : list pv) : option pv :=
  if str_eqb entry (s "construct_trs") then
    match args with
    | [twp; rge; sec; dns; dew; VBool ocr; VStr mcns; VStr mcew] =>
        match tin_of_pv twp, tin_of_pv rge, tin_of_pv sec, ostr_of_pv dns, ostr_of_pv dew with
        | Some a, Some b, Some c, Some d, Some e =>
            Some (vpy VStr (construct_trs a b c d e ocr mcns mcew))
        | _, _, _, _, _ => Some bad
        end
    | _ => Some bad
    end
  else if str_eqb entry (s "trs_to_dict") then
    match args with
    | [x] => match ostr_of_pv x with
             | Some o => Some (vtrsdict (trs_to_dict o))
             | None => Some bad
             end
    | _ => Some bad
    end
  else if str_eqb entry (s "pretty_twprge") then
    match args with
    | [x] => match ostr_of_pv x with
             | Some o => Some (VStr (pretty_twprge (trs_to_dict o)))
             | None => Some bad
             end
    | _ => Some bad
    end
  else if str_eqb entry (s "ocr_scrub") then
    match args with
    | [VStr t] => Some (VStr (ocr_scrub_alpha_to_num t))
    | _ => Some bad
    end
  else None.
