(* driver for the aliquot group: engine + aliquot model *)
From Coq Require Import List.
From PyTRS Require Import Engine.Regex Extract.Val Extract.DispBase Extract.DispAliquot.
Import ListNotations.
Definition dispatch (entry : str) (args : list pv) : pv :=
  first_some_of [dispatch_engine; dispatch_aliquot] entry args.
