(* Extract/DispAliquot.v -- wire entry points of Model/Aliquot.v *)
From Coq Require Import List NArith ZArith Bool.
From Coq Require String.
From PyTRS Require Import Engine.Regex PyRt.Str Extract.Val Extract.DispBase Model.Aliquot.
Import ListNotations.
Import String.StringSyntax.
Local Open Scope string_scope.

Fixpoint comps_of_pv (l : list pv) : option (list comp) :=
  match l with
  | [] => Some []
  | VStr x :: t =>
      match comp_of_str x, comps_of_pv t with
      | Some c, Some r => Some (c :: r)
      | _, _ => None
      end
  | _ => None
  end.

Definition vcomps (o : option (list comp)) : pv :=
  match o with Some l => VList (map (fun c => VStr (cstr c)) l) | None => vnone_model end.

Definition dispatch_aliquot (entry : str) (args : list pv) : option pv :=
  if str_eqb entry (s "parse_aliquot") then
    match args with
    | [VStr t; VInt mn; mx; qq; VBool bh] =>
        match voptZ mx, voptZ qq with
        | Some mx', Some qq' =>
            Some (match parse_aliquot t mn mx' qq' bh with
                  | Some l => VList (map VStr l)
                  | None => vnone_model
                  end)
        | _, _ => Some bad
        end
    | _ => Some bad
    end
  else if str_eqb entry (s "standardize") then
    match args with
    | [VList l] =>
        match comps_of_pv l with
        | Some cs => Some (vcomps (standardize_aliquot_components cs))
        | None => Some bad
        end
    | _ => Some bad
    end
  else if str_eqb entry (s "pass_back_halves") then
    match args with
    | [VList l] =>
        match comps_of_pv l with
        | Some cs => Some (vcomps (pass_back_halves cs))
        | None => Some bad
        end
    | _ => Some bad
    end
  else if str_eqb entry (s "combine_consecutive_halves") then
    match args with
    | [VList l] =>
        match comps_of_pv l with
        | Some cs => Some (vcomps (combine_consecutive_halves cs))
        | None => Some bad
        end
    | _ => Some bad
    end
  else None.

