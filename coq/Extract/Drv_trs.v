(* driver for the trs group: engine + TRS model *)
From Coq Require Import List.
From PyTRS Require Import Engine.Regex Extract.Val Extract.DispBase Extract.DispTrs.
Import ListNotations.
Definition dispatch (entry : str) (args : list pv) : pv :=
  first_some_of [dispatch_engine; dispatch_trs] entry args.
