(* Extract/DispPlss.v -- wire entry points of Model/PlssPre.v, PlssParse.v, PlssDesc.v *)
From Coq Require Import List NArith ZArith Bool.
From Coq Require String.
From PyTRS Require Import Engine.Regex PyRt.Str Gen.Tables Extract.Val Extract.DispBase Extract.DispTrs Extract.DispContainers
     Extract.DispTract Extract.DispConfig Model.Trs Model.Unpack Model.TractParse Model.PlssPre Model.PlssParse Model.Config Model.PlssDesc.
Import ListNotations.
Import String.StringSyntax.
Local Open Scope string_scope.

Definition vflagset (f : flagset) : pv :=
  VList [vstrs (w_flags f); vflines (w_flag_lines f); vstrs (e_flags f); vflines (e_flag_lines f)].

Definition vtract_out (t : tract_out) : pv :=
  VList [VStr (to_trs t); VStr (to_desc t); vnat (to_orig_index t); VStr (to_pp_desc t); VBool (to_parse_complete t);
         vstrs (to_lots t); vstrs (to_qqs t); vdict (to_lot_acres t); vstrs (to_aliquots_whole t); vflagset (to_flags t)].

Definition vparser_out (p : parser_out) : pv :=
  VList [VStr (po_text p); VStr (po_layout p); VList (map vtract_out (po_tracts p)); vflagset (po_flags p)].

Definition obool_pv (v : pv) : option (option bool) :=
  match v with VNone => Some None | VBool b => Some (Some b) | _ => None end.

Definition dflt_of (dns dew : pv) (mcns mcew : str) : option dflt :=
  match ostr_of_pv dns, ostr_of_pv dew with
  | Some a, Some b => Some (mk_dflt a b mcns mcew)
  | _, _ => None
  end.

Definition vtfinder (f : tfinder) : pv :=
  VList [VList (map (fun m => VTuple [VStr (tm_val m); vnat (tm_start m); vnat (tm_end m)]) (tf_matches f));
         vstrs (tf_flags f); vflines (tf_flag_lines f)].
Definition vsfinder (f : sfinder) : pv :=
  VList [VList (map (fun m => VTuple [vstrs (sm_val m); vnat (sm_start m); vnat (sm_end m)]) (sf_matches f));
         vstrs (sf_flags f); vflines (sf_flag_lines f)].

Definition rc_of_pv (v : pv) : option reqcolon :=
  match v with
  | VBool b => Some (RC_bool b)
  | VStr t => if str_eqb t SEC_COLON_CAUTIOUS then Some RC_cautious else if str_eqb t SECOND_PASS then Some RC_second else None
  | _ => None
  end.

Definition dispatch_plss (entry : str) (args : list pv) : option pv :=
  if str_eqb entry (s "plssdesc") then
    match args with
    | [VStr text; VStr config; layout; pq; VStr mcns; VStr mcew] =>
        match cval_of_pv layout, cval_of_pv pq with
        | Some l, Some p => Some (vpy vparser_out (plssdesc_init_parse text config l p mcns mcew))
        | _, _ => Some bad
        end
    | _ => Some bad
    end
  else if str_eqb entry (s "plssdesc_parse") then
    match args with
    | [VStr text; VStr config; layout; pq; kws; cu; VStr mcns; VStr mcew] =>
        match cval_of_pv layout, cval_of_pv pq, cfg_of_pv kws, obool_pv cu with
        | Some l, Some p, Some k, Some c => Some (vpy vparser_out (plssdesc_parse_kw text config l p k c mcns mcew))
        | _, _, _, _ => Some bad
        end
    | _ => Some bad
    end
  else if str_eqb entry (s "plss_preprocess") then
    match args with
    | [VStr text; dns; dew; VBool ocr; VStr mcns; VStr mcew] =>
        match dflt_of dns dew mcns mcew with
        | Some d => Some (vpy (fun r => VList [VStr (fst r); vstrs (snd r)]) (plss_preprocess text d ocr))
        | None => Some bad
        end
    | _ => Some bad
    end
  else if str_eqb entry (s "find_twprge") then
    match args with
    | [VStr text; dns; dew; VBool pre; VBool ocr; VStr mcns; VStr mcew] =>
        match dflt_of dns dew mcns mcew with
        | Some d => Some (vpy vstrs (find_twprge text d pre ocr))
        | None => Some bad
        end
    | _ => Some bad
    end
  else if str_eqb entry (s "find_sec") then
    match args with [VStr text] => Some (vpy vstrs (find_sec text)) | _ => Some bad end
  else if str_eqb entry (s "deduce_layout") then
    match args with [VStr text] => Some (VStr (deduce_layout text)) | _ => Some bad end
  else if str_eqb entry (s "cleanup_desc") then
    match args with [VStr text] => Some (vpy VStr (cleanup_desc text)) | _ => Some bad end
  else if str_eqb entry (s "reduce_whitespace") then
    match args with [VStr text] => Some (vpy VStr (reduce_whitespace text)) | _ => Some bad end
  else if str_eqb entry (s "twprge_finder") then
    match args with
    | [VStr text; layout; VStr mcns; VStr mcew] =>
        match ostr_of_pv layout with
        | Some l => Some (vpy vtfinder (twprge_finder text l mcns mcew))
        | None => Some bad
        end
    | _ => Some bad
    end
  else if str_eqb entry (s "sec_finder") then
    match args with
    | [VStr text; layout; rc] =>
        match ostr_of_pv layout, rc_of_pv rc with
        | Some l, Some r => Some (vpy vsfinder (sec_finder text l r))
        | _, _ => Some bad
        end
    | _ => Some bad
    end
  else None.
