(* Extract/Val.v -- a small universal value type used on the wire between the
   extracted model and the Python harness. *)
From Coq Require Import List NArith ZArith.
From PyTRS Require Import Engine.Regex PyRt.Str.
Import ListNotations.

Inductive pv :=
| VNone
| VBool (b : bool)
| VInt (z : Z)
| VStr (s : str)
| VList (l : list pv)
| VTuple (l : list pv)
| VExn (name : str).

Definition vnat (n : nat) : pv := VInt (Z.of_nat n).
Definition vopt {A} (f : A -> pv) (o : option A) : pv :=
  match o with Some x => f x | None => VNone end.
