(* Extract/Val.v -- a small universal value type used on the wire between the
   extracted model and the Python harness. *)
From Coq Require Import List NArith ZArith String Ascii.
From PyTRS Require Import Engine.Regex.
Import ListNotations.

Inductive pv :=
| VNone
| VBool (b : bool)
| VInt (z : Z)
| VStr (s : str)
| VList (l : list pv)
| VTuple (l : list pv)
| VExn (name : str).

(* ASCII string literal -> code points *)
Definition s (x : string) : str := map N_of_ascii (list_ascii_of_string x).

Fixpoint str_eqb (a b : str) : bool :=
  match a, b with
  | [], [] => true
  | x :: a', y :: b' => (x =? y)%N && str_eqb a' b'
  | _, _ => false
  end.

Definition vnat (n : nat) : pv := VInt (Z.of_nat n).
Definition vopt {A} (f : A -> pv) (o : option A) : pv :=
  match o with Some x => f x | None => VNone end.
