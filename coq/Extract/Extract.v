(* Extract/Extract.v -- extraction of the executable model (ExtrOcamlBasic only). *)
From Coq Require Import Extraction ExtrOcamlBasic.
From PyTRS Require Import Extract.Driver.
Extraction "model.ml" dispatch.
