(* driver for the tract group *)
From Coq Require Import List.
From PyTRS Require Import Engine.Regex Extract.Val Extract.DispBase Extract.DispAliquot Extract.DispTract.
Import ListNotations.
Definition dispatch (entry : str) (args : list pv) : pv :=
  first_some_of [dispatch_engine; dispatch_aliquot; dispatch_tract] entry args.
