(* Extract/DispTract.v -- wire entry points of Model/Unpack.v, TractPre.v, TractParse.v *)
From Coq Require Import List NArith ZArith Bool.
From Coq Require String.
From PyTRS Require Import Engine.Regex PyRt.Str Extract.Val Extract.DispBase Extract.DispTrs Extract.DispContainers
     Model.Trs Model.Unpack Model.TractPre Model.TractParse.
Import ListNotations.
Import String.StringSyntax.
Local Open Scope string_scope.

Definition vflines (l : list flagline) : pv := VList (map (fun p => VTuple [VStr (fst p); VStr (snd p)]) l).
Definition vstrs (l : list str) : pv := VList (map VStr l).
Definition vdict (l : list (str * str)) : pv := VList (map (fun p => VTuple [VStr (fst p); VStr (snd p)]) l).

Definition flines_of_pv (v : pv) : option (list flagline) :=
  match v with
  | VList l => map_opt (fun y => match y with VTuple [VStr a; VStr b] => Some (a, b) | _ => None end) l
  | _ => None
  end.

Definition flagset_of_pv (v : pv) : option flagset :=
  match v with
  | VList [w; wl; e; el] =>
      match strs_of_pv w, flines_of_pv wl, strs_of_pv e, flines_of_pv el with
      | Some a, Some b, Some c, Some d => Some (mk_flagset a b c d)
      | _, _, _, _ => None
      end
  | _ => None
  end.

Definition vtract_parsed (r : tract_parsed) : pv :=
  VList [VStr (tp_text r); vstrs (tp_lots r); vstrs (tp_qqs r); vdict (tp_lot_acres r); vstrs (tp_aliquots_whole r);
         vstrs (w_flags (tp_flags r)); vflines (w_flag_lines (tp_flags r));
         vstrs (e_flags (tp_flags r)); vflines (e_flag_lines (tp_flags r))].

Definition dispatch_tract (entry : str) (args : list pv) : option pv :=
  if str_eqb entry (s "tract_parser") then
    match args with
    | [VStr t; VBool cq; VBool sup; VInt mn; mx; qq; VBool bh; parent] =>
        match voptZ mx, voptZ qq, flagset_of_pv parent with
        | Some mx', Some qq', Some p => Some (vpy vtract_parsed (tract_parser t cq sup mn mx' qq' bh p))
        | _, _, _ => Some bad
        end
    | _ => Some bad
    end
  else if str_eqb entry (s "scrub_aliquots") then
    match args with
    | [VStr t; VBool cq] => Some (vpy VStr (scrub_aliquots t cq))
    | _ => Some bad
    end
  else if str_eqb entry (s "sec_unpacker") then
    match args with
    | [VStr t] => Some (vpy (fun u => VList [vstrs (su_list u); vstrs (su_flags u); vflines (su_flag_lines u)]) (sec_unpacker t))
    | _ => Some bad
    end
  else if str_eqb entry (s "lot_unpacker") then
    match args with
    | [VStr t] => Some (vpy (fun u => VList [vstrs (lu_list u); vdict (lu_acres u); vstrs (lu_flags u);
                                             vflines (lu_flag_lines u); VInt (lu_aliquots_through u)]) (lot_unpacker t))
    | _ => Some bad
    end
  else None.
