(* Extract/DispGlobal.v -- wire entry point of Model/Global.v *)
From Coq Require Import List NArith ZArith Bool.
From Coq Require String.
From PyTRS Require Import Engine.Regex PyRt.Str Gen.Tables Extract.Val Extract.DispBase Extract.DispTrs Extract.DispContainers
     Extract.DispTract Extract.DispConfig Extract.DispPlss Extract.DispObjects Model.Trs Model.PlssParse Model.Objects Model.Global.
Import ListNotations.
Import String.StringSyntax.
Local Open Scope string_scope.

Definition gop_of_pv (v : pv) : option gop :=
  match v with
  | VTuple [VStr k] =>
      if str_eqb k (s "clear") then Some GClear else if str_eqb k (s "mutate") then Some GMutate else None
  | VTuple [VStr k; x] =>
      if str_eqb k (s "trs") then option_map GTRS (ostr_of_pv x)
      else if str_eqb k (s "todict") then option_map GToDict (ostr_of_pv x)
      else if str_eqb k (s "use") then match x with VBool b => Some (GUse b) | _ => None end
      else if str_eqb k (s "find") then match x with VStr t => Some (GFindTwprge t) | _ => None end
      else None
  | VTuple [VStr k; VStr a; VStr b] =>
      if str_eqb k (s "master") then Some (GMaster a b)
      else if str_eqb k (s "parse") then Some (GParse a b) else None
  | VTuple [VStr k; a; b; c] =>
      if str_eqb k (s "construct") then
        match tin_of_pv a, tin_of_pv b, tin_of_pv c with Some x, Some y, Some z => Some (GConstruct x y z) | _, _, _ => None end
      else if str_eqb k (s "tract") then
        match a, b, c with VStr d, VStr t, VStr cf => Some (GTract d t cf) | _, _, _ => None end
      else None
  | _ => None
  end.

Definition vgout (o : gout) : pv :=
  match o with
  | OTrs d => vtrsdict d
  | OStr r => vpy VStr r
  | OParse r => vpy vparser_out r
  | OTract r => vpy vtobj r
  | OList r => vpy vstrs r
  | OUnit => VNone
  end.

Definition dispatch_global (entry : str) (args : list pv) : option pv :=
  if str_eqb entry (s "ghistory") then
    match args with
    | [VList ops] =>
        match map_opt gop_of_pv ops with
        | Some os => Some (VList (map vgout (snd (grun g0 os))))
        | None => Some bad
        end
    | _ => Some bad
    end
  else None.
