(* Extract/DispContainers.v -- wire entry points of Model/Containers.v *)
From Coq Require Import List NArith ZArith Bool.
From Coq Require String.
From PyTRS Require Import Engine.Regex PyRt.Str Extract.Val Extract.DispBase Extract.DispTrs Model.Trs Model.Containers.
Import ListNotations.
Import String.StringSyntax.
Local Open Scope string_scope.

Definition obool_of_pv (v : pv) : option (option bool) :=
  match v with VNone => Some None | VBool b => Some (Some b) | _ => None end.

Definition elt_of_pv (v : pv) : option elt :=
  match v with
  | VTuple [VInt i; VBool tr; VInt uid; tn; tns; rn; rew; sn] =>
      match voptZ tn, obool_of_pv tns, voptZ rn, obool_of_pv rew, voptZ sn with
      | Some a, Some b, Some c, Some d, Some e => Some (mk_elt (Z.to_nat i) tr uid a b c d e)
      | _, _, _, _, _ => None
      end
  | _ => None
  end.

Fixpoint map_opt {A B} (f : A -> option B) (l : list A) : option (list B) :=
  match l with
  | [] => Some []
  | x :: t => match f x, map_opt f t with Some y, Some r => Some (y :: r) | _, _ => None end
  end.

Definition dup_of_pv (i : nat) (v : pv) : option dup_elt :=
  match v with
  | VTuple [VStr h; VNone] => Some (mk_dup_elt i h None)
  | VTuple [VStr h; VStr k] => Some (mk_dup_elt i h (Some k))
  | _ => None
  end.

Fixpoint dups_of_pv (i : nat) (l : list pv) : option (list dup_elt) :=
  match l with
  | [] => Some []
  | x :: t => match dup_of_pv i x, dups_of_pv (S i) t with Some y, Some r => Some (y :: r) | _, _ => None end
  end.

Definition bool_of_pv (v : pv) : option bool := match v with VBool b => Some b | _ => None end.
Definition strs_of_pv (v : pv) : option (list str) :=
  match v with VList l => map_opt (fun x => match x with VStr t => Some t | _ => None end) l | _ => None end.

Fixpoint number {A} (i : nat) (l : list A) : list (nat * A) :=
  match l with [] => [] | x :: t => (i, x) :: number (S i) t end.

Fixpoint strs_eqb (a b : list str) : bool :=
  match a, b with
  | [], [] => true
  | x :: a', y :: b' => str_eqb x y && strs_eqb a' b'
  | _, _ => false
  end.

Definition dispatch_containers (entry : str) (args : list pv) : option pv :=
  if str_eqb entry (s "custom_sort") then
    match args with
    | [VStr key; VBool reverse; VList l] =>
        match map_opt elt_of_pv l with
        | Some es => Some (vpy (fun r => VList (map (fun e => vnat (e_id e)) r)) (custom_sort key reverse es))
        | None => Some bad
        end
    | _ => Some bad
    end
  else if str_eqb entry (s "filter") then
    match args with
    | [VList mask; VBool drop] =>
        match map_opt bool_of_pv mask with
        | Some m =>
            Some (vpy (fun r => VTuple [VList (map (fun p => vnat (fst p)) (fst r));
                                        VList (map (fun p => vnat (fst p)) (snd r))])
                      (filter_model (fun p : nat * bool => snd p) drop (number 0 m)))
        | None => Some bad
        end
    | _ => Some bad
    end
  else if str_eqb entry (s "filter_duplicates") then
    match args with
    | [VBool only_instance; VBool drop; VList l] =>
        match dups_of_pv 0 l with
        | Some es =>
            Some (vpy (fun r => VTuple [VList (map (fun e => vnat (de_id e)) (fst r));
                                        VList (map (fun e => vnat (de_id e)) (snd r))])
                      (filter_duplicates_model only_instance drop es))
        | None => Some bad
        end
    | _ => Some bad
    end
  else if str_eqb entry (s "group_by") then
    (* each element is the list of its attribute values (rendered); first attribute first *)
    match args with
    | [VList l] =>
        match map_opt strs_of_pv l with
        | Some rows =>
            let es := number 0 rows in
            let nattr := match rows with r :: _ => length r | [] => 0 end in
            let kf := fun (j : nat) (e : nat * list str) => nth j (snd e) [] in
            let d := group_by_attrs str_eqb (kf 0) (map kf (seq 1 (nattr - 1))) es in
            Some (VList (map (fun kg => VTuple [VList (map VStr (fst kg));
                                                VList (map (fun e => vnat (fst e)) (snd kg))]) d))
        | None => Some bad
        end
    | _ => Some bad
    end
  else None.
