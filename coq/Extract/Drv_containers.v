(* driver for the containers group: engine + containers model *)
From Coq Require Import List.
From PyTRS Require Import Engine.Regex Extract.Val Extract.DispBase Extract.DispContainers.
Import ListNotations.
Definition dispatch (entry : str) (args : list pv) : pv :=
  first_some_of [dispatch_engine; dispatch_containers] entry args.
