(* driver for the export group *)
From Coq Require Import List.
From PyTRS Require Import Engine.Regex Extract.Val Extract.DispBase Extract.DispExport.
Import ListNotations.
Definition dispatch (entry : str) (args : list pv) : pv :=
  first_some_of [dispatch_engine; dispatch_export] entry args.
