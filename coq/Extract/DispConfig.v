(* Extract/DispConfig.v -- wire entry points of Model/Config.v *)
From Coq Require Import List NArith ZArith Bool.
From Coq Require String.
From PyTRS Require Import Engine.Regex PyRt.Str Extract.Val Extract.DispBase Extract.DispTrs Extract.DispContainers Model.Trs Model.Config.
Import ListNotations.
Import String.StringSyntax.
Local Open Scope string_scope.

Definition cval_of_pv (v : pv) : option cval :=
  match v with
  | VNone => Some CNone | VBool b => Some (CBool b) | VInt z => Some (CInt z) | VStr t => Some (CStr t)
  | _ => None
  end.
Definition pv_of_cval (v : cval) : pv :=
  match v with CNone => VNone | CBool b => VBool b | CInt z => VInt z | CStr t => VStr t end.

Definition cfg_of_list (l : list cval) : option cfg :=
  match l with
  | [a0; a1; a2; a3; a4; a5; a6; a7; a8; a9; a10; a11; a12; a13; a14; a15] =>
      Some (mk_cfg a0 a1 a2 a3 a4 a5 a6 a7 a8 a9 a10 a11 a12 a13 a14 a15)
  | _ => None
  end.
Definition cfg_of_pv (v : pv) : option cfg :=
  match v with
  | VList l => match map_opt cval_of_pv l with Some cs => cfg_of_list cs | None => None end
  | _ => None
  end.
Definition pv_of_cfg (c : cfg) : pv := VList (map (fun a => pv_of_cval (cget a c)) all_attrs).

Fixpoint parse_texts (l : list pv) : Py (list cfg) :=
  match l with
  | [] => Ok []
  | VStr t :: r => do c <- text_to_attributes t; do cs <- parse_texts r; Ok (c :: cs)
  | _ :: _ => Raise ModelGap
  end.

Definition vpe (e : pd_effective) : pv :=
  VList [pv_of_cval (pe_layout e); pv_of_cval (pe_default_ns e); pv_of_cval (pe_default_ew e);
         pv_of_cval (pe_ocr_scrub e); pv_of_cval (pe_sec_within e); pv_of_cval (pe_parse_qq e);
         pv_of_cval (pe_clean_qq e); pv_of_cval (pe_require_colon e); pv_of_cval (pe_segment e);
         pv_of_cval (pe_qq_depth_min e); pv_of_cval (pe_qq_depth_max e); pv_of_cval (pe_qq_depth e);
         pv_of_cval (pe_break_halves e); vpy VStr (pe_handed_down e)].

Definition vte (e : tr_effective) : pv :=
  VList [pv_of_cval (te_clean_qq e); pv_of_cval (te_suppress_lot_divs e); pv_of_cval (te_qq_depth_min e);
         pv_of_cval (te_qq_depth_max e); pv_of_cval (te_break_halves e)].

Definition dispatch_config (entry : str) (args : list pv) : option pv :=
  if str_eqb entry (s "config_parse") then
    match args with
    | [VStr t] => Some (vpy pv_of_cfg (text_to_attributes t))
    | _ => Some bad
    end
  else if str_eqb entry (s "config_decompile") then
    match args with
    | [c] => match cfg_of_pv c with Some c' => Some (vpy VStr (decompile_to_text c')) | None => Some bad end
    | _ => Some bad
    end
  else if str_eqb entry (s "pd_run") then
    (* init config text, layout, parse_qq, wait_to_parse, later .config texts, parse keywords *)
    match args with
    | [VStr conf; layout; pq; wait; VList later; kws] =>
        match cval_of_pv layout, cval_of_pv pq, cval_of_pv wait, cfg_of_pv kws with
        | Some l, Some p, Some w, Some k =>
            Some (vpy vpe
              (do c0 <- text_to_attributes conf;
               do cs <- parse_texts later;
               let st := fold_left (fun st c => pd_set_config c st) cs (pd_init c0 l p w) in
               let cur := last cs c0 in
               Ok (pd_parse cur st k)))
        | _, _, _, _ => Some bad
        end
    | _ => Some bad
    end
  else if str_eqb entry (s "tr_run") then
    match args with
    | [VStr conf; pq; VList later; kws] =>
        match cval_of_pv pq, cfg_of_pv kws with
        | Some p, Some k =>
            Some (vpy vte
              (do c0 <- text_to_attributes conf;
               do cs <- parse_texts later;
               let st := fold_left (fun st c => tr_set_config c st) cs (tr_init c0 p) in
               Ok (tr_parse st k)))
        | _, _ => Some bad
        end
    | _ => Some bad
    end
  else None.
