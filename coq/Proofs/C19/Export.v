(* Proofs/C19/Export.v *)
From Coq Require Import List NArith ZArith Arith Bool Lia.
From Coq Require String.
From PyTRS Require Import Engine.Regex PyRt.Str Gen.Tables Model.Trs Model.Export.
Import ListNotations.
Import String.StringSyntax.
Local Open Scope string_scope.

(* one record per tract, in order, values equal to the attributes *)
Lemma records_list l atts :
  length (tracts_to_list l atts) = length l /\
  forall i t, nth_error l i = Some t ->
    nth_error (tracts_to_list l atts) i = Some (map (getattr t) atts).
Proof.
  split; [apply map_length|]. intros i t H. unfold tracts_to_list. rewrite nth_error_map, H. reflexivity.
Qed.

Lemma records_dict l atts :
  length (tracts_to_dict l atts) = length l /\
  forall i t, nth_error l i = Some t ->
    nth_error (tracts_to_dict l atts) i = Some (map (fun a => (a, getattr t a)) atts).
Proof.
  split; [apply map_length|]. intros i t H. unfold tracts_to_dict. rewrite nth_error_map, H. reflexivity.
Qed.

(* unknown attribute: the documented placeholder, never an error *)
Lemma unknown_attr t att : assoc_str att t = None -> getattr t att = VScalar (SStr (att ++ s ": n/a")).
Proof. intros H. unfold getattr. rewrite H. reflexivity. Qed.
Lemma known_attr t att v : assoc_str att t = Some v -> getattr t att = v.
Proof. intros H. unfold getattr. rewrite H. reflexivity. Qed.

(* what a cell must read back as: the scalar itself, or the contents joined *)
Definition spec_cell (v : aval) : scalar :=
  match v with
  | VScalar x => x
  | VSeq l => SStr (join (s ", ") (map sc_str l))
  | VSeq2 l => SStr (join (s ", ") (map sc_str (concat l)))
  | VMap l => SStr (join (s ",") (map (fun kv => sc_str (fst kv) ++ s ":" ++ sc_str (snd kv)) l))
  end.

(* total: every value shape of the documented attributes is scrubbed to its spec cell *)
Lemma scrub_cell_spec v : scrub_cell v = spec_cell v.
Proof. destruct v; reflexivity. Qed.

(* csv: exactly one row per tract after one header row for a new file / write mode *)
Lemma csv_rows l atts ex ap n :
  tracts_to_csv l atts ex ap n =
    (if ex && ap then [] else [map SStr (get_headers atts n [])])
    ++ map (fun t => map (fun a => spec_cell (getattr t a)) atts) l.
Proof.
  unfold tracts_to_csv.
  assert (E : map (fun t => scrub_row (to_list t atts)) l = map (fun t => map (fun a => spec_cell (getattr t a)) atts) l).
  { apply map_ext; intros t; unfold scrub_row, to_list; rewrite map_map;
    apply map_ext; intros a; apply scrub_cell_spec. }
  rewrite E. destruct (ex && ap); reflexivity.
Qed.

Lemma csv_row_count l atts ex ap n :
  length (tracts_to_csv l atts ex ap n) = (if ex && ap then 0 else 1) + length l.
Proof. rewrite csv_rows, app_length, map_length. destruct (ex && ap); reflexivity. Qed.

Lemma writer_rows_spec : forall l atts plus uid k total,
  writer_rows l atts plus uid k total =
    map (fun it => map (fun a => spec_cell (getattr (snd it) a)) atts ++ plus
                   ++ match uid with Some u => [SStr (gen_uid u (fst it) total)] | None => [] end)
        (combine (seq k (length l)) l).
Proof.
  induction l as [|t r IH]; intros; simpl; [reflexivity|]. rewrite IH. f_equal. f_equal.
  unfold scrub_row, to_list. rewrite map_map. apply map_ext. intros a. apply scrub_cell_spec.
Qed.

Lemma writer_row_count l atts ex ap n hp wp uid :
  length (tractwriter l atts ex ap n hp wp uid) = (if ex && ap then 0 else 1) + length l.
Proof.
  unfold tractwriter. rewrite app_length, writer_rows_spec, map_length, combine_length, seq_length, Nat.min_id.
  destruct (ex && ap); reflexivity.
Qed.

(* headers *)
Lemma headers_plain atts : get_headers atts NiceOff [] = atts.
Proof. unfold get_headers. apply app_nil_r. Qed.
Lemma headers_length atts n plus :
  match n with NiceList _ => True | _ => length (get_headers atts n plus) = length atts + length plus end.
Proof. destruct n; simpl; auto; unfold get_headers; rewrite app_length, ?map_length; reflexivity. Qed.

(* every documented attribute has a header in the regenerated table *)
Lemma nice_headers_total :
  length TRACT_ATTRIBUTE_NAMES = length TRACT_ATTRIBUTE_HEADERS /\
  forallb (fun a => match assoc_str a (combine TRACT_ATTRIBUTE_NAMES TRACT_ATTRIBUTE_HEADERS) with Some _ => true | None => false end)
          TRACT_ATTRIBUTE_NAMES = true.
Proof. vm_compute. split; reflexivity. Qed.
