(* Proofs/C20/Modes.v -- the colon modes of SecFinder and rebuild_sec_within, for all texts. *)
From Coq Require Import List NArith ZArith Arith Bool Lia.
From Coq Require String.
From PyTRS Require Import Engine.Regex Gen.Patterns PyRt.Str Gen.Tables Model.Trs Model.Unpack Model.TractPre
     Model.Aliquot Model.TractParse Model.PlssPre Model.PlssParse Proofs.C18.Lists.
Import ListNotations.
Import String.StringSyntax.
Local Open Scope string_scope.

Definition has_colon (text : str) (x : mo) : bool := is_some (group text x multisec_regex_g_colon).

(* if every section match carries a colon, requiring the colon changes nothing in the loop *)
Lemma sf_loop_all_colon text layout : forall ms acc last,
  forallb (has_colon text) ms = true ->
  sf_loop text layout true ms acc last = sf_loop text layout false ms acc last.
Proof.
  induction ms as [|x rest IH]; intros acc last H; [reflexivity|].
  cbn [forallb] in H. apply andb_true_iff in H. destruct H as [Hx Hr].
  cbn [sf_loop]. destruct (sec_unpacker (group0 text x)) as [u|e]; cbn [bind]; [|reflexivity].
  unfold has_colon in Hx. rewrite Hx. cbn [negb andb]. rewrite !andb_true_r.
  destruct (negb (negb (layout_in layout [TRS_DESC; S_DESC_TR] && existsb (endswith (rstrip (firstn (mstart x) text))) SEC_ILLEGAL_PRIOR))).
  - destruct (su_list u) as [|a [|b l]]; cbn [bind]; try reflexivity; apply IH; exact Hr.
  - destruct (is_multi_sec text x) as [m|e]; cbn [bind]; [|reflexivity].
    destruct m; apply IH; exact Hr.
Qed.

(* ... and if none does (in a colon-first layout), requiring it rejects every section *)
Lemma sf_loop_no_colon_matches text layout : forall ms acc last r,
  forallb (fun x => negb (has_colon text x)) ms = true ->
  sf_loop text layout true ms acc last = Ok r -> sf_matches (fst r) = sf_matches acc.
Proof.
  induction ms as [|x rest IH]; intros acc last r H Hr; [injection Hr as <-; reflexivity|].
  cbn [forallb] in H. apply andb_true_iff in H. destruct H as [Hx Hrest].
  cbn [sf_loop] in Hr. destruct (sec_unpacker (group0 text x)) as [u|e]; cbn [bind] in Hr; [|discriminate].
  unfold has_colon in Hx. apply negb_true_iff in Hx. rewrite Hx in Hr. cbn [negb andb] in Hr.
  rewrite andb_false_r in Hr. cbn [negb] in Hr.
  destruct (su_list u) as [|a [|b l]]; cbn [bind] in Hr; try discriminate;
    apply IH in Hr; try exact Hrest; exact Hr.
Qed.

Definition all_colon (text : str) : bool :=
  forallb (has_colon text) (finditer multisec_regex multisec_regex_ng text).

(* when every section is followed by a colon, the three colon modes give the same finder result *)
Theorem sec_finder_all_colon text layout :
  all_colon text = true ->
  sec_finder text layout (RC_bool true) = sec_finder text layout (RC_bool false) /\
  sec_finder text layout RC_cautious = sec_finder text layout (RC_bool false).
Proof.
  intros H. unfold all_colon in H. unfold sec_finder.
  set (l := match layout with Some l0 => l0 | None => deduce_layout text end).
  assert (P : forall acc, sec_finder_pass text l (RC_bool true) acc = sec_finder_pass text l (RC_bool false) acc).
  { intros acc. unfold sec_finder_pass. destruct (layout_in l [TRS_DESC; S_DESC_TR]); [|reflexivity].
    apply sf_loop_all_colon. exact H. }
  assert (Pc : forall acc, sec_finder_pass text l RC_cautious acc = sec_finder_pass text l (RC_bool false) acc).
  { intros acc. unfold sec_finder_pass. destruct (layout_in l [TRS_DESC; S_DESC_TR]); [|reflexivity].
    apply sf_loop_all_colon. exact H. }
  split.
  - rewrite P. destruct (sec_finder_pass text l (RC_bool false) _) as [[f1 n1]|e]; cbn [bind]; [|reflexivity].
    destruct (sf_matches f1); reflexivity.
  - rewrite Pc. destruct (sec_finder_pass text l (RC_bool false) (mk_sfinder [] [] [])) as [[f1 n1]|e] eqn:E1; cbn [bind]; [|reflexivity].
    destruct (sf_matches f1) eqn:Em; [|reflexivity].
    destruct (layout_in l [TRS_DESC; S_DESC_TR]) eqn:El; [|reflexivity].
    (* the second pass repeats the first (no colon needed either time) and finds nothing again *)
    assert (E2 : sec_finder_pass text l RC_second f1 = Ok (f1, n1)).
    { unfold sec_finder_pass in *. rewrite El in *. cbn [sf_matches] in *.
      (* first pass from the empty finder; second from f1 with flags reset and no matches: same state *)
      rewrite Em. exact E1. }
    rewrite E2. cbn [bind]. rewrite Em. reflexivity.
Qed.

(* rebuild_sec_within: with exactly one staged tract, the unused blocks (cleaned, >= 4 chars) are
   joined around its description in order: index 0 before it, the others after it *)
Fixpoint rsw_spec (unused : list (nat * str)) (desc : str) : Py str :=
  match unused with
  | [] => Ok desc
  | (i, u) :: t =>
      do u' <- cleanup_desc u;
      rsw_spec t (if MIN_REPORTABLE_UNUSED_LEN <=? length u' then
                    match i with O => u' ++ s " " ++ desc | _ => desc ++ s " " ++ u' end
                  else desc)
  end.

Lemma rsw_loop_spec : forall unused desc, rsw_loop unused desc = rsw_spec unused desc.
Proof.
  induction unused as [|[i u] t IH]; intros desc; [reflexivity|].
  cbn [rsw_loop rsw_spec]. destruct (cleanup_desc u) as [u'|e]; cbn [bind]; [|reflexivity].
  destruct (MIN_REPORTABLE_UNUSED_LEN <=? length u'); apply IH.
Qed.

Theorem rebuild_sec_within_one c unused r :
  rebuild_sec_within [c] unused = Ok r ->
  snd r = [] /\ exists desc, rsw_spec unused (tc_desc c) = Ok desc /\
    fst r = [mk_tcomp desc (tc_sec c) (tc_twprge c) (if str_eqb desc (tc_desc c) then tc_within c else true)].
Proof.
  cbn [rebuild_sec_within]. rewrite rsw_loop_spec.
  destruct (rsw_spec unused (tc_desc c)) as [desc|e]; cbn [bind]; [|discriminate].
  destruct (str_eqb desc (tc_desc c)) eqn:E; intros H; injection H as <-; (split; [reflexivity|]);
    exists desc; (split; [reflexivity|]); rewrite E; [|reflexivity].
  apply str_eqb_eq in E. subst desc. destruct c; reflexivity.
Qed.

Theorem rebuild_sec_within_other tcs unused :
  length tcs <> 1 -> rebuild_sec_within tcs unused = Ok (tcs, unused).
Proof. destruct tcs as [|a [|b t]]; cbn; intros H; try reflexivity. lia. Qed.

(* when NO section carries a colon (colon-first layouts): the cautious mode accepts on its second pass exactly
   what the default mode accepts, with the same finder flags, and adds the pulled_sec_without_colon warning *)
Definition no_colon (text : str) : bool :=
  forallb (fun x => negb (has_colon text x)) (finditer multisec_regex multisec_regex_ng text).

Theorem sec_finder_cautious_no_colon text layout f1 f0 :
  no_colon text = true -> layout_in layout [TRS_DESC; S_DESC_TR] = true ->
  sec_finder text (Some layout) RC_cautious = Ok f1 -> sec_finder text (Some layout) (RC_bool false) = Ok f0 ->
  sf_matches f1 = sf_matches f0 /\
  (sf_matches f0 = [] -> f1 = f0) /\
  (sf_matches f0 <> [] -> exists nums, let flag := s "pulled_sec_without_colon<" ++ join (s ",") nums ++ s ">" in
                                      sf_flags f1 = sf_flags f0 ++ [flag] /\ sf_flag_lines f1 = sf_flag_lines f0 ++ [(flag, flag)]).
Proof.
  intros Hnc Hl. unfold sec_finder. cbv zeta.
  (* the default run *)
  assert (P0 : sec_finder_pass text layout (RC_bool false) (mk_sfinder [] [] []) = sec_finder_pass text layout RC_second (mk_sfinder [] [] [])).
  { unfold sec_finder_pass. rewrite Hl. reflexivity. }
  destruct (sec_finder_pass text layout RC_cautious (mk_sfinder [] [] [])) as [[fa na]|e] eqn:Ea; cbn [bind]; [|discriminate].
  assert (Hfa : sf_matches fa = []).
  { unfold sec_finder_pass in Ea. rewrite Hl in Ea. exact (sf_loop_no_colon_matches _ _ _ _ _ _ Hnc Ea). }
  rewrite Hfa, Hl.
  assert (Pa : sec_finder_pass text layout RC_second fa = sec_finder_pass text layout RC_second (mk_sfinder [] [] [])).
  { unfold sec_finder_pass. rewrite Hfa. reflexivity. }
  rewrite Pa, <- P0.
  destruct (sec_finder_pass text layout (RC_bool false) (mk_sfinder [] [] [])) as [[f2 n2]|e]; cbn [bind]; [|discriminate].
  destruct (sf_matches f2) as [|m ms] eqn:Em.
  - intros H1 H0. injection H1 as <-. injection H0 as <-. rewrite Em. split; [reflexivity|]. split; [reflexivity|]. intros K. contradiction.
  - intros H1 H0. injection H1 as <-. injection H0 as <-. cbn [sf_matches sf_flags sf_flag_lines]. rewrite Em.
    split; [reflexivity|]. split; [discriminate|]. intros _. exists n2. split; reflexivity.
Qed.
