(* Proofs/C01/Walk.v -- the heart of C01 for the Twp/Rge-Sec-desc layout, for ANY number of
   Twp/Rge groups and ANY number of sections per group: if the finders report the Twp/Rges and
   sections of a chunk in the order  T (S block)* T (S block)* ...  then the marker walk stages
   exactly one tract component per section, in reading order, carrying that section's value, the
   Twp/Rge of ITS group (not of a neighbour) and the cleaned text that follows it up to the next
   marker.  (What the finders report for a rendered description is the regex seam, decided by the
   expected_tracts oracle.) *)
From Coq Require Import List NArith ZArith Arith Bool Lia.
From Coq Require String.
From PyTRS Require Import Engine.Regex Gen.Patterns PyRt.Str Gen.Tables Model.Trs Model.Unpack Model.TractPre Model.PlssPre Model.PlssParse.
Import ListNotations.
Import String.StringSyntax.
Local Open Scope string_scope.

(* the walk over an explicit, position-ordered marker list *)
Fixpoint walk_k (txt : str) (sd : bool) (mk : list (nat * mkind)) (c : cp) : Py cp :=
  match mk with
  | [] => Ok c
  | (p, mt) :: rest =>
      let nx := match rest with (q, k) :: _ => (q, k) | [] => (p, mt) end in
      match mt with
      | TWPRGE_START => walk_k txt sd rest (get_next_twprge c)
      | SEC_START => walk_k txt sd rest (get_next_sec c)
      | TEXT_END => walk_k txt sd rest c
      | _ =>
          let block := slice txt p (fst nx) in
          if sd && mk_eqb mt SEC_END then do c' <- prep_new_tract c block; walk_k txt sd rest c'
          else if negb sd && mk_eqb (snd nx) SEC_START then do c' <- prep_new_tract c block; walk_k txt sd rest c'
          else walk_k txt sd rest
                 (mk_cp (cp_w c) (cp_wl c) (cp_e c) (cp_el c) (cp_unused c ++ [(length (cp_tc c), block)]) (cp_tc c)
                        (cp_wt_list c) (cp_ws_list c) (cp_wt c) (cp_ws c) (cp_ltu c) (cp_lsu c))
      end
  end.

Lemma walk_walk_k txt sd md : forall mk c, (forall p k, In (p, k) mk -> md_get p md = Some k) ->
  walk txt sd md (map fst mk) c = walk_k txt sd mk c.
Proof.
  induction mk as [|[p mt] rest IH]; intros c H; [reflexivity|]. cbn [map fst walk walk_k].
  assert (Hr : forall p k, In (p, k) rest -> md_get p md = Some k) by (intros q k Hq; apply H; right; exact Hq).
  rewrite (H p mt (or_introl eq_refl)).
  assert (Hn : md_get (match map fst rest with q :: _ => q | [] => p end) md = Some (snd (match rest with (q, k) :: _ => (q, k) | [] => (p, mt) end))).
  { destruct rest as [|[q k] r']; cbn; [apply H; left; reflexivity | apply H; right; left; reflexivity]. }
  rewrite Hn.
  assert (Hp : match map fst rest with q :: _ => q | [] => p end = fst (match rest with (q, k) :: _ => (q, k) | [] => (p, mt) end)) by (destruct rest as [|[q k] r']; reflexivity).
  rewrite Hp. cbv zeta.
  destruct mt; try (apply IH; exact Hr);
    (destruct (sd && _); [destruct (prep_new_tract c _); cbn [bind]; [apply IH; exact Hr | reflexivity]|];
     destruct (negb sd && _); [destruct (prep_new_tract c _); cbn [bind]; [apply IH; exact Hr | reflexivity] | apply IH; exact Hr]).
Qed.

(* ---- what the three state transitions do to the fields that matter here ---- *)
Lemma get_next_sec_fields c v more : cp_ws_list c = v :: more ->
  cp_ws (get_next_sec c) = Some v /\ cp_ws_list (get_next_sec c) = more /\ cp_wt (get_next_sec c) = cp_wt c /\
  cp_wt_list (get_next_sec c) = cp_wt_list c /\ cp_tc (get_next_sec c) = cp_tc c.
Proof.
  intros H. unfold get_next_sec. cbv zeta.
  match goal with |- context [if ?b then set_flags ?a1 ?a2 ?a3 ?a4 ?a5 else _] => set (c1 := if b then set_flags a1 a2 a3 a4 a5 else c) end.
  assert (E : cp_wt_list c1 = cp_wt_list c /\ cp_ws_list c1 = cp_ws_list c /\ cp_wt c1 = cp_wt c /\ cp_tc c1 = cp_tc c).
  { unfold c1. match goal with |- context [if ?b then _ else _] => destruct b end; repeat split; reflexivity. }
  destruct E as (E1 & E2 & E3 & E4). rewrite E2, H. cbn [cp_ws cp_ws_list cp_wt cp_wt_list cp_tc]. auto.
Qed.

Lemma get_next_twprge_fields c t more : cp_wt_list c = t :: more ->
  cp_wt (get_next_twprge c) = Some t /\ cp_wt_list (get_next_twprge c) = more /\ cp_ws (get_next_twprge c) = cp_ws c /\
  cp_ws_list (get_next_twprge c) = cp_ws_list c /\ cp_tc (get_next_twprge c) = cp_tc c.
Proof.
  intros H. unfold get_next_twprge. cbv zeta.
  match goal with |- context [if ?b then set_flags ?a1 ?a2 ?a3 ?a4 ?a5 else _] => set (c1 := if b then set_flags a1 a2 a3 a4 a5 else c) end.
  assert (E : cp_wt_list c1 = cp_wt_list c /\ cp_ws_list c1 = cp_ws_list c /\ cp_ws c1 = cp_ws c /\ cp_tc c1 = cp_tc c).
  { unfold c1. match goal with |- context [if ?b then _ else _] => destruct b end; repeat split; reflexivity. }
  destruct E as (E1 & E2 & E3 & E4). rewrite E1, H. cbn [cp_ws cp_ws_list cp_wt cp_wt_list cp_tc]. auto.
Qed.

Lemma prep_fields c block c' v t : cp_ws c = Some v -> cp_wt c = Some t -> prep_new_tract c block = Ok c' ->
  exists d, cleanup_desc block = Ok d /\ cp_tc c' = cp_tc c ++ [mk_tcomp d v t false] /\
    cp_wt c' = Some t /\ cp_wt_list c' = cp_wt_list c /\ cp_ws_list c' = cp_ws_list c.
Proof.
  intros Hv Ht. unfold prep_new_tract. destruct (cleanup_desc block) as [d|e]; cbn [bind]; [|discriminate].
  unfold stage_new_tract. rewrite Hv, Ht. cbn [bind]. intros H. injection H as <-. exists d. cbn. auto.
Qed.

(* ---- the layout, as data ---- *)
Record secm := mk_secm { ss : nat; se : nat }.
Record grp := mk_grp { ts : nat; te : nat; gsecs : list secm }.

Definition sec_marks (l : list secm) : list (nat * mkind) := flat_map (fun m => [(ss m, SEC_START); (se m, SEC_END)]) l.
Definition grp_marks (g : grp) : list (nat * mkind) := (ts g, TWPRGE_START) :: (te g, TWPRGE_END) :: sec_marks (gsecs g).

(* (block, section value, Twp/Rge) expected for the sections of one group; nxt = where the text after the last one ends *)
Fixpoint sec_triples (txt : str) (t : str) (l : list secm) (vals : list (list str)) (nxt : nat) : list (str * list str * str) :=
  match l, vals with
  | m :: l', v :: vals' => (slice txt (se m) (match l' with m' :: _ => ss m' | [] => nxt end), v, t) :: sec_triples txt t l' vals' nxt
  | _, _ => []
  end.

Fixpoint grp_triples (txt : str) (gs : list grp) (tvals : list str) (svals : list (list str)) (L : nat) : list (str * list str * str) :=
  match gs, tvals with
  | g :: gs', t :: tvals' =>
      let k := length (gsecs g) in
      sec_triples txt t (gsecs g) (firstn k svals) (match gs' with g' :: _ => ts g' | [] => L end) ++ grp_triples txt gs' tvals' (skipn k svals) L
  | _, _ => []
  end.

Definition matches_triple (tc : tcomp) (tr : str * list str * str) : Prop :=
  let '(block, v, t) := tr in cleanup_desc block = Ok (tc_desc tc) /\ tc_sec tc = v /\ tc_twprge tc = t /\ tc_within tc = false.

Definition head_at (rest : list (nat * mkind)) (nxt : nat) : Prop := match rest with (q, _) :: _ => q = nxt | [] => False end.

Lemma sec_walk txt t : forall l vals more rest nxt c c',
  length vals = length l -> head_at rest nxt -> cp_wt c = Some t -> cp_ws_list c = vals ++ more ->
  walk_k txt true (sec_marks l ++ rest) c = Ok c' ->
  exists c1 news, walk_k txt true rest c1 = Ok c' /\ cp_tc c1 = cp_tc c ++ news /\
    Forall2 matches_triple news (sec_triples txt t l vals nxt) /\
    cp_wt c1 = Some t /\ cp_ws_list c1 = more /\ cp_wt_list c1 = cp_wt_list c.
Proof.
  induction l as [|m l IH]; intros vals more rest nxt c c' Hlen Hh Ht Hws H.
  - destruct vals; [|discriminate]. exists c, []. cbn in *. rewrite app_nil_r. repeat split; try assumption. constructor.
  - destruct vals as [|v vals]; [discriminate|]. cbn [length] in Hlen. injection Hlen as Hlen.
    cbn [sec_marks flat_map app] in H. fold (sec_marks l) in H. cbn [walk_k] in H.
    destruct (get_next_sec_fields c v (vals ++ more) Hws) as (F1 & F2 & F3 & F4 & F5).
    set (c1 := get_next_sec c) in *. cbv zeta in H. cbn [andb mk_eqb] in H.
    set (nextp := fst (match sec_marks l ++ rest with (q, k) :: _ => (q, k) | [] => (se m, SEC_END) end)) in *.
    assert (Hnp : nextp = match l with m' :: _ => ss m' | [] => nxt end).
    { unfold nextp. destruct l as [|m' l']; [cbn; destruct rest as [|[q k] r]; [contradiction | exact Hh] | reflexivity]. }
    destruct (prep_new_tract c1 (slice txt (se m) nextp)) as [c2|e] eqn:Ep; cbn [bind] in H; [|discriminate].
    assert (W1 : cp_wt c1 = Some t) by congruence.
    destruct (prep_fields c1 _ c2 v t F1 W1 Ep) as (d & Hd & T2 & W2 & WL2 & SL2).
    destruct (IH vals more rest nxt c2 c' Hlen Hh W2 ltac:(congruence) H) as (c3 & news & Hw & Htc & HF & W3 & S3 & WL3).
    exists c3, (mk_tcomp d v t false :: news). split; [exact Hw|]. split; [rewrite Htc, T2, F5, <- app_assoc; reflexivity|].
    split; [|repeat split; congruence]. cbn [sec_triples]. constructor; [|exact HF].
    unfold matches_triple. rewrite <- Hnp. cbn. auto.
Qed.

Definition total_secs (gs : list grp) : nat := fold_right (fun g n => length (gsecs g) + n) 0 gs.

Lemma grp_walk txt : forall gs tvals svals moret mores rest L c c',
  length tvals = length gs -> length svals = total_secs gs -> head_at rest L ->
  cp_wt_list c = tvals ++ moret -> cp_ws_list c = svals ++ mores ->
  walk_k txt true (flat_map grp_marks gs ++ rest) c = Ok c' ->
  exists c1 news, walk_k txt true rest c1 = Ok c' /\ cp_tc c1 = cp_tc c ++ news /\
    Forall2 matches_triple news (grp_triples txt gs tvals svals L) /\ cp_wt_list c1 = moret /\ cp_ws_list c1 = mores.
Proof.
  induction gs as [|g gs IH]; intros tvals svals moret mores rest L c c' Ht Hs Hh Hwt Hws H.
  - destruct tvals; [|discriminate]. destruct svals; [|discriminate]. exists c, []. cbn in *. rewrite app_nil_r. repeat split; try assumption. constructor.
  - destruct tvals as [|t tvals]; [discriminate|]. cbn [length] in Ht. injection Ht as Ht. cbn [total_secs fold_right] in Hs. fold (total_secs gs) in Hs.
    cbn [flat_map grp_marks app] in H. rewrite <- app_assoc in H. cbn [walk_k] in H.
    destruct (get_next_twprge_fields c t (tvals ++ moret) Hwt) as (F1 & F2 & F3 & F4 & F5).
    set (c1 := get_next_twprge c) in *. cbv zeta in H. cbn [andb mk_eqb negb] in H.
    match type of H with walk_k _ _ _ ?cu = _ => set (c2 := cu) in * end.
    set (k := length (gsecs g)).
    assert (Hk : length (firstn k svals) = k) by (apply firstn_length_le; unfold k; lia).
    assert (Hws2 : cp_ws_list c2 = firstn k svals ++ (skipn k svals ++ mores)).
    { unfold c2. cbn [cp_ws_list]. rewrite F4, Hws, app_assoc, firstn_skipn. reflexivity. }
    set (nxt := match gs with g' :: _ => ts g' | [] => L end).
    assert (Hh2 : head_at (flat_map grp_marks gs ++ rest) nxt) by (unfold nxt; destruct gs as [|g' gs']; [exact Hh | reflexivity]).
    destruct (sec_walk txt t (gsecs g) (firstn k svals) (skipn k svals ++ mores) _ nxt c2 c' Hk Hh2 F1 Hws2 H)
      as (c3 & news1 & Hw3 & Htc3 & HF3 & W3 & S3 & WL3).
    assert (Hs' : length (skipn k svals) = total_secs gs) by (rewrite skipn_length; unfold k; lia).
    destruct (IH tvals (skipn k svals) moret mores rest L c3 c' Ht Hs' Hh ltac:(rewrite WL3; unfold c2; cbn [cp_wt_list]; exact F2) S3 Hw3)
      as (c4 & news2 & Hw4 & Htc4 & HF4 & WL4 & S4).
    exists c4, (news1 ++ news2). split; [exact Hw4|]. split; [rewrite Htc4, Htc3; unfold c2; cbn [cp_tc]; rewrite F5, <- app_assoc; reflexivity|].
    split; [|split; assumption]. cbn [grp_triples]. apply Forall2_app; assumption.
Qed.

(* the Twp/Rge-Sec-desc chunk: optional leading text, groups, end of text *)
Definition trs_desc_marks (lead : bool) (gs : list grp) (L : nat) : list (nat * mkind) :=
  (if lead then [(0, TEXT_START)] else []) ++ flat_map grp_marks gs ++ [(L, TEXT_END)].

Theorem trs_desc_walk txt lead gs L tvals svals c c' :
  length tvals = length gs -> length svals = total_secs gs ->
  cp_wt_list c = tvals -> cp_ws_list c = svals ->
  walk_k txt true (trs_desc_marks lead gs L) c = Ok c' ->
  exists news, cp_tc c' = cp_tc c ++ news /\ Forall2 matches_triple news (grp_triples txt gs tvals svals L) /\
               cp_wt_list c' = [] /\ cp_ws_list c' = [].
Proof.
  intros Ht Hs Hwt Hws H. unfold trs_desc_marks in H.
  assert (G : forall c0, cp_wt_list c0 = tvals -> cp_ws_list c0 = svals ->
            walk_k txt true (flat_map grp_marks gs ++ [(L, TEXT_END)]) c0 = Ok c' ->
            exists news, cp_tc c' = cp_tc c0 ++ news /\ Forall2 matches_triple news (grp_triples txt gs tvals svals L) /\ cp_wt_list c' = [] /\ cp_ws_list c' = []).
  { intros c0 W S H0.
    destruct (grp_walk txt gs tvals svals [] [] [(L, TEXT_END)] L c0 c' Ht Hs eq_refl ltac:(rewrite app_nil_r; exact W) ltac:(rewrite app_nil_r; exact S) H0)
      as (c1 & news & Hw & Htc & HF & WL & SL).
    cbn [walk_k] in Hw. injection Hw as <-. exists news. auto. }
  destruct lead; cbn [app] in H; [|exact (G c Hwt Hws H)].
  cbn [walk_k] in H. cbv zeta in H. cbn [andb mk_eqb negb] in H.
  match type of H with walk_k _ _ _ ?cu = _ => destruct (G cu Hwt Hws H) as (news & Htc & R) end. exists news. split; [exact Htc | exact R].
Qed.

(* the same for the real walk over the marker dictionary *)
Theorem trs_desc_walk_md txt md lead gs L tvals svals c c' :
  (forall p k, In (p, k) (trs_desc_marks lead gs L) -> md_get p md = Some k) ->
  length tvals = length gs -> length svals = total_secs gs -> cp_wt_list c = tvals -> cp_ws_list c = svals ->
  walk txt true md (map fst (trs_desc_marks lead gs L)) c = Ok c' ->
  exists news, cp_tc c' = cp_tc c ++ news /\ Forall2 matches_triple news (grp_triples txt gs tvals svals L) /\
               cp_wt_list c' = [] /\ cp_ws_list c' = [].
Proof. intros Hmd Ht Hs W S H. rewrite (walk_walk_k txt true md _ c Hmd) in H. exact (trs_desc_walk txt lead gs L tvals svals c c' Ht Hs W S H). Qed.
