(* Proofs/C01/Walk.v -- the heart of C01 for the Twp/Rge-Sec-desc layout, for ANY number of
   Twp/Rge groups and ANY number of sections per group: if the finders report the Twp/Rges and
   sections of a chunk in the order  T (S block)* T (S block)* ...  then the marker walk stages
   exactly one tract component per section, in reading order, carrying that section's value, the
   Twp/Rge of ITS group (not of a neighbour) and the cleaned text that follows it up to the next
   marker.  (What the finders report for a rendered description is the regex seam, decided by the
   expected_tracts oracle.) *)
From Coq Require Import List NArith ZArith Arith Bool Lia.
From Coq Require String.
From PyTRS Require Import Engine.Regex Gen.Patterns PyRt.Str Gen.Tables Model.Trs Model.Unpack Model.TractPre Model.PlssPre Model.PlssParse.
Import ListNotations.
Import String.StringSyntax.
Local Open Scope string_scope.

(* the walk over an explicit, position-ordered marker list *)
Fixpoint walk_k (txt : str) (sd : bool) (mk : list (nat * mkind)) (c : cp) : Py cp :=
  match mk with
  | [] => Ok c
  | (p, mt) :: rest =>
      let nx := match rest with (q, k) :: _ => (q, k) | [] => (p, mt) end in
      match mt with
      | TWPRGE_START => walk_k txt sd rest (get_next_twprge c)
      | SEC_START => walk_k txt sd rest (get_next_sec c)
      | TEXT_END => walk_k txt sd rest c
      | _ =>
          let block := slice txt p (fst nx) in
          if sd && mk_eqb mt SEC_END then do c' <- prep_new_tract c block; walk_k txt sd rest c'
          else if negb sd && mk_eqb (snd nx) SEC_START then do c' <- prep_new_tract c block; walk_k txt sd rest c'
          else walk_k txt sd rest
                 (mk_cp (cp_w c) (cp_wl c) (cp_e c) (cp_el c) (cp_unused c ++ [(length (cp_tc c), block)]) (cp_tc c)
                        (cp_wt_list c) (cp_ws_list c) (cp_wt c) (cp_ws c) (cp_ltu c) (cp_lsu c))
      end
  end.

Lemma walk_walk_k txt sd md : forall mk c, (forall p k, In (p, k) mk -> md_get p md = Some k) ->
  walk txt sd md (map fst mk) c = walk_k txt sd mk c.
Proof.
  induction mk as [|[p mt] rest IH]; intros c H; [reflexivity|]. cbn [map fst walk walk_k].
  assert (Hr : forall p k, In (p, k) rest -> md_get p md = Some k) by (intros q k Hq; apply H; right; exact Hq).
  rewrite (H p mt (or_introl eq_refl)).
  assert (Hn : md_get (match map fst rest with q :: _ => q | [] => p end) md = Some (snd (match rest with (q, k) :: _ => (q, k) | [] => (p, mt) end))).
  { destruct rest as [|[q k] r']; cbn; [apply H; left; reflexivity | apply H; right; left; reflexivity]. }
  rewrite Hn.
  assert (Hp : match map fst rest with q :: _ => q | [] => p end = fst (match rest with (q, k) :: _ => (q, k) | [] => (p, mt) end)) by (destruct rest as [|[q k] r']; reflexivity).
  rewrite Hp. cbv zeta.
  destruct mt; try (apply IH; exact Hr);
    (destruct (sd && _); [destruct (prep_new_tract c _); cbn [bind]; [apply IH; exact Hr | reflexivity]|];
     destruct (negb sd && _); [destruct (prep_new_tract c _); cbn [bind]; [apply IH; exact Hr | reflexivity] | apply IH; exact Hr]).
Qed.

(* ---- what the three state transitions do to the fields that matter here ---- *)
Lemma get_next_sec_fields c v more : cp_ws_list c = v :: more ->
  cp_ws (get_next_sec c) = Some v /\ cp_ws_list (get_next_sec c) = more /\ cp_wt (get_next_sec c) = cp_wt c /\
  cp_wt_list (get_next_sec c) = cp_wt_list c /\ cp_tc (get_next_sec c) = cp_tc c.
Proof.
  intros H. unfold get_next_sec. cbv zeta.
  match goal with |- context [if ?b then set_flags ?a1 ?a2 ?a3 ?a4 ?a5 else _] => set (c1 := if b then set_flags a1 a2 a3 a4 a5 else c) end.
  assert (E : cp_wt_list c1 = cp_wt_list c /\ cp_ws_list c1 = cp_ws_list c /\ cp_wt c1 = cp_wt c /\ cp_tc c1 = cp_tc c).
  { unfold c1. match goal with |- context [if ?b then _ else _] => destruct b end; repeat split; reflexivity. }
  destruct E as (E1 & E2 & E3 & E4). rewrite E2, H. cbn [cp_ws cp_ws_list cp_wt cp_wt_list cp_tc]. auto.
Qed.

Lemma get_next_twprge_fields c t more : cp_wt_list c = t :: more ->
  cp_wt (get_next_twprge c) = Some t /\ cp_wt_list (get_next_twprge c) = more /\ cp_ws (get_next_twprge c) = cp_ws c /\
  cp_ws_list (get_next_twprge c) = cp_ws_list c /\ cp_tc (get_next_twprge c) = cp_tc c.
Proof.
  intros H. unfold get_next_twprge. cbv zeta.
  match goal with |- context [if ?b then set_flags ?a1 ?a2 ?a3 ?a4 ?a5 else _] => set (c1 := if b then set_flags a1 a2 a3 a4 a5 else c) end.
  assert (E : cp_wt_list c1 = cp_wt_list c /\ cp_ws_list c1 = cp_ws_list c /\ cp_ws c1 = cp_ws c /\ cp_tc c1 = cp_tc c).
  { unfold c1. match goal with |- context [if ?b then _ else _] => destruct b end; repeat split; reflexivity. }
  destruct E as (E1 & E2 & E3 & E4). rewrite E1, H. cbn [cp_ws cp_ws_list cp_wt cp_wt_list cp_tc]. auto.
Qed.

Lemma prep_fields c block c' v t : cp_ws c = Some v -> cp_wt c = Some t -> prep_new_tract c block = Ok c' ->
  exists d, cleanup_desc block = Ok d /\ cp_tc c' = cp_tc c ++ [mk_tcomp d v t false] /\
    cp_wt c' = Some t /\ cp_wt_list c' = cp_wt_list c /\ cp_ws_list c' = cp_ws_list c.
Proof.
  intros Hv Ht. unfold prep_new_tract. destruct (cleanup_desc block) as [d|e]; cbn [bind]; [|discriminate].
  unfold stage_new_tract. rewrite Hv, Ht. cbn [bind]. intros H. injection H as <-. exists d. cbn. auto.
Qed.

(* ---- the layout, as data ---- *)
Record secm := mk_secm { ss : nat; se : nat }.
Record grp := mk_grp { ts : nat; te : nat; gsecs : list secm }.

Definition sec_marks (l : list secm) : list (nat * mkind) := flat_map (fun m => [(ss m, SEC_START); (se m, SEC_END)]) l.
Definition grp_marks (g : grp) : list (nat * mkind) := (ts g, TWPRGE_START) :: (te g, TWPRGE_END) :: sec_marks (gsecs g).

(* (block, section value, Twp/Rge) expected for the sections of one group; nxt = where the text after the last one ends *)
Fixpoint sec_triples (txt : str) (t : str) (l : list secm) (vals : list (list str)) (nxt : nat) : list (str * list str * str) :=
  match l, vals with
  | m :: l', v :: vals' => (slice txt (se m) (match l' with m' :: _ => ss m' | [] => nxt end), v, t) :: sec_triples txt t l' vals' nxt
  | _, _ => []
  end.

Fixpoint grp_triples (txt : str) (gs : list grp) (tvals : list str) (svals : list (list str)) (L : nat) : list (str * list str * str) :=
  match gs, tvals with
  | g :: gs', t :: tvals' =>
      let k := length (gsecs g) in
      sec_triples txt t (gsecs g) (firstn k svals) (match gs' with g' :: _ => ts g' | [] => L end) ++ grp_triples txt gs' tvals' (skipn k svals) L
  | _, _ => []
  end.

Definition matches_triple (tc : tcomp) (tr : str * list str * str) : Prop :=
  let '(block, v, t) := tr in cleanup_desc block = Ok (tc_desc tc) /\ tc_sec tc = v /\ tc_twprge tc = t /\ tc_within tc = false.

Definition head_at (rest : list (nat * mkind)) (nxt : nat) : Prop := match rest with (q, _) :: _ => q = nxt | [] => False end.

Lemma sec_walk txt t : forall l vals more rest nxt c c',
  length vals = length l -> head_at rest nxt -> cp_wt c = Some t -> cp_ws_list c = vals ++ more ->
  walk_k txt true (sec_marks l ++ rest) c = Ok c' ->
  exists c1 news, walk_k txt true rest c1 = Ok c' /\ cp_tc c1 = cp_tc c ++ news /\
    Forall2 matches_triple news (sec_triples txt t l vals nxt) /\
    cp_wt c1 = Some t /\ cp_ws_list c1 = more /\ cp_wt_list c1 = cp_wt_list c.
Proof.
  induction l as [|m l IH]; intros vals more rest nxt c c' Hlen Hh Ht Hws H.
  - destruct vals; [|discriminate]. exists c, []. cbn in *. rewrite app_nil_r. repeat split; try assumption. constructor.
  - destruct vals as [|v vals]; [discriminate|]. cbn [length] in Hlen. injection Hlen as Hlen.
    cbn [sec_marks flat_map app] in H. fold (sec_marks l) in H. cbn [walk_k] in H.
    destruct (get_next_sec_fields c v (vals ++ more) Hws) as (F1 & F2 & F3 & F4 & F5).
    set (c1 := get_next_sec c) in *. cbv zeta in H. cbn [andb mk_eqb] in H.
    set (nextp := fst (match sec_marks l ++ rest with (q, k) :: _ => (q, k) | [] => (se m, SEC_END) end)) in *.
    assert (Hnp : nextp = match l with m' :: _ => ss m' | [] => nxt end).
    { unfold nextp. destruct l as [|m' l']; [cbn; destruct rest as [|[q k] r]; [contradiction | exact Hh] | reflexivity]. }
    destruct (prep_new_tract c1 (slice txt (se m) nextp)) as [c2|e] eqn:Ep; cbn [bind] in H; [|discriminate].
    assert (W1 : cp_wt c1 = Some t) by congruence.
    destruct (prep_fields c1 _ c2 v t F1 W1 Ep) as (d & Hd & T2 & W2 & WL2 & SL2).
    destruct (IH vals more rest nxt c2 c' Hlen Hh W2 ltac:(congruence) H) as (c3 & news & Hw & Htc & HF & W3 & S3 & WL3).
    exists c3, (mk_tcomp d v t false :: news). split; [exact Hw|]. split; [rewrite Htc, T2, F5, <- app_assoc; reflexivity|].
    split; [|repeat split; congruence]. cbn [sec_triples]. constructor; [|exact HF].
    unfold matches_triple. rewrite <- Hnp. cbn. auto.
Qed.

Definition total_secs (gs : list grp) : nat := fold_right (fun g n => length (gsecs g) + n) 0 gs.

Lemma grp_walk txt : forall gs tvals svals moret mores rest L c c',
  length tvals = length gs -> length svals = total_secs gs -> head_at rest L ->
  cp_wt_list c = tvals ++ moret -> cp_ws_list c = svals ++ mores ->
  walk_k txt true (flat_map grp_marks gs ++ rest) c = Ok c' ->
  exists c1 news, walk_k txt true rest c1 = Ok c' /\ cp_tc c1 = cp_tc c ++ news /\
    Forall2 matches_triple news (grp_triples txt gs tvals svals L) /\ cp_wt_list c1 = moret /\ cp_ws_list c1 = mores.
Proof.
  induction gs as [|g gs IH]; intros tvals svals moret mores rest L c c' Ht Hs Hh Hwt Hws H.
  - destruct tvals; [|discriminate]. destruct svals; [|discriminate]. exists c, []. cbn in *. rewrite app_nil_r. repeat split; try assumption. constructor.
  - destruct tvals as [|t tvals]; [discriminate|]. cbn [length] in Ht. injection Ht as Ht. cbn [total_secs fold_right] in Hs. fold (total_secs gs) in Hs.
    cbn [flat_map grp_marks app] in H. rewrite <- app_assoc in H. cbn [walk_k] in H.
    destruct (get_next_twprge_fields c t (tvals ++ moret) Hwt) as (F1 & F2 & F3 & F4 & F5).
    set (c1 := get_next_twprge c) in *. cbv zeta in H. cbn [andb mk_eqb negb] in H.
    match type of H with walk_k _ _ _ ?cu = _ => set (c2 := cu) in * end.
    set (k := length (gsecs g)).
    assert (Hk : length (firstn k svals) = k) by (apply firstn_length_le; unfold k; lia).
    assert (Hws2 : cp_ws_list c2 = firstn k svals ++ (skipn k svals ++ mores)).
    { unfold c2. cbn [cp_ws_list]. rewrite F4, Hws, app_assoc, firstn_skipn. reflexivity. }
    set (nxt := match gs with g' :: _ => ts g' | [] => L end).
    assert (Hh2 : head_at (flat_map grp_marks gs ++ rest) nxt) by (unfold nxt; destruct gs as [|g' gs']; [exact Hh | reflexivity]).
    destruct (sec_walk txt t (gsecs g) (firstn k svals) (skipn k svals ++ mores) _ nxt c2 c' Hk Hh2 F1 Hws2 H)
      as (c3 & news1 & Hw3 & Htc3 & HF3 & W3 & S3 & WL3).
    assert (Hs' : length (skipn k svals) = total_secs gs) by (rewrite skipn_length; unfold k; lia).
    destruct (IH tvals (skipn k svals) moret mores rest L c3 c' Ht Hs' Hh ltac:(rewrite WL3; unfold c2; cbn [cp_wt_list]; exact F2) S3 Hw3)
      as (c4 & news2 & Hw4 & Htc4 & HF4 & WL4 & S4).
    exists c4, (news1 ++ news2). split; [exact Hw4|]. split; [rewrite Htc4, Htc3; unfold c2; cbn [cp_tc]; rewrite F5, <- app_assoc; reflexivity|].
    split; [|split; assumption]. cbn [grp_triples]. apply Forall2_app; assumption.
Qed.

(* the Twp/Rge-Sec-desc chunk: optional leading text, groups, end of text *)
Definition trs_desc_marks (lead : bool) (gs : list grp) (L : nat) : list (nat * mkind) :=
  (if lead then [(0, TEXT_START)] else []) ++ flat_map grp_marks gs ++ [(L, TEXT_END)].

Theorem trs_desc_walk txt lead gs L tvals svals c c' :
  length tvals = length gs -> length svals = total_secs gs ->
  cp_wt_list c = tvals -> cp_ws_list c = svals ->
  walk_k txt true (trs_desc_marks lead gs L) c = Ok c' ->
  exists news, cp_tc c' = cp_tc c ++ news /\ Forall2 matches_triple news (grp_triples txt gs tvals svals L) /\
               cp_wt_list c' = [] /\ cp_ws_list c' = [].
Proof.
  intros Ht Hs Hwt Hws H. unfold trs_desc_marks in H.
  assert (G : forall c0, cp_wt_list c0 = tvals -> cp_ws_list c0 = svals ->
            walk_k txt true (flat_map grp_marks gs ++ [(L, TEXT_END)]) c0 = Ok c' ->
            exists news, cp_tc c' = cp_tc c0 ++ news /\ Forall2 matches_triple news (grp_triples txt gs tvals svals L) /\ cp_wt_list c' = [] /\ cp_ws_list c' = []).
  { intros c0 W S H0.
    destruct (grp_walk txt gs tvals svals [] [] [(L, TEXT_END)] L c0 c' Ht Hs eq_refl ltac:(rewrite app_nil_r; exact W) ltac:(rewrite app_nil_r; exact S) H0)
      as (c1 & news & Hw & Htc & HF & WL & SL).
    cbn [walk_k] in Hw. injection Hw as <-. exists news. auto. }
  destruct lead; cbn [app] in H; [|exact (G c Hwt Hws H)].
  cbn [walk_k] in H. cbv zeta in H. cbn [andb mk_eqb negb] in H.
  match type of H with walk_k _ _ _ ?cu = _ => destruct (G cu Hwt Hws H) as (news & Htc & R) end. exists news. split; [exact Htc | exact R].
Qed.

(* the same for the real walk over the marker dictionary *)
Theorem trs_desc_walk_md txt md lead gs L tvals svals c c' :
  (forall p k, In (p, k) (trs_desc_marks lead gs L) -> md_get p md = Some k) ->
  length tvals = length gs -> length svals = total_secs gs -> cp_wt_list c = tvals -> cp_ws_list c = svals ->
  walk txt true md (map fst (trs_desc_marks lead gs L)) c = Ok c' ->
  exists news, cp_tc c' = cp_tc c ++ news /\ Forall2 matches_triple news (grp_triples txt gs tvals svals L) /\
               cp_wt_list c' = [] /\ cp_ws_list c' = [].
Proof. intros Hmd Ht Hs W S H. rewrite (walk_walk_k txt true md _ c Hmd) in H. exact (trs_desc_walk txt lead gs L tvals svals c c' Ht Hs W S H). Qed.

(* ================================================================== *)
(* Sec-desc-Twp/Rge: groups  (S block)* T ; the Twp/Rge of a group FOLLOWS its sections.  The chunk
   parser pops the first Twp/Rge before the walk; each T marker pops the one for the next group. *)
Definition grp_marks_str (g : grp) : list (nat * mkind) := sec_marks (gsecs g) ++ [(ts g, TWPRGE_START); (te g, TWPRGE_END)].

(* what get_next_twprge leaves as the working Twp/Rge when the list may be exhausted *)
Definition next_tw (l : list str) : str := match l with t :: _ => t | [] => MC_ERR_TWPRGE end.

(* the Twp/Rge in force for a group is [cur]; its T marker pops the next one (the error Twp/Rge when none is left) *)
Fixpoint grp_triples_str (txt : str) (gs : list grp) (cur : str) (tvals : list str) (svals : list (list str)) : list (str * list str * str) :=
  match gs with
  | g :: gs' =>
      let k := length (gsecs g) in
      sec_triples txt cur (gsecs g) (firstn k svals) (ts g) ++ grp_triples_str txt gs' (next_tw tvals) (tl tvals) (skipn k svals)
  | [] => []
  end.

Lemma get_next_twprge_fields' c :
  cp_wt (get_next_twprge c) = Some (next_tw (cp_wt_list c)) /\ cp_wt_list (get_next_twprge c) = tl (cp_wt_list c) /\
  cp_ws (get_next_twprge c) = cp_ws c /\ cp_ws_list (get_next_twprge c) = cp_ws_list c /\ cp_tc (get_next_twprge c) = cp_tc c.
Proof.
  unfold get_next_twprge. cbv zeta.
  match goal with |- context [if ?b then set_flags ?a1 ?a2 ?a3 ?a4 ?a5 else _] => set (c1 := if b then set_flags a1 a2 a3 a4 a5 else c) end.
  assert (E : cp_wt_list c1 = cp_wt_list c /\ cp_ws_list c1 = cp_ws_list c /\ cp_ws c1 = cp_ws c /\ cp_tc c1 = cp_tc c).
  { unfold c1. match goal with |- context [if ?b then _ else _] => destruct b end; repeat split; reflexivity. }
  destruct E as (E1 & E2 & E3 & E4). rewrite E1. destruct (cp_wt_list c) as [|t more]; cbn [cp_ws cp_ws_list cp_wt cp_wt_list cp_tc next_tw tl]; auto.
Qed.

Lemma grp_walk_str txt : forall gs tvals svals mores rest c c' t0,
  length svals = total_secs gs -> cp_wt c = Some t0 -> cp_wt_list c = tvals -> cp_ws_list c = svals ++ mores ->
  walk_k txt true (flat_map grp_marks_str gs ++ rest) c = Ok c' ->
  exists c1 news, walk_k txt true rest c1 = Ok c' /\ cp_tc c1 = cp_tc c ++ news /\
    Forall2 matches_triple news (grp_triples_str txt gs t0 tvals svals) /\ cp_ws_list c1 = mores.
Proof.
  induction gs as [|g gs IH]; intros tvals svals mores rest c c' t0 Hs Hw0 Hwt Hws H.
  - destruct svals; [|discriminate]. exists c, []. cbn in *. rewrite app_nil_r. repeat split; try assumption. constructor.
  - cbn [total_secs fold_right] in Hs. fold (total_secs gs) in Hs.
    cbn [flat_map] in H. unfold grp_marks_str at 1 in H. rewrite <- !app_assoc in H.
    set (k := length (gsecs g)).
    assert (Hk : length (firstn k svals) = k) by (apply firstn_length_le; unfold k; lia).
    assert (Hws2 : cp_ws_list c = firstn k svals ++ (skipn k svals ++ mores)) by (rewrite Hws, app_assoc, firstn_skipn; reflexivity).
    set (rest1 := [(ts g, TWPRGE_START); (te g, TWPRGE_END)] ++ flat_map grp_marks_str gs ++ rest) in *.
    assert (Hh : head_at rest1 (ts g)) by reflexivity.
    destruct (sec_walk txt t0 (gsecs g) (firstn k svals) (skipn k svals ++ mores) rest1 (ts g) c c' Hk Hh Hw0 Hws2 H)
      as (c3 & news1 & Hw3 & Htc3 & HF3 & W3 & S3 & WL3).
    unfold rest1 in Hw3. cbn [app walk_k] in Hw3. cbv zeta in Hw3.
    destruct (get_next_twprge_fields' c3) as (F1 & F2 & F3 & F4 & F5). rewrite WL3, Hwt in F1, F2.
    set (c4 := get_next_twprge c3) in *. cbn [andb mk_eqb negb] in Hw3.
    match type of Hw3 with walk_k _ _ _ ?cu = _ => set (c5 := cu) in * end.
    assert (Hs' : length (skipn k svals) = total_secs gs) by (rewrite skipn_length; unfold k; lia).
    destruct (IH (tl tvals) (skipn k svals) mores rest c5 c' (next_tw tvals) Hs' F1 F2 ltac:(unfold c5; cbn [cp_ws_list]; rewrite F4; exact S3) Hw3)
      as (c6 & news2 & Hw6 & Htc6 & HF6 & S6).
    exists c6, (news1 ++ news2). split; [exact Hw6|]. split; [rewrite Htc6; unfold c5; cbn [cp_tc]; rewrite F5, Htc3, <- app_assoc; reflexivity|].
    split; [|assumption]. cbn [grp_triples_str]. apply Forall2_app; assumption.
Qed.

Definition s_desc_tr_marks (lead : bool) (gs : list grp) (L : nat) : list (nat * mkind) :=
  (if lead then [(0, TEXT_START)] else []) ++ flat_map grp_marks_str gs ++ [(L, TEXT_END)].

(* as parse_chunk_with runs it: get_next_twprge first, then the walk *)
Theorem s_desc_tr_walk txt md lead gs L t0 tvals svals c c' :
  (forall p k, In (p, k) (s_desc_tr_marks lead gs L) -> md_get p md = Some k) ->
  length svals = total_secs gs -> cp_wt_list c = t0 :: tvals -> cp_ws_list c = svals ->
  walk txt true md (map fst (s_desc_tr_marks lead gs L)) (get_next_twprge c) = Ok c' ->
  exists news, cp_tc c' = cp_tc c ++ news /\ Forall2 matches_triple news (grp_triples_str txt gs t0 tvals svals) /\ cp_ws_list c' = [].
Proof.
  intros Hmd Hs Hwt Hws H. rewrite (walk_walk_k txt true md _ _ Hmd) in H. unfold s_desc_tr_marks in H.
  destruct (get_next_twprge_fields c t0 tvals Hwt) as (F1 & F2 & F3 & F4 & F5). set (c0 := get_next_twprge c) in *.
  assert (G : forall cc, cp_wt cc = Some t0 -> cp_wt_list cc = tvals -> cp_ws_list cc = svals -> cp_tc cc = cp_tc c ->
            walk_k txt true (flat_map grp_marks_str gs ++ [(L, TEXT_END)]) cc = Ok c' ->
            exists news, cp_tc c' = cp_tc c ++ news /\ Forall2 matches_triple news (grp_triples_str txt gs t0 tvals svals) /\ cp_ws_list c' = []).
  { intros cc W WL SL TC H0.
    destruct (grp_walk_str txt gs tvals svals [] [(L, TEXT_END)] cc c' t0 Hs W WL ltac:(rewrite app_nil_r; exact SL) H0) as (c1 & news & Hw & Htc & HF & S1).
    cbn [walk_k] in Hw. injection Hw as <-. exists news. rewrite Htc, TC. auto. }
  destruct lead; cbn [app] in H; [|exact (G c0 F1 F2 ltac:(congruence) F5 H)].
  cbn [walk_k] in H. cbv zeta in H. cbn [andb mk_eqb negb] in H.
  match type of H with walk_k _ _ _ ?cu = _ => exact (G cu F1 F2 ltac:(cbn [cp_ws_list]; congruence) F5 H) end.
Qed.

(* ================================================================== *)
(* the two description-first layouts (sd = false): a block becomes a tract when the NEXT marker opens a
   section; the section value in force was popped at the previous section marker (or before the walk) *)
Definition next_sec (l : list (list str)) : list str := match l with v :: _ => v | [] => [MC_ERR_SEC] end.

Lemma get_next_sec_fields' c :
  cp_ws (get_next_sec c) = Some (next_sec (cp_ws_list c)) /\ cp_ws_list (get_next_sec c) = tl (cp_ws_list c) /\
  cp_wt (get_next_sec c) = cp_wt c /\ cp_wt_list (get_next_sec c) = cp_wt_list c /\ cp_tc (get_next_sec c) = cp_tc c.
Proof.
  unfold get_next_sec. cbv zeta.
  match goal with |- context [if ?b then set_flags ?a1 ?a2 ?a3 ?a4 ?a5 else _] => set (c1 := if b then set_flags a1 a2 a3 a4 a5 else c) end.
  assert (E : cp_wt_list c1 = cp_wt_list c /\ cp_ws_list c1 = cp_ws_list c /\ cp_wt c1 = cp_wt c /\ cp_tc c1 = cp_tc c).
  { unfold c1. match goal with |- context [if ?b then _ else _] => destruct b end; repeat split; reflexivity. }
  destruct E as (E1 & E2 & E3 & E4). rewrite E2. destruct (cp_ws_list c) as [|v more]; cbn [cp_ws cp_ws_list cp_wt cp_wt_list cp_tc next_sec tl]; auto.
Qed.

Definition text_bearing (k : mkind) : bool := match k with TEXT_START | TWPRGE_END | SEC_END => true | _ => false end.
Definition head_not_sec (rest : list (nat * mkind)) : Prop := match rest with (_, SEC_START) :: _ => False | _ => True end.

(* blocks BEFORE each section of the list, starting at p0; cur = section value in force, vals = values still to be popped *)
Fixpoint sec_triples_d (txt : str) (t : str) (p0 : nat) (l : list secm) (cur : list str) (vals : list (list str)) : list (str * list str * str) :=
  match l with
  | [] => []
  | m :: l' => (slice txt p0 (ss m), cur, t) :: sec_triples_d txt t (se m) l' (next_sec vals) (tl vals)
  end.
Fixpoint after_secs (n : nat) (cur : list str) (vals : list (list str)) : list str * list (list str) :=
  match n with O => (cur, vals) | S n' => after_secs n' (next_sec vals) (tl vals) end.

Lemma sec_walk_d txt t : forall l p0 K0 cur vals rest c c',
  text_bearing K0 = true -> head_not_sec rest -> cp_wt c = Some t -> cp_ws c = Some cur -> cp_ws_list c = vals ->
  walk_k txt false ((p0, K0) :: sec_marks l ++ rest) c = Ok c' ->
  exists c1 news, walk_k txt false rest c1 = Ok c' /\ cp_tc c1 = cp_tc c ++ news /\
    Forall2 matches_triple news (sec_triples_d txt t p0 l cur vals) /\
    cp_wt c1 = Some t /\ cp_wt_list c1 = cp_wt_list c /\
    (l <> [] -> cp_ws c1 = Some (fst (after_secs (length l) cur vals)) /\ cp_ws_list c1 = snd (after_secs (length l) cur vals)) /\
    (l = [] -> cp_ws c1 = cp_ws c /\ cp_ws_list c1 = cp_ws_list c).
Proof.
  induction l as [|m l IH]; intros p0 K0 cur vals rest c c' HK Hh Hwt Hws Hwl H.
  - cbn [sec_marks flat_map app walk_k] in H. cbv zeta in H.
    assert (Hn : mk_eqb (snd (match rest with (q, k) :: _ => (q, k) | [] => (p0, K0) end)) SEC_START = false).
    { destruct rest as [|[q k] r]; [destruct K0; try discriminate HK; reflexivity | destruct k; try reflexivity; contradiction]. }
    destruct K0; try discriminate HK; cbn [andb negb] in H; rewrite Hn in H;
      (eexists; exists []; split; [exact H|]; cbn [cp_tc cp_wt cp_wt_list cp_ws cp_ws_list]; rewrite app_nil_r;
       repeat split; try assumption; try reflexivity; try constructor; intros K; contradiction).
  - cbn [sec_marks flat_map app] in H. fold (sec_marks l) in H. cbn [walk_k] in H. cbv zeta in H. cbn [fst snd] in H.
    assert (Hprep : exists c2, prep_new_tract c (slice txt p0 (ss m)) = Ok c2 /\
                               walk_k txt false ((ss m, SEC_START) :: (se m, SEC_END) :: sec_marks l ++ rest) c2 = Ok c').
    { destruct K0; try discriminate HK; cbn [andb negb mk_eqb] in H;
        (destruct (prep_new_tract c (slice txt p0 (ss m))) as [c2|e]; cbn [bind] in H; [exists c2; split; [reflexivity | exact H] | discriminate]). }
    destruct Hprep as (c2 & Ep & H2). destruct (prep_fields c _ c2 cur t Hws Hwt Ep) as (d & Hd & T2 & W2 & WL2 & SL2).
    cbn [walk_k] in H2. destruct (get_next_sec_fields' c2) as (F1 & F2 & F3 & F4 & F5). rewrite SL2, Hwl in F1, F2. set (c3 := get_next_sec c2) in *.
    destruct (IH (se m) SEC_END (next_sec vals) (tl vals) rest c3 c' eq_refl Hh ltac:(congruence) F1 F2 H2)
      as (c4 & news & Hw4 & Htc4 & HF4 & W4 & WL4 & Hne & He).
    exists c4, (mk_tcomp d cur t false :: news). split; [exact Hw4|]. split; [rewrite Htc4, F5, T2, <- app_assoc; reflexivity|].
    split; [cbn [sec_triples_d]; constructor; [unfold matches_triple; cbn; auto | exact HF4]|].
    split; [exact W4|]. split; [congruence|]. split; [|intros K; discriminate K].
    intros _. cbn [length after_secs]. destruct l as [|m' l'].
    + destruct (He eq_refl) as [E1 E2]. cbn [length after_secs fst snd]. split; congruence.
    + exact (Hne ltac:(discriminate)).
Qed.

(* ---- Twp/Rge-desc-Sec: groups  T (block S)* ---- *)
Fixpoint grp_triples_trd (txt : str) (gs : list grp) (tvals : list str) (cur : list str) (vals : list (list str)) : list (str * list str * str) :=
  match gs with
  | [] => []
  | g :: gs' =>
      let k := length (gsecs g) in
      sec_triples_d txt (next_tw tvals) (te g) (gsecs g) cur vals
      ++ grp_triples_trd txt gs' (tl tvals) (fst (after_secs k cur vals)) (snd (after_secs k cur vals))
  end.

Lemma sec_walk_d_state txt t l p0 K0 cur vals rest c c' :
  text_bearing K0 = true -> head_not_sec rest -> cp_wt c = Some t -> cp_ws c = Some cur -> cp_ws_list c = vals ->
  walk_k txt false ((p0, K0) :: sec_marks l ++ rest) c = Ok c' ->
  exists c1 news, walk_k txt false rest c1 = Ok c' /\ cp_tc c1 = cp_tc c ++ news /\
    Forall2 matches_triple news (sec_triples_d txt t p0 l cur vals) /\
    cp_wt c1 = Some t /\ cp_wt_list c1 = cp_wt_list c /\
    cp_ws c1 = Some (fst (after_secs (length l) cur vals)) /\ cp_ws_list c1 = snd (after_secs (length l) cur vals).
Proof.
  intros HK Hh Hwt Hws Hwl H.
  destruct (sec_walk_d txt t l p0 K0 cur vals rest c c' HK Hh Hwt Hws Hwl H) as (c1 & news & Hw & Htc & HF & W & WL & Hne & He).
  exists c1, news. repeat split; try assumption; destruct l as [|m l']; try (destruct (He eq_refl) as [E1 E2]; cbn [length after_secs fst snd]; congruence);
    destruct (Hne ltac:(discriminate)) as [E1 E2]; assumption.
Qed.

Lemma grp_walk_trd txt : forall gs tvals cur vals rest c c',
  head_not_sec rest -> cp_wt_list c = tvals -> cp_ws c = Some cur -> cp_ws_list c = vals ->
  walk_k txt false (flat_map grp_marks gs ++ rest) c = Ok c' ->
  exists c1 news, walk_k txt false rest c1 = Ok c' /\ cp_tc c1 = cp_tc c ++ news /\
    Forall2 matches_triple news (grp_triples_trd txt gs tvals cur vals).
Proof.
  induction gs as [|g gs IH]; intros tvals cur vals rest c c' Hh Hwt Hws Hwl H.
  - exists c, []. cbn in *. rewrite app_nil_r. repeat split; try assumption. constructor.
  - cbn [flat_map grp_marks app] in H. rewrite <- app_assoc in H. cbn [walk_k] in H.
    destruct (get_next_twprge_fields' c) as (F1 & F2 & F3 & F4 & F5). rewrite Hwt in F1, F2. set (c1 := get_next_twprge c) in *.
    assert (Hh2 : head_not_sec (flat_map grp_marks gs ++ rest)) by (destruct gs as [|g' gs']; [exact Hh | exact I]).
    destruct (sec_walk_d_state txt (next_tw tvals) (gsecs g) (te g) TWPRGE_END cur vals _ c1 c' eq_refl Hh2 F1 ltac:(congruence) ltac:(congruence) H)
      as (c2 & news1 & Hw2 & Htc2 & HF2 & W2 & WL2 & S2 & SL2).
    destruct (IH (tl tvals) _ _ rest c2 c' Hh ltac:(congruence) S2 SL2 Hw2) as (c3 & news2 & Hw3 & Htc3 & HF3).
    exists c3, (news1 ++ news2). split; [exact Hw3|]. split; [rewrite Htc3, Htc2, F5, <- app_assoc; reflexivity|].
    cbn [grp_triples_trd]. apply Forall2_app; assumption.
Qed.

Lemma lead_unused txt p K rest c c' :
  text_bearing K = true -> head_not_sec rest -> walk_k txt false ((p, K) :: rest) c = Ok c' ->
  exists cu, walk_k txt false rest cu = Ok c' /\ cp_tc cu = cp_tc c /\ cp_wt cu = cp_wt c /\ cp_wt_list cu = cp_wt_list c /\
             cp_ws cu = cp_ws c /\ cp_ws_list cu = cp_ws_list c.
Proof.
  intros HK Hh H. cbn [walk_k] in H. cbv zeta in H.
  assert (Hn : mk_eqb (snd (match rest with (q, k) :: _ => (q, k) | [] => (p, K) end)) SEC_START = false).
  { destruct rest as [|[q k] r]; [destruct K; try discriminate HK; reflexivity | destruct k; try reflexivity; contradiction]. }
  destruct K; try discriminate HK; cbn [andb negb] in H; rewrite Hn in H; (eexists; split; [exact H | repeat split]).
Qed.

Definition tr_desc_s_marks (lead : bool) (gs : list grp) (L : nat) : list (nat * mkind) :=
  (if lead then [(0, TEXT_START)] else []) ++ flat_map grp_marks gs ++ [(L, TEXT_END)].

(* as parse_chunk_with runs it: get_next_sec first, then the walk; a leading block must be followed by a Twp/Rge *)
Theorem tr_desc_s_walk txt md lead gs L tvals svals c c' :
  (forall p k, In (p, k) (tr_desc_s_marks lead gs L) -> md_get p md = Some k) -> (lead = true -> gs <> []) ->
  cp_wt_list c = tvals -> cp_ws_list c = svals ->
  walk txt false md (map fst (tr_desc_s_marks lead gs L)) (get_next_sec c) = Ok c' ->
  exists news, cp_tc c' = cp_tc c ++ news /\ Forall2 matches_triple news (grp_triples_trd txt gs tvals (next_sec svals) (tl svals)).
Proof.
  intros Hmd Hlead Hwt Hws H. rewrite (walk_walk_k txt false md _ _ Hmd) in H. unfold tr_desc_s_marks in H.
  destruct (get_next_sec_fields' c) as (F1 & F2 & F3 & F4 & F5). rewrite Hws in F1, F2. set (c0 := get_next_sec c) in *.
  assert (G : forall cc, cp_wt_list cc = tvals -> cp_ws cc = Some (next_sec svals) -> cp_ws_list cc = tl svals -> cp_tc cc = cp_tc c ->
            walk_k txt false (flat_map grp_marks gs ++ [(L, TEXT_END)]) cc = Ok c' ->
            exists news, cp_tc c' = cp_tc c ++ news /\ Forall2 matches_triple news (grp_triples_trd txt gs tvals (next_sec svals) (tl svals))).
  { intros cc WL S SL TC H0.
    destruct (grp_walk_trd txt gs tvals _ _ [(L, TEXT_END)] cc c' I WL S SL H0) as (c1 & news & Hw & Htc & HF).
    cbn [walk_k] in Hw. injection Hw as <-. exists news. rewrite Htc, TC. auto. }
  destruct lead; cbn [app] in H; [|exact (G c0 ltac:(congruence) F1 F2 F5 H)].
  assert (Hh : head_not_sec (flat_map grp_marks gs ++ [(L, TEXT_END)])) by (destruct gs as [|g gs']; exact I).
  destruct (lead_unused txt 0 TEXT_START _ c0 c' eq_refl Hh H) as (cu & Hw & TC & W & WL & S & SL).
  exact (G cu ltac:(congruence) ltac:(congruence) ltac:(congruence) ltac:(congruence) Hw).
Qed.

(* ---- desc-Sec-Twp/Rge: groups  (block S)* T ; the text-bearing marker before a group is the start of the
   text or the end of the previous group's Twp/Rge ---- *)
Fixpoint dstr_marks (p0 : nat) (K0 : mkind) (gs : list grp) (tail : list (nat * mkind)) : list (nat * mkind) :=
  (p0, K0) :: match gs with
              | [] => tail
              | g :: gs' => sec_marks (gsecs g) ++ (ts g, TWPRGE_START) :: dstr_marks (te g) TWPRGE_END gs' tail
              end.

Fixpoint dstr_triples (txt : str) (gs : list grp) (p0 : nat) (tcur : str) (tvals : list str) (cur : list str) (vals : list (list str))
  : list (str * list str * str) :=
  match gs with
  | [] => []
  | g :: gs' =>
      let k := length (gsecs g) in
      sec_triples_d txt tcur p0 (gsecs g) cur vals
      ++ dstr_triples txt gs' (te g) (next_tw tvals) (tl tvals) (fst (after_secs k cur vals)) (snd (after_secs k cur vals))
  end.

Lemma grp_walk_dstr txt tail : (tail = [] \/ exists L, tail = [(L, TEXT_END)]) ->
  forall gs p0 K0 tcur tvals cur vals c c',
  text_bearing K0 = true -> cp_wt c = Some tcur -> cp_wt_list c = tvals -> cp_ws c = Some cur -> cp_ws_list c = vals ->
  walk_k txt false (dstr_marks p0 K0 gs tail) c = Ok c' ->
  exists news, cp_tc c' = cp_tc c ++ news /\ Forall2 matches_triple news (dstr_triples txt gs p0 tcur tvals cur vals).
Proof.
  intros Htail. induction gs as [|g gs IH]; intros p0 K0 tcur tvals cur vals c c' HK Hw Hwl Hs Hsl H.
  - cbn [dstr_marks] in H. assert (Hh : head_not_sec tail) by (destruct Htail as [->|(L & ->)]; exact I).
    change ((p0, K0) :: tail) with ((p0, K0) :: sec_marks [] ++ tail) in H.
    destruct (sec_walk_d_state txt tcur [] p0 K0 cur vals tail c c' HK Hh Hw Hs Hsl H) as (c1 & news & Hw1 & Htc & HF & _).
    inversion HF; subst. exists []. split; [|constructor].
    destruct Htail as [->|(L & ->)]; cbn [walk_k] in Hw1; injection Hw1 as <-; rewrite Htc; reflexivity.
  - cbn [dstr_marks] in H.
    destruct (sec_walk_d_state txt tcur (gsecs g) p0 K0 cur vals ((ts g, TWPRGE_START) :: dstr_marks (te g) TWPRGE_END gs tail) c c' HK I Hw Hs Hsl H) as (c1 & news1 & Hw1 & Htc1 & HF1 & W1 & WL1 & S1 & SL1).
    cbn [walk_k] in Hw1. destruct (get_next_twprge_fields' c1) as (F1 & F2 & F3 & F4 & F5). rewrite WL1, Hwl in F1, F2. set (c2 := get_next_twprge c1) in *.
    destruct (IH (te g) TWPRGE_END (next_tw tvals) (tl tvals) (fst (after_secs (length (gsecs g)) cur vals)) (snd (after_secs (length (gsecs g)) cur vals)) c2 c' eq_refl F1 F2
                 ltac:(rewrite F3; exact S1) ltac:(rewrite F4; exact SL1) Hw1) as (news2 & Htc2 & HF2).
    exists (news1 ++ news2). split; [rewrite Htc2, F5, Htc1, <- app_assoc; reflexivity|]. cbn [dstr_triples]. apply Forall2_app; assumption.
Qed.

(* as parse_chunk_with runs it: get_next_sec, get_next_twprge, then the walk from the start of the text *)
Theorem desc_str_walk txt md gs tail tvals svals c c' :
  (tail = [] \/ exists L, tail = [(L, TEXT_END)]) ->
  (forall p k, In (p, k) (dstr_marks 0 TEXT_START gs tail) -> md_get p md = Some k) ->
  cp_wt_list c = tvals -> cp_ws_list c = svals ->
  walk txt false md (map fst (dstr_marks 0 TEXT_START gs tail)) (get_next_twprge (get_next_sec c)) = Ok c' ->
  exists news, cp_tc c' = cp_tc c ++ news /\
    Forall2 matches_triple news (dstr_triples txt gs 0 (next_tw tvals) (tl tvals) (next_sec svals) (tl svals)).
Proof.
  intros Htail Hmd Hwt Hws H. rewrite (walk_walk_k txt false md _ _ Hmd) in H.
  destruct (get_next_sec_fields' c) as (F1 & F2 & F3 & F4 & F5). rewrite Hws in F1, F2. set (c0 := get_next_sec c) in *.
  destruct (get_next_twprge_fields' c0) as (G1 & G2 & G3 & G4 & G5). rewrite F4, Hwt in G1, G2. set (c1 := get_next_twprge c0) in *.
  destruct (grp_walk_dstr txt tail Htail gs 0 TEXT_START (next_tw tvals) (tl tvals) (next_sec svals) (tl svals) c1 c' eq_refl G1 G2
             ltac:(rewrite G3; exact F1) ltac:(rewrite G4; exact F2) H) as (news & Htc & HF).
  exists news. split; [rewrite Htc, G5, F5; reflexivity | exact HF].
Qed.
