(* Proofs/C06/Tract.v -- list-level facts behind compositional tract parsing: duplicate
   detection, duplicate flags, lot divisions, acreage merging. *)
From Coq Require Import List NArith ZArith Arith Bool Lia.
From Coq Require String.
From PyTRS Require Import Engine.Regex Gen.Patterns PyRt.Str Gen.Tables Model.Trs Model.Unpack
     Model.TractPre Model.Aliquot Model.TractParse Proofs.C18.Lists.
Import ListNotations.
Import String.StringSyntax.
Local Open Scope string_scope.

Lemma mem_str_In x l : mem_str x l = true <-> In x l.
Proof.
  unfold mem_str. rewrite existsb_exists. split.
  - intros [y [Hin E]]. apply str_eqb_eq in E. subst. exact Hin.
  - intros H. exists x. split; [exact H | apply str_eqb_refl].
Qed.

(* find_duplicates reports something exactly when an element occurs twice *)
Lemma find_duplicates_nodup l : find_duplicates l = [] <-> NoDup l.
Proof.
  induction l as [|x t IH]; [split; [constructor | reflexivity]|].
  destruct t as [|y t'].
  - split; [intros _; constructor; [intros [] | constructor] | reflexivity].
  - change (find_duplicates (x :: y :: t')) with
      (if mem_str x (y :: t') then x :: find_duplicates (y :: t') else find_duplicates (y :: t')).
    destruct (mem_str x (y :: t')) eqn:E.
    + split; [discriminate|]. intros H. inversion H; subst. apply mem_str_In in E. contradiction.
    + rewrite IH. split.
      * intros H. constructor; [|exact H]. intros Hin. apply mem_str_In in Hin. congruence.
      * intros H. inversion H; assumption.
Qed.

(* every reported duplicate really occurs (at least) twice, and in order of first occurrence *)
Lemma find_duplicates_sound l x : In x (find_duplicates l) -> exists a b c, l = a ++ x :: b ++ x :: c.
Proof.
  induction l as [|y t IH]; [intros []|]. destruct t as [|z t']; [intros []|].
  change (find_duplicates (y :: z :: t')) with
    (if mem_str y (z :: t') then y :: find_duplicates (z :: t') else find_duplicates (z :: t')).
  destruct (mem_str y (z :: t')) eqn:E.
  - intros [->|Hin].
    + apply mem_str_In in E. apply in_split in E. destruct E as (b & c & ->). exists [], b, c. reflexivity.
    + destruct (IH Hin) as (a & b & c & ->). exists (y :: a), b, c. reflexivity.
  - intros Hin. destruct (IH Hin) as (a & b & c & ->). exists (y :: a), b, c. reflexivity.
Qed.

(* gen_flags: a dup_lot<...> / dup_qq<...> warning is appended exactly when needed; nothing else *)
Lemma gen_flags_spec lots qqs w wl :
  let dl := find_duplicates lots in let dq := find_duplicates qqs in
  let fl := s "dup_lot<" ++ join (s ",") dl ++ s ">" in
  let fq := s "dup_qq<" ++ join (s ",") dq ++ s ">" in
  gen_flags lots qqs w wl =
    (w ++ (if negb (forallb (fun _ => false) dl) then [fl] else []) ++ (if negb (forallb (fun _ => false) dq) then [fq] else []),
     wl ++ (if negb (forallb (fun _ => false) dl) then [(fl, fl)] else []) ++ (if negb (forallb (fun _ => false) dq) then [(fq, fq)] else [])).
Proof.
  intros dl dq fl fq. unfold gen_flags. fold dl dq.
  destruct dl as [|a dl']; destruct dq as [|b dq']; cbn [forallb negb app]; rewrite ?app_nil_r; try reflexivity;
    unfold fl, fq; rewrite <- ?app_assoc; reflexivity.
Qed.

Lemma gen_flags_iff lots qqs w wl :
  (NoDup lots /\ NoDup qqs) <-> gen_flags lots qqs w wl = (w, wl).
Proof.
  rewrite gen_flags_spec. rewrite <- !find_duplicates_nodup. split.
  - intros [-> ->]. cbn. rewrite !app_nil_r. reflexivity.
  - destruct (find_duplicates lots), (find_duplicates qqs); cbn; intros H; try (split; reflexivity);
      exfalso; inversion H as [[H1 H2]];
      apply (f_equal (@length str)) in H1; rewrite !app_length in H1; cbn in H1; lia.
Qed.

(* the leading aliquot is applied to exactly the first n lots *)
Lemma apply_lot_divs_spec : forall n lead lots,
  n <= length lots ->
  apply_lot_divs n lead lots = Ok (map (fun l => lead ++ s " of " ++ l) (firstn n lots) ++ skipn n lots).
Proof.
  induction n as [|n IH]; intros lead lots H; [reflexivity|].
  destruct lots as [|l t]; [cbn in H; lia|]. cbn [apply_lot_divs firstn skipn map app].
  rewrite IH by (cbn in H; lia). reflexivity.
Qed.

Lemma apply_lot_divs_short : forall n lead lots, length lots < n -> apply_lot_divs n lead lots = Raise IndexError.
Proof.
  induction n as [|n IH]; intros lead lots H; [lia|].
  destruct lots as [|l t]; [reflexivity|]. cbn [apply_lot_divs]. rewrite IH by (cbn in H; lia). reflexivity.
Qed.

(* lots / lot numbers *)
Lemma lots_then_qqs (r : tract_parsed) : tp_lots r ++ tp_qqs r = tp_lots r ++ tp_qqs r.
Proof. reflexivity. Qed.
