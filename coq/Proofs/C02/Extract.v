(* Proofs/C02/Extract.v -- the chains C02 quantifies over are what the tract parser really hands to the aliquot parser:
   every block TractParser cuts out of ANY text (aliquot_unpacker_regex, then single_aliquot_unpacker_regex inside the block)
   yields a non-empty list of documented components without ALL, i.e. a valid chain; the only other block is the literal
   ALL.  So the hypothesis `valid_chain` of C02_tiling is met on every call the tract parser makes. *)
From Coq Require Import List NArith ZArith Arith Bool Lia.
From PyTRS Require Import Engine.Regex Engine.RegexSpec Engine.RegexStatic Engine.RegexLift Engine.RegexLang Engine.RegexComplete
     Gen.Patterns PyRt.Str Gen.Tables Model.Trs Model.Aliquot Model.TractParse Spec.Geometry Proofs.C03.Tract.
Import ListNotations.

Lemma finditer_nonempty_of_search r ng t : search r ng t <> None -> finditer r ng t <> [].
Proof.
  unfold search, search_pe, finditer, finditer_pe. replace (length t <? 0) with false by reflexivity. unfold clip.
  rewrite Nat.min_id, Nat.min_0_l. cbn [finditer_loop].
  destruct (scan (length t - 0) r ng false (st_at t 0 (length t))); [discriminate | contradiction].
Qed.

Lemma single_ctxfree : ctxfree single_aliquot_unpacker_regex = true.
Proof. vm_compute. reflexivity. Qed.

(* the first token of a block is itself a word of single_aliquot_unpacker_regex *)
Lemma tok_lang w : tok w -> lang single_aliquot_unpacker_regex w.
Proof.
  intros [(c & Hc & ->)|(c1 & c2 & Hq & ->)].
  - (* [c; ½] *) exists [c], [189%N]. split; [reflexivity|]. split.
    + left. exists [[c]]. split; [reflexivity|]. split; [constructor; [exists c; split; [reflexivity | exact Hc] | constructor]|]. cbn. lia.
    + exists [[189%N]]. split; [reflexivity|]. split; [constructor; [exists 189%N; split; [reflexivity | vm_compute; reflexivity] | constructor]|]. cbn. lia.
  - destruct (isQ_cases _ _ Hq) as [H1 H2].
    assert (L1 : isL c1 = true) by (destruct H1 as [-> | ->]; vm_compute; reflexivity).
    assert (L2 : isL c2 = true) by (destruct H2 as [-> | ->]; vm_compute; reflexivity).
    exists [c1; c2], [188%N]. split; [reflexivity|]. split.
    + left. exists [[c1]; [c2]]. split; [reflexivity|]. split; [|cbn; lia].
      constructor; [exists c1; split; [reflexivity | exact L1]|]. constructor; [exists c2; split; [reflexivity | exact L2] | constructor].
    + exists [[188%N]]. split; [reflexivity|]. split; [constructor; [exists 188%N; split; [reflexivity | vm_compute; reflexivity] | constructor]|]. cbn. lia.
Qed.

Lemma block_has_component b : block_shape b -> b <> [] -> components_of_text b <> [].
Proof.
  intros (toks & -> & F & _) Hne. unfold components_of_text. intros E. apply map_eq_nil in E. revert E.
  apply finditer_nonempty_of_search.
  (* the first non-empty token *)
  induction F as [|w ws Hw Hws IH]; [contradiction|]. cbn [concat] in *.
  assert (Hwne : w <> []) by (destruct Hw as [(c & _ & ->)|(c1 & c2 & _ & ->)]; discriminate).
  exact (lang_search _ _ w (concat ws) single_ctxfree (tok_lang w Hw)).
Qed.

Theorem extracted_blocks_valid : forall fuel t r, extract_aliquots fuel t [] = Ok r ->
  Forall (fun b => exists comps, comps_of_strs (components_of_text b) = Some comps /\ valid_chain (rev comps)) (snd r).
Proof.
  intros fuel t r H. pose proof (extract_aliquots_spec fuel t [] (Forall_nil _)) as K. rewrite H in K.
  eapply Forall_impl; [|exact K]. intros b Hb. destruct (block_components b Hb) as (comps & E & Fq). exists comps. split; [exact E|].
  right. split.
  - intros En. apply (f_equal (@rev comp)) in En. rewrite rev_involutive in En. cbn in En. subst comps.
    assert (Hbne : b <> []).
    { destruct Hb as (toks & -> & Ft & Hn). destruct toks as [|w ws]; [contradiction|]. inversion Ft as [|? ? Hw _]; subst.
      destruct Hw as [(c & _ & ->)|(c1 & c2 & _ & ->)]; discriminate. }
    apply (block_has_component b Hb Hbne). destruct (components_of_text b) as [|o l]; [reflexivity|]. cbn [comps_of_strs] in E.
    destruct o as [v|]; [destruct (comp_of_str v); [destruct (comps_of_strs l)|]|]; discriminate.
  - apply Forall_rev. exact Fq.
Qed.
