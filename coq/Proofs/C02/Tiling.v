(* Proofs/C02/Tiling.v -- a convenient characterisation of [tiles] for dyadic
   rectangles: relative (unit-square) tilings, their products, and the passage to the
   index-based statement of Spec/Geometry.v. *)
From Coq Require Import List Arith Bool Lia.
From PyTRS Require Import Model.Aliquot Spec.Geometry.
Import ListNotations.

(* ------------------------------------------------------------------ *)
(* exactly one element of a list satisfies P (by position)             *)

Inductive ex1 {A} (P : A -> Prop) : list A -> Prop :=
| ex1_here a t : P a -> Forall (fun x => ~ P x) t -> ex1 P (a :: t)
| ex1_later a t : ~ P a -> ex1 P t -> ex1 P (a :: t).

Lemma ex1_nth {A} (P : A -> Prop) l d :
  ex1 P l -> exists! i, i < length l /\ P (nth i l d).
Proof.
  induction 1 as [a t Ha Hn | a t Ha Ht IH].
  - exists 0. split.
    + split; [simpl; lia|exact Ha].
    + intros [|j] [Hj Pj]; [reflexivity|]. exfalso. simpl in Hj, Pj.
      rewrite Forall_forall in Hn. apply (Hn (nth j t d)); [apply nth_In; lia|exact Pj].
  - destruct IH as [i [[Hi Pi] Hu]]. exists (S i). split.
    + split; [simpl; lia|exact Pi].
    + intros [|j] [Hj Pj]; [exfalso; apply Ha; exact Pj|].
      f_equal. apply Hu. split; [simpl in Hj; lia|exact Pj].
Qed.

Lemma ex1_ext {A} (P Q : A -> Prop) l :
  (forall x, P x <-> Q x) -> ex1 P l -> ex1 Q l.
Proof.
  intros H. induction 1 as [a t Ha Hn | a t Ha Ht IH].
  - apply ex1_here; [apply H; exact Ha|].
    eapply Forall_impl; [|exact Hn]. intros x Hx C. apply Hx, H, C.
  - apply ex1_later; [intros C; apply Ha, H, C|exact IH].
Qed.

Lemma ex1_map {A B} (f : A -> B) (P : B -> Prop) l :
  ex1 (fun x => P (f x)) l -> ex1 P (map f l).
Proof.
  induction 1 as [a t Ha Hn | a t Ha Ht IH]; simpl.
  - apply ex1_here; [exact Ha|]. apply Forall_forall. intros y Hy.
    apply in_map_iff in Hy. destruct Hy as (x & <- & Hx).
    rewrite Forall_forall in Hn. apply Hn, Hx.
  - apply ex1_later; assumption.
Qed.

Lemma ex1_app_l {A} (P : A -> Prop) l1 l2 :
  ex1 P l1 -> Forall (fun x => ~ P x) l2 -> ex1 P (l1 ++ l2).
Proof.
  intros H Hn. induction H as [a t Ha Ht | a t Ha Ht IH]; simpl.
  - apply ex1_here; [exact Ha|]. apply Forall_app. split; assumption.
  - apply ex1_later; assumption.
Qed.

Lemma ex1_app_r {A} (P : A -> Prop) l1 l2 :
  Forall (fun x => ~ P x) l1 -> ex1 P l2 -> ex1 P (l1 ++ l2).
Proof.
  intros Hn H. induction Hn as [|a t Ha Ht IH]; simpl; [exact H|].
  apply ex1_later; assumption.
Qed.

(* ------------------------------------------------------------------ *)
(* rectangles: concatenation and relative position                     *)

Definition U : rect := mkrect [] [].
Definition rapp (a b : rect) : rect := mkrect (xb a ++ xb b) (yb a ++ yb b).

Definition shiftp (R : rect) (p : point) : point :=
  (fun i => fst p (length (xb R) + i), fun i => snd p (length (yb R) + i)).

Lemma prefix_app l1 l2 f :
  prefix (l1 ++ l2) f <-> prefix l1 f /\ prefix l2 (fun i => f (length l1 + i)).
Proof.
  unfold prefix. split.
  - intros H. split.
    + intros i Hi. rewrite <- (H i); [|rewrite app_length; lia].
      rewrite app_nth1 by lia. reflexivity.
    + intros i Hi. rewrite <- (H (length l1 + i)); [|rewrite app_length; lia].
      rewrite app_nth2_plus. reflexivity.
  - intros [H1 H2] i Hi. rewrite app_length in Hi.
    destruct (lt_dec i (length l1)) as [L|L].
    + rewrite app_nth1 by lia. apply H1, L.
    + rewrite app_nth2 by lia. rewrite (H2 (i - length l1)) by lia.
      f_equal. lia.
Qed.

Lemma in_rect_rapp R b p :
  in_rect (rapp R b) p <-> in_rect R p /\ in_rect b (shiftp R p).
Proof.
  unfold in_rect, rapp, shiftp. simpl. rewrite !prefix_app. tauto.
Qed.

Lemma region_app l1 l2 : region (l1 ++ l2) = rapp (region l1) (region l2).
Proof. unfold region, rapp. simpl. rewrite !flat_map_app. reflexivity. Qed.

Lemma rapp_U_l b : rapp U b = b.
Proof. destruct b; reflexivity. Qed.
Lemma rapp_U_r b : rapp b U = b.
Proof. destruct b; unfold rapp; simpl. rewrite !app_nil_r. reflexivity. Qed.
Lemma rapp_assoc a b c : rapp (rapp a b) c = rapp a (rapp b c).
Proof. unfold rapp; simpl. rewrite <- !app_assoc. reflexivity. Qed.

(* ------------------------------------------------------------------ *)
(* tilings                                                             *)

(* stronger than [tiles]: also says that no piece reaches outside R *)
Definition tiles_strong (R : rect) (ps : list rect) : Prop :=
  (forall p, in_rect R p -> ex1 (fun r => in_rect r p) ps) /\
  Forall (fun r => forall p, in_rect r p -> in_rect R p) ps.

Lemma tiles_strong_tiles R ps : tiles_strong R ps -> tiles R ps.
Proof.
  intros [H1 H2] p. split.
  - intros Hp. apply (ex1_nth (fun r => in_rect r p)). apply H1, Hp.
  - intros [i [[Hi Hp] _]]. rewrite Forall_forall in H2.
    apply (H2 (nth i ps (mkrect [] []))); [apply nth_In, Hi|exact Hp].
Qed.

Lemma tiles_strong_disjoint R ps i j p :
  tiles_strong R ps -> i < length ps -> j < length ps ->
  in_rect (nth i ps U) p -> in_rect (nth j ps U) p -> i = j.
Proof.
  intros [H1 H2] Hi Hj Pi Pj. rewrite Forall_forall in H2.
  assert (HR : in_rect R p) by (apply (H2 (nth i ps U)); [apply nth_In, Hi|exact Pi]).
  destruct (ex1_nth (fun r => in_rect r p) ps U (H1 p HR)) as [k [_ Hu]].
  rewrite <- (Hu i), <- (Hu j); auto.
Qed.

(* relative tiling: a tiling of the whole unit square *)
Definition utiles (B : list rect) : Prop := forall p, ex1 (fun r => in_rect r p) B.

Lemma utiles_rapp R B : utiles B -> tiles_strong R (map (rapp R) B).
Proof.
  intros HB. split.
  - intros p Hp. apply ex1_map.
    apply (ex1_ext (fun b => in_rect b (shiftp R p))); [|apply HB].
    intros b. rewrite in_rect_rapp. tauto.
  - apply Forall_forall. intros r Hr p Hp.
    apply in_map_iff in Hr. destruct Hr as (b & <- & _).
    apply in_rect_rapp in Hp. apply Hp.
Qed.

Definition prod (A B : list rect) : list rect :=
  flat_map (fun a => map (rapp a) B) A.

Lemma utiles_prod A B : utiles A -> utiles B -> utiles (prod A B).
Proof.
  intros HA HB p. specialize (HA p).
  induction HA as [a t Ha Hn | a t Ha Ht IH]; unfold prod; simpl.
  - apply ex1_app_l.
    + apply ex1_map. apply (ex1_ext (fun b => in_rect b (shiftp a p))); [|apply HB].
      intros b. rewrite in_rect_rapp. tauto.
    + apply Forall_forall. intros r Hr Hp.
      apply in_flat_map in Hr. destruct Hr as (a' & Ha' & Hr).
      apply in_map_iff in Hr. destruct Hr as (b & <- & _).
      apply in_rect_rapp in Hp. rewrite Forall_forall in Hn. apply (Hn a' Ha'), Hp.
  - apply ex1_app_r; [|exact IH].
    apply Forall_forall. intros r Hr Hp.
    apply in_map_iff in Hr. destruct Hr as (b & <- & _).
    apply in_rect_rapp in Hp. apply Ha, Hp.
Qed.

(* commuting the relative parts past components on the other axis *)
Lemma prod_rapp R1 R2 B1 B2 :
  Forall (fun b => (xb b = [] \/ xb R2 = []) /\ (yb b = [] \/ yb R2 = [])) B1 ->
  prod (map (rapp R1) B1) (map (rapp R2) B2) = map (rapp (rapp R1 R2)) (prod B1 B2).
Proof.
  induction 1 as [|b B1 [Hx Hy] HB IH]; [reflexivity|].
  unfold prod in *. simpl. rewrite map_app, IH. f_equal.
  rewrite !map_map. apply map_ext. intros b2.
  unfold rapp. simpl. f_equal.
  - destruct Hx as [-> | ->]; simpl; rewrite ?app_nil_r, <- ?app_assoc; reflexivity.
  - destruct Hy as [-> | ->]; simpl; rewrite ?app_nil_r, <- ?app_assoc; reflexivity.
Qed.

(* ------------------------------------------------------------------ *)
(* elementary unit tilings                                             *)

Definition pre1 (l : list bool) (f : nat -> bool) : Prop :=
  match l with [] => True | [b] => f 0 = b | _ => prefix l f end.

Lemma prefix_pre1 l f : prefix l f <-> pre1 l f.
Proof.
  destruct l as [|b [|c l]]; simpl; [|  |tauto].
  - unfold prefix. simpl. split; [auto|]. intros _ i Hi. lia.
  - unfold prefix. simpl. split.
    + intros H. symmetry. apply (H 0). lia.
    + intros H [|i] Hi; [symmetry; exact H|lia].
Qed.

Lemma in_rect_small xs ys fx fy :
  in_rect (mkrect xs ys) (fx, fy) <-> pre1 xs fx /\ pre1 ys fy.
Proof. unfold in_rect. simpl. rewrite !prefix_pre1. tauto. Qed.

Ltac small_rect Ex Ey :=
  rewrite in_rect_small; simpl; rewrite ?Ex, ?Ey; intuition congruence.

Ltac ex1_small Ex Ey :=
  repeat first
    [ apply ex1_here; [ solve [small_rect Ex Ey] | solve [repeat constructor; small_rect Ex Ey] ]
    | apply ex1_later; [ solve [small_rect Ex Ey] | ] ].

Definition Bq : list rect :=
  [mkrect [true] [true]; mkrect [false] [true]; mkrect [true] [false]; mkrect [false] [false]].
Definition Bx : list rect := [mkrect [true] []; mkrect [false] []].
Definition By : list rect := [mkrect [] [true]; mkrect [] [false]].

Lemma utiles_U : utiles [U].
Proof.
  intros [fx fy]. apply ex1_here; [|constructor]. unfold U. rewrite in_rect_small. simpl. tauto.
Qed.

Lemma utiles_Bq : utiles Bq.
Proof.
  intros [fx fy]. unfold Bq.
  destruct (fx 0) eqn:Ex; destruct (fy 0) eqn:Ey; ex1_small Ex Ey.
Qed.

Lemma utiles_Bx : utiles Bx.
Proof.
  intros [fx fy]. unfold Bx. destruct (fx 0) eqn:Ex; ex1_small Ex Ex.
Qed.

Lemma utiles_By : utiles By.
Proof.
  intros [fx fy]. unfold By. destruct (fy 0) eqn:Ey; ex1_small Ey Ey.
Qed.

(* ------------------------------------------------------------------ *)
(* pieces                                                              *)

Lemma piece_rect_app dp sh : piece_rect (dp ++ sh) = rapp (piece_rect sh) (piece_rect dp).
Proof. unfold piece_rect. rewrite rev_app_distr. apply region_app. Qed.

Lemma map_flat_map' {A B C} (f : B -> C) (g : A -> list B) l :
  map f (flat_map g l) = flat_map (fun x => map f (g x)) l.
Proof. induction l as [|a l IH]; simpl; [reflexivity|]. rewrite map_app, IH. reflexivity. Qed.

Lemma flat_map_map' {A B C} (f : A -> B) (g : B -> list C) l :
  flat_map g (map f l) = flat_map (fun x => g (f x)) l.
Proof. induction l as [|a l IH]; simpl; [reflexivity|]. rewrite IH. reflexivity. Qed.

Lemma rects_rebuild_two X Y :
  map piece_rect (rebuild_two X Y) = prod (map piece_rect X) (map piece_rect Y).
Proof.
  unfold rebuild_two, prod. rewrite map_flat_map', flat_map_map'.
  apply flat_map_ext. intros sh. rewrite !map_map. apply map_ext. intros dp.
  apply piece_rect_app.
Qed.
