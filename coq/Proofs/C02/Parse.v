(* Proofs/C02/Parse.v -- parse_comps on a normal form: truncation, the depth rule per
   position, and the assembly of the per-position tilings. *)
From Coq Require Import List ZArith Arith Bool Lia.
From PyTRS Require Import Engine.Regex PyRt.Str Model.Aliquot Spec.Geometry.
From PyTRS Require Import Proofs.C02.TableSpecs Proofs.C02.Standardize Proofs.C02.Tiling
  Proofs.C02.Subdivide.
Import ListNotations.

(* ------------------------------------------------------------------ *)
(* the depth rule on naturals                                          *)

Definition eff_depth (i len : nat) (c : comp) (mn : nat) (bh : bool) : nat :=
  if is_q c then (if (i =? len) && (len <? mn) then mn - len else 0)
  else if i =? mn then 1
  else if (i =? len) && (len <? mn) then mn - i + 1
  else if is_h c && ((i <? mn) || bh) then 1 else 0.

Lemma comp_depth_nat i len c mn bh :
  Z.to_nat (comp_depth i len c (Z.of_nat mn) bh) = eff_depth i len c mn bh.
Proof.
  unfold comp_depth, eff_depth. rewrite is_half_spec, is_quarter_spec.
  destruct (Z.eqb_spec (Z.of_nat i) (Z.of_nat mn)); destruct (Nat.eqb_spec i mn); try lia;
  destruct (Nat.eqb_spec i len);
  destruct (Z.ltb_spec (Z.of_nat len) (Z.of_nat mn)); destruct (Nat.ltb_spec len mn); try lia;
  destruct (Z.ltb_spec (Z.of_nat i) (Z.of_nat mn)); destruct (Nat.ltb_spec i mn); try lia;
  destruct (is_q c); destruct (is_h c); destruct bh; simpl; lia.
Qed.

(* ------------------------------------------------------------------ *)
(* one position                                                        *)

Definition nothalf (c : comp) : Prop := is_h c = false.

Definition pos_ok (i len mn : nat) (bh : bool) (x : piece) : Prop :=
  length x = 1 + (if i =? len then mn - len else 0) /\
  (i <= mn -> Forall (fun c => is_q c = true) x) /\
  (bh = true -> Forall nothalf x).

Lemma allq_nothalf n x : allq n x -> Forall nothalf x.
Proof. intros [H _]. eapply Forall_impl; [|exact H]. intros c Hc. apply q_not_h, Hc. Qed.

Lemma position_spec i len c mn bh :
  1 <= i <= len ->
  (qh c = true \/ (c = CALL /\ len = 1)) ->
  exists X B,
    sub_nat c (eff_depth i len c mn bh) = Some X /\
    map piece_rect X = map (rapp (region [c])) B /\
    utiles B /\
    Forall (pos_ok i len mn bh) X /\
    (i < len -> B = [U] \/ (is_hy c = true /\ B = Bx) \/ (is_hx c = true /\ B = By)).
Proof.
  intros Hi Hc.
  destruct (eff_depth i len c mn bh) as [|d] eqn:Ed.
  - (* untouched *)
    exists [[c]], [U]. destruct (sub_nat_0 c) as [H1 H2].
    split; [exact H1|]. split; [exact H2|]. split; [apply utiles_U|].
    split; [|intros _; left; reflexivity].
    assert (F : (i = len -> mn <= len) /\ (i <= mn -> is_q c = true) /\
                (bh = true -> is_h c = false)).
    { unfold eff_depth in Ed.
      destruct Hc as [Hc|[Ec El]];
        [unfold qh in Hc; destruct (is_q c) eqn:Eq; destruct (is_h c) eqn:Eh;
         simpl in Hc; try discriminate;
         try (pose proof (q_not_h c Eq); congruence)|subst c];
        destruct (Nat.eqb_spec i len); destruct (Nat.ltb_spec len mn);
        destruct (Nat.eqb_spec i mn); destruct (Nat.ltb_spec i mn); destruct bh;
        simpl in Ed; try lia; try discriminate;
        (split; [|split]); intros; try lia; try discriminate; try reflexivity. }
    destruct F as (F1 & F2 & F3).
    constructor; [|constructor]. unfold pos_ok. simpl length.
    split; [|split].
    + destruct (Nat.eqb_spec i len) as [E|E]; [specialize (F1 E)|]; lia.
    + intros H. constructor; [apply F2, H|constructor].
    + intros H. constructor; [apply F3, H|constructor].
  - destruct (sub_nat_S c d) as (X & H1 & H2 & H3).
    exists X, (Bsub c d). split; [exact H1|]. split; [exact H2|]. split; [apply utiles_Bsub|].
    split.
    + eapply Forall_impl; [|exact H3]. intros x Hx. unfold pos_ok.
      split; [|split; intros _; [apply Hx|eapply allq_nothalf, Hx]].
      destruct Hx as [_ ->]. unfold eff_depth in Ed.
      destruct (is_q c) eqn:Eq.
      * destruct (Nat.eqb_spec i len); destruct (Nat.ltb_spec len mn); simpl in Ed; lia.
      * destruct (Nat.eqb_spec i mn); destruct (Nat.eqb_spec i len);
          destruct (Nat.ltb_spec len mn); simpl in Ed; try lia;
          destruct (is_h c && ((i <? mn) || bh)); lia.
    + intros Hlt. right. unfold eff_depth in Ed. unfold Bsub.
      destruct Hc as [Hc|[-> ->]]; [|lia]. unfold qh in Hc.
      destruct (is_q c) eqn:Eq.
      * destruct (Nat.eqb_spec i len); simpl in Ed; lia.
      * simpl in Hc. assert (Ea : is_all c = false) by (destruct c; simpl in *; congruence).
        rewrite Ea.
        assert (Ed0 : d = 0).
        { destruct (Nat.eqb_spec i mn); destruct (Nat.eqb_spec i len); try lia;
            simpl in Ed; try lia; destruct (is_h c && ((i <? mn) || bh)); lia. }
        rewrite Ed0. rewrite h_axis in Hc.
        destruct (is_hy c) eqn:Ey; [left; split; reflexivity|].
        simpl in Hc. right. split; [exact Hc|reflexivity].
Qed.

(* ------------------------------------------------------------------ *)
(* list facts about normal forms                                       *)

Lemma forallb_hy_nf l : forallb is_hy l = true -> nf_b l = true.
Proof.
  destruct l as [|a t]; [reflexivity|]. intros H. cbn [nf_b].
  assert (Ha : is_q a = false).
  { simpl in H. apply andb_true_iff in H. destruct H as [H _]. destruct a; simpl in *; congruence. }
  rewrite Ha, H. reflexivity.
Qed.
Lemma forallb_hx_nf l : forallb is_hx l = true -> nf_b l = true.
Proof.
  destruct l as [|a t]; [reflexivity|]. intros H. cbn [nf_b].
  assert (Ha : is_q a = false).
  { simpl in H. apply andb_true_iff in H. destruct H as [H _]. destruct a; simpl in *; congruence. }
  rewrite Ha, H. apply orb_true_r.
Qed.

Lemma nf_b_tail a t : nf_b (a :: t) = true -> nf_b t = true.
Proof.
  cbn [nf_b]. destruct (is_q a); [auto|]. intros H. apply orb_true_iff in H.
  destruct H as [H|H]; simpl in H; apply andb_true_iff in H; destruct H as [_ H].
  - apply forallb_hy_nf, H.
  - apply forallb_hx_nf, H.
Qed.

Lemma nf_b_hy_tail a t : nf_b (a :: t) = true -> is_hy a = true -> forallb is_hy t = true.
Proof.
  cbn [nf_b]. intros H Ha. assert (Eq : is_q a = false) by (destruct a; simpl in *; congruence).
  rewrite Eq in H. apply orb_true_iff in H.
  destruct H as [H|H]; simpl in H; apply andb_true_iff in H; destruct H as [H1 H]; [exact H|].
  destruct a; simpl in *; congruence.
Qed.
Lemma nf_b_hx_tail a t : nf_b (a :: t) = true -> is_hx a = true -> forallb is_hx t = true.
Proof.
  cbn [nf_b]. intros H Ha. assert (Eq : is_q a = false) by (destruct a; simpl in *; congruence).
  rewrite Eq in H. apply orb_true_iff in H.
  destruct H as [H|H]; simpl in H; apply andb_true_iff in H; destruct H as [H1 H]; [|exact H].
  destruct a; simpl in *; congruence.
Qed.

Lemma hy_no_xbit l : forallb is_hy l = true -> flat_map xbit l = [].
Proof.
  induction l as [|a t IH]; [reflexivity|]. simpl. intros H. apply andb_true_iff in H.
  destruct H as [Ha Ht]. rewrite (IH Ht). destruct a; simpl in *; try discriminate; reflexivity.
Qed.
Lemma hx_no_ybit l : forallb is_hx l = true -> flat_map ybit l = [].
Proof.
  induction l as [|a t IH]; [reflexivity|]. simpl. intros H. apply andb_true_iff in H.
  destruct H as [Ha Ht]. rewrite (IH Ht). destruct a; simpl in *; try discriminate; reflexivity.
Qed.

(* ---- truncation ---- *)
Lemma forallb_firstn {A} (f : A -> bool) : forall l n,
  forallb f l = true -> forallb f (firstn n l) = true.
Proof.
  induction l as [|a t IH]; intros [|n] H; try reflexivity.
  simpl in *. apply andb_true_iff in H. destruct H as [-> H]. simpl. apply IH, H.
Qed.

Lemma ybit_firstn_hy : forall l M, forallb is_hy l = true ->
  flat_map ybit (firstn M l) = firstn M (flat_map ybit l).
Proof.
  induction l as [|a t IH]; intros [|M] H; try reflexivity.
  simpl in H. apply andb_true_iff in H. destruct H as [Ha Ht].
  destruct a; simpl in *; try discriminate; f_equal; apply IH, Ht.
Qed.
Lemma xbit_firstn_hx : forall l M, forallb is_hx l = true ->
  flat_map xbit (firstn M l) = firstn M (flat_map xbit l).
Proof.
  induction l as [|a t IH]; intros [|M] H; try reflexivity.
  simpl in H. apply andb_true_iff in H. destruct H as [Ha Ht].
  destruct a; simpl in *; try discriminate; f_equal; apply IH, Ht.
Qed.

Lemma region_firstn_hy : forall l M, forallb is_hy l = true ->
  region (firstn M l) = trunc M (region l).
Proof.
  intros l M H. unfold region, trunc. simpl.
  rewrite (ybit_firstn_hy l M H), (hy_no_xbit _ (forallb_firstn _ l M H)), (hy_no_xbit l H).
  destruct M; reflexivity.
Qed.
Lemma region_firstn_hx : forall l M, forallb is_hx l = true ->
  region (firstn M l) = trunc M (region l).
Proof.
  intros l M H. unfold region, trunc. simpl.
  rewrite (xbit_firstn_hx l M H), (hx_no_ybit _ (forallb_firstn _ l M H)), (hx_no_ybit l H).
  destruct M; reflexivity.
Qed.

Lemma region_firstn_nf : forall l M, nf_b l = true ->
  region (firstn M l) = trunc M (region l).
Proof.
  induction l as [|a t IH]; intros M H.
  - destruct M; reflexivity.
  - destruct (is_q a) eqn:Eq.
    + destruct M as [|M]; [reflexivity|].
      specialize (IH M (nf_b_tail _ _ H)). unfold region, trunc in *. simpl in *.
      injection IH as IHx IHy.
      destruct a; simpl in *; try discriminate; rewrite IHx, IHy; reflexivity.
    + cbn [nf_b] in H. rewrite Eq in H. apply orb_true_iff in H. destruct H as [H|H].
      * apply region_firstn_hy, H.
      * apply region_firstn_hx, H.
Qed.

Lemma nf_b_firstn : forall l n, nf_b l = true -> nf_b (firstn n l) = true.
Proof.
  induction l as [|a t IH]; intros [|n] H; try reflexivity.
  change (firstn (S n) (a :: t)) with (a :: firstn n t). cbn [nf_b] in *.
  destruct (is_q a); [apply IH, H|].
  change (a :: firstn n t) with (firstn (S n) (a :: t)).
  apply orb_true_iff in H. apply orb_true_iff.
  destruct H as [H|H]; [left|right]; apply forallb_firstn, H.
Qed.

Lemma Forall_firstn' {A} (P : A -> Prop) : forall l n, Forall P l -> Forall P (firstn n l).
Proof.
  induction l as [|a t IH]; intros [|n] H; try constructor.
  - inversion H; assumption.
  - apply IH. inversion H; assumption.
Qed.

Lemma Forall_skipn' {A} (P : A -> Prop) : forall l n, Forall P l -> Forall P (skipn n l).
Proof.
  induction l as [|a t IH]; intros [|n] H; simpl; try assumption.
  apply IH. inversion H; assumption.
Qed.

Lemma qh_region_nonempty a t : qh a = true -> region (a :: t) <> region [].
Proof.
  unfold region. simpl. intros Ha E. injection E as Ex Ey.
  apply app_eq_nil in Ex. apply app_eq_nil in Ey.
  destruct a; simpl in *; destruct Ex, Ey; discriminate.
Qed.

(* ------------------------------------------------------------------ *)
(* assembling the positions                                            *)

Definition good (cl : list comp) (len : nat) : Prop :=
  (nf_b cl = true /\ Forall (fun c => qh c = true) cl) \/ (cl = [CALL] /\ len = 1).

(* depth conditions for the pieces built from positions i.. *)
Definition gen_ok (mn len : nat) (bh : bool) (i : nat) (p : piece) : Prop :=
  (mn + 1 - i) <= length p /\
  Forall (fun c => is_q c = true) (skipn (length p - (mn + 1 - i)) p) /\
  (bh = true -> Forall nothalf p) /\
  length p + i <= S (Nat.max len mn).

Lemma subdivide_all_cons i len c t mn bh :
  subdivide_all i len (c :: t) mn bh =
  match subdivide_aliquot c (comp_depth i len c mn bh), subdivide_all (S i) len t mn bh with
  | Some x, Some r => Some (x :: r)
  | _, _ => None
  end.
Proof. reflexivity. Qed.

Lemma assemble mn bh len : forall cl i,
  cl <> [] -> i + length cl = S len -> 1 <= i -> good cl len ->
  exists nested B,
    subdivide_all i len cl (Z.of_nat mn) bh = Some nested /\
    length nested = length cl /\
    map piece_rect (rebuild_aliquots nested) = map (rapp (region cl)) B /\
    utiles B /\
    Forall (gen_ok mn len bh i) (rebuild_aliquots nested).
Proof.
  induction cl as [|c cl' IH]; intros i Hne Hlen Hi Hgood; [congruence|].
  assert (Hc : qh c = true \/ (c = CALL /\ len = 1)).
  { destruct Hgood as [[_ Hq]|[E ->]].
    - left. inversion Hq; assumption.
    - right. injection E as -> _. split; reflexivity. }
  simpl length in Hlen.
  destruct (position_spec i len c mn bh) as (X & B1 & HX & HR & HU & HP & HA); [lia|exact Hc|].
  rewrite subdivide_all_cons, subdivide_aliquot_nat, comp_depth_nat, HX.
  destruct cl' as [|c2 cl''].
  - (* last position *)
    exists [X], B1. split; [reflexivity|]. split; [reflexivity|].
    split; [exact HR|]. split; [exact HU|].
    cbn [rebuild_aliquots]. eapply Forall_impl; [|exact HP].
    intros x (L & Q & Hb). simpl length in Hlen. assert (Ei : i = len) by lia.
    rewrite Ei in *. rewrite Nat.eqb_refl in L. unfold gen_ok.
    split; [lia|]. split; [|split; [exact Hb|lia]].
    destruct (le_lt_dec len mn) as [Hle|Hgt].
    + apply Forall_skipn', Q, Hle.
    + replace (length x - (mn + 1 - len)) with (length x) by lia.
      rewrite skipn_all. constructor.
  - (* inner position *)
    assert (Hgood' : nf_b (c :: c2 :: cl'') = true /\ Forall (fun c => qh c = true) (c :: c2 :: cl'')).
    { destruct Hgood as [H|[E _]]; [exact H|discriminate]. }
    destruct Hgood' as [Hnf Hqh].
    destruct (IH (S i)) as (nested' & B' & HS & HL & HR' & HU' & HG');
      [discriminate|simpl length in *; lia|lia| |].
    { left. split; [apply (nf_b_tail _ _ Hnf)|inversion Hqh; assumption]. }
    rewrite HS. exists (X :: nested'), (prod B1 B').
    split; [reflexivity|]. split; [simpl; rewrite HL; reflexivity|].
    assert (Hlt : i < len) by (simpl length in Hlen; lia).
    destruct nested' as [|Y nested'']; [discriminate|].
    change (rebuild_aliquots (X :: Y :: nested''))
      with (rebuild_two X (rebuild_aliquots (Y :: nested''))).
    set (R' := rebuild_aliquots (Y :: nested'')) in *.
    split; [|split].
    + rewrite rects_rebuild_two, HR, HR'.
      change (c :: c2 :: cl'') with ([c] ++ c2 :: cl''). rewrite region_app.
      apply prod_rapp.
      destruct (HA Hlt) as [-> | [[Hy ->] | [Hx ->]]].
      * constructor; [split; left; reflexivity|constructor].
      * pose proof (hy_no_xbit _ (nf_b_hy_tail _ _ Hnf Hy)) as E.
        unfold Bx. constructor; [split; [right; exact E|left; reflexivity]|].
        constructor; [split; [right; exact E|left; reflexivity]|constructor].
      * pose proof (hx_no_ybit _ (nf_b_hx_tail _ _ Hnf Hx)) as E.
        unfold By. constructor; [split; [left; reflexivity|right; exact E]|].
        constructor; [split; [left; reflexivity|right; exact E]|constructor].
    + apply utiles_prod; assumption.
    + apply Forall_rebuild_two. intros sh dp Hsh Hdp.
      rewrite Forall_forall in HP, HG'.
      destruct (HP sh Hsh) as (L & Q & Hb). destruct (HG' dp Hdp) as (G1 & G2 & G3 & G4).
      destruct (Nat.eqb_spec i len) as [E|_]; [lia|].
      unfold gen_ok. rewrite app_length.
      split; [lia|]. split; [|split; [|lia]].
      * destruct (le_lt_dec i mn) as [Hle|Hgt].
        -- rewrite skipn_app. apply Forall_app. split.
           ++ replace (length dp + length sh - (mn + 1 - i)) with (length dp - (mn + 1 - S i)) by lia.
              exact G2.
           ++ apply Forall_skipn', Q, Hle.
        -- replace (length dp + length sh - (mn + 1 - i)) with (length (dp ++ sh))
             by (rewrite app_length; lia).
           rewrite skipn_all. constructor.
      * intros Hbh. apply Forall_app. split; [apply G3, Hbh|apply Hb, Hbh].
Qed.

(* ------------------------------------------------------------------ *)
(* the truncation step of parse_comps                                  *)

Definition clip (std : list comp) (mx : option nat) : list comp :=
  match option_map Z.of_nat mx with
  | Some x => if (x <? Z.of_nat (length std))%Z then py_slice_to std x else std
  | None => std
  end.

Lemma clip_firstn std M : clip std (Some M) = firstn M std.
Proof.
  unfold clip. cbn [option_map]. destruct (Z.ltb_spec (Z.of_nat M) (Z.of_nat (length std))) as [L|L].
  - unfold py_slice_to. destruct (Z.ltb_spec (Z.of_nat M) 0) as [L'|L']; [lia|].
    rewrite Nat2Z.id. reflexivity.
  - rewrite firstn_all2 by lia. reflexivity.
Qed.

Lemma clip_nf std mx :
  std <> [] -> nf_b std = true -> Forall (fun c => qh c = true) std ->
  (match mx with Some M => 1 <= M | None => True end) ->
  clip std mx <> [] /\
  region (clip std mx) = trunc_opt mx (region std) /\
  nf_b (clip std mx) = true /\ Forall (fun c => qh c = true) (clip std mx) /\
  (match mx with Some M => length (clip std mx) <= M | None => True end).
Proof.
  intros Hne Hnf Hq HM. destruct mx as [M|].
  - rewrite clip_firstn. split; [|split; [|split; [|split]]].
    + destruct std as [|a t]; [congruence|]. destruct M; [lia|]. discriminate.
    + apply region_firstn_nf, Hnf.
    + apply nf_b_firstn, Hnf.
    + apply Forall_firstn', Hq.
    + rewrite firstn_length. lia.
  - unfold clip. simpl. repeat split; auto.
Qed.

Lemma clip_all mx :
  (match mx with Some M => 1 <= M | None => True end) -> clip [CALL] mx = [CALL].
Proof.
  intros HM. destruct mx as [M|]; [|reflexivity]. rewrite clip_firstn.
  destruct M; [lia|]. destruct M; reflexivity.
Qed.

(* ------------------------------------------------------------------ *)
(* everything after standardisation and truncation                     *)

Lemma parse_tail mn mx bh cl :
  cl <> [] -> good cl (length cl) ->
  (match mx with Some M => length cl <= M /\ mn <= M | None => True end) ->
  exists pieces,
    option_map rebuild_aliquots (subdivide_all 1 (length cl) cl (Z.of_nat mn) bh) = Some pieces /\
    tiles_strong (region cl) (map piece_rect pieces) /\
    Forall (piece_ok mn mx bh) pieces.
Proof.
  intros Hne Hg HM.
  destruct (assemble mn bh (length cl) cl 1 Hne) as (nested & B & H1 & _ & H2 & H3 & H4);
    [lia|lia|exact Hg|].
  exists (rebuild_aliquots nested). rewrite H1. split; [reflexivity|]. split.
  - rewrite H2. apply utiles_rapp, H3.
  - eapply Forall_impl; [|exact H4]. intros p (G1 & G2 & G3 & G4). unfold piece_ok.
    replace (mn + 1 - 1) with mn in * by lia.
    split; [exact G1|]. split; [exact G2|]. split.
    + destruct mx as [M|]; [|exact I]. lia.
    + exact G3.
Qed.
