(* Proofs/C02/Subdivide.v -- closed form of subdivide_aliquot and the fact that its
   result is a tiling of the component's cell, relative to that cell. *)
From Coq Require Import List ZArith Arith Bool Lia.
From PyTRS Require Import Engine.Regex PyRt.Str Gen.Tables Model.Aliquot Spec.Geometry.
From PyTRS Require Import Proofs.C02.TableSpecs Proofs.C02.Tiling.
Import ListNotations.

(* ------------------------------------------------------------------ *)
(* the inner loop of subdivide_pos, named                              *)

Definition sub_go (qs : list comp) :=
  fix go (d : nat) (nested : list (list piece)) : option (list piece) :=
    match d with
    | O => Some (rebuild_aliquots nested)
    | S d' =>
        match last_opt nested with
        | Some ((c0 :: _) :: _) =>
            match assoc_str (cstr c0) QQ_SUBDIVIDE_DEFINITIONS with
            | Some _ =>
                match subdiv_def c0 with
                | Some l => go d' (removelast nested ++ [singles l])
                | None => None
                end
            | None => go d' (nested ++ [singles qs])
            end
        | _ => None
        end
    end.

Lemma sub_go_0 qs nested : sub_go qs 0 nested = Some (rebuild_aliquots nested).
Proof. reflexivity. Qed.

Lemma sub_go_S qs d nested :
  sub_go qs (S d) nested =
  match last_opt nested with
  | Some ((c0 :: _) :: _) =>
      match assoc_str (cstr c0) QQ_SUBDIVIDE_DEFINITIONS with
      | Some _ =>
          match subdiv_def c0 with
          | Some l => sub_go qs d (removelast nested ++ [singles l])
          | None => None
          end
      | None => sub_go qs d (nested ++ [singles qs])
      end
  | _ => None
  end.
Proof. reflexivity. Qed.

Lemma subdivide_pos_unfold c d :
  subdivide_pos c (S d) =
  match quarters with
  | None => None
  | Some qs =>
      match (match assoc_str (cstr c) QQ_SUBDIVIDE_DEFINITIONS with
             | Some _ => option_map (fun l => [singles l]) (subdiv_def c)
             | None => Some [singles [c]; singles qs]
             end) with
      | None => None
      | Some nested => sub_go qs d nested
      end
  end.
Proof. reflexivity. Qed.

Lemma last_opt_snoc {A} (l : list A) x : last_opt (l ++ [x]) = Some x.
Proof. unfold last_opt. rewrite rev_app_distr. reflexivity. Qed.

Definition QSs : list piece := singles QS4.

Lemma sub_go_spec : forall d pre q l0 rest,
  is_q q = true ->
  sub_go QS4 d (pre ++ [(q :: l0) :: rest]) =
  Some (rebuild_aliquots ((pre ++ [(q :: l0) :: rest]) ++ repeat QSs d)).
Proof.
  induction d as [|d IH]; intros pre q l0 rest Hq.
  - rewrite sub_go_0. simpl repeat. rewrite app_nil_r. reflexivity.
  - rewrite sub_go_S, last_opt_snoc.
    destruct (key_cases q) as [(l & E & Hq') | [E _]]; [congruence|].
    rewrite E.
    change (singles QS4) with ([CNE] :: singles [CNW; CSE; CSW]).
    etransitivity;
      [exact (IH (pre ++ [(q :: l0) :: rest]) CNE [] (singles [CNW; CSE; CSW]) eq_refl)|].
    f_equal. f_equal. rewrite <- !app_assoc. reflexivity.
Qed.

Definition first_nested (c : comp) : list (list piece) :=
  if is_q c then [singles [c]; QSs] else [singles (defs c)].

Lemma defs_shape c : is_q c = false ->
  exists q l0, defs c = q :: l0 /\ is_q q = true.
Proof.
  destruct c; simpl; intros H; try discriminate;
    (eexists; eexists; split; [reflexivity|reflexivity]).
Qed.

Lemma subdivide_pos_closed c d :
  subdivide_pos c (S d) = Some (rebuild_aliquots (first_nested c ++ repeat QSs d)).
Proof.
  rewrite subdivide_pos_unfold, quarters_spec. unfold first_nested.
  destruct (key_cases c) as [(l & E & Hq) | [E Hq]]; rewrite E, Hq.
  - rewrite (subdiv_def_spec c Hq). cbn [option_map].
    destruct (defs_shape c Hq) as (q & l0 & Ed & Hq'). rewrite Ed.
    change (singles (q :: l0)) with ([q] :: singles l0).
    apply (sub_go_spec d [] q [] (singles l0) Hq').
  - apply (sub_go_spec d [singles [c]] CNE [] (singles [CNW; CSE; CSW]) eq_refl).
Qed.

(* ------------------------------------------------------------------ *)
(* full quartering to depth n+1                                        *)

Definition En (n : nat) : list piece := rebuild_aliquots (repeat QSs (S n)).

Lemma En_0 : En 0 = QSs.
Proof. reflexivity. Qed.
Lemma En_S n : En (S n) = rebuild_two QSs (En n).
Proof. reflexivity. Qed.

Fixpoint BE (n : nat) : list rect :=
  match n with O => Bq | S n' => prod Bq (BE n') end.

Lemma rects_QSs : map piece_rect QSs = Bq.
Proof. reflexivity. Qed.

Lemma rects_En n : map piece_rect (En n) = BE n.
Proof.
  induction n as [|n IH]; [reflexivity|].
  rewrite En_S, rects_rebuild_two, IH, rects_QSs. reflexivity.
Qed.

Lemma utiles_BE n : utiles (BE n).
Proof.
  induction n as [|n IH]; [apply utiles_Bq|].
  change (BE (S n)) with (prod Bq (BE n)). apply utiles_prod; [apply utiles_Bq|exact IH].
Qed.

Lemma Forall_rebuild_two (P : piece -> Prop) X Y :
  (forall sh dp, In sh X -> In dp Y -> P (dp ++ sh)) -> Forall P (rebuild_two X Y).
Proof.
  intros H. apply Forall_forall. intros p Hp. unfold rebuild_two in Hp.
  apply in_flat_map in Hp. destruct Hp as (sh & Hsh & Hp).
  apply in_map_iff in Hp. destruct Hp as (dp & <- & Hdp). apply H; assumption.
Qed.

Definition allq (n : nat) (x : piece) : Prop :=
  Forall (fun c => is_q c = true) x /\ length x = n.

Lemma allq_app n m x y : allq n x -> allq m y -> allq (n + m) (x ++ y).
Proof.
  intros [H1 L1] [H2 L2]. split; [apply Forall_app; split; assumption|].
  rewrite app_length. lia.
Qed.

Lemma allq_QSs : Forall (allq 1) QSs.
Proof. repeat constructor. Qed.

Lemma shape_En n : Forall (allq (S n)) (En n).
Proof.
  induction n as [|n IH]; [apply allq_QSs|].
  rewrite En_S. apply Forall_rebuild_two. intros sh dp Hsh Hdp.
  rewrite Forall_forall in IH. pose proof allq_QSs as HQ. rewrite Forall_forall in HQ.
  replace (S (S n)) with (S n + 1) by lia. apply allq_app; auto.
Qed.

Lemma prod_rapp_l R B1 B2 : prod (map (rapp R) B1) B2 = map (rapp R) (prod B1 B2).
Proof.
  unfold prod. rewrite flat_map_map', map_flat_map'. apply flat_map_ext. intros b.
  rewrite map_map. apply map_ext. intros b2. apply rapp_assoc.
Qed.

Lemma prod_single r B : prod [r] B = map (rapp r) B.
Proof. unfold prod. simpl. apply app_nil_r. Qed.

(* ------------------------------------------------------------------ *)
(* subdivide_aliquot on natural depths                                 *)

Definition sub_nat (c : comp) (d : nat) : option (list piece) :=
  match d with O => Some [[c]] | S _ => subdivide_pos c d end.

Lemma subdivide_aliquot_nat c z : subdivide_aliquot c z = sub_nat c (Z.to_nat z).
Proof.
  unfold subdivide_aliquot, sub_nat.
  destruct (Z.leb_spec z 0) as [L|L]; destruct (Z.to_nat z) eqn:E; try reflexivity; lia.
Qed.

Lemma sub_nat_0 c :
  sub_nat c 0 = Some [[c]] /\ map piece_rect [[c]] = map (rapp (region [c])) [U].
Proof.
  split; [reflexivity|]. simpl. rewrite rapp_U_r. reflexivity.
Qed.

(* relative tiling produced at depth d+1 *)
Definition Bsub (c : comp) (d : nat) : list rect :=
  if is_q c then BE d
  else
    let B0 := if is_all c then Bq else if is_hy c then Bx else By in
    match d with O => B0 | S d' => prod B0 (BE d') end.

Lemma utiles_Bsub c d : utiles (Bsub c d).
Proof.
  unfold Bsub. destruct (is_q c); [apply utiles_BE|].
  assert (H0 : utiles (if is_all c then Bq else if is_hy c then Bx else By)).
  { destruct (is_all c); [apply utiles_Bq|]. destruct (is_hy c); [apply utiles_Bx|apply utiles_By]. }
  destruct d as [|d']; [exact H0|]. apply utiles_prod; [exact H0|apply utiles_BE].
Qed.

Lemma rects_defs c : is_q c = false ->
  map piece_rect (singles (defs c)) =
  map (rapp (region [c])) (if is_all c then Bq else if is_hy c then Bx else By).
Proof. destruct c; simpl; intros H; try discriminate; reflexivity. Qed.

Lemma shape_defs c : is_q c = false -> Forall (allq 1) (singles (defs c)).
Proof. destruct c; simpl; intros H; try discriminate; repeat constructor. Qed.

Lemma sub_nat_S c d :
  exists X, sub_nat c (S d) = Some X /\
    map piece_rect X = map (rapp (region [c])) (Bsub c d) /\
    Forall (allq (if is_q c then S (S d) else S d)) X.
Proof.
  unfold sub_nat. rewrite subdivide_pos_closed. unfold first_nested, Bsub.
  destruct (is_q c) eqn:Hq.
  - exists (rebuild_two (singles [c]) (En d)). split; [reflexivity|]. split.
    + rewrite rects_rebuild_two, rects_En. simpl map. apply prod_single.
    + apply Forall_rebuild_two. intros sh dp Hsh Hdp.
      pose proof (shape_En d) as HE. rewrite Forall_forall in HE.
      replace (S (S d)) with (S d + 1) by lia. apply allq_app; [apply HE, Hdp|].
      simpl in Hsh. destruct Hsh as [<-|[]]. split; [constructor; [exact Hq|constructor]|reflexivity].
  - destruct d as [|d'].
    + exists (singles (defs c)). split; [reflexivity|]. split.
      * apply rects_defs, Hq.
      * apply shape_defs, Hq.
    + exists (rebuild_two (singles (defs c)) (En d')). split; [reflexivity|]. split.
      * rewrite rects_rebuild_two, rects_En, (rects_defs c Hq). apply prod_rapp_l.
      * apply Forall_rebuild_two. intros sh dp Hsh Hdp.
        pose proof (shape_En d') as HE. rewrite Forall_forall in HE.
        pose proof (shape_defs c Hq) as HD. rewrite Forall_forall in HD.
        replace (S (S d')) with (S d' + 1) by lia. apply allq_app; auto.
Qed.
