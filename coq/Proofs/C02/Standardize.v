(* Proofs/C02/Standardize.v -- standardize_aliquot_components terminates within its
   fuel, preserves the region, and yields a normal form (quarters, then halves that
   all lie on one axis). *)
From Coq Require Import List Arith Bool Lia.
From PyTRS Require Import Engine.Regex PyRt.Str Model.Aliquot Spec.Geometry.
From PyTRS Require Import Proofs.C02.TableSpecs.
Import ListNotations.

(* ------------------------------------------------------------------ *)
(* typed mirrors of the two passes                                     *)

Fixpoint pbh_t (aq1 : comp) (t : list comp) : list comp :=
  match t with
  | [] => [aq1]
  | aq2 :: t' =>
      if is_h aq2 && is_q aq1 then rp1 aq1 aq2 :: pbh_t (rp2 aq1 aq2) t'
      else aq1 :: pbh_t aq2 t'
  end.

Lemma pbh_from_cons a b t :
  pbh_from a (b :: t) =
  if is_half b && is_quarter a then
    match rebuild_pair a b with
    | Some (r1, r2) => option_map (cons r1) (pbh_from r2 t)
    | None => None
    end
  else option_map (cons a) (pbh_from b t).
Proof. reflexivity. Qed.

Lemma pbh_from_eq : forall t a, pbh_from a t = Some (pbh_t a t).
Proof.
  induction t as [|b t IH]; intros a.
  - reflexivity.
  - rewrite pbh_from_cons, is_half_spec, is_quarter_spec. cbn [pbh_t].
    destruct (is_h b) eqn:Hb; destruct (is_q a) eqn:Ha; cbn [andb].
    + rewrite rebuild_pair_spec by assumption. rewrite IH. reflexivity.
    + rewrite IH. reflexivity.
    + rewrite IH. reflexivity.
    + rewrite IH. reflexivity.
Qed.

Definition pbh_walk_t (l : list comp) : list comp :=
  match l with [] => [] | a :: t => pbh_t a t end.
Definition pbh_lf (l : list comp) : list comp := rev (pbh_walk_t (rev l)).

Lemma pass_back_halves_eq l : pass_back_halves l = Some (pbh_lf l).
Proof.
  unfold pass_back_halves, pbh_lf, pbh_walk, pbh_walk_t.
  destruct (rev l) as [|a t]; [reflexivity|]. rewrite pbh_from_eq. reflexivity.
Qed.

Fixpoint cch_t (l : list comp) : list comp :=
  match l with
  | a :: ((b :: t) as rest) =>
      if is_h a && is_h b && negb (same_ax a b) then nq a b :: cch_t t
      else a :: cch_t rest
  | _ => l
  end.

Lemma cch_t_cons2 a b t :
  cch_t (a :: b :: t) =
  if is_h a && is_h b && negb (same_ax a b) then nq a b :: cch_t t else a :: cch_t (b :: t).
Proof. reflexivity. Qed.

Lemma list_ind2 {A} (P : list A -> Prop) :
  P [] -> (forall a, P [a]) -> (forall a b t, P t -> P (b :: t) -> P (a :: b :: t)) ->
  forall l, P l.
Proof.
  intros H0 H1 H2 l.
  assert (H : P l /\ forall a, P (a :: l)).
  { induction l as [|b t [IHa IHb]].
    - split; auto.
    - split; [apply IHb|]. intros a. apply H2; auto. }
  apply H.
Qed.

Lemma cch_cons2 a b t :
  combine_consecutive_halves (a :: b :: t) =
  if is_half a && is_half b && negb (same_axis a b) then
    match new_quarter a b with
    | Some q => option_map (cons q) (combine_consecutive_halves t)
    | None => None
    end
  else option_map (cons a) (combine_consecutive_halves (b :: t)).
Proof. reflexivity. Qed.

Lemma cch_eq : forall l, combine_consecutive_halves l = Some (cch_t l).
Proof.
  induction l as [| a | a b t IHt IHbt] using list_ind2.
  - reflexivity.
  - reflexivity.
  - rewrite cch_cons2, !is_half_spec, same_axis_spec. rewrite cch_t_cons2.
    destruct (is_h a) eqn:Ha; destruct (is_h b) eqn:Hb;
      destruct (same_ax a b) eqn:Hs; cbn [andb negb];
      try (rewrite IHbt; reflexivity).
    rewrite new_quarter_spec by assumption. rewrite IHt. reflexivity.
Qed.

(* ------------------------------------------------------------------ *)
(* measures                                                            *)

Definition qh (c : comp) : bool := is_q c || is_h c.

Fixpoint count_h (l : list comp) : nat :=
  match l with [] => 0 | a :: t => (if is_h a then 1 else 0) + count_h t end.

(* text order: a quarter somewhere before a half *)
Fixpoint invs (l : list comp) : nat :=
  match l with [] => 0 | a :: t => (if is_q a then count_h t else 0) + invs t end.

Definition inv (l : list comp) : nat := invs (rev l).

Lemma count_h_le l : count_h l <= length l.
Proof. induction l as [|a t IH]; simpl; [lia|]. destruct (is_h a); lia. Qed.

Lemma invs_le l : invs l <= length l * length l.
Proof.
  induction l as [|a t IH]; simpl; [lia|].
  pose proof (count_h_le t). destruct (is_q a); nia.
Qed.

Lemma inv_le l : inv l <= length l * length l.
Proof. unfold inv. pose proof (invs_le (rev l)) as H. rewrite rev_length in H. exact H. Qed.

(* ------------------------------------------------------------------ *)
(* pass_back_halves                                                    *)

Lemma pbh_t_len : forall t a, length (pbh_t a t) = S (length t).
Proof.
  induction t as [|b t IH]; intros a; [reflexivity|]. cbn [pbh_t].
  destruct (is_h b && is_q a); simpl; rewrite IH; reflexivity.
Qed.

Lemma pbh_t_count : forall t a, count_h (pbh_t a t) = count_h (a :: t).
Proof.
  induction t as [|b t IH]; intros a; [reflexivity|]. cbn [pbh_t].
  destruct (is_h b) eqn:Hb; destruct (is_q a) eqn:Ha; cbn [andb].
  - destruct (rp1_half a b Ha Hb) as [H1 _]. destruct (rp2_quarter a b Ha Hb) as [_ H2].
    cbn [count_h]. rewrite IH. cbn [count_h]. rewrite H1, H2, Hb, (q_not_h a Ha). lia.
  - cbn [count_h]. rewrite IH. reflexivity.
  - cbn [count_h]. rewrite IH. reflexivity.
  - cbn [count_h]. rewrite IH. reflexivity.
Qed.

Lemma pbh_t_invs : forall t a,
  invs (pbh_t a t) <= invs (a :: t) /\
  (pbh_t a t = a :: t \/ invs (pbh_t a t) < invs (a :: t)).
Proof.
  induction t as [|b t IH]; intros a.
  - simpl. split; [lia|left; reflexivity].
  - cbn [pbh_t].
    destruct (is_h b) eqn:Hb; destruct (is_q a) eqn:Ha; cbn [andb].
    + destruct (rp1_half a b Ha Hb) as [_ H1]. destruct (rp2_quarter a b Ha Hb) as [H2 _].
      destruct (IH (rp2 a b)) as [IH1 _].
      assert (Hlt : invs (rp1 a b :: pbh_t (rp2 a b) t) < invs (a :: b :: t)).
      { cbn [invs] in *. cbn [count_h]. rewrite H1. rewrite H2 in IH1.
        rewrite Ha, Hb, (h_not_q b Hb). lia. }
      split; [lia|right; exact Hlt].
    + destruct (IH b) as [IH1 IH2]. cbn [invs] in *. rewrite Ha.
      split; [lia|]. destruct IH2 as [E|L]; [left; rewrite E; reflexivity|right; lia].
    + destruct (IH b) as [IH1 IH2]. cbn [invs] in *. rewrite Ha.
      rewrite pbh_t_count.
      split; [lia|]. destruct IH2 as [E|L]; [left; rewrite E; reflexivity|right; lia].
    + destruct (IH b) as [IH1 IH2]. cbn [invs] in *. rewrite Ha.
      split; [lia|]. destruct IH2 as [E|L]; [left; rewrite E; reflexivity|right; lia].
Qed.

Lemma flat_map_rev_cons {B} (f : comp -> list B) a t :
  flat_map f (rev (a :: t)) = flat_map f (rev t) ++ f a.
Proof. simpl. rewrite flat_map_app. simpl. rewrite app_nil_r. reflexivity. Qed.

Lemma pbh_t_bits {B} (f : comp -> list B) :
  (forall a b, is_q a = true -> is_h b = true -> f b ++ f a = f (rp2 a b) ++ f (rp1 a b)) ->
  forall t a, flat_map f (rev (pbh_t a t)) = flat_map f (rev (a :: t)).
Proof.
  intros Hf. induction t as [|b t IH]; intros a; [reflexivity|]. cbn [pbh_t].
  destruct (is_h b) eqn:Hb; destruct (is_q a) eqn:Ha; cbn [andb].
  - rewrite flat_map_rev_cons, IH, !flat_map_rev_cons, <- !app_assoc.
    rewrite (Hf a b Ha Hb). reflexivity.
  - rewrite flat_map_rev_cons, IH, !flat_map_rev_cons. reflexivity.
  - rewrite flat_map_rev_cons, IH, !flat_map_rev_cons. reflexivity.
  - rewrite flat_map_rev_cons, IH, !flat_map_rev_cons. reflexivity.
Qed.

Lemma pbh_t_qh : forall t a, Forall (fun c => qh c = true) (a :: t) ->
  Forall (fun c => qh c = true) (pbh_t a t).
Proof.
  induction t as [|b t IH]; intros a H; [exact H|]. cbn [pbh_t].
  inversion H as [|? ? Ha Ht]; subst. inversion Ht as [|? ? Hb Ht']; subst.
  destruct (is_h b) eqn:Eb; destruct (is_q a) eqn:Ea; cbn [andb].
  - constructor.
    + unfold qh. destruct (rp1_half a b Ea Eb) as [-> _]. apply orb_true_r.
    + apply IH. constructor; [|exact Ht'].
      unfold qh. destruct (rp2_quarter a b Ea Eb) as [-> _]. reflexivity.
  - constructor; [exact Ha|]. apply IH. exact Ht.
  - constructor; [exact Ha|]. apply IH. exact Ht.
  - constructor; [exact Ha|]. apply IH. exact Ht.
Qed.

Lemma pbh_lf_len l : length (pbh_lf l) = length l.
Proof.
  unfold pbh_lf. rewrite rev_length. rewrite <- (rev_length l).
  destruct (rev l) as [|a t]; [reflexivity|]. simpl. apply pbh_t_len.
Qed.

Lemma pbh_lf_bits {B} (f : comp -> list B) :
  (forall a b, is_q a = true -> is_h b = true -> f b ++ f a = f (rp2 a b) ++ f (rp1 a b)) ->
  forall l, flat_map f (pbh_lf l) = flat_map f l.
Proof.
  intros Hf l. unfold pbh_lf. rewrite <- (rev_involutive l) at 2.
  destruct (rev l) as [|a t]; [reflexivity|]. cbn [pbh_walk_t].
  apply pbh_t_bits. exact Hf.
Qed.

Lemma pbh_lf_region l : region (pbh_lf l) = region l.
Proof.
  unfold region. rewrite (pbh_lf_bits xbit rp_xbit), (pbh_lf_bits ybit rp_ybit). reflexivity.
Qed.

Lemma pbh_walk_inv r :
  invs (pbh_walk_t r) <= invs r /\ (pbh_walk_t r = r \/ invs (pbh_walk_t r) < invs r).
Proof.
  destruct r as [|a t]; [simpl; split; [lia|left; reflexivity]|].
  cbn [pbh_walk_t]. apply pbh_t_invs.
Qed.

Lemma pbh_lf_inv l : inv (pbh_lf l) <= inv l /\ (pbh_lf l = l \/ inv (pbh_lf l) < inv l).
Proof.
  unfold inv, pbh_lf. rewrite rev_involutive.
  destruct (pbh_walk_inv (rev l)) as [H1 [E|L]].
  - split; [exact H1|left]. rewrite E. apply rev_involutive.
  - split; [exact H1|right; exact L].
Qed.

Lemma pbh_lf_qh l : Forall (fun c => qh c = true) l -> Forall (fun c => qh c = true) (pbh_lf l).
Proof.
  intros H. unfold pbh_lf. apply Forall_rev. apply Forall_rev in H.
  destruct (rev l) as [|a t]; [constructor|]. apply pbh_t_qh. exact H.
Qed.

(* ------------------------------------------------------------------ *)
(* combine_consecutive_halves                                          *)

Lemma cch_t_len : forall l, length (cch_t l) <= length l.
Proof.
  induction l as [| a | a b t IHt IHbt] using list_ind2; [simpl; lia..|].
  rewrite cch_t_cons2. destruct (is_h a && is_h b && negb (same_ax a b)); simpl in *; lia.
Qed.

Lemma cch_t_change : forall l, cch_t l = l \/ length (cch_t l) < length l.
Proof.
  induction l as [| a | a b t IHt IHbt] using list_ind2; [left; reflexivity..|].
  rewrite cch_t_cons2. destruct (is_h a && is_h b && negb (same_ax a b)).
  - right. pose proof (cch_t_len t). simpl. lia.
  - destruct IHbt as [E|L]; [left; rewrite E; reflexivity|right; simpl in *; lia].
Qed.

Lemma cch_t_bits {B} (f : comp -> list B) :
  (forall a b, is_h a = true -> is_h b = true -> same_ax a b = false -> f (nq a b) = f a ++ f b) ->
  forall l, flat_map f (cch_t l) = flat_map f l.
Proof.
  intros Hf. induction l as [| a | a b t IHt IHbt] using list_ind2; [reflexivity..|].
  rewrite cch_t_cons2.
  destruct (is_h a) eqn:Ha; destruct (is_h b) eqn:Hb; destruct (same_ax a b) eqn:Hs;
    cbn [andb negb]; try (cbn [flat_map] in *; rewrite IHbt; reflexivity).
  cbn [flat_map]. rewrite IHt, (Hf a b Ha Hb Hs), <- app_assoc. reflexivity.
Qed.

Lemma cch_t_region l : region (cch_t l) = region l.
Proof.
  unfold region. rewrite (cch_t_bits xbit nq_xbit), (cch_t_bits ybit nq_ybit). reflexivity.
Qed.

Lemma cch_t_qh : forall l, Forall (fun c => qh c = true) l -> Forall (fun c => qh c = true) (cch_t l).
Proof.
  induction l as [| a | a b t IHt IHbt] using list_ind2; intros H; [exact H..|].
  inversion H as [|? ? Ha Ht]; subst. inversion Ht as [|? ? Hb Ht']; subst.
  rewrite cch_t_cons2.
  destruct (is_h a) eqn:Ea; destruct (is_h b) eqn:Eb; destruct (same_ax a b) eqn:Es;
    cbn [andb negb]; try (constructor; [exact Ha|apply IHbt; exact Ht]).
  constructor; [|apply IHt; exact Ht'].
  unfold qh. rewrite (nq_quarter a b Ea Eb Es). reflexivity.
Qed.

(* ------------------------------------------------------------------ *)
(* adjacency predicates and the fixed point                            *)

Definition adj (R : comp -> comp -> Prop) (l : list comp) : Prop :=
  forall pre a b post, l = pre ++ a :: b :: post -> R a b.

Lemma adj_nil R : adj R [].
Proof. intros [|x pre] a b post E; discriminate. Qed.
Lemma adj_single R x : adj R [x].
Proof. intros [|y [|z pre]] a b post E; discriminate. Qed.
Lemma adj_tail R x l : adj R (x :: l) -> adj R l.
Proof. intros H pre a b post E. apply (H (x :: pre) a b post). rewrite E. reflexivity. Qed.
Lemma adj_head R x y l : adj R (x :: y :: l) -> R x y.
Proof. intros H. apply (H [] x y l). reflexivity. Qed.
Lemma adj_cons (R : comp -> comp -> Prop) x y l : R x y -> adj R (y :: l) -> adj R (x :: y :: l).
Proof.
  intros Hxy H [|z pre] a b post E.
  - injection E as -> -> _. exact Hxy.
  - injection E as _ E. apply (H pre a b post E).
Qed.
Lemma adj_rev R l : adj R (rev l) -> adj (fun a b => R b a) l.
Proof.
  intros H pre a b post E. apply (H (rev post) b a (rev pre)).
  rewrite E, rev_app_distr. simpl. rewrite <- !app_assoc. reflexivity.
Qed.

Definition noQH (a b : comp) : Prop := ~ (is_q a = true /\ is_h b = true).
Definition noCross (a b : comp) : Prop :=
  ~ (is_h a = true /\ is_h b = true /\ same_ax a b = false).

Lemma pbh_t_fixed : forall t a, pbh_t a t = a :: t -> adj noQH (a :: t).
Proof.
  induction t as [|b t IH]; intros a E; [apply adj_single|].
  cbn [pbh_t] in E.
  destruct (is_h b) eqn:Hb; destruct (is_q a) eqn:Ha; cbn [andb] in E.
  - exfalso. injection E as E1 _. destruct (rp1_half a b Ha Hb) as [_ H1].
    rewrite E1 in H1. congruence.
  - injection E as E. apply adj_cons; [|apply IH; exact E]. intros [H1 _]. congruence.
  - injection E as E. apply adj_cons; [|apply IH; exact E]. intros [_ H1]. congruence.
  - injection E as E. apply adj_cons; [|apply IH; exact E]. intros [H1 _]. congruence.
Qed.

Lemma pbh_lf_fixed l : pbh_lf l = l -> adj (fun a b => noQH b a) l.
Proof.
  intros E. apply adj_rev. unfold pbh_lf in E.
  assert (E' : pbh_walk_t (rev l) = rev l).
  { rewrite <- E at 2. rewrite rev_involutive. reflexivity. }
  destruct (rev l) as [|a t]; [apply adj_nil|]. apply pbh_t_fixed. exact E'.
Qed.

Lemma cch_t_fixed : forall l, cch_t l = l -> adj noCross l.
Proof.
  induction l as [| a | a b t IHt IHbt] using list_ind2; intros E;
    [apply adj_nil|apply adj_single|].
  rewrite cch_t_cons2 in E.
  destruct (is_h a) eqn:Ha; destruct (is_h b) eqn:Hb; destruct (same_ax a b) eqn:Hs;
    cbn [andb negb] in E;
    try (injection E as E; apply adj_cons; [|apply IHbt; exact E];
         intros (H1 & H2 & H3); congruence).
  exfalso. pose proof (cch_t_len t) as L.
  assert (L2 : length (nq a b :: cch_t t) = length (a :: b :: t)) by (rewrite E; reflexivity).
  simpl in L2. lia.
Qed.

(* ------------------------------------------------------------------ *)
(* normal form                                                         *)

Fixpoint nf_b (l : list comp) : bool :=
  match l with
  | [] => true
  | a :: t => if is_q a then nf_b t else forallb is_hy l || forallb is_hx l
  end.

Lemma halves_run (ax : comp -> bool) :
  (forall a b, ax a = true -> is_h b = true -> same_ax a b = true -> ax b = true) ->
  (forall a, ax a = true -> is_h a = true) ->
  forall t a, ax a = true ->
    Forall (fun c => qh c = true) t ->
    adj (fun a b => noQH b a) (a :: t) -> adj noCross (a :: t) ->
    forallb ax (a :: t) = true.
Proof.
  intros Hax Hh. induction t as [|b t IH]; intros a Ha Hqh A1 A2.
  - simpl. rewrite Ha. reflexivity.
  - inversion Hqh as [|? ? Hb Hqh']; subst.
    pose proof (adj_head _ _ _ _ A1) as N1. pose proof (adj_head _ _ _ _ A2) as N2.
    pose proof (Hh a Ha) as Hha.
    assert (Hhb : is_h b = true).
    { unfold qh in Hb. destruct (is_q b) eqn:Eq.
      - exfalso. apply N1. split; assumption.
      - simpl in Hb. exact Hb. }
    assert (Hs : same_ax a b = true).
    { destruct (same_ax a b) eqn:Es; [reflexivity|]. exfalso. apply N2. auto. }
    change (forallb ax (a :: b :: t)) with (ax a && forallb ax (b :: t)).
    rewrite Ha. cbn [andb]. apply IH.
    + apply (Hax a b Ha Hhb Hs).
    + exact Hqh'.
    + apply (adj_tail _ _ _ A1).
    + apply (adj_tail _ _ _ A2).
Qed.

Lemma nf_of_adj : forall l,
  Forall (fun c => qh c = true) l ->
  adj (fun a b => noQH b a) l -> adj noCross l -> nf_b l = true.
Proof.
  induction l as [|a t IH]; intros Hqh A1 A2; [reflexivity|].
  inversion Hqh as [|? ? Ha Hqh']; subst.
  cbn [nf_b]. destruct (is_q a) eqn:Eq.
  - apply IH; [exact Hqh'|apply (adj_tail _ _ _ A1)|apply (adj_tail _ _ _ A2)].
  - unfold qh in Ha. rewrite Eq in Ha. simpl in Ha. rewrite h_axis in Ha.
    apply orb_true_iff. apply orb_true_iff in Ha. destruct Ha as [Hy|Hx].
    + left. apply (halves_run is_hy); try assumption.
      * intros x y; destruct x, y; simpl; intros; try discriminate; reflexivity.
      * intros x; destruct x; simpl; intros; try discriminate; reflexivity.
    + right. apply (halves_run is_hx); try assumption.
      * intros x y; destruct x, y; simpl; intros; try discriminate; reflexivity.
      * intros x; destruct x; simpl; intros; try discriminate; reflexivity.
Qed.

(* readable form of the normal form *)
Lemma nf_b_decomp : forall l, nf_b l = true ->
  exists qs hs, l = qs ++ hs /\ Forall (fun c => is_q c = true) qs /\
    (Forall (fun c => is_hy c = true) hs \/ Forall (fun c => is_hx c = true) hs).
Proof.
  induction l as [|a t IH]; intros H.
  - exists [], []. repeat split; auto.
  - cbn [nf_b] in H. destruct (is_q a) eqn:Eq.
    + destruct (IH H) as (qs & hs & -> & Hq & Hh). exists (a :: qs), hs.
      repeat split; auto.
    + exists [], (a :: t). split; [reflexivity|]. split; [constructor|].
      apply orb_true_iff in H. destruct H as [H|H]; [left|right];
        apply Forall_forall; intros x Hx; exact (proj1 (forallb_forall _ _) H x Hx).
Qed.

(* ------------------------------------------------------------------ *)
(* the loop                                                            *)

Definition step (l : list comp) : list comp := cch_t (pbh_lf l).

Lemma comps_eqb_spec : forall a b, comps_eqb a b = true <-> a = b.
Proof.
  induction a as [|x a IH]; intros [|y b]; cbn [comps_eqb]; try (split; [discriminate|discriminate]).
  - split; reflexivity.
  - rewrite cstr_eqb_spec, andb_true_iff, comp_eqb_eq, IH. split.
    + intros [-> ->]. reflexivity.
    + intros E. injection E as -> ->. split; reflexivity.
Qed.

Lemma standardize_fuel_S f l :
  standardize_fuel (S f) l =
  if comps_eqb (step l) l then Some (step l) else standardize_fuel f (step l).
Proof. cbn [standardize_fuel]. rewrite pass_back_halves_eq, cch_eq. reflexivity. Qed.

Lemma step_len l : length (step l) <= length l.
Proof. unfold step. pose proof (cch_t_len (pbh_lf l)). rewrite pbh_lf_len in H. exact H. Qed.

Lemma step_region l : region (step l) = region l.
Proof. unfold step. rewrite cch_t_region, pbh_lf_region. reflexivity. Qed.

Lemma step_qh l : Forall (fun c => qh c = true) l -> Forall (fun c => qh c = true) (step l).
Proof. intros H. apply cch_t_qh, pbh_lf_qh, H. Qed.

Lemma step_fixed l : step l = l -> pbh_lf l = l /\ cch_t l = l.
Proof.
  unfold step. intros E. destruct (cch_t_change (pbh_lf l)) as [E1|L].
  - rewrite E1 in E. split; [exact E|]. rewrite <- E at 1. rewrite E1. exact E.
  - exfalso. rewrite E, pbh_lf_len in L. lia.
Qed.

(* the potential decreases on every round that changes something *)
Lemma step_measure n0 l : length l <= n0 -> step l <> l ->
  length (step l) * (S n0 * S n0) + inv (step l) < length l * (S n0 * S n0) + inv l.
Proof.
  intros Hn Hne. unfold step in *.
  destruct (cch_t_change (pbh_lf l)) as [E1|L].
  - rewrite E1 in *. rewrite pbh_lf_len.
    destruct (pbh_lf_inv l) as [_ [E|Lt]]; [contradiction|lia].
  - rewrite pbh_lf_len in L. set (l2 := cch_t (pbh_lf l)) in *.
    pose proof (inv_le l2) as Hi.
    assert (H1 : length l2 * length l2 < S n0 * S n0) by nia.
    assert (H2 : S (length l2) * (S n0 * S n0) <= length l * (S n0 * S n0))
      by (apply Nat.mul_le_mono_r; lia).
    lia.
Qed.

Lemma std_loop n0 : forall fuel l,
  length l <= n0 ->
  length l * (S n0 * S n0) + inv l < fuel ->
  exists l', standardize_fuel fuel l = Some l' /\ step l' = l' /\ region l' = region l /\
             (Forall (fun c => qh c = true) l -> Forall (fun c => qh c = true) l').
Proof.
  induction fuel as [|f IH]; intros l Hn Hf; [lia|].
  rewrite standardize_fuel_S. destruct (comps_eqb (step l) l) eqn:E.
  - apply comps_eqb_spec in E. exists (step l). rewrite E. repeat split; auto.
  - assert (Hne : step l <> l).
    { intros C. apply comps_eqb_spec in C. congruence. }
    pose proof (step_measure n0 l Hn Hne) as Hm. pose proof (step_len l) as Hl.
    destruct (IH (step l)) as (l' & H1 & H2 & H3 & H4); [lia|lia|].
    exists l'. split; [exact H1|]. split; [exact H2|]. split.
    + rewrite H3. apply step_region.
    + intros Hq. apply H4, step_qh, Hq.
Qed.

Lemma std_fuel_enough l : length l * (S (length l) * S (length l)) + inv l < std_fuel l.
Proof. unfold std_fuel. pose proof (inv_le l). nia. Qed.

(* ---- the named intermediate result ---- *)
Theorem standardize_terminates_nf l :
  Forall (fun c => c <> CALL) l ->
  exists l', standardize_aliquot_components l = Some l' /\
             region l' = region l /\ nf_b l' = true /\
             Forall (fun c => qh c = true) l'.
Proof.
  intros Hall.
  assert (Hqh : Forall (fun c => qh c = true) l).
  { eapply Forall_impl; [|exact Hall]. intros c Hc. destruct c; try reflexivity. congruence. }
  destruct l as [|a t]; [exists []; repeat split; constructor|].
  unfold standardize_aliquot_components.
  destruct (std_loop (length (a :: t)) (std_fuel (a :: t)) (a :: t) (le_n _)
              (std_fuel_enough (a :: t))) as (l' & H1 & H2 & H3 & H4).
  exists l'. split; [exact H1|]. split; [exact H3|]. split; [|exact (H4 Hqh)].
  destruct (step_fixed l' H2) as [F1 F2].
  apply nf_of_adj; [exact (H4 Hqh)|apply pbh_lf_fixed; exact F1|apply cch_t_fixed; exact F2].
Qed.

Lemma standardize_all : standardize_aliquot_components [CALL] = Some [CALL].
Proof. vm_compute. reflexivity. Qed.
