(* Proofs/C02/Main.v -- property C02: the pieces returned by parse_aliquot (on the
   component level, parse_comps) tile exactly the region the chain describes. *)
From Coq Require Import List ZArith Arith Bool Lia.
From PyTRS Require Import Engine.Regex PyRt.Str Model.Aliquot Spec.Geometry Spec.C02Spec.
From PyTRS Require Import Proofs.C02.TableSpecs Proofs.C02.Standardize Proofs.C02.Tiling
  Proofs.C02.Subdivide Proofs.C02.Parse.
Import ListNotations.

Lemma parse_comps_unfold l mn mx bh :
  l <> [] ->
  parse_comps l (Z.of_nat mn) (option_map Z.of_nat mx) bh =
  match standardize_aliquot_components l with
  | None => None
  | Some std =>
      option_map rebuild_aliquots
        (subdivide_all 1 (length (clip std mx)) (clip std mx) (Z.of_nat mn) bh)
  end.
Proof. destruct l; [congruence|reflexivity]. Qed.

Lemma trunc_opt_U mx : trunc_opt mx (region [CALL]) = region [CALL].
Proof. destruct mx as [[|M]|]; reflexivity. Qed.

(* the strong form: exact tiling, no piece reaching outside, depth rules *)
Theorem C02_core l mn mx bh :
  valid_chain l ->
  (match mx with Some M => mn <= M /\ 1 <= M | None => True end) ->
  exists pieces,
    parse_comps l (Z.of_nat mn) (option_map Z.of_nat mx) bh = Some pieces /\
    tiles_strong (trunc_opt mx (region l)) (map piece_rect pieces) /\
    Forall (piece_ok mn mx bh) pieces.
Proof.
  intros Hv HM.
  assert (HM1 : match mx with Some M => 1 <= M | None => True end)
    by (destruct mx; [apply HM|exact I]).
  destruct Hv as [-> | [Hne Hall]].
  - rewrite parse_comps_unfold by discriminate. rewrite standardize_all.
    rewrite (clip_all mx HM1), trunc_opt_U.
    apply parse_tail; [discriminate|right; split; reflexivity|].
    destruct mx as [M|]; [simpl; lia|exact I].
  - rewrite (parse_comps_unfold l mn mx bh Hne).
    destruct (standardize_terminates_nf l Hall) as (std & Hs & Hr & Hnf & Hq).
    rewrite Hs.
    assert (Hstd : std <> []).
    { intros ->. destruct l as [|a t]; [congruence|].
      symmetry in Hr. revert Hr. apply qh_region_nonempty.
      inversion Hall as [|? ? Ha _]; subst. destruct a; try reflexivity. congruence. }
    destruct (clip_nf std mx Hstd Hnf Hq HM1) as (C1 & C2 & C3 & C4 & C5).
    rewrite <- Hr, <- C2.
    apply parse_tail; [exact C1|left; split; assumption|].
    destruct mx as [M|]; [split; [exact C5|apply HM]|exact I].
Qed.

Theorem C02_tiling_proof : C02_statement.
Proof.
  intros l mn mx bh Hv HM. destruct (C02_core l mn mx bh Hv HM) as (pieces & H1 & H2 & H3).
  exists pieces. split; [exact H1|]. split; [apply tiles_strong_tiles, H2|exact H3].
Qed.

Theorem C02_qq_depth_proof : C02_qq_depth_statement.
Proof.
  intros l d mn0 mx0 bh Hv Hd. cbn [resolve_depths].
  destruct (C02_core l d (Some d) bh Hv) as (pieces & H1 & H2 & H3); [lia|].
  exists pieces. split; [exact H1|]. split; [apply tiles_strong_tiles, H2|exact H3].
Qed.

Theorem C02_inside_proof : C02_inside_statement.
Proof.
  intros l mn mx bh pieces Hv HM Hp pc Hin p Hpc.
  destruct (C02_core l mn mx bh Hv HM) as (pieces' & H1 & [_ H2] & _).
  rewrite Hp in H1. injection H1 as <-.
  rewrite Forall_forall in H2. apply (H2 (piece_rect pc)); [|exact Hpc].
  apply in_map, Hin.
Qed.

Theorem C02_disjoint_proof : C02_disjoint_statement.
Proof.
  intros l mn mx bh pieces Hv HM Hp i j p Hi Hj Pi Pj.
  destruct (C02_core l mn mx bh Hv HM) as (pieces' & H1 & H2 & _).
  rewrite Hp in H1. injection H1 as <-.
  apply (tiles_strong_disjoint _ _ i j p H2); try (rewrite map_length; assumption).
  - change U with (piece_rect []). rewrite map_nth. exact Pi.
  - change U with (piece_rect []). rewrite map_nth. exact Pj.
Qed.

Theorem C02_depth0_refuted_proof : C02_depth0_refuted_statement.
Proof.
  exists [CNE]. split; [|split].
  - right. split; [discriminate|]. constructor; [discriminate|constructor].
  - vm_compute. reflexivity.
  - intros H. specialize (H (fun _ => false, fun _ => false)). destruct H as [H _].
    destruct H as [i [[Hi _] _]].
    + split; intros i Hi; simpl in Hi; lia.
    + simpl in Hi. lia.
Qed.

(* named intermediate result, restated for export *)
Theorem C02_standardize_normal_form l :
  valid_chain l ->
  exists l', standardize_aliquot_components l = Some l' /\
             region l' = region l /\
             (l' = [CALL] \/
              exists qs hs, l' = qs ++ hs /\ Forall (fun c => is_q c = true) qs /\
                (Forall (fun c => is_hy c = true) hs \/ Forall (fun c => is_hx c = true) hs)).
Proof.
  intros [-> | [Hne Hall]].
  - exists [CALL]. split; [apply standardize_all|]. split; [reflexivity|left; reflexivity].
  - destruct (standardize_terminates_nf l Hall) as (std & Hs & Hr & Hnf & Hq).
    exists std. split; [exact Hs|]. split; [exact Hr|]. right. apply nf_b_decomp, Hnf.
Qed.
