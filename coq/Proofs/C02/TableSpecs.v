(* Proofs/C02/TableSpecs.v -- characterisation of every table-based test of
   Model/Aliquot.v by a typed function.  These are the only lemmas that look inside
   the generated tables: if a table is edited to something wrong, they break. *)
From Coq Require Import List NArith ZArith Arith Bool Lia.
From PyTRS Require Import Engine.Regex PyRt.Str Gen.Tables Model.Aliquot Spec.Geometry.
Import ListNotations.

(* ---- typed vocabulary ---- *)
Definition is_hy (c : comp) : bool := match c with CN | CS => true | _ => false end.
Definition is_hx (c : comp) : bool := match c with CE | CW => true | _ => false end.
Definition is_all (c : comp) : bool := match c with CALL => true | _ => false end.
Definition same_ax (a b : comp) : bool := (is_hy a && is_hy b) || (is_hx a && is_hx b).

(* quarter from its north bit and east bit; halves from their bit *)
Definition mkq (y x : bool) : comp :=
  match y, x with
  | true, true => CNE | true, false => CNW | false, true => CSE | false, false => CSW
  end.
Definition mkhy (y : bool) : comp := if y then CN else CS.
Definition mkhx (x : bool) : comp := if x then CE else CW.
Definition qy (c : comp) : bool := match c with CNE | CNW => true | _ => false end.
Definition qx (c : comp) : bool := match c with CNE | CSE => true | _ => false end.
Definition hbit (c : comp) : bool := match c with CN | CE => true | _ => false end.

Definition comp_eqb (a b : comp) : bool :=
  match a, b with
  | CN, CN | CS, CS | CE, CE | CW, CW | CNE, CNE | CNW, CNW | CSE, CSE | CSW, CSW
  | CALL, CALL => true
  | _, _ => false
  end.

Lemma comp_eqb_eq a b : comp_eqb a b = true <-> a = b.
Proof. split. - destruct a, b; simpl; intro H; try discriminate; reflexivity.
  - intros ->. destruct b; reflexivity. Qed.

(* ---- the table lemmas ---- *)
Lemma is_half_spec c : is_half c = is_h c.
Proof. destruct c; vm_compute; reflexivity. Qed.

Lemma is_quarter_spec c : is_quarter c = is_q c.
Proof. destruct c; vm_compute; reflexivity. Qed.

Lemma in_ns_spec c : in_ns c = is_hy c.
Proof. destruct c; vm_compute; reflexivity. Qed.

Lemma same_axis_spec a b : same_axis a b = same_ax a b.
Proof. destruct a, b; vm_compute; reflexivity. Qed.

Lemma in_EW_literal_spec c : in_EW_literal c = is_hx c.
Proof. destruct c; vm_compute; reflexivity. Qed.

Lemma comp_of_str_cstr c : comp_of_str (cstr c) = Some c.
Proof. destruct c; vm_compute; reflexivity. Qed.

Lemma cstr_eqb_spec a b : str_eqb (cstr a) (cstr b) = comp_eqb a b.
Proof. destruct a, b; vm_compute; reflexivity. Qed.

(* the quarter/half exchange of pass_back_halves *)
Definition rp1 (a b : comp) : comp := if is_hy b then mkhy (qy a) else mkhx (qx a).
Definition rp2 (a b : comp) : comp :=
  if is_hy b then mkq (hbit b) (qx a) else mkq (qy a) (hbit b).

Lemma rebuild_pair_spec a b :
  is_q a = true -> is_h b = true -> rebuild_pair a b = Some (rp1 a b, rp2 a b).
Proof. destruct a, b; simpl; intros Ha Hb; try discriminate; vm_compute; reflexivity. Qed.

(* two cross-axis halves make a quarter *)
Definition nq (a b : comp) : comp :=
  if is_hx a then mkq (hbit b) (hbit a) else mkq (hbit a) (hbit b).

Lemma new_quarter_spec a b :
  is_h a = true -> is_h b = true -> same_ax a b = false -> new_quarter a b = Some (nq a b).
Proof. destruct a, b; simpl; intros Ha Hb Hs; try discriminate; vm_compute; reflexivity. Qed.

(* QQ_SUBDIVIDE_DEFINITIONS *)
Definition defs (c : comp) : list comp :=
  match c with
  | CALL => [CNE; CNW; CSE; CSW]
  | CN => [CNE; CNW] | CS => [CSE; CSW] | CE => [CNE; CSE] | CW => [CNW; CSW]
  | _ => []
  end.

Definition QS4 : list comp := [CNE; CNW; CSE; CSW].

Lemma subdiv_def_spec c : is_q c = false -> subdiv_def c = Some (defs c).
Proof. destruct c; simpl; intros Hc; try discriminate; vm_compute; reflexivity. Qed.

Lemma quarters_spec : quarters = Some QS4.
Proof. vm_compute; reflexivity. Qed.

Definition is_key (c : comp) : bool :=
  match assoc_str (cstr c) QQ_SUBDIVIDE_DEFINITIONS with Some _ => true | None => false end.

Lemma is_key_spec c : is_key c = negb (is_q c).
Proof. destruct c; vm_compute; reflexivity. Qed.

Lemma key_cases c :
  (exists l, assoc_str (cstr c) QQ_SUBDIVIDE_DEFINITIONS = Some l /\ is_q c = false) \/
  (assoc_str (cstr c) QQ_SUBDIVIDE_DEFINITIONS = None /\ is_q c = true).
Proof.
  pose proof (is_key_spec c) as H. unfold is_key in H.
  destruct (assoc_str (cstr c) QQ_SUBDIVIDE_DEFINITIONS) as [l|].
  - left. exists l. split; [reflexivity|]. destruct (is_q c); [discriminate|reflexivity].
  - right. split; [reflexivity|]. destruct (is_q c); [reflexivity|discriminate].
Qed.

(* ---- elementary typed facts (pure case analysis, no tables) ---- *)
Lemma rp1_half a b : is_q a = true -> is_h b = true -> is_h (rp1 a b) = true /\ is_q (rp1 a b) = false.
Proof. destruct a, b; simpl; intros; try discriminate; split; reflexivity. Qed.
Lemma rp2_quarter a b : is_q a = true -> is_h b = true -> is_q (rp2 a b) = true /\ is_h (rp2 a b) = false.
Proof. destruct a, b; simpl; intros; try discriminate; split; reflexivity. Qed.
Lemma rp_xbit a b : is_q a = true -> is_h b = true ->
  xbit b ++ xbit a = xbit (rp2 a b) ++ xbit (rp1 a b).
Proof. destruct a, b; simpl; intros; try discriminate; reflexivity. Qed.
Lemma rp_ybit a b : is_q a = true -> is_h b = true ->
  ybit b ++ ybit a = ybit (rp2 a b) ++ ybit (rp1 a b).
Proof. destruct a, b; simpl; intros; try discriminate; reflexivity. Qed.

Lemma nq_quarter a b : is_h a = true -> is_h b = true -> same_ax a b = false ->
  is_q (nq a b) = true.
Proof. destruct a, b; simpl; intros; try discriminate; reflexivity. Qed.
Lemma nq_xbit a b : is_h a = true -> is_h b = true -> same_ax a b = false ->
  xbit (nq a b) = xbit a ++ xbit b.
Proof. destruct a, b; simpl; intros; try discriminate; reflexivity. Qed.
Lemma nq_ybit a b : is_h a = true -> is_h b = true -> same_ax a b = false ->
  ybit (nq a b) = ybit a ++ ybit b.
Proof. destruct a, b; simpl; intros; try discriminate; reflexivity. Qed.

Lemma q_not_h c : is_q c = true -> is_h c = false.
Proof. destruct c; simpl; intros; try discriminate; reflexivity. Qed.
Lemma h_not_q c : is_h c = true -> is_q c = false.
Proof. destruct c; simpl; intros; try discriminate; reflexivity. Qed.
Lemma h_axis c : is_h c = is_hy c || is_hx c.
Proof. destruct c; reflexivity. Qed.
