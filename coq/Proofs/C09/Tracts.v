(* Proofs/C09/Tracts.v -- creation order, normalised TRS, flags handed down: for all texts. *)
From Coq Require Import List NArith ZArith Arith Bool Lia.
From Coq Require String.
From PyTRS Require Import Engine.Regex Gen.Patterns PyRt.Str Gen.Tables Model.Trs Model.Unpack Model.TractPre
     Model.Aliquot Model.TractParse Model.PlssPre Model.PlssParse.
Import ListNotations.
Import String.StringSyntax.
Local Open Scope string_scope.

Lemma make_tract_fields desc trs idx ts t :
  make_tract desc trs idx ts = Ok t ->
  to_orig_index t = idx /\ to_desc t = desc /\ to_trs t = TRS_trs (Some trs).
Proof.
  unfold make_tract. destruct (ts_parse_qq ts).
  - destruct (tract_parser desc _ _ _ _ _ _ _) as [r|e]; cbn [bind]; [|discriminate].
    intros H. injection H as <-. repeat split.
  - destruct (scrub_aliquots desc _) as [pp|e]; cbn [bind]; [|discriminate].
    intros H. injection H as <-. repeat split.
Qed.

Lemma construct_secs_spec desc tw : forall secs within idx ts tl wi n,
  construct_secs desc tw secs within idx ts = Ok (tl, wi, n) ->
  map to_orig_index tl = seq idx (length secs) /\ n = idx + length secs /\
  Forall2 (fun t sc => to_desc t = desc /\ to_trs t = TRS_trs (Some (tw ++ sc))) tl secs.
Proof.
  induction secs as [|sc rest IH]; intros within idx ts tl wi n H; cbn [construct_secs] in H.
  - injection H as <- <- <-. cbn. repeat split; [lia | constructor].
  - destruct (make_tract desc (tw ++ sc) idx ts) as [t|e] eqn:Et; cbn [bind] in H; [|discriminate].
    destruct (construct_secs desc tw rest within (S idx) ts) as [[[tl' wi'] n']|e] eqn:E; cbn [bind] in H; [|discriminate].
    injection H as <- <- <-. destruct (IH _ _ _ _ _ _ E) as (H1 & H2 & H3).
    destruct (make_tract_fields _ _ _ _ _ Et) as (F1 & F2 & F3).
    cbn [map seq length]. rewrite F1, H1. repeat split; [lia|]. constructor; [split; assumption | exact H3].
Qed.

Lemma construct_tracts_idx : forall tcs clean_up idx ts r,
  construct_tracts tcs clean_up idx ts = Ok r ->
  map to_orig_index (fst r) = seq idx (length (fst r)).
Proof.
  induction tcs as [|c rest IH]; intros clean_up idx ts r H; cbn [construct_tracts] in H.
  - injection H as <-. reflexivity.
  - destruct (if clean_up then cleanup_desc (tc_desc c) else Ok (tc_desc c)) as [desc|e]; cbn [bind] in H; [|discriminate].
    destruct (construct_secs desc (tc_twprge c) (tc_sec c) (tc_within c) idx ts) as [[[t1 w1] n]|e] eqn:E1; cbn [bind] in H; [|discriminate].
    destruct (construct_tracts rest clean_up n ts) as [r2|e] eqn:E2; cbn [bind] in H; [|discriminate].
    injection H as <-. cbn [fst]. destruct (construct_secs_spec _ _ _ _ _ _ _ _ _ E1) as (H1 & H2 & H3).
    rewrite map_app, app_length, seq_app, H1, (IH _ _ _ _ E2).
    assert (L : length t1 = length (tc_sec c)) by (apply (f_equal (@length nat)) in H1; rewrite map_length, seq_length in H1; exact H1).
    rewrite L, H2. reflexivity.
Qed.

(* every tract's TRS is a normalised TRS (the result of TRS(...) on twprge + sec) *)
Lemma construct_tracts_trs : forall tcs clean_up idx ts r,
  construct_tracts tcs clean_up idx ts = Ok r ->
  Forall (fun t => exists raw, to_trs t = TRS_trs (Some raw)) (fst r).
Proof.
  induction tcs as [|c rest IH]; intros clean_up idx ts r H; cbn [construct_tracts] in H.
  - injection H as <-. constructor.
  - destruct (if clean_up then cleanup_desc (tc_desc c) else Ok (tc_desc c)) as [desc|e]; cbn [bind] in H; [|discriminate].
    destruct (construct_secs desc (tc_twprge c) (tc_sec c) (tc_within c) idx ts) as [[[t1 w1] n]|e] eqn:E1; cbn [bind] in H; [|discriminate].
    destruct (construct_tracts rest clean_up n ts) as [r2|e] eqn:E2; cbn [bind] in H; [|discriminate].
    injection H as <-. cbn [fst]. apply Forall_app. split; [|apply (IH _ _ _ _ E2)].
    destruct (construct_secs_spec _ _ _ _ _ _ _ _ _ E1) as (_ & _ & H3).
    clear -H3. induction H3 as [|t sc tl secs [_ Ht] _ IH']; constructor; [eexists; exact Ht | exact IH'].
Qed.

Lemma hand_down_fields f t :
  to_orig_index (hand_down f t) = to_orig_index t /\ to_trs (hand_down f t) = to_trs t /\ to_desc (hand_down f t) = to_desc t.
Proof. repeat split. Qed.

Lemma assemble_tracts st ptext layout' tracts unused wflags :
  po_tracts (assemble st ptext layout' tracts unused wflags)
  = map (hand_down (po_flags (assemble st ptext layout' tracts unused wflags))) tracts.
Proof. reflexivity. Qed.

Theorem finish_parse_indices st sw cu ts ptext layout' p :
  finish_parse st sw cu ts ptext layout' = Ok p ->
  map to_orig_index (po_tracts p) = seq 0 (length (po_tracts p)) /\
  Forall (fun t => exists raw, to_trs t = TRS_trs (Some raw)) (po_tracts p).
Proof.
  unfold finish_parse.
  destruct (if sw then _ else _) as [rs|e]; cbn [bind]; [|discriminate].
  destruct (construct_tracts (fst rs) cu 0 ts) as [ct|e] eqn:Ect; cbn [bind]; [|discriminate].
  destruct (map_py _ (snd ct)) as [wf|e]; cbn [bind]; [|discriminate].
  intros H. injection H as <-. rewrite assemble_tracts. rewrite map_map, map_length.
  split.
  - rewrite <- (construct_tracts_idx _ _ _ _ _ Ect). apply map_ext. intros t. reflexivity.
  - pose proof (construct_tracts_trs _ _ _ _ _ Ect) as F. rewrite Forall_forall in *. intros t Hin.
    apply in_map_iff in Hin. destruct Hin as (t0 & <- & Hin0). apply (F t0 Hin0).
Qed.

Theorem plss_parser_indices text layout d ocr cu rc seg sw ts p :
  plss_parser text layout d ocr cu rc seg sw ts = Ok p ->
  map to_orig_index (po_tracts p) = seq 0 (length (po_tracts p)) /\
  Forall (fun t => exists raw, to_trs t = TRS_trs (Some raw)) (po_tracts p).
Proof.
  unfold plss_parser. destruct (plss_preprocess text d ocr) as [pp|e]; cbn [bind]; [|discriminate].
  unfold parse_text. destruct (chunks_of _ _ _ _ _) as [ch|e]; cbn [bind]; [|discriminate].
  destruct (parse_chunks _ _ _ _) as [st|e]; cbn [bind]; [|discriminate].
  apply finish_parse_indices.
Qed.

(* ---------------- flags handed down, error tracts flagged (used by C10 too) ---------------- *)
Theorem assemble_handed_down st ptext layout' tracts unused wflags t :
  In t (po_tracts (assemble st ptext layout' tracts unused wflags)) ->
  let f := po_flags (assemble st ptext layout' tracts unused wflags) in
  exists t0, In t0 tracts /\
    w_flags (to_flags t) = w_flags (to_flags t0) ++ w_flags f /\
    w_flag_lines (to_flags t) = w_flag_lines (to_flags t0) ++ w_flag_lines f /\
    e_flags (to_flags t) = e_flags (to_flags t0) ++ e_flags f /\
    e_flag_lines (to_flags t) = e_flag_lines (to_flags t0) ++ e_flag_lines f.
Proof.
  rewrite assemble_tracts. intros Hin f. apply in_map_iff in Hin. destruct Hin as (t0 & <- & Hin0).
  exists t0. split; [exact Hin0|]. repeat split.
Qed.

Theorem assemble_error_flagged st ptext layout' tracts unused wflags :
  existsb (fun t => is_error_trs (to_trs t)) tracts = true ->
  In E_FLAG_TWPRGE_ERR (e_flags (po_flags (assemble st ptext layout' tracts unused wflags))).
Proof.
  intros H. unfold assemble. cbv zeta. cbn [po_flags e_flags]. rewrite H. apply in_or_app. right. left. reflexivity.
Qed.
