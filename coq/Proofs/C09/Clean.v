(* Proofs/C09/Clean.v -- no tract is ever built from a string containing the undefined
   placeholder's character '_': for every text and every setting, the raw Twp/Rge+Sec string of
   every tract is free of '_' (so, by C12's TRS_trs_spec, its .trs is fully standard or uses the
   ERROR placeholders, never the UNDEFINED one).
   Twp/Rge strings: what the groups of the regenerated twprge_regex can hold is computed from the
   pattern (Engine/RegexStatic.v: group_chars); sections are two-digit renderings of integers.
   The invariant is then carried through the finders, the marker walk, the chunk parser and
   construct_tracts. *)
From Coq Require Import List NArith ZArith Arith Bool Lia.
From Coq Require String.
From PyTRS Require Import Engine.Regex Engine.RegexSpec Engine.RegexStatic Gen.Patterns Gen.PyTables PyRt.Str Gen.Tables Model.Trs Model.Unpack
     Model.TractPre Model.Aliquot Model.TractParse Model.PlssPre Model.PlssParse Proofs.C09.Tracts.
Import ListNotations.
Import String.StringSyntax.
Local Open Scope string_scope.

Definition nous (t : str) : Prop := Forall (fun c => c <> 95%N) t.

Ltac lit_nous := unfold nous; repeat (constructor; [discriminate|]); constructor.

Lemma nous_app a b : nous a -> nous b -> nous (a ++ b).
Proof. intros Ha Hb. apply Forall_app. split; assumption. Qed.

Lemma nous_repeat48 k : nous (repeat 48%N k).
Proof. induction k; cbn; constructor; [discriminate | assumption]. Qed.

Lemma nous_digits : forall fuel n acc, nous acc -> nous (digits_pos_fuel fuel n acc).
Proof.
  induction fuel as [|f IH]; intros n acc H; cbn [digits_pos_fuel]; [exact H|].
  assert (K : nous ((48 + n mod 10)%N :: acc)).
  { constructor; [|exact H]. pose proof (N.mod_lt n 10 ltac:(discriminate)). lia. }
  destruct (n <? 10)%N; [exact K | apply IH; exact K].
Qed.

Lemma nous_str_of_N n : nous (str_of_N n).
Proof. apply nous_digits. constructor. Qed.

Lemma nous_str_of_Z z : nous (str_of_Z z).
Proof. destruct z; cbn [str_of_Z]; [lit_nous | apply nous_str_of_N | constructor; [discriminate | apply nous_str_of_N]]. Qed.

Lemma nous_two_digit z : nous (two_digit z).
Proof. unfold two_digit, rjust. apply nous_app; [apply nous_repeat48 | apply nous_str_of_Z]. Qed.

Definition secok (t : str) : Prop := nous t /\ t <> [].
Lemma secok_two_digit z : secok (two_digit z).
Proof.
  split; [apply nous_two_digit|]. unfold two_digit, rjust. destruct (str_of_Z z) as [|c l] eqn:E; [|destruct (repeat 48%N (2 - length (c :: l))); discriminate].
  cbn. discriminate.
Qed.

(* case mapping never produces '_' *)
Definition table_ok (tb : list (N * list N)) : bool := forallb (fun kv => forallb (fun x => negb (x =? 95)%N) (snd kv)) tb.
Lemma lower_table_ok : table_ok LOWER_TABLE = true. Proof. vm_compute. reflexivity. Qed.
Lemma upper_table_ok : table_ok UPPER_TABLE = true. Proof. vm_compute. reflexivity. Qed.

Lemma assoc_N_in {A} c : forall (l : list (N * A)) v, assoc_N c l = Some v -> exists k, In (k, v) l.
Proof.
  induction l as [|[k v'] t IH]; intros v H; cbn in H; [discriminate|].
  destruct (k =? c)%N; [injection H as <-; exists k; left; reflexivity|]. destruct (IH v H) as (k' & Hin). exists k'. right. exact Hin.
Qed.

Lemma table_nous tb c l : table_ok tb = true -> assoc_N c tb = Some l -> nous l.
Proof.
  intros Ht H. destruct (assoc_N_in c tb l H) as (k & Hin).
  pose proof (proj1 (forallb_forall _ _) Ht (k, l) Hin) as K. cbn [snd] in K.
  apply Forall_forall. intros x Hx. pose proof (proj1 (forallb_forall _ _) K x Hx) as Kx.
  apply negb_true_iff, N.eqb_neq in Kx. exact Kx.
Qed.

Lemma lower_char_nous c : c <> 95%N -> nous (lower_char c).
Proof.
  intros Hc. unfold lower_char. destruct (c <? 128)%N.
  - destruct ((65 <=? c) && (c <=? 90))%N eqn:E; [|constructor; [exact Hc | constructor]].
    apply andb_true_iff in E. destruct E as [E1 E2]. apply N.leb_le in E1, E2. constructor; [lia | constructor].
  - destruct (assoc_N c LOWER_TABLE) as [l|] eqn:E; [exact (table_nous _ _ _ lower_table_ok E) | constructor; [exact Hc | constructor]].
Qed.

Lemma upper_char_nous c : c <> 95%N -> nous (upper_char c).
Proof.
  intros Hc. unfold upper_char. destruct (c <? 128)%N.
  - destruct ((97 <=? c) && (c <=? 122))%N eqn:E; [|constructor; [exact Hc | constructor]].
    apply andb_true_iff in E. destruct E as [E1 E2]. apply N.leb_le in E1, E2. constructor; [lia | constructor].
  - destruct (assoc_N c UPPER_TABLE) as [l|] eqn:E; [exact (table_nous _ _ _ upper_table_ok E) | constructor; [exact Hc | constructor]].
Qed.

Lemma nous_lower t : nous t -> nous (lower t).
Proof. intros H. unfold lower. induction H as [|c t Hc _ IH]; cbn [flat_map]; [constructor | apply nous_app; [apply lower_char_nous; exact Hc | exact IH]]. Qed.
Lemma nous_upper t : nous t -> nous (upper t).
Proof. intros H. unfold upper. induction H as [|c t Hc _ IH]; cbn [flat_map]; [constructor | apply nous_app; [apply upper_char_nous; exact Hc | exact IH]]. Qed.

(* re.sub keeps the property when the replacement has it *)
Lemma Forall_firstn {A} (P : A -> Prop) : forall n l, Forall P l -> Forall P (firstn n l).
Proof. induction n as [|n IH]; intros l H; [constructor|]. destruct H; cbn; [constructor | constructor; [assumption | apply IH; assumption]]. Qed.
Lemma Forall_skipn {A} (P : A -> Prop) : forall n l, Forall P l -> Forall P (skipn n l).
Proof. induction n as [|n IH]; intros l H; [exact H|]. destruct H; cbn; [constructor | apply IH; assumption]. Qed.

Lemma sub_build_Forall (P : N -> Prop) t f : Forall P t -> (forall x, Forall P (f x)) ->
  forall ms p, Forall P (sub_build t p ms f).
Proof.
  intros Ht Hf. induction ms as [|x ms IH]; intros p; cbn [sub_build]; [apply Forall_skipn; exact Ht|].
  apply Forall_app. split; [unfold slice; apply Forall_firstn, Forall_skipn; exact Ht|]. apply Forall_app. split; [apply Hf | apply IH].
Qed.

Lemma nous_sub r ng repl t : nous repl -> nous t -> nous (sub r ng repl t).
Proof. intros Hr Ht. unfold sub, sub_fn. apply sub_build_Forall; [exact Ht | intros _; exact Hr]. Qed.

(* ---- what unpack_short can return ---- *)
Definition no95 (S : list (list (N * N))) : bool := forallb (fun cs => negb (in_ranges 95%N cs)) S.

Lemma inS_nous S w : no95 S = true -> Forall (inS S) w -> nous w.
Proof.
  intros HS. apply Forall_impl. intros c (cs & Hin & Hc) ->.
  pose proof (proj1 (forallb_forall _ _) HS cs Hin) as K. apply negb_true_iff in K. congruence.
Qed.

Definition used_groups : list nat :=
  [tg_twpnum twprge_regex_groups; tg_ns twprge_regex_groups; tg_rgenum twprge_regex_groups; tg_rge2 twprge_regex_groups; tg_ew twprge_regex_groups].

Lemma used_groups_no95 : forallb (fun j => no95 (gsets twprge_regex j)) used_groups = true.
Proof. vm_compute. reflexivity. Qed.

Lemma twprge_group_nous txt x j w :
  In x (finditer twprge_regex twprge_regex_ng txt) -> In j used_groups -> group txt x j = Some w -> nous w.
Proof.
  intros Hx Hj Hg. apply (inS_nous (gsets twprge_regex j)).
  - exact (proj1 (forallb_forall _ _) used_groups_no95 j Hj).
  - exact (finditer_group_chars _ _ _ _ _ _ Hx Hg).
Qed.

Lemma str_eqb_true a : forall b, str_eqb a b = true -> a = b.
Proof.
  induction a as [|x a IH]; intros [|y b]; cbn; try discriminate; [reflexivity|].
  destruct (x =? y)%N eqn:E; [|discriminate]. apply N.eqb_eq in E. intros H. rewrite (IH _ H), E. reflexivity.
Qed.

Lemma legal_nous d : mem_str d MC_LEGAL_NS = true \/ mem_str d MC_LEGAL_EW = true -> nous d.
Proof.
  unfold mem_str. intros [H|H]; apply existsb_exists in H; destruct H as (y & Hin & He); apply str_eqb_true in He; subst y;
    cbn in Hin; repeat (destruct Hin as [<-|Hin]; [lit_nous|]); destruct Hin.
Qed.

Lemma first_char_nous t v : nous t -> first_char t = Ok v -> nous v.
Proof. intros H. destruct t as [|c t']; cbn; [discriminate|]. intros E. injection E as <-. inversion H; subst. constructor; [assumption | constructor]. Qed.

Lemma str_int_or_keep_nous t : nous t -> nous (str_int_or_keep t).
Proof. intros H. unfold str_int_or_keep. destruct (py_int t); [apply nous_str_of_Z | exact H]. Qed.

Lemma ug1 : In (tg_twpnum twprge_regex_groups) used_groups. Proof. unfold used_groups. auto 6 with datatypes. Qed.
Lemma ug2 : In (tg_ns twprge_regex_groups) used_groups. Proof. unfold used_groups. auto 6 with datatypes. Qed.
Lemma ug3 : In (tg_rgenum twprge_regex_groups) used_groups. Proof. unfold used_groups. auto 6 with datatypes. Qed.
Lemma ug4 : In (tg_rge2 twprge_regex_groups) used_groups. Proof. unfold used_groups. auto 8 with datatypes. Qed.
Lemma ug5 : In (tg_ew twprge_regex_groups) used_groups. Proof. unfold used_groups. auto 8 with datatypes. Qed.

Lemma unpack_short_nous txt x mc_ns mc_ew v :
  In x (finditer twprge_regex twprge_regex_ng txt) -> unpack_short txt x mc_ns mc_ew = Ok v -> nous v.
Proof.
  intros Hx. unfold unpack_short, unpack_twprge.
  assert (G : forall j w, In j used_groups -> group txt x j = Some w -> nous w) by (intros j w; apply twprge_group_nous; exact Hx).
  cbv zeta. destruct (negb (mem_str mc_ns MC_LEGAL_NS)) eqn:E1; [discriminate|]. destruct (negb (mem_str mc_ew MC_LEGAL_EW)) eqn:E2; [discriminate|].
  apply negb_false_iff in E1, E2.
  destruct (group txt x (tg_twpnum twprge_regex_groups)) as [twp|] eqn:Gt; [|discriminate].
  assert (Ht : nous twp) by (apply (G _ _ ug1 Gt)).
  destruct (match group txt x (tg_ns twprge_regex_groups) with Some v0 => first_char v0 | None => Ok mc_ns end) as [ns|e] eqn:En; cbn [bind]; [|discriminate].
  assert (Hns : nous ns).
  { destruct (group txt x (tg_ns twprge_regex_groups)) as [v0|] eqn:Gn; [apply (first_char_nous v0 ns (G _ _ ug2 Gn) En)|].
    injection En as <-. apply legal_nous. left. exact E1. }
  destruct (match group txt x (tg_rgenum twprge_regex_groups) with Some v0 => Ok v0 | None => _ end) as [rge|e] eqn:Er; cbn [bind]; [|discriminate].
  assert (Hr : nous rge).
  { destruct (group txt x (tg_rgenum twprge_regex_groups)) as [v0|] eqn:Gr; [injection Er as <-; apply (G _ _ ug3 Gr)|].
    destruct (tg_rge2 twprge_regex_groups) eqn:E2'; [discriminate|]. rewrite <- E2' in Er.
    destruct (group txt x (tg_rge2 twprge_regex_groups)) as [v0|] eqn:Gr2; [|discriminate]. injection Er as <-. apply (G _ _ ug4 Gr2). }
  destruct (match group txt x (tg_ew twprge_regex_groups) with Some v0 => first_char v0 | None => Ok mc_ew end) as [ew|e] eqn:Ee; cbn [bind]; [|discriminate].
  assert (Hew : nous ew).
  { destruct (group txt x (tg_ew twprge_regex_groups)) as [v0|] eqn:Ge; [apply (first_char_nous v0 ew (G _ _ ug5 Ge) Ee)|].
    injection Ee as <-. apply legal_nous. right. exact E2. }
  intros H. cbv beta iota zeta in H. injection H as <-. unfold twprge_natural_to_short. apply nous_sub; [constructor|]. apply nous_lower.
  cbn [s app]. constructor; [discriminate|]. apply nous_app; [apply str_int_or_keep_nous; assumption|]. apply nous_app; [apply nous_upper; assumption|].
  constructor; [discriminate|]. constructor; [discriminate|]. apply nous_app; [apply str_int_or_keep_nous; assumption | apply nous_upper; assumption].
Qed.

(* ================================================================== *)
(* the finders only hand out clean strings *)
Lemma trf_loop_clean txt layout mc_ns mc_ew : forall ms j acc r,
  (forall x, In x ms -> In x (finditer twprge_regex twprge_regex_ng txt)) ->
  Forall (fun m => nous (tm_val m)) (tf_matches acc) ->
  trf_loop txt layout mc_ns mc_ew ms j acc = Ok r -> Forall (fun m => nous (tm_val m)) (tf_matches r).
Proof.
  induction ms as [|x rest IH]; intros j acc r Hms Hacc H; cbn [trf_loop] in H; [injection H as <-; exact Hacc|].
  assert (Hx : In x (finditer twprge_regex twprge_regex_ng txt)) by (apply Hms; left; reflexivity).
  assert (Hrest : forall y, In y rest -> In y (finditer twprge_regex twprge_regex_ng txt)) by (intros y Hy; apply Hms; right; exact Hy).
  destruct (layout_in layout _).
  - destruct (unpack_short txt x mc_ns mc_ew) as [v|e] eqn:Ev; cbn [bind] in H; [|discriminate].
    apply (IH _ _ _ Hrest) in H; [exact H|]. cbn [tf_matches]. apply Forall_app. split; [exact Hacc|].
    constructor; [exact (unpack_short_nous _ _ _ _ _ Hx Ev) | constructor].
  - cbv zeta in H. destruct (unpack_short txt x mc_ns mc_ew) as [v|e] eqn:Ev; cbn [bind] in H; [|discriminate].
    match type of H with (if ?b then _ else _) = _ => destruct b end.
    + apply (IH _ _ _ Hrest) in H; [exact H|]. cbn [tf_matches]. apply Forall_app. split; [exact Hacc|].
      constructor; [exact (unpack_short_nous _ _ _ _ _ Hx Ev) | constructor].
    + apply (IH _ _ _ Hrest) in H; [exact H|]. exact Hacc.
Qed.

Lemma twprge_finder_clean txt layout mc_ns mc_ew r :
  twprge_finder txt layout mc_ns mc_ew = Ok r -> Forall (fun m => nous (tm_val m)) (tf_matches r).
Proof. unfold twprge_finder. intros H. eapply (trf_loop_clean _ _ _ _ _ _ (mk_tfinder [] [] [])); [|constructor|exact H]. auto. Qed.

(* sections are two-digit renderings of integers *)
Lemma sections_loop_clean step : forall fuel endpos ft working flags flines u,
  Forall secok working -> unpack_sections_loop step fuel endpos ft working flags flines = Ok u -> Forall secok (su_list u).
Proof.
  induction fuel as [|f IH]; intros endpos ft working flags flines u Hw H; cbn [unpack_sections_loop] in H; [discriminate|].
  destruct (step endpos) as [ps|]; [|injection H as <-; cbn [su_list]; apply Forall_rev; exact Hw].
  destruct ps as [st0|e]; cbn [bind] in H; [|discriminate].
  destruct (int_of_group (rs_num st0)) as [n|e]; cbn [bind] in H; [|discriminate].
  destruct ft.
  - destruct (last_or working) as [prev|e]; cbn [bind] in H; [|discriminate].
    destruct (int_of_group (Some prev)) as [e0|e]; cbn [bind] in H; [|discriminate].
    destruct (elided n e0) as [ok rng].
    assert (Ha : Forall secok (working ++ map two_digit rng)).
    { apply Forall_app. split; [exact Hw|]. apply Forall_forall. intros x Hx. apply in_map_iff in Hx. destruct Hx as (z & <- & _). apply secok_two_digit. }
    destruct ok; cbn [bind] in H; exact (IH _ _ _ _ _ _ Ha H).
  - cbn [bind] in H. apply (IH _ _ _ _ _ _) in H; [exact H|]. apply Forall_app. split; [exact Hw|]. constructor; [apply secok_two_digit | constructor].
Qed.

Lemma sec_unpacker_clean txt u : sec_unpacker txt = Ok u -> Forall secok (su_list u).
Proof. unfold sec_unpacker. apply sections_loop_clean. constructor. Qed.

Definition sf_clean (f : sfinder) : Prop := Forall (fun m => Forall secok (sm_val m)) (sf_matches f).

Lemma sf_loop_clean text layout nc : forall ms acc last r,
  sf_clean acc -> sf_loop text layout nc ms acc last = Ok r -> sf_clean (fst r).
Proof.
  induction ms as [|x rest IH]; intros acc last r Ha H; cbn [sf_loop] in H; [injection H as <-; exact Ha|].
  destruct (sec_unpacker (group0 text x)) as [u|e] eqn:Eu; cbn [bind] in H; [|discriminate]. cbv zeta in H.
  match type of H with (if ?b then _ else _) = _ => destruct b end.
  - match type of H with bind ?f _ = _ => destruct f as [flag|e] end; cbn [bind] in H; [|discriminate].
    apply IH in H; [exact H | exact Ha].
  - destruct (is_multi_sec text x) as [multi|e]; cbn [bind] in H; [|discriminate].
    destruct (if multi then _ else _) as [f1 fl1]. apply IH in H; [exact H|].
    unfold sf_clean. cbn [sf_matches]. apply Forall_app. split; [exact Ha|]. constructor; [cbn [sm_val]; exact (sec_unpacker_clean _ _ Eu) | constructor].
Qed.

Lemma sec_finder_pass_clean text layout rc acc r : sf_clean acc -> sec_finder_pass text layout rc acc = Ok r -> sf_clean (fst r).
Proof. unfold sec_finder_pass. intros Ha. apply sf_loop_clean. destruct rc; exact Ha. Qed.

Lemma sec_finder_clean text layout rc r : sec_finder text layout rc = Ok r -> sf_clean r.
Proof.
  unfold sec_finder. cbv zeta.
  destruct (sec_finder_pass text _ rc (mk_sfinder [] [] [])) as [[f1 n1]|e] eqn:E1; cbn [bind]; [|discriminate].
  assert (C0 : sf_clean (mk_sfinder [] [] [])) by (unfold sf_clean; cbn; constructor).
  pose proof (sec_finder_pass_clean _ _ _ _ _ C0 E1) as C1. cbn [fst] in C1.
  destruct (sf_matches f1) eqn:Em; [|intros H; injection H as <-; exact C1].
  destruct rc; try (intros H; injection H as <-; exact C1).
  destruct (layout_in _ _); [|intros H; injection H as <-; exact C1].
  destruct (sec_finder_pass text _ RC_second f1) as [[f2 n2]|e] eqn:E2; cbn [bind]; [|discriminate].
  pose proof (sec_finder_pass_clean _ _ _ _ _ C1 E2) as C2. cbn [fst] in C2.
  destruct (sf_matches f2) eqn:Em2; intros H; injection H as <-; [exact C2|]. unfold sf_clean. cbn [sf_matches]. rewrite <- Em2. exact C2.
Qed.

(* ---- the chunk parser ---- *)
Definition tc_clean (tc : tcomp) : Prop := nous (tc_twprge tc) /\ Forall secok (tc_sec tc).
Definition cp_clean (c : cp) : Prop :=
  Forall nous (cp_wt_list c) /\ Forall (Forall secok) (cp_ws_list c) /\
  (forall v, cp_wt c = Some v -> nous v) /\ (forall v, cp_ws c = Some v -> Forall secok v) /\ Forall tc_clean (cp_tc c).

Lemma err_twprge_nous : nous MC_ERR_TWPRGE. Proof. lit_nous. Qed.
Lemma err_sec_nous : secok MC_ERR_SEC. Proof. split; [lit_nous | discriminate]. Qed.
Lemma none_nous : nous (s "None"). Proof. lit_nous. Qed.

Lemma get_next_twprge_clean c : cp_clean c -> cp_clean (get_next_twprge c).
Proof.
  intros (H1 & H2 & H3 & H4 & H5). unfold get_next_twprge. cbv zeta.
  match goal with |- context [if ?b then set_flags ?a1 ?a2 ?a3 ?a4 ?a5 else _] => set (c1 := if b then set_flags a1 a2 a3 a4 a5 else c) end.
  assert (E : cp_wt_list c1 = cp_wt_list c /\ cp_ws_list c1 = cp_ws_list c /\ cp_ws c1 = cp_ws c /\ cp_tc c1 = cp_tc c).
  { unfold c1. match goal with |- context [if ?b then _ else _] => destruct b end; repeat split; reflexivity. }
  destruct E as (E1 & E2 & E3 & E4). rewrite E1.
  destruct (cp_wt_list c) as [|v t]; unfold cp_clean; cbn [cp_wt_list cp_ws_list cp_wt cp_ws cp_tc]; rewrite E2, E3, E4.
  - split; [constructor|]. split; [exact H2|]. split; [intros v0 K; injection K as <-; exact err_twprge_nous|]. split; [exact H4 | exact H5].
  - inversion H1; subst. split; [assumption|]. split; [exact H2|]. split; [intros v0 K; injection K as <-; assumption|]. split; [exact H4 | exact H5].
Qed.

Lemma get_next_sec_clean c : cp_clean c -> cp_clean (get_next_sec c).
Proof.
  intros (H1 & H2 & H3 & H4 & H5). unfold get_next_sec. cbv zeta.
  match goal with |- context [if ?b then set_flags ?a1 ?a2 ?a3 ?a4 ?a5 else _] => set (c1 := if b then set_flags a1 a2 a3 a4 a5 else c) end.
  assert (E : cp_wt_list c1 = cp_wt_list c /\ cp_ws_list c1 = cp_ws_list c /\ cp_wt c1 = cp_wt c /\ cp_tc c1 = cp_tc c).
  { unfold c1. match goal with |- context [if ?b then _ else _] => destruct b end; repeat split; reflexivity. }
  destruct E as (E1 & E2 & E3 & E4). rewrite E2.
  destruct (cp_ws_list c) as [|v t]; unfold cp_clean; cbn [cp_wt_list cp_ws_list cp_wt cp_ws cp_tc]; rewrite E1, E3, E4.
  - split; [exact H1|]. split; [constructor|]. split; [exact H3|]. split; [|exact H5].
    intros v0 K. injection K as <-. constructor; [exact err_sec_nous | constructor].
  - inversion H2; subst. split; [exact H1|]. split; [assumption|]. split; [exact H3|]. split; [|exact H5]. intros v0 K. injection K as <-. assumption.
Qed.

Lemma stage_clean c desc sec tw c' :
  cp_clean c -> (forall v, sec = Some v -> Forall secok v) -> (forall v, tw = Some v -> nous v) ->
  stage_new_tract c desc sec tw = Ok c' -> cp_clean c'.
Proof.
  intros (H1 & H2 & H3 & H4 & H5) Hs Ht. unfold stage_new_tract. destruct sec as [sc|]; [|discriminate].
  intros H. injection H as <-. unfold cp_clean. cbn [cp_wt_list cp_ws_list cp_wt cp_ws cp_tc]. repeat split; try assumption.
  apply Forall_app. split; [exact H5|]. constructor; [|constructor]. split; cbn [tc_twprge tc_sec]; [|exact (Hs sc eq_refl)].
  destruct tw as [v|]; [exact (Ht v eq_refl) | exact none_nous].
Qed.

Lemma prep_clean c desc c' : cp_clean c -> prep_new_tract c desc = Ok c' -> cp_clean c'.
Proof.
  intros Hc. unfold prep_new_tract. destruct (cleanup_desc desc) as [d'|e]; cbn [bind]; [|discriminate].
  destruct (stage_new_tract c d' (cp_ws c) (cp_wt c)) as [c1|e] eqn:E; cbn [bind]; [|discriminate].
  pose proof Hc as (H1 & H2 & H3 & H4 & H5).
  destruct (stage_clean _ _ _ _ _ Hc H4 H3 E) as (K1 & K2 & K3 & K4 & K5).
  intros H. injection H as <-. unfold cp_clean. cbn [cp_wt_list cp_ws_list cp_wt cp_ws cp_tc]. repeat split; try assumption.
  intros v K. injection K as <-. constructor; [exact err_sec_nous | constructor].
Qed.

Lemma walk_clean txt sd md : forall ms c c', cp_clean c -> walk txt sd md ms c = Ok c' -> cp_clean c'.
Proof.
  induction ms as [|p rest IH]; intros c c' Hc H; cbn [walk] in H; [injection H as <-; exact Hc|]. cbv zeta in H.
  destruct (md_get p md) as [mt|]; [|discriminate]. destruct (md_get _ md) as [nmt|]; [|discriminate].
  assert (Hun : forall blk, cp_clean (mk_cp (cp_w c) (cp_wl c) (cp_e c) (cp_el c) (cp_unused c ++ [(length (cp_tc c), blk)]) (cp_tc c)
                                        (cp_wt_list c) (cp_ws_list c) (cp_wt c) (cp_ws c) (cp_ltu c) (cp_lsu c))) by (intros blk; exact Hc).
  assert (Hprep : forall blk, (do c1 <- prep_new_tract c blk; walk txt sd md rest c1) = Ok c' -> cp_clean c').
  { intros blk K. destruct (prep_new_tract c blk) as [c1|e] eqn:E; cbn [bind] in K; [|discriminate]. exact (IH _ _ (prep_clean _ _ _ Hc E) K). }
  destruct mt; try (exact (IH _ _ (get_next_twprge_clean _ Hc) H)); try (exact (IH _ _ (get_next_sec_clean _ Hc) H)); try (exact (IH _ _ Hc H));
    (destruct (sd && _); [exact (Hprep _ H)|]; destruct (negb sd && _); [exact (Hprep _ H) | exact (IH _ _ (Hun _) H)]).
Qed.

Lemma unused_flags_clean c : cp_clean c -> cp_clean (unused_flags c).
Proof. intros H. exact H. Qed.

Lemma rebuild_clean tcs unused r : Forall tc_clean tcs -> rebuild_sec_within tcs unused = Ok r -> Forall tc_clean (fst r).
Proof.
  intros H. unfold rebuild_sec_within. destruct tcs as [|c [|c2 t]]; try (intros K; injection K as <-; exact H).
  destruct (rsw_loop unused (tc_desc c)) as [d|e]; cbn [bind]; [|discriminate].
  destruct (str_eqb d (tc_desc c)); intros K; injection K as <-; [exact H|]. inversion H; subst. constructor; [exact H2 | constructor].
Qed.

Lemma tail_clean (px : pctx) c3 c' :
  cp_clean c3 ->
  (let c4 := if negb (cp_ltu c3) && negb (opt_str_is (cp_wt c3) MC_ERR_TWPRGE) then
               mk_cp (cp_w c3) (cp_wl c3) (cp_e c3) (cp_el c3) (cp_unused c3) (cp_tc c3)
                     ((match cp_wt c3 with Some v => v | None => s "None" end) :: cp_wt_list c3) (cp_ws_list c3) (cp_wt c3) (cp_ws c3) (cp_ltu c3) (cp_lsu c3)
             else c3 in
   let c5 := match cp_ws c4 with
             | Some ws => if negb (cp_lsu c4) && negb (match ws with [x] => str_eqb x MC_ERR_SEC | _ => false end) then
                            mk_cp (cp_w c4) (cp_wl c4) (cp_e c4) (cp_el c4) (cp_unused c4) (cp_tc c4) (cp_wt_list c4) (ws :: cp_ws_list c4)
                                  (cp_wt c4) (cp_ws c4) (cp_ltu c4) (cp_lsu c4)
                          else c4
             | None => c4
             end in
   let c6 := unused_flags c5 in
   if px_sec_within px then
     do r <- rebuild_sec_within (cp_tc c6) (cp_unused c6);
     Ok (mk_cp (cp_w c6) (cp_wl c6) (cp_e c6) (cp_el c6) (snd r) (fst r) (cp_wt_list c6) (cp_ws_list c6) (cp_wt c6) (cp_ws c6) (cp_ltu c6) (cp_lsu c6))
   else Ok c6) = Ok c' -> cp_clean c'.
Proof.
  intros Hc. cbv zeta.
  set (c4 := if negb (cp_ltu c3) && negb (opt_str_is (cp_wt c3) MC_ERR_TWPRGE) then _ else c3).
  assert (H4 : cp_clean c4).
  { unfold c4. destruct (negb (cp_ltu c3) && _); [|exact Hc]. destruct Hc as (H1 & H2 & H3 & H4 & H5). unfold cp_clean. cbn [cp_wt_list cp_ws_list cp_wt cp_ws cp_tc].
    split; [|split; [exact H2 | split; [exact H3 | split; [exact H4 | exact H5]]]].
    constructor; [|exact H1]. destruct (cp_wt c3) as [v|]; [exact (H3 v eq_refl) | exact none_nous]. }
  set (c5 := match cp_ws c4 with Some ws => _ | None => c4 end).
  assert (H5 : cp_clean c5).
  { unfold c5. destruct (cp_ws c4) as [ws|] eqn:E; [|exact H4]. destruct (negb (cp_lsu c4) && _); [|exact H4].
    destruct H4 as (K1 & K2 & K3 & K4 & K5). unfold cp_clean. cbn [cp_wt_list cp_ws_list cp_wt cp_ws cp_tc].
    split; [exact K1 | split; [|split; [exact K3 | split; [intros v K; injection K as <-; exact (K4 ws E) | exact K5]]]].
    constructor; [exact (K4 ws E) | exact K2]. }
  pose proof (unused_flags_clean _ H5) as H6. set (c6 := unused_flags c5) in *.
  destruct (px_sec_within px); [|intros K; injection K as <-; exact H6].
  destruct (rebuild_sec_within (cp_tc c6) (cp_unused c6)) as [r|e] eqn:E; cbn [bind]; [|discriminate].
  intros K. injection K as <-. destruct H6 as (K1 & K2 & K3 & K4 & K5). unfold cp_clean. cbn [cp_wt_list cp_ws_list cp_wt cp_ws cp_tc].
  split; [exact K1 | split; [exact K2 | split; [exact K3 | split; [exact K4 | exact (rebuild_clean _ _ _ K5 E)]]]].
Qed.

Lemma init_cp_clean tf sf w wl :
  Forall (fun m => nous (tm_val m)) (tf_matches tf) -> sf_clean sf ->
  cp_clean (mk_cp w wl [] [] [] [] (map tm_val (tf_matches tf)) (map sm_val (sf_matches sf)) None None false false).
Proof.
  intros Ht Hs. unfold cp_clean. cbn [cp_wt_list cp_ws_list cp_wt cp_ws cp_tc].
  split; [apply Forall_map; exact Ht|]. split; [apply Forall_map; exact Hs|]. split; [discriminate|]. split; [discriminate | constructor].
Qed.

Lemma parse_chunk_with_clean chunk layout px c : parse_chunk_with chunk layout px = Ok c -> cp_clean c.
Proof.
  unfold parse_chunk_with.
  destruct (twprge_finder chunk (Some layout) _ _) as [tf|e] eqn:Et; cbn [bind]; [|discriminate].
  destruct (sec_finder chunk (Some layout) _) as [sf|e] eqn:Es; cbn [bind]; [|discriminate].
  pose proof (init_cp_clean tf sf (tf_flags tf ++ sf_flags sf) (tf_flag_lines tf ++ sf_flag_lines sf) (twprge_finder_clean _ _ _ _ _ Et) (sec_finder_clean _ _ _ _ Es)) as H0.
  cbv zeta. set (c0 := mk_cp _ _ [] [] [] [] _ _ None None false false) in *.
  destruct (str_eqb layout COPY_ALL).
  - pose proof (get_next_sec_clean _ H0) as H1. set (c1 := get_next_sec c0) in *.
    destruct (cp_ws c1) as [[|x l]|] eqn:Ew; cbn [bind]; try discriminate.
    pose proof (get_next_twprge_clean _ H1) as H2. set (c2 := get_next_twprge c1) in *.
    apply (stage_clean c2 chunk (Some [x]) (cp_wt c2) c H2).
    + intros v K. injection K as <-. destruct H1 as (_ & _ & _ & K4 & _). pose proof (K4 _ Ew) as F. inversion F; subst. constructor; [assumption | constructor].
    + destruct H2 as (_ & _ & K3 & _). exact K3.
  - match goal with |- context [if ?b then get_next_sec c0 else c0] => set (b1 := b); set (c1 := if b1 then get_next_sec c0 else c0) end.
    assert (H1 : cp_clean c1) by (unfold c1; destruct b1; [apply get_next_sec_clean; exact H0 | exact H0]).
    match goal with |- context [if ?b then get_next_twprge c1 else c1] => set (b2 := b); set (c2 := if b2 then get_next_twprge c1 else c1) end.
    assert (H2 : cp_clean c2) by (unfold c2; destruct b2; [apply get_next_twprge_clean; exact H1 | exact H1]).
    destruct (walk chunk _ _ _ c2) as [c3|e] eqn:Ew; cbn [bind]; [|discriminate].
    apply (tail_clean px c3 c). exact (walk_clean _ _ _ _ _ _ H2 Ew).
Qed.

Lemma parse_chunk_clean chunk layout px c : parse_chunk chunk layout px = Ok c -> cp_clean c.
Proof.
  unfold parse_chunk. cbv zeta.
  set (cl := match layout with Some l => _ | None => _ end).
  match goal with |- bind ?X _ = _ -> _ => destruct X as [c0|e] eqn:E0 end; cbn [bind]; [|discriminate].
  assert (H0 : cp_clean c0).
  { destruct cl as [l|]; [exact (parse_chunk_with_clean _ _ _ _ E0)|].
    destruct (twprge_finder chunk None _ _) as [tf|e] eqn:Et; cbn [bind] in E0; [|discriminate].
    destruct (sec_finder chunk None _) as [sf|e] eqn:Es; cbn [bind] in E0; [|discriminate].
    pose proof (init_cp_clean tf sf (tf_flags tf ++ sf_flags sf) (tf_flag_lines tf ++ sf_flag_lines sf) (twprge_finder_clean _ _ _ _ _ Et) (sec_finder_clean _ _ _ _ Es)) as K0.
    cbv zeta in E0. set (cc := mk_cp _ _ [] [] [] [] _ _ None None false false) in *.
    pose proof (get_next_twprge_clean _ (get_next_sec_clean _ K0)) as K2.
    destruct (walk chunk false _ _ (get_next_twprge (get_next_sec cc))) as [c3|e] eqn:Ew; cbn [bind] in E0; [|discriminate].
    apply (tail_clean px c3 c0); [exact (walk_clean _ _ _ _ _ _ K2 Ew) | exact E0]. }
  destruct (cp_tc c0) as [|t ts] eqn:Etc; [|intros K; injection K as <-; exact H0].
  destruct cl as [l|]; [destruct (str_eqb l COPY_ALL); [intros K; injection K as <-; exact H0|]|]; apply parse_chunk_with_clean.
Qed.

Lemma parse_chunks_clean : forall chunks layout px st0 st,
  Forall tc_clean (ps_tc st0) -> parse_chunks chunks layout px st0 = Ok st -> Forall tc_clean (ps_tc st).
Proof.
  induction chunks as [|ch rest IH]; intros layout px st0 st H0 H; cbn [parse_chunks] in H; [injection H as <-; exact H0|].
  destruct (parse_chunk ch layout px) as [c|e] eqn:Ec; cbn [bind] in H; [|discriminate].
  destruct (gen_flags_chunk ch) as [gf|e]; cbn [bind] in H; [|discriminate].
  apply IH in H; [exact H|]. cbn [ps_tc]. apply Forall_app. split; [exact H0|].
  destruct (parse_chunk_clean _ _ _ _ Ec) as (_ & _ & _ & _ & K). exact K.
Qed.

(* ---- construct_tracts: the raw string of every tract ---- *)
Definition raw_ok (t : tract_out) : Prop := exists raw, to_trs t = TRS_trs (Some raw) /\ nous raw /\ raw <> [].

Lemma construct_tracts_raw : forall tcs clean_up idx ts r,
  Forall tc_clean tcs -> construct_tracts tcs clean_up idx ts = Ok r -> Forall raw_ok (fst r).
Proof.
  induction tcs as [|c rest IH]; intros clean_up idx ts r Hc H; cbn [construct_tracts] in H; [injection H as <-; constructor|].
  destruct (if clean_up then cleanup_desc (tc_desc c) else Ok (tc_desc c)) as [desc|e]; cbn [bind] in H; [|discriminate].
  destruct (construct_secs desc (tc_twprge c) (tc_sec c) (tc_within c) idx ts) as [[[t1 w1] n]|e] eqn:E1; cbn [bind] in H; [|discriminate].
  destruct (construct_tracts rest clean_up n ts) as [r2|e] eqn:E2; cbn [bind] in H; [|discriminate].
  injection H as <-. cbn [fst]. inversion Hc as [|? ? [Htw Hsec] Hrest]; subst. apply Forall_app. split; [|exact (IH _ _ _ _ Hrest E2)].
  destruct (construct_secs_spec _ _ _ _ _ _ _ _ _ E1) as (_ & _ & H3).
  clear -H3 Htw Hsec. induction H3 as [|t sc tl secs [_ Ht] _ IH']; [constructor|]. inversion Hsec as [|? ? [Hn Hne] Hs']; subst.
  constructor; [|apply IH'; assumption]. exists (tc_twprge c ++ sc). split; [exact Ht|]. split; [apply nous_app; assumption|].
  intros E. apply app_eq_nil in E. destruct E as [_ E]. contradiction.
Qed.

Theorem finish_parse_raw st sw cu ts ptext layout' p :
  Forall tc_clean (ps_tc st) -> finish_parse st sw cu ts ptext layout' = Ok p -> Forall raw_ok (po_tracts p).
Proof.
  intros Hc. unfold finish_parse.
  destruct (if sw then rebuild_sec_within (ps_tc st) (ps_unused st) else Ok (ps_tc st, ps_unused st)) as [rs|e] eqn:Er; cbn [bind]; [|discriminate].
  assert (Hrs : Forall tc_clean (fst rs)).
  { destruct sw; [exact (rebuild_clean _ _ _ Hc Er) | injection Er as <-; exact Hc]. }
  destruct (construct_tracts (fst rs) cu 0 ts) as [ct|e] eqn:Ect; cbn [bind]; [|discriminate].
  destruct (map_py _ (snd ct)) as [wf|e]; cbn [bind]; [|discriminate].
  intros H. injection H as <-. rewrite assemble_tracts.
  pose proof (construct_tracts_raw _ _ _ _ _ Hrs Ect) as F. rewrite Forall_forall in *. intros t Hin.
  apply in_map_iff in Hin. destruct Hin as (t0 & <- & Hin0). exact (F t0 Hin0).
Qed.

Theorem plss_parser_raw text layout d ocr cu rc seg sw ts p :
  plss_parser text layout d ocr cu rc seg sw ts = Ok p -> Forall raw_ok (po_tracts p).
Proof.
  unfold plss_parser. destruct (plss_preprocess text d ocr) as [pp|e]; cbn [bind]; [|discriminate].
  unfold parse_text. destruct (chunks_of _ _ _ _ _) as [ch|e]; cbn [bind]; [|discriminate].
  destruct (parse_chunks _ _ _ _) as [st|e] eqn:Epc; cbn [bind]; [|discriminate].
  apply finish_parse_raw. refine (parse_chunks_clean _ _ _ _ _ _ Epc). cbn [ps_tc]. constructor.
Qed.

(* ================================================================== *)
(* hence: every tract's .trs is fully standard or uses the ERROR placeholders -- never the undefined one *)
From PyTRS Require Import Spec.C12Spec Proofs.C12.Match Proofs.C12.Full.

Definition std_comp (ds : list (N * N)) (na : str) : Prop :=
  (exists w d, na = w ++ [d] /\ 1 <= length w <= 3 /\ Forall (inset DIG) w /\ inset ds d /\ lower [d] = [d]) \/ na = MC_ERR_TWP.
Definition std_sec (nc : str) : Prop :=
  (exists d1 d2, nc = [d1; d2] /\ inset DIG d1 /\ inset DIG d2) \/ nc = MC_ERR_SEC.

Inductive std_trs (y : str) : Prop :=
| Std_err : y = MC_ERR_TRS -> std_trs y
| Std_ok na nb nc : y = na ++ nb ++ nc -> std_comp NS na -> std_comp EW nb -> std_sec nc -> std_trs y.

Lemma cnorm_std ds a na : low_closed ds -> nous a -> cnorm ds a na -> std_comp ds na.
Proof.
  intros Hlow Hn [w d _ Hl Hf Hd ->| _ -> | -> _].
  - left. destruct (Hlow d Hd) as (d' & L & Hd' & L'). exists w, d'. rewrite L. repeat split; try assumption; lia.
  - right. reflexivity.
  - exfalso. inversion Hn as [|? ? K _]; subst. apply K. reflexivity.
Qed.

Lemma snorm_std c nc : nous c -> snorm c nc -> std_sec nc.
Proof.
  intros Hn [_ -> | d1 d2 -> I1 I2 -> | -> -> | -> _].
  - right. reflexivity.
  - left. exists d1, d2. auto.
  - right. reflexivity.
  - exfalso. inversion Hn as [|? ? K _]; subst. apply K. reflexivity.
Qed.

Theorem nous_trs_std raw : raw <> [] -> nous raw -> std_trs (TRS_trs (Some raw)).
Proof.
  intros Hne Hn. destruct (TRS_trs_spec raw Hne) as [_ Hy|a b c na nb nc Hx Hy Ha Hb Hc]; [apply Std_err; exact Hy|].
  rewrite Hx in Hn. apply Forall_app in Hn. destruct Hn as [Na Hn]. apply Forall_app in Hn. destruct Hn as [Nb Nc].
  eapply Std_ok; [exact Hy | exact (cnorm_std NS a na NS_low Na Ha) | exact (cnorm_std EW b nb EW_low Nb Hb) | exact (snorm_std c nc Nc Hc)].
Qed.

Theorem plss_parser_std text layout d ocr cu rc seg sw ts p :
  plss_parser text layout d ocr cu rc seg sw ts = Ok p -> Forall (fun t => std_trs (to_trs t)) (po_tracts p).
Proof.
  intros H. eapply Forall_impl; [|exact (plss_parser_raw _ _ _ _ _ _ _ _ _ _ H)].
  intros t (raw & E & Hn & Hne). rewrite E. exact (nous_trs_std raw Hne Hn).
Qed.
