(* Proofs/C08/Sweeps.v -- Twp/Rge spellings: complete enumerations of the finite families named in
   the theorems, on the regenerated patterns; and the rule that an explicit direction is never
   overridden, for every match. *)
From Coq Require Import List NArith ZArith Arith Bool Lia.
From Coq Require String.
From PyTRS Require Import Engine.Regex Gen.Patterns PyRt.Str Gen.Tables Model.Trs Model.Unpack Model.TractPre
     Model.PlssPre Spec.C08Spec.
Import ListNotations.
Import String.StringSyntax.
Local Open Scope string_scope.

Definition strs_eqb (a b : list str) : bool :=
  (length a =? length b) && forallb (fun p => str_eqb (fst p) (snd p)) (combine a b).

Definition tail : str := s " Sec 14: NE/4".

(* fully written: preprocessed text holds the canonical form, nothing is reported as fixed,
   whatever the defaults are *)
Definition full_ok (d : dflt) (t : nat) (ns : N) (r : nat) (ew : N) (sp : str) : bool :=
  match plss_preprocess (sp ++ tail) d false with
  | Ok (txt, fixed) =>
      (* the text now starts with the canonical form, it is the only Twp/Rge in it, nothing was "fixed" *)
      startswith txt (canon_twprge t ns r ew) && strs_eqb fixed []
      && match find_twprge_raw txt (mk_dflt None None (s "n") (s "w")) with
         | Ok l => strs_eqb l [canon_twprge t ns r ew] | Raise _ => false end
  | Raise _ => false
  end.

Definition dflts : list dflt :=
  [mk_dflt None None (s "n") (s "w"); mk_dflt (Some (s "s")) (Some (s "e")) (s "s") (s "e")].
Definition numbers_t : list nat := [7; 154].
Definition numbers_r : list nat := [2; 97].

Definition full_sweep : bool :=
  forallb (fun d => forallb (fun t => forallb (fun ns => forallb (fun r => forallb (fun ew =>
    forallb (full_ok d t ns r ew) (tr_spellings t ns r ew)) ews) numbers_r) nss) numbers_t) dflts.
Lemma full_sweep_true : full_sweep = true.
Proof. vm_compute. reflexivity. Qed.

(* missing direction(s): filled from the default in force (argument, else MasterConfig) and reported *)
Definition partial_ok (d : dflt) (t : nat) (r : nat) (has_ns has_ew : bool) (ns ew : N) (sp : str) : bool :=
  match plss_preprocess (sp ++ tail) d false with
  | Ok (txt, fixed) => str_eqb txt (canon_twprge t ns r ew ++ tail) && strs_eqb fixed [canon_twprge t ns r ew]
  | Raise _ => false
  end.

Definition partial_sweep : bool :=
  forallb (fun ns => forallb (fun ew =>
    forallb (fun d =>
      forallb (fun t => forallb (fun r =>
        forallb (fun hh => let '(hn, he) := hh in
          if (r =? 2) && negb he then true
          else forallb (partial_ok d t r hn he ns ew) (tr_partial t ns r ew hn he))
          [(false, true); (true, false); (false, false)]) numbers_r) numbers_t)
      [mk_dflt (Some [ns]) (Some [ew]) (s "n") (s "w"); mk_dflt None None [ns] [ew]]) ews) nss.
Lemma partial_sweep_true : partial_sweep = true.
Proof. vm_compute. reflexivity. Qed.

(* an explicit direction is never overridden: for ANY match with both direction groups set, the
   result does not depend on the defaults (as long as they are legal) *)
Lemma explicit_not_overridden G t x d1 d2 e1 e2 ocr m1 m2 m3 m4 v w :
  group t x (tg_ns G) = Some v -> group t x (tg_ew G) = Some w ->
  mem_str (match d1 with Some a => a | None => m1 end) MC_LEGAL_NS = true ->
  mem_str (match e1 with Some a => a | None => m2 end) MC_LEGAL_EW = true ->
  mem_str (match d2 with Some a => a | None => m3 end) MC_LEGAL_NS = true ->
  mem_str (match e2 with Some a => a | None => m4 end) MC_LEGAL_EW = true ->
  unpack_twprge G t x d1 e1 ocr m1 m2 = unpack_twprge G t x d2 e2 ocr m3 m4.
Proof.
  intros Hv Hw A B C D. unfold unpack_twprge. rewrite A, B, C, D. cbn [negb]. rewrite Hv, Hw.
  destruct (group t x (tg_twpnum G)); [|reflexivity]. reflexivity.
Qed.

(* OCR look-alikes in the numbers are read as digits under ocr_scrub *)
Definition ocr_ok (garbled : str) (want : str) : bool :=
  match plss_preprocess (garbled ++ tail) (mk_dflt None None (s "n") (s "w")) true with
  | Ok (txt, _) => str_eqb txt (want ++ tail)
  | Raise _ => false
  end.
Definition ocr_sweep : bool :=
  forallb (fun p => ocr_ok (fst p) (snd p))
    [(s "TlS4N-R97W", s "T154N-R97W"); (s "T1S4N-RlOW", s "T154N-R10W"); (s "T1O4N-R9OW", s "T104N-R90W");
     (s "T15N-RlOOW", s "T15N-R100W"); (s "TISN-RSW", s "T15N-R5W"); (s "TlON-RlW", s "T10N-R1W")].
Lemma ocr_sweep_true : ocr_sweep = true.
Proof. vm_compute. reflexivity. Qed.
