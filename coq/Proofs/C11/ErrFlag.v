(* Proofs/C11/ErrFlag.v -- a fallback is always accompanied by an error flag unless both a Twp/Rge
   and a section were identified: when the deduced layout is copy_all and no Twp/Rge (or no
   section) can be matched in the text, the single whole-text tract has an error TRS and the
   description carries the twprge_error flag.  For every text and setting. *)
From Coq Require Import List NArith ZArith Arith Bool Lia.
From Coq Require String.
From PyTRS Require Import Engine.Regex Engine.RegexSpec Gen.Patterns PyRt.Str Gen.Tables Model.Trs Model.Unpack Model.TractPre Model.Aliquot
     Model.TractParse Model.PlssPre Model.PlssParse Spec.C12Spec Proofs.C12.Match Proofs.C12.Full Proofs.C09.Tracts Proofs.C01.Walk Proofs.C18.Lists Proofs.C11.CopyAll.
Import ListNotations.
Import String.StringSyntax.
Local Open Scope string_scope.

Definition is_err_dict (D : trsdict) : bool := is_error3 D true true true.

Lemma is_error_via_raw x : is_error_trs (TRS_trs (Some x)) = is_err_dict (trs_to_dict (Some x)).
Proof. unfold is_error_trs, TRS_trs, is_err_dict. rewrite (trs_to_dict_idem (Some x)). reflexivity. Qed.

Lemma hd_of_app3 (a b c : str) ch rest : a <> [] -> a ++ b ++ c = ch :: rest -> exists a', a = ch :: a'.
Proof. intros Hne E. destruct a as [|c0 a']; [contradiction|]. cbn in E. injection E as -> _. exists a'. reflexivity. Qed.

Theorem err_twprge_is_error sc : is_error_trs (TRS_trs (Some (MC_ERR_TWPRGE ++ sc))) = true.
Proof.
  rewrite is_error_via_raw. set (x := MC_ERR_TWPRGE ++ sc). assert (Hne : x <> []) by discriminate.
  destruct (fullmatch trs_unpacker_regex G x) as [mo|] eqn:Hfm.
  - destruct (dict_of_matched x mo Hne Hfm) as (a & b & c & F1 & F2 & F3 & Hx & C1 & C2 & C3 & Ed).
    etransitivity; [apply (f_equal is_err_dict); exact Ed|].
    pose proof (cshape_nonempty _ _ (cfields_cshape _ _ _ C1)) as Hane.
    destruct (hd_of_app3 a b c 88%N _ Hane (eq_sym Hx)) as (a' & ->).
    destruct C1 as [w d E Hl Hf Hd _|E ->|E _].
    + exfalso. destruct w as [|c0 w]; [cbn in Hl; lia|]. cbn in E. injection E as <- _. inversion Hf; subst. exact (not_dig_88 H1).
    + destruct F2 as [[[? ?] ?] ?]. destruct F3 as [[? ?] ?]. reflexivity.
    + discriminate E.
  - unfold trs_to_dict. unfold x in *. cbn [app MC_ERR_TWPRGE] in Hfm |- *. rewrite Hfm. reflexivity.
Qed.

Lemma rev_hd_app (u : str) ch : hd_error (rev (u ++ [ch; ch])) = Some ch.
Proof. rewrite rev_app_distr. reflexivity. Qed.

Theorem err_sec_is_error tw : is_error_trs (TRS_trs (Some (tw ++ MC_ERR_SEC))) = true.
Proof.
  rewrite is_error_via_raw. set (x := tw ++ MC_ERR_SEC). assert (Hne : x <> []) by (unfold x; destruct tw; discriminate).
  destruct (fullmatch trs_unpacker_regex G x) as [mo|] eqn:Hfm.
  - destruct (dict_of_matched x mo Hne Hfm) as (a & b & c & F1 & F2 & F3 & Hx & C1 & C2 & C3 & Ed).
    etransitivity; [apply (f_equal is_err_dict); exact Ed|].
    assert (Hl : hd_error (rev x) = Some 88%N) by (unfold x; apply (rev_hd_app tw 88%N)).
    assert (Hlast : forall u v : str, x = u ++ v -> v <> [] -> hd_error (rev v) = Some 88%N).
    { intros u v E Hv. rewrite E, rev_app_distr in Hl. destruct (rev v) as [|r0 rv] eqn:Er; [|exact Hl].
      exfalso. apply Hv. rewrite <- (rev_involutive v), Er. reflexivity. }
    destruct C3 as [Ec _|d1 d2 z Ec I1 I2 _ _|Ec ->|Ec _].
    + (* no section group: the text would end with the range *)
      exfalso. subst c. rewrite app_nil_r in Hx. pose proof (cshape_nonempty _ _ (cfields_cshape _ _ _ C2)) as Hb.
      pose proof (Hlast a b Hx Hb) as K.
      destruct C2 as [w d E _ _ Hd _|E _|E _]; subst b.
      * rewrite rev_app_distr in K. cbn in K. injection K as ->. destruct (EW_points _ Hd) as [E|[E|[E|E]]]; discriminate E.
      * discriminate K.
      * discriminate K.
    + exfalso. subst c. pose proof (Hlast (a ++ b) [d1; d2] ltac:(rewrite <- app_assoc; exact Hx) ltac:(discriminate)) as K.
      cbn in K. injection K as ->. exact (not_dig_88 I2).
    + destruct F1 as [[[? ?] ?] ?]. destruct F2 as [[[? ?] ?] ?]. unfold is_err_dict, is_error3, dict_of_fields. cbn. rewrite !orb_true_r. reflexivity.
    + exfalso. subst c. pose proof (Hlast (a ++ b) MC_UNDEF_SEC ltac:(rewrite <- app_assoc; exact Hx) ltac:(discriminate)) as K. discriminate K.
  - unfold trs_to_dict. destruct x as [|c0 x'] eqn:Ex; [contradiction|]. rewrite Hfm. reflexivity.
Qed.

(* ---- the copy_all chunk when a finder comes back empty ---- *)
Lemma twprge_finder_empty chunk layout ns ew tf :
  finditer twprge_regex twprge_regex_ng chunk = [] -> twprge_finder chunk layout ns ew = Ok tf -> tf_matches tf = [].
Proof. unfold twprge_finder. intros ->. cbn [trf_loop]. intros H. injection H as <-. reflexivity. Qed.

Lemma sec_finder_empty chunk layout rc sf :
  finditer multisec_regex multisec_regex_ng chunk = [] -> sec_finder chunk layout rc = Ok sf -> sf_matches sf = [].
Proof.
  unfold sec_finder, sec_finder_pass. intros ->. cbv zeta. cbn [sf_loop bind].
  destruct rc as [b| |]; cbn [sf_matches]; try (intros H; injection H as <-; reflexivity).
  destruct (layout_in _ _); cbn [sf_loop bind sf_matches]; intros H; injection H as <-; reflexivity.
Qed.

Lemma copy_all_comp chunk px c : parse_chunk_with chunk COPY_ALL px = Ok c ->
  (finditer twprge_regex twprge_regex_ng chunk = [] -> exists x, cp_tc c = [mk_tcomp chunk [x] MC_ERR_TWPRGE false]) /\
  (finditer multisec_regex multisec_regex_ng chunk = [] -> exists tw, cp_tc c = [mk_tcomp chunk [MC_ERR_SEC] tw false]).
Proof.
  unfold parse_chunk_with.
  destruct (twprge_finder chunk (Some COPY_ALL) _ _) as [tf|e] eqn:Et; cbn [bind]; [|discriminate].
  destruct (sec_finder chunk (Some COPY_ALL) _) as [sf|e] eqn:Es; cbn [bind]; [|discriminate].
  rewrite copy_all_eqb. cbv zeta.
  set (c0 := mk_cp _ _ [] [] [] [] (map tm_val (tf_matches tf)) (map sm_val (sf_matches sf)) None None false false).
  destruct (get_next_sec_fields' c0) as (F1 & F2 & F3 & F4 & F5). set (c1 := get_next_sec c0) in *.
  destruct (cp_ws c1) as [[|x l]|] eqn:Ew; cbn [bind]; try discriminate.
  destruct (get_next_twprge_fields' c1) as (G1 & G2 & G3 & G4 & G5). set (c2 := get_next_twprge c1) in *.
  unfold stage_new_tract. rewrite G1. intros H. injection H as <-. cbn [cp_tc]. rewrite G5, F5. unfold c0 at 1. cbn [cp_tc app].
  split.
  - intros Hn. rewrite F4 in G1. unfold c0 in G1. cbn [cp_wt_list] in G1. rewrite (twprge_finder_empty _ _ _ _ _ Hn Et) in G1. cbn [map next_tw] in G1.
    exists x. rewrite F4. unfold c0. cbn [cp_wt_list]. rewrite (twprge_finder_empty _ _ _ _ _ Hn Et). reflexivity.
  - intros Hn. unfold c0 in F1. cbn [cp_ws_list] in F1. rewrite (sec_finder_empty _ _ _ _ Hn Es) in F1. cbn [map next_sec] in F1.
    injection F1 as -> ->. eexists. reflexivity.
Qed.

Lemma construct_one_trs desc x tw ts r :
  construct_tracts [mk_tcomp desc [x] tw false] false 0 ts = Ok r -> exists t, fst r = [t] /\ to_trs t = TRS_trs (Some (tw ++ x)).
Proof.
  cbn [construct_tracts tc_desc tc_twprge tc_sec tc_within bind].
  destruct (construct_secs desc tw [x] false 0 ts) as [[[t1 w1] n]|e] eqn:E1; cbn [bind]; [|discriminate].
  intros H. injection H as <-. cbn [fst]. rewrite app_nil_r.
  destruct (construct_secs_spec _ _ _ _ _ _ _ _ _ E1) as (_ & _ & H3).
  inversion H3 as [|t sc tl secs [_ Ht] Hr]; subst. inversion Hr; subst. exists t. split; [reflexivity | exact Ht].
Qed.

Theorem fallback_error_flag text d ocr rc segment sec_within ts p ptext fixed :
  plss_preprocess text d ocr = Ok (ptext, fixed) -> deduce_layout ptext = COPY_ALL ->
  (finditer twprge_regex twprge_regex_ng ptext = [] \/ finditer multisec_regex multisec_regex_ng ptext = []) ->
  plss_parser text None d ocr None rc segment sec_within ts = Ok p ->
  In E_FLAG_TWPRGE_ERR (e_flags (po_flags p)).
Proof.
  intros Epp Hd Hnone. unfold plss_parser. rewrite Epp. cbn [bind fst snd].
  unfold parse_text. rewrite Hd, copy_all_eqb. cbn [negb].
  destruct (chunks_of segment ptext COPY_ALL (d_mc_ns d) (d_mc_ew d)) as [ch|e] eqn:Ech; cbn [bind]; [|discriminate].
  apply chunks_of_copy_all in Ech. subst ch. cbn [fst snd].
  match goal with |- context [parse_chunks [ptext] ?l ?px ?st0] => destruct (parse_chunks [ptext] l px st0) as [st|e] eqn:Epc end; cbn [bind]; [|discriminate].
  apply parse_chunks_one in Epc. destruct Epc as (c & Hc & Htc & Hun). cbn [ps_tc ps_unused app] in Htc, Hun.
  destruct (parse_chunk_copy_all _ _ _ Hc) as (x0 & tw0 & Hct0 & Hcu). rewrite Hcu in Hun.
  assert (Hcw : parse_chunk_with ptext COPY_ALL (mk_pctx (negb segment && false) rc sec_within (d_mc_ns d) (d_mc_ew d)) = Ok c).
  { unfold parse_chunk in Hc. rewrite copy_all_eqb in Hc.
    match type of Hc with bind ?X _ = _ => destruct X as [c0|e] eqn:E0; cbn [bind] in Hc; [|discriminate] end.
    destruct (parse_chunk_with_copy_all _ _ _ E0) as (x1 & tw1 & Ht1 & _). rewrite Ht1 in Hc. injection Hc as <-. reflexivity. }
  destruct (copy_all_comp _ _ _ Hcw) as [K1 K2].
  assert (Herr : exists x tw, cp_tc c = [mk_tcomp ptext [x] tw false] /\ is_error_trs (TRS_trs (Some (tw ++ x))) = true).
  { destruct Hnone as [Hn|Hn].
    - destruct (K1 Hn) as (x & E). exists x, MC_ERR_TWPRGE. split; [exact E | apply err_twprge_is_error].
    - destruct (K2 Hn) as (tw & E). exists MC_ERR_SEC, tw. split; [exact E | apply err_sec_is_error]. }
  destruct Herr as (x & tw & Ect & Herr). rewrite Ect in Htc.
  unfold finish_parse. rewrite Htc, Hun.
  assert (Hrs : (if sec_within then rebuild_sec_within [mk_tcomp ptext [x] tw false] [] else Ok ([mk_tcomp ptext [x] tw false], []))
                = Ok ([mk_tcomp ptext [x] tw false], [])).
  { destruct sec_within; [|reflexivity]. cbn [rebuild_sec_within rsw_loop bind tc_desc]. rewrite str_eqb_refl. reflexivity. }
  rewrite Hrs. cbn [bind fst snd].
  destruct (construct_tracts [mk_tcomp ptext [x] tw false] false 0 ts) as [r|e] eqn:Ect2; cbn [bind]; [|discriminate].
  destruct (construct_one_trs _ _ _ _ _ Ect2) as (t & Hf & Ht).
  destruct (map_py _ (snd r)) as [wf|e]; cbn [bind]; [|discriminate].
  intros H. injection H as <-. apply assemble_error_flagged. rewrite Hf. cbn [existsb]. rewrite Ht, Herr. reflexivity.
Qed.
