(* Proofs/C11/CopyAll.v -- copy_all, forced or as fallback: statements about the model of
   PLSSParser / ChunkParser for ALL texts and settings. *)
From Coq Require Import List NArith ZArith Arith Bool Lia.
From Coq Require String.
From PyTRS Require Import Engine.Regex Gen.Patterns PyRt.Str Gen.Tables Model.Trs Model.Unpack Model.TractPre
     Model.Aliquot Model.TractParse Model.PlssPre Model.PlssParse Proofs.C18.Lists.
Import ListNotations.
Import String.StringSyntax.
Local Open Scope string_scope.

Lemma copy_all_eqb : str_eqb COPY_ALL COPY_ALL = true.
Proof. apply str_eqb_refl. Qed.

Ltac bind_ok_as H v :=
  match type of H with
  | bind ?x _ = Ok _ => let E := fresh "E" in destruct x as [v|?] eqn:E; cbn [bind] in H; [|discriminate]
  end.
Ltac bind_ok H :=
  match type of H with
  | bind ?x _ = Ok _ => let E := fresh "E" in destruct x eqn:E; cbn [bind] in H; [|discriminate]
  end.

Lemma get_next_sec_keeps c : cp_tc (get_next_sec c) = cp_tc c /\ cp_unused (get_next_sec c) = cp_unused c.
Proof.
  unfold get_next_sec.
  destruct (negb (cp_lsu c) && match cp_ws c with None => false | Some _ => true end);
    cbv zeta; unfold set_flags; cbn [cp_ws_list cp_tc cp_unused];
    destruct (cp_ws_list c); cbn [cp_tc cp_unused]; split; reflexivity.
Qed.

Lemma get_next_twprge_keeps c : cp_tc (get_next_twprge c) = cp_tc c /\ cp_unused (get_next_twprge c) = cp_unused c.
Proof.
  unfold get_next_twprge.
  destruct (negb (cp_ltu c) && negb match cp_wt c with None => true | Some v => str_eqb v MC_ERR_TWPRGE end);
    cbv zeta; unfold set_flags; cbn [cp_wt_list cp_tc cp_unused];
    destruct (cp_wt_list c); cbn [cp_tc cp_unused]; split; reflexivity.
Qed.

(* _parse_copyall stages exactly one tract component holding the whole chunk, and no unused text *)
Lemma parse_chunk_with_copy_all chunk px c :
  parse_chunk_with chunk COPY_ALL px = Ok c ->
  exists x tw, cp_tc c = [mk_tcomp chunk [x] tw false] /\ cp_unused c = [].
Proof.
  unfold parse_chunk_with. intros H. bind_ok_as H tf0. bind_ok_as H sf0. rewrite copy_all_eqb in H.
  match type of H with context [get_next_sec ?c0] => set (c1 := get_next_sec c0) in * end.
  destruct (cp_ws c1) as [[|x rest]|] eqn:Ews; cbn [bind] in H; try discriminate.
  match type of H with context [get_next_twprge ?c0] => set (c2 := get_next_twprge c0) in * end.
  unfold stage_new_tract in H. inversion H; subst; clear H. cbn [cp_tc cp_unused].
  assert (Htc : cp_tc c2 = [] /\ cp_unused c2 = []).
  { unfold c2. destruct (get_next_twprge_keeps c1) as [-> ->]. unfold c1.
    destruct (get_next_sec_keeps (mk_cp (tf_flags tf0 ++ sf_flags sf0) (tf_flag_lines tf0 ++ sf_flag_lines sf0) [] [] [] []
                 (map tm_val (tf_matches tf0)) (map sm_val (sf_matches sf0)) None None false false)) as [-> ->].
    split; reflexivity. }
  destruct Htc as [-> ->]. exists x. eexists. split; reflexivity.
Qed.

(* every chunk yields at least one tract component (the copy_all stand-in sees to it) *)
Lemma parse_chunk_nonempty chunk layout px c :
  parse_chunk chunk layout px = Ok c -> cp_tc c <> [].
Proof.
  unfold parse_chunk. cbv zeta.
  match goal with |- context [match ?L with Some l => parse_chunk_with chunk l px | None => _ end] => generalize L end.
  intros cl H. destruct cl as [l|].
  - match type of H with bind ?x _ = _ => destruct x as [c0|e] eqn:E0; cbn [bind] in H; [|discriminate] end.
    destruct (cp_tc c0) as [|tc0 rest] eqn:Etc.
    + destruct (str_eqb l COPY_ALL) eqn:El.
      * inversion H; subst. apply str_eqb_eq in El. subst l.
        apply parse_chunk_with_copy_all in E0. destruct E0 as (x & tw & Ht & _). congruence.
      * apply parse_chunk_with_copy_all in H. destruct H as (x & tw & Ht & _). rewrite Ht. discriminate.
    + inversion H; subst. rewrite Etc. discriminate.
  - match type of H with bind ?x _ = _ => destruct x as [c0|e] eqn:E0; cbn [bind] in H; [|discriminate] end.
    destruct (cp_tc c0) as [|tc0 rest] eqn:Etc.
    + apply parse_chunk_with_copy_all in H. destruct H as (x & tw & Ht & _). rewrite Ht. discriminate.
    + inversion H; subst. rewrite Etc. discriminate.
Qed.

(* a chunk parsed with layout copy_all: exactly one component, the chunk itself *)
Lemma parse_chunk_copy_all chunk px c :
  parse_chunk chunk (Some COPY_ALL) px = Ok c ->
  exists x tw, cp_tc c = [mk_tcomp chunk [x] tw false] /\ cp_unused c = [].
Proof.
  unfold parse_chunk. rewrite copy_all_eqb. intros H.
  match type of H with bind ?x _ = _ => destruct x as [c0|e] eqn:E0; cbn [bind] in H; [|discriminate] end.
  pose proof (parse_chunk_with_copy_all _ _ _ E0) as (x & tw & Ht & Hu).
  rewrite Ht in H. inversion H; subst. exists x, tw. split; assumption.
Qed.

Lemma construct_one desc x tw ts r :
  construct_tracts [mk_tcomp desc [x] tw false] false 0 ts = Ok r ->
  exists t, fst r = [t] /\ to_desc t = desc /\ snd r = [].
Proof.
  cbn [construct_tracts tc_desc tc_twprge tc_sec tc_within bind construct_secs]. intros H.
  unfold make_tract in H.
  destruct (ts_parse_qq ts).
  - destruct (tract_parser desc _ _ _ _ _ _ _) as [tp|e]; cbn [bind] in H; [|discriminate].
    inversion H; subst. cbn. eexists. repeat split; reflexivity.
  - destruct (scrub_aliquots desc _) as [pp|e]; cbn [bind] in H; [|discriminate].
    inversion H; subst. cbn. eexists. repeat split; reflexivity.
Qed.

(* FORCED copy_all: whatever the text, the defaults, the modes -- exactly one tract whose
   description is the whole preprocessed text *)
Lemma chunks_of_copy_all segment ptext mc_ns mc_ew ch :
  chunks_of segment ptext COPY_ALL mc_ns mc_ew = Ok ch -> ch = ([ptext], []).
Proof.
  unfold chunks_of. destruct segment; [|intros H; inversion H; reflexivity].
  unfold plss_chunker. destruct (twprge_finder ptext (Some COPY_ALL) mc_ns mc_ew) as [tf|e]; cbn [bind]; [|discriminate].
  destruct (tf_matches tf); [intros H; inversion H; reflexivity|].
  rewrite copy_all_eqb. intros H; inversion H; reflexivity.
Qed.

Lemma finish_one st sec_within ts ptext layout' x tw p :
  ps_tc st = [mk_tcomp ptext [x] tw false] -> ps_unused st = [] ->
  finish_parse st sec_within false ts ptext layout' = Ok p ->
  po_layout p = layout' /\ po_text p = ptext /\ exists t, po_tracts p = [t] /\ to_desc t = ptext.
Proof.
  intros Htc Hun. unfold finish_parse. rewrite Htc, Hun.
  assert (Hrs : (if sec_within then rebuild_sec_within [mk_tcomp ptext [x] tw false] [] else Ok ([mk_tcomp ptext [x] tw false], []))
                = Ok ([mk_tcomp ptext [x] tw false], [])).
  { destruct sec_within; [|reflexivity]. cbn [rebuild_sec_within rsw_loop bind tc_desc]. rewrite str_eqb_refl. reflexivity. }
  rewrite Hrs. cbn [bind fst snd].
  destruct (construct_tracts [mk_tcomp ptext [x] tw false] false 0 ts) as [r|e] eqn:Ect; cbn [bind]; [|discriminate].
  destruct (construct_one _ _ _ _ _ Ect) as (t & Hf & Hd & Hs). rewrite Hf, Hs.
  cbn [map_py bind fst snd]. intros H. injection H as Hp. rewrite <- Hp. unfold assemble. cbv zeta. cbn [po_layout po_text po_tracts map].
  split; [reflexivity|]. split; [reflexivity|]. eexists. split; [reflexivity|]. cbn [hand_down to_desc]. exact Hd.
Qed.

Lemma parse_chunks_one chunk layout px st0 st :
  parse_chunks [chunk] layout px st0 = Ok st ->
  exists c, parse_chunk chunk layout px = Ok c /\ ps_tc st = ps_tc st0 ++ cp_tc c /\ ps_unused st = ps_unused st0 ++ cp_unused c.
Proof.
  cbn [parse_chunks]. destruct (parse_chunk chunk layout px) as [c|e]; cbn [bind]; [|discriminate].
  destruct (gen_flags_chunk chunk) as [gf|e]; cbn [bind]; [|discriminate].
  intros H. inversion H; subst. exists c. repeat split; reflexivity.
Qed.

Theorem forced_copy_all text d ocr rc segment sec_within ts p :
  plss_parser text (Some COPY_ALL) d ocr None rc segment sec_within ts = Ok p ->
  po_layout p = COPY_ALL /\ exists t, po_tracts p = [t] /\ to_desc t = po_text p.
Proof.
  unfold plss_parser. destruct (plss_preprocess text d ocr) as [[ptext fixed]|e]; cbn [bind fst snd]; [|discriminate].
  unfold parse_text. rewrite copy_all_eqb. cbn [negb].
  destruct (chunks_of segment ptext COPY_ALL (d_mc_ns d) (d_mc_ew d)) as [ch|e] eqn:Ech; cbn [bind]; [|discriminate].
  apply chunks_of_copy_all in Ech. subst ch. cbn [fst snd].
  match goal with |- context [parse_chunks [ptext] ?l ?px ?st0] => destruct (parse_chunks [ptext] l px st0) as [st|e] eqn:Epc end; cbn [bind]; [|discriminate].
  apply parse_chunks_one in Epc. destruct Epc as (c & Hc & Htc & Hun). cbn [ps_tc ps_unused app] in Htc, Hun.
  destruct (parse_chunk_copy_all _ _ _ Hc) as (x & tw & Hct & Hcu). rewrite Hct in Htc. rewrite Hcu in Hun.
  intros H. destruct (finish_one _ _ _ _ _ _ _ _ Htc Hun H) as (Hl & Ht & t & Hp & Hd).
  split; [exact Hl|]. exists t. split; [exact Hp|]. rewrite Ht. exact Hd.
Qed.

(* every successful parse has at least one tract component per chunk *)
Lemma parse_chunks_nonempty : forall chunks layout px st0 st,
  parse_chunks chunks layout px st0 = Ok st -> chunks <> [] -> ps_tc st <> [].
Proof.
  induction chunks as [|ch rest IH]; intros layout px st0 st H Hne; [congruence|].
  cbn [parse_chunks] in H. destruct (parse_chunk ch layout px) as [c|e] eqn:Ec; cbn [bind] in H; [|discriminate].
  destruct (gen_flags_chunk ch) as [gf|e]; cbn [bind] in H; [|discriminate].
  pose proof (parse_chunk_nonempty _ _ _ _ Ec) as Hc.
  assert (G : forall rest st0 st, parse_chunks rest layout px st0 = Ok st -> ps_tc st0 <> [] -> ps_tc st <> []).
  { clear. induction rest as [|ch rest IH]; intros st0 st H Hn; cbn [parse_chunks] in H; [inversion H; subst; exact Hn|].
    destruct (parse_chunk ch layout px) as [c|e]; cbn [bind] in H; [|discriminate].
    destruct (gen_flags_chunk ch) as [gf|e]; cbn [bind] in H; [|discriminate].
    apply IH in H; [exact H|]. cbn [ps_tc]. intros C. apply app_eq_nil in C. destruct C as [C _]. contradiction. }
  apply G in H; [exact H|]. cbn [ps_tc]. intros C. apply app_eq_nil in C. destruct C as [_ C]. contradiction.
Qed.

(* FALLBACK: every successful parse yields at least one tract component per chunk; with the
   section lists non-empty that is at least one tract *)
Lemma construct_secs_length desc tw : forall secs within idx ts r,
  construct_secs desc tw secs within idx ts = Ok r -> length (fst (fst r)) = length secs.
Proof.
  induction secs as [|sc rest IH]; intros within idx ts r H; cbn [construct_secs] in H.
  - inversion H. reflexivity.
  - destruct (make_tract _ _ _ _) as [t|e]; cbn [bind] in H; [|discriminate].
    destruct (construct_secs desc tw rest within (S idx) ts) as [[[ts' wi] n]|e] eqn:E; cbn [bind] in H; [|discriminate].
    inversion H; subst. cbn. f_equal. apply (IH _ _ _ _ E).
Qed.

(* DEDUCED copy_all: whenever the layout deduced for the preprocessed text is copy_all -- no Twp/Rge
   or no section word can be found in it -- the result is exactly one tract holding the whole text *)
Theorem deduced_copy_all text d ocr rc segment sec_within ts p ptext fixed :
  plss_preprocess text d ocr = Ok (ptext, fixed) -> deduce_layout ptext = COPY_ALL ->
  plss_parser text None d ocr None rc segment sec_within ts = Ok p ->
  po_layout p = COPY_ALL /\ exists t, po_tracts p = [t] /\ to_desc t = po_text p.
Proof.
  intros Epp Hd. unfold plss_parser. rewrite Epp. cbn [bind fst snd].
  unfold parse_text. rewrite Hd, copy_all_eqb. cbn [negb].
  destruct (chunks_of segment ptext COPY_ALL (d_mc_ns d) (d_mc_ew d)) as [ch|e] eqn:Ech; cbn [bind]; [|discriminate].
  apply chunks_of_copy_all in Ech. subst ch. cbn [fst snd].
  match goal with |- context [parse_chunks [ptext] ?l ?px ?st0] => destruct (parse_chunks [ptext] l px st0) as [st|e] eqn:Epc end; cbn [bind]; [|discriminate].
  apply parse_chunks_one in Epc. destruct Epc as (c & Hc & Htc & Hun). cbn [ps_tc ps_unused app] in Htc, Hun.
  destruct (parse_chunk_copy_all _ _ _ Hc) as (x & tw & Hct & Hcu). rewrite Hct in Htc. rewrite Hcu in Hun.
  intros H. destruct (finish_one _ _ _ _ _ _ _ _ Htc Hun H) as (Hl & Ht & t & Hp & Hdesc).
  split; [exact Hl|]. exists t. split; [exact Hp|]. rewrite Ht. exact Hdesc.
Qed.

Lemma deduce_copy_all_no_twprge ptext :
  search twprge_regex twprge_regex_ng (strip ptext) = None -> deduce_layout ptext = COPY_ALL.
Proof. intros H. unfold deduce_layout. rewrite H. destruct (search no_num_sec_regex _ _); reflexivity. Qed.

Lemma deduce_copy_all_no_sec ptext :
  search no_num_sec_regex no_num_sec_regex_ng (strip ptext) = None -> deduce_layout ptext = COPY_ALL.
Proof. intros H. unfold deduce_layout. rewrite H. reflexivity. Qed.
