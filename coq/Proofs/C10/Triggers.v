(* Proofs/C10/Triggers.v -- "exception, limitation, depth, inclusion and wellbore wording always
   raises the corresponding warning": for every trigger word of the table below, every text before
   it and every text after it (of any length; with a word boundary where the pattern asks for one),
   the pattern of the regenerated FLAG_TABLE fires on the chunk and the flag is among the warnings
   gen_flags_chunk produces.  The match is computed once on a representative text and lifted to
   all contexts by Engine/RegexLift.v. *)
From Coq Require Import List NArith Arith Bool Lia.
From Coq Require String.
From PyTRS Require Import Engine.Regex Engine.RegexSpec Engine.RegexLift Gen.Patterns PyRt.Str Gen.Tables Model.Trs Model.PlssParse.
Import ListNotations.
Import String.StringSyntax.
Local Open Scope string_scope.

(* ---- the flag is raised whenever the row's pattern finds something ---- *)
Lemma extend_context_ok : forall fuel r ng chunk rc e x, extend_context fuel r ng chunk rc e = Ok x -> True.
Proof. auto. Qed.

Lemma flag_scan_mono : forall fuel row chunk pos acc acc', flag_scan fuel row chunk pos acc = Ok acc' -> incl (fst acc) (fst acc').
Proof.
  induction fuel as [|f IH]; intros row chunk pos acc acc' H; cbn [flag_scan] in H; [discriminate|].
  destruct row as [[[[r ng] flag] lc] rc]. destruct (search_pe r ng chunk pos (length chunk)) as [x|]; [|injection H as <-; apply incl_refl].
  destruct (extend_context _ r ng chunk rc (mend x)) as [fin|e]; [|discriminate]. cbn [bind] in H.
  apply IH in H. cbn [fst] in H. intros z Hz. apply H. apply in_or_app. left. exact Hz.
Qed.

Lemma flag_scan_fires fuel r ng flag lc rc chunk acc acc' :
  flag_scan (S fuel) (r, ng, flag, lc, rc) chunk 0 acc = Ok acc' -> search r ng chunk <> None -> In flag (fst acc').
Proof.
  intros H Hs. cbn [flag_scan] in H. unfold search in Hs. destruct (search_pe r ng chunk 0 (length chunk)) as [x|]; [|contradiction].
  destruct (extend_context _ r ng chunk rc (mend x)) as [fin|e]; [|discriminate]. cbn [bind] in H.
  apply flag_scan_mono in H. apply H. cbn [fst]. apply in_or_app. right. left. reflexivity.
Qed.

Lemma gen_flags_rows_mono : forall rows chunk acc acc', gen_flags_rows rows chunk acc = Ok acc' -> incl (fst acc) (fst acc').
Proof.
  induction rows as [|row t IH]; intros chunk acc acc' H; cbn [gen_flags_rows] in H; [injection H as <-; apply incl_refl|].
  destruct (flag_scan _ row chunk 0 acc) as [a1|e] eqn:E; [|discriminate]. cbn [bind] in H.
  apply flag_scan_mono in E. apply IH in H. intros z Hz. apply H, E, Hz.
Qed.

Lemma gen_flags_rows_fires : forall rows chunk acc acc' r ng flag lc rc,
  In (r, ng, flag, lc, rc) rows -> gen_flags_rows rows chunk acc = Ok acc' -> search r ng chunk <> None -> In flag (fst acc').
Proof.
  induction rows as [|row t IH]; intros chunk acc acc' r ng flag lc rc Hin H Hs; [destruct Hin|]. cbn [gen_flags_rows] in H.
  destruct (flag_scan _ row chunk 0 acc) as [a1|e] eqn:E; [|discriminate]. cbn [bind] in H.
  destruct Hin as [->|Hin].
  - apply (gen_flags_rows_mono _ _ _ _ H). exact (flag_scan_fires _ _ _ _ _ _ _ _ _ E Hs).
  - exact (IH _ _ _ _ _ _ _ _ Hin H Hs).
Qed.

Theorem flag_raised chunk fl fll r ng flag lc rc :
  In (r, ng, flag, lc, rc) FLAG_TABLE -> gen_flags_chunk chunk = Ok (fl, fll) -> search r ng chunk <> None -> In flag fl.
Proof. intros Hin H Hs. exact (gen_flags_rows_fires _ _ _ _ _ _ _ _ _ Hin H Hs). Qed.

(* ---- the trigger words ---- *)
Definition W : list (N * N) := Eval vm_compute in match well_regex with Seq (Bnd ws) _ => ws | _ => [] end.

Inductive side := Any | Boundary.
Definition ok_side (c : side) (o : option N) : Prop := match c with Any => True | Boundary => isword W o = false end.
Definition reps (c : side) : list (option N) := match c with Boundary => [None] | Any => [None; Some 120%N] end.

(* flag, trigger wording, what is required of the character before / after it *)
Definition TRIGGERS : list (str * str * side * side) :=
  [ (s "well", s "well", Boundary, Boundary); (s "well", s "wellbore", Boundary, Boundary); (s "well", s "Wellbore", Boundary, Boundary);
    (s "depth", s "depth", Any, Any); (s "depth", s "depths", Any, Any); (s "depth", s "surface", Any, Any); (s "depth", s "surf", Any, Any);
    (s "depth", s "formation", Any, Any); (s "depth", s "form", Any, Any); (s "depth", s "Formation", Any, Any);
    (s "depth", s "down", Boundary, Boundary); (s "depth", s "top", Boundary, Boundary); (s "depth", s "base", Boundary, Boundary);
    (s "including", s "including", Boundary, Any); (s "including", s "incl", Boundary, Any); (s "including", s "Inclusive", Boundary, Any);
    (s "less_except", s "less", Boundary, Any); (s "less_except", s "less and except", Boundary, Any); (s "less_except", s "LESS AND EXCEPT", Boundary, Any);
    (s "less_except", s "except", Boundary, Any); (s "less_except", s "excepting", Boundary, Any); (s "less_except", s "limited", Boundary, Any);
    (s "less_except", s "limit", Boundary, Any); (s "less_except", s "limitation", Boundary, Any);
    (s "insofar", s "insofar", Any, Any); (s "insofar", s "in so far", Any, Any); (s "insofar", s "only insofar", Any, Any);
    (s "insofar", s "but only insofar", Any, Any); (s "insofar", s "INSOFAR", Any, Any) ].

Definition row_of (flag : str) : option (re * nat * str * nat * nat) :=
  find (fun row => let '(_, _, f, _, _) := row in str_eqb f flag) FLAG_TABLE.

Fixpoint ranges_eqb (a b : list (N * N)) : bool :=
  match a, b with
  | [], [] => true
  | (x1, y1) :: a', (x2, y2) :: b' => (x1 =? x2)%N && (y1 =? y2)%N && ranges_eqb a' b'
  | _, _ => false
  end.

Lemma ranges_eqb_eq a : forall b, ranges_eqb a b = true -> a = b.
Proof.
  induction a as [|[x1 y1] a IH]; intros [|[x2 y2] b]; cbn; try discriminate; [reflexivity|].
  intros H. apply andb_true_iff in H. destruct H as [H H3]. apply andb_true_iff in H. destruct H as [H1 H2].
  apply N.eqb_eq in H1, H2. subst. rewrite (IH _ H3). reflexivity.
Qed.

Definition trigger_ok (t : str * str * side * side) : bool :=
  let '(flag, w, cl, cr) := t in
  match row_of flag with
  | None => false
  | Some (r, ng, _, _, _) =>
      liftable r && forallb (fun ws => ranges_eqb ws W) (bsets r)
      && forallb (fun lrep => forallb (fun rrep => fires r ng lrep rrep w) (reps cr)) (reps cl)
  end.

Lemma triggers_sweep : forallb trigger_ok TRIGGERS = true.
Proof. vm_compute. reflexivity. Qed.

Lemma str_eqb_true a : forall b, str_eqb a b = true -> a = b.
Proof.
  induction a as [|x a IH]; intros [|y b]; cbn; try discriminate; [reflexivity|].
  destruct (x =? y)%N eqn:E; [|discriminate]. apply N.eqb_eq in E. intros H. rewrite (IH _ H), E. reflexivity.
Qed.

Lemma row_of_in flag row : row_of flag = Some row -> In row FLAG_TABLE /\ (let '(_, _, f, _, _) := row in f = flag).
Proof.
  unfold row_of. intros H. apply find_some in H. destruct H as [Hin Hf]. split; [exact Hin|].
  destruct row as [[[[r ng] f] lc] rc]. apply str_eqb_true. exact Hf.
Qed.

Lemma agree_W B lrep o : (forall ws, In ws B -> ws = W) -> isword W lrep = isword W o -> agree B lrep o.
Proof. intros HB H ws Hws. rewrite (HB ws Hws). exact H. Qed.

(* either representative stands for any neighbour, by its word class *)
Lemma side_rep c o : ok_side c o -> exists rep, In rep (reps c) /\ isword W rep = isword W o /\ (rep <> None -> o <> None).
Proof.
  destruct c; cbn [ok_side reps]; intros H.
  - destruct (isword W o) eqn:E.
    + exists (Some 120%N). split; [right; left; reflexivity|]. split; [reflexivity|]. intros _ ->. discriminate E.
    + exists None. split; [left; reflexivity|]. split; [reflexivity|]. intros K. contradiction.
  - exists None. split; [left; reflexivity|]. split; [symmetry; exact H|]. intros K. contradiction.
Qed.

(* for every entry of TRIGGERS and every context: the row's pattern finds something *)
Theorem trigger_found flag w cl cr : In (flag, w, cl, cr) TRIGGERS ->
  forall u v, ok_side cl (hd_error (rev u)) -> ok_side cr (hd_error v) ->
  exists r ng lc rc, In (r, ng, flag, lc, rc) FLAG_TABLE /\ search r ng (u ++ w ++ v) <> None.
Proof.
  intros Hin u v Hl Hr.
  pose proof (proj1 (forallb_forall _ _) triggers_sweep _ Hin) as K. unfold trigger_ok in K.
  destruct (row_of flag) as [[[[[r ng] f] lc] rc]|] eqn:Er; [|discriminate].
  destruct (row_of_in _ _ Er) as [Hrow Hf]. cbv beta iota in Hf. subst f.
  apply andb_true_iff in K. destruct K as [K K3]. apply andb_true_iff in K. destruct K as [K1 K2].
  assert (HB : forall ws, In ws (bsets r) -> ws = W).
  { intros ws Hws. apply ranges_eqb_eq. exact (proj1 (forallb_forall _ _) K2 ws Hws). }
  destruct (side_rep cl _ Hl) as (lrep & Il & El & _). destruct (side_rep cr _ Hr) as (rrep & Ir & Erp & Nr).
  pose proof (proj1 (forallb_forall _ _) (proj1 (forallb_forall _ _) K3 lrep Il) rrep Ir) as Hf.
  exists r, ng, lc, rc. split; [exact Hrow|].
  apply (fires_everywhere r ng lrep rrep w K1 Hf u v (agree_W _ _ _ HB El) (agree_W _ _ _ HB Erp)).
  destruct rrep as [c|]; [|cbn; lia]. cbn. destruct v; [exfalso; apply (Nr ltac:(discriminate)); reflexivity | cbn; lia].
Qed.

(* ... and therefore the flag is raised on the chunk *)
Theorem trigger_flag flag w cl cr : In (flag, w, cl, cr) TRIGGERS ->
  forall u v fl fll, ok_side cl (hd_error (rev u)) -> ok_side cr (hd_error v) ->
  gen_flags_chunk (u ++ w ++ v) = Ok (fl, fll) -> In flag fl.
Proof.
  intros Hin u v fl fll Hl Hr H. destruct (trigger_found flag w cl cr Hin u v Hl Hr) as (r & ng & lc & rc & Hrow & Hs).
  exact (flag_raised _ _ _ _ _ _ _ _ Hrow H Hs).
Qed.
